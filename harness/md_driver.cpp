// Conformance driver for the multidimensional / contiguous views (property C19).
// Reads the domain exported by spec/Md.tla (extents tuples, stride vectors, span (n, offset, count)
// triples), instantiates it on the real etl templates - every compiled static/dynamic extents pattern
// that is compatible with the tuple, several index types - walks the whole index space and prints one
// self-contained ndjson event per observation:
//   mapinfo  what a layout mapping reports about itself (extents, strides, required_span_size, ...)
//   map      offset returned by mapping(i...) for one multi-index
//   elem     address of the element mdspan / mdarray refer to, relative to data()
//   mdinfo   size / empty / extents of an mdspan or mdarray
//   ext_ctor extents constructed through one of its constructors, observed through extent(r)
//   subext   submdspan_extents with full_extent / single-index slices
//   eq       operator== / operator!= of two extents objects / two layout_left / layout_right mappings
//   span     first / last / subspan (run-time and template forms, static and dynamic source)
//   span_obs observers and iteration of a span
// The events are judged by spec/MdTrace.tla.  This file contains no oracle and no comparison.
// -DVH_STD runs the identical calls on std::span and on the plain reference of harness/md_ref.hpp
// (libstdc++ 12 has no <mdspan>): the calibration build.
// -DVH_PART=k selects what is compiled (compile time): 0 = spans and every rank 0..2 pattern (index type int);
// 1..5 = every rank 3 pattern whose first extent is D,0,1,2,3; 6 = a sample of rank 4 patterns; 7 = a sample of
// patterns for the other index types (int8 ... uint64); 8 = extents constructors and submdspan_extents; 11 = extents converting constructors; 9 = operator== / != of
// extents and of layout_left/right mappings on every pair of exported tuples; 10 = compact selection of all of the above for
// instrumented (sanitizer) builds.
#include "common.hpp"

#include <array>
#include <csetjmp>
#include <csignal>
#include <cstdint>
#include <new>
#include <pthread.h>
#include <sys/time.h>
#include <span>
#include <unistd.h>
#include <vector>

#ifdef VH_STD
    #include "md_ref.hpp"
namespace md  = ref;
namespace mdl = ref::linalg;
template <typename T, size_t N = std::dynamic_extent>
using Span = std::span<T, N>;
template <typename T, size_t N>
using Arr = std::array<T, N>;
using Ctr = std::vector<int>;
    #define VP_HAVE_STRIDE_REQ 1
#else
    #include <etl/array.hpp>
    #include <etl/linalg.hpp>
    #include <etl/mdarray.hpp>
    #include <etl/mdspan.hpp>
    #include <etl/span.hpp>
    #include <etl/vector.hpp>
namespace md  = etl;
namespace mdl = etl::linalg;
template <typename T, size_t N = etl::dynamic_extent>
using Span = etl::span<T, N>;
template <typename T, size_t N>
using Arr = etl::array<T, N>;
using Ctr = etl::static_vector<int, 1100>;
#endif

#ifndef VH_PART
    #define VH_PART 0
#endif

namespace {

constexpr size_t DYN = md::dynamic_extent;
using Vec            = std::vector<long>;

// ---- output ----------------------------------------------------------------------------------------
std::string g_out;
long g_events = 0, g_traps = 0, g_flushes = 0;

void flush_out()
{
    ++g_flushes;
    size_t off = 0;
    while (off < g_out.size()) {
        ssize_t n = ::write(1, g_out.data() + off, g_out.size() - off);
        if (n <= 0) { _exit(4); }
        off += size_t(n);
    }
    g_out.clear();
}

// TLC integers are 32-bit: a value outside +-2*10^9 (only garbage read by a defective implementation can be
// that large here) is logged as the nearest bound, which no expected value ever equals
long clamp32(long v) { return v > 2000000000L ? 2000000000L : (v < -2000000000L ? -2000000000L : v); }

struct Ev {
    explicit Ev(char const* op)
    {
        g_out += "{\"op\":\"";
        g_out += op;
        g_out += '"';
    }
    Ev& key(char const* k)
    {
        g_out += ",\"";
        g_out += k;
        g_out += "\":";
        return *this;
    }
    Ev& num(char const* k, long v)
    {
        key(k);
        g_out += std::to_string(clamp32(v));
        return *this;
    }
    Ev& flag(char const* k, bool v)
    {
        key(k);
        g_out += v ? "true" : "false";
        return *this;
    }
    Ev& str(char const* k, char const* v)
    {
        key(k);
        g_out += '"';
        g_out += v;
        g_out += '"';
        return *this;
    }
    template <typename C>
    Ev& arr(char const* k, C const& v)
    {
        key(k);
        g_out += '[';
        bool first = true;
        for (auto x : v) {
            if (!first) { g_out += ','; }
            first = false;
            g_out += std::to_string(clamp32(long(x)));
        }
        g_out += ']';
        return *this;
    }
    void end()
    {
        g_out += "}\n";
        ++g_events;
        if (g_out.size() > (1u << 20)) { flush_out(); }
    }
};

// ---- trap guard (a call that crashes or does not come back is recorded as "trap") --------------------
sigjmp_buf g_jb;
volatile sig_atomic_t g_armed = 0;
void on_fatal(int sig)
{
    flush_out();
    std::fprintf(stderr, "FATAL signal %d after %ld events\n", sig, g_events);
    _exit(3);
}
void on_trap(int sig)
{
    if (g_armed) { siglongjmp(g_jb, sig); }
    on_fatal(sig);
}
// watchdog on the CPU time of this process (not wall-clock: a loaded machine must not look like a hanging call)
inline void cpu_timer(long ms)
{
    struct itimerval tv {};
    tv.it_value.tv_sec  = ms / 1000;
    tv.it_value.tv_usec = (ms % 1000) * 1000;
    setitimer(ITIMER_VIRTUAL, &tv, nullptr);
}
// (guarded regions nest: the outer jump buffer is restored on the way out)
template <typename F>
bool guarded(F&& f)
{
    sigjmp_buf saved;
    std::memcpy(&saved, &g_jb, sizeof(sigjmp_buf));
    sig_atomic_t const was = g_armed;
    bool ok                = false;
    g_armed                = 1;
    cpu_timer(2000); // (re)armed for every region, inner or outer
    if (sigsetjmp(g_jb, 0) == 0) {
        f();
        ok = true;
    } else {
        ++g_traps;
    }
    cpu_timer(was ? 2000 : 0);
    std::memcpy(&g_jb, &saved, sizeof(sigjmp_buf));
    g_armed = was;
    return ok;
}

// VH_DOMAIN_ONLY (sanitizer runs, property C02; every call this driver makes is inside the documented domain
// anyway): each input line is processed inside a guarded region, and a stop by a sanitizer
// (abort_on_error=1 -> SIGABRT), a signal or the watchdog becomes one {"op":"crash"} event instead of the end of the run
bool g_domain_only = false;

// ---- type names ----------------------------------------------------------------------------------------
template <typename T>
char const* tname()
{
    if constexpr (std::is_same_v<T, signed char>) { return "i8"; }
    if constexpr (std::is_same_v<T, unsigned char>) { return "u8"; }
    if constexpr (std::is_same_v<T, short>) { return "i16"; }
    if constexpr (std::is_same_v<T, unsigned short>) { return "u16"; }
    if constexpr (std::is_same_v<T, int>) { return "i32"; }
    if constexpr (std::is_same_v<T, unsigned>) { return "u32"; }
    if constexpr (std::is_same_v<T, long>) { return "i64"; }
    if constexpr (std::is_same_v<T, unsigned long>) { return "u64"; }
    if constexpr (std::is_same_v<T, long long>) { return "ll"; }
    if constexpr (std::is_same_v<T, unsigned long long>) { return "ull"; }
    return "?";
}

// ---- extents helpers ----------------------------------------------------------------------------------------
template <typename E>
Vec pattern_of()
{
    Vec p;
    for (size_t r = 0; r < E::rank(); ++r) { p.push_back(E::static_extent(r) == DYN ? -1 : long(E::static_extent(r))); }
    return p;
}
template <typename E>
bool compatible(Vec const& ext)
{
    if (ext.size() != E::rank()) { return false; }
    for (size_t r = 0; r < E::rank(); ++r) {
        if (E::static_extent(r) != DYN and long(E::static_extent(r)) != ext[r]) { return false; }
    }
    return true;
}
template <typename E>
Vec observed(E const& e)
{
    Vec v;
    for (size_t r = 0; r < E::rank(); ++r) { v.push_back(long(e.extent(r))); }
    return v;
}
// the dynamic values of ext, in order
template <typename E>
auto dyn_values(Vec const& ext)
{
    using I = typename E::index_type;
    Arr<I, E::rank_dynamic()> d{};
    size_t k = 0;
    for (size_t r = 0; r < E::rank(); ++r) {
        if (E::static_extent(r) == DYN) { d[k++] = I(ext[r]); }
    }
    return d;
}
// an extents object of type E holding ext, built through the constructor taking exactly the dynamic values
template <typename E>
E make_ext(Vec const& ext)
{
    if constexpr (E::rank_dynamic() == 0) {
        return E{};
    } else {
        return E(dyn_values<E>(ext));
    }
}
// walk the index space in row-major order
template <size_t R, typename F>
void for_each_index(Vec const& ext, F&& f)
{
    std::array<long, R> idx{};
    for (size_t r = 0; r < R; ++r) {
        if (ext[r] == 0) { return; }
    }
    while (true) {
        f(idx);
        size_t r = R;
        while (r > 0) {
            --r;
            if (++idx[r] < ext[r]) { break; }
            idx[r] = 0;
            if (r == 0) { return; }
        }
        if (R == 0) { return; }
    }
}
template <typename I, typename M, size_t R>
long call_map(M const& m, std::array<long, R> const& idx)
{
    return [&]<size_t... K>(std::index_sequence<K...>) { return long(m(I(idx[K])...)); }(std::make_index_sequence<R>{});
}

int g_buf[8192];

// ---- mappings ------------------------------------------------------------------------------------------------
struct Tag {
    char const* layout;
    char const* it;
    Vec pat, ext, sin;
    char const* via;
};
void put_tag(Ev& e, Tag const& t)
{
    e.str("layout", t.layout).str("it", t.it).arr("pat", t.pat).arr("ext", t.ext).arr("sin", t.sin).str("via", t.via);
}

template <typename M, bool Transposed = false>
void emit_mapinfo(Tag const& t, M const& m)
{
    using E           = typename M::extents_type;
    constexpr size_t R = E::rank();
    Ev e("mapinfo");
    put_tag(e, t);
    auto const me = m.extents();
    e.arr("xext", observed(me)).arr("xstat", pattern_of<E>()).num("rank", long(E::rank())).num("rdyn", long(E::rank_dynamic()));
    Vec st;
    bool trapped = false;
    if constexpr (R > 0) {
        for (size_t r = 0; r < R; ++r) {
            long s  = 0;
            bool ok = guarded([&] { s = long(m.stride(r)); });
            if (!ok) { trapped = true; }
            st.push_back(ok ? s : -1);
        }
    }
    e.arr("strides", st);
    if (trapped) { e.flag("trap", true); }
    constexpr bool is_stride = std::is_same_v<typename M::layout_type, md::layout_stride>;
    if constexpr (not is_stride) {
        e.num("req", long(m.required_span_size()));
    } else {
#ifdef VP_HAVE_STRIDE_REQ
        e.num("req", long(m.required_span_size()));
#endif
    }
    e.flag("uniq", m.is_unique()).flag("strd", m.is_strided());
    if constexpr (not is_stride and not Transposed) { e.flag("exh", m.is_exhaustive()); }
    e.end();
}

template <typename M>
void emit_maps(Tag const& t, M const& m)
{
    using E = typename M::extents_type;
    using I = typename E::index_type;
    for_each_index<E::rank()>(t.ext, [&](auto const& idx) {
        Ev e("map");
        put_tag(e, t);
        e.arr("idx", idx).num("off", call_map<I>(m, idx)).end();
    });
}

template <typename L>
char const* lname()
{
    if constexpr (std::is_same_v<L, md::layout_right>) { return "right"; }
    if constexpr (std::is_same_v<L, md::layout_left>) { return "left"; }
    return "stride";
}

// mdspan and mdarray over a mapping: element addresses relative to data()
template <typename L, typename M>
void emit_views(Tag const& t, M const& m, bool with_mdarray)
{
    using E           = typename M::extents_type;
    using I           = typename E::index_type;
    constexpr size_t R = E::rank();
    {
        md::mdspan<int, E, L> ms(g_buf, m);
        {
            Ev e("mdinfo");
            put_tag(e, t);
            e.str("kind", "mdspan").num("size", long(ms.size())).flag("empty", ms.empty()).arr("xext", observed(ms.extents()));
            e.num("rank", long(ms.rank())).num("rdyn", long(ms.rank_dynamic())).end();
        }
        for_each_index<R>(t.ext, [&](auto const& idx) {
            long const a1 = [&]<size_t... K>(std::index_sequence<K...>) { return long(&ms(I(idx[K])...) - ms.data_handle()); }(
                std::make_index_sequence<R>{});
            Arr<I, R> ai{};
            for (size_t r = 0; r < R; ++r) { ai[r] = I(idx[r]); }
            long const a2 = long(&ms[ai] - ms.data_handle());
            long const a3 = long(&ms[Span<I const, R>(ai)] - ms.data_handle());
            Ev e("elem");
            put_tag(e, t);
            e.str("kind", "mdspan").arr("idx", idx).num("addr", a1).num("addr_arr", a2).num("addr_span", a3).end();
        });
    }
    if constexpr (not std::is_same_v<L, md::layout_stride>) {
        if (with_mdarray) {
            md::mdarray<int, E, L, Ctr> ma(m);
            {
                Ev e("mdinfo");
                put_tag(e, t);
                e.str("kind", "mdarray").num("size", long(ma.size())).flag("empty", ma.empty()).arr("xext", observed(ma.extents()));
                e.num("csize", long(ma.container_size())).end();
            }
            {
                // a caller-supplied container with spare elements: size()/empty() speak about the index space, not the container
                Ctr big(size_t(m.required_span_size()) + 3);
                md::mdarray<int, E, L, Ctr> mb(m, big);
                Ev e("mdinfo");
                put_tag(e, t);
                e.str("kind", "mdarray_spare").num("size", long(mb.size())).flag("empty", mb.empty()).arr("xext", observed(mb.extents())).end();
            }
            auto view = ma.to_mdspan();
            for_each_index<R>(t.ext, [&](auto const& idx) {
                long const a1 = [&]<size_t... K>(std::index_sequence<K...>) {
                    return long(&ma(I(idx[K])...) - ma.container_data());
                }(std::make_index_sequence<R>{});
                Arr<I, R> ai{};
                for (size_t r = 0; r < R; ++r) { ai[r] = I(idx[r]); }
                long const a2 = long(&ma[ai] - ma.container_data());
                long const a3 = [&]<size_t... K>(std::index_sequence<K...>) {
                    return long(&view(I(idx[K])...) - ma.container_data());
                }(std::make_index_sequence<R>{});
                Ev e("elem");
                put_tag(e, t);
                e.str("kind", "mdarray").arr("idx", idx).num("addr", a1).num("addr_arr", a2).num("addr_span", a3).end();
            });
        }
    }
}

// everything about the dense layouts of one extents type on one extents tuple
template <typename E>
void run_dense(Vec const& ext, bool views)
{
    using I = typename E::index_type;
    if (!compatible<E>(ext)) { return; }
    auto const e = make_ext<E>(ext);
    {
        using M = typename md::layout_right::template mapping<E>;
        Tag t{"right", tname<I>(), pattern_of<E>(), ext, {}, "extents"};
        M m(e);
        emit_mapinfo(t, m);
        emit_maps(t, m);
        if (views) { emit_views<md::layout_right>(t, m, true); }
    }
    {
        using M = typename md::layout_left::template mapping<E>;
        Tag t{"left", tname<I>(), pattern_of<E>(), ext, {}, "extents"};
        M m(e);
        emit_mapinfo(t, m);
        emit_maps(t, m);
        if (views) { emit_views<md::layout_left>(t, m, true); }
    }
    if constexpr (E::rank() == 2) {
        // layout_transpose<L>::mapping<E> wraps the mapping L::mapping<transposed E>
        using TE = md::extents<I, E::static_extent(1), E::static_extent(0)>;
        Vec const text{ext[1], ext[0]};
        auto const te = make_ext<TE>(text);
        {
            using N = typename md::layout_right::template mapping<TE>;
            using M = typename mdl::layout_transpose<md::layout_right>::template mapping<E>;
            Tag t{"transpose_right", tname<I>(), pattern_of<E>(), ext, {}, "nested"};
            M m{N(te)};
            emit_mapinfo<M, true>(t, m);
            emit_maps(t, m);
        }
        {
            using N = typename md::layout_left::template mapping<TE>;
            using M = typename mdl::layout_transpose<md::layout_left>::template mapping<E>;
            Tag t{"transpose_left", tname<I>(), pattern_of<E>(), ext, {}, "nested"};
            M m{N(te)};
            emit_mapinfo<M, true>(t, m);
            emit_maps(t, m);
        }
    }
    if constexpr (E::rank() <= 1) {
        // for rank <= 1 layout_left and layout_right mappings convert into each other
        using MR = typename md::layout_right::template mapping<E>;
        using ML = typename md::layout_left::template mapping<E>;
        {
            Tag t{"left", tname<I>(), pattern_of<E>(), ext, {}, "from_right"};
            ML m{MR(e)};
            emit_mapinfo(t, m);
            emit_maps(t, m);
        }
        {
            Tag t{"right", tname<I>(), pattern_of<E>(), ext, {}, "from_left"};
            MR m{ML(e)};
            emit_mapinfo(t, m);
            emit_maps(t, m);
        }
    }
}

template <typename E>
void run_stride(Vec const& ext, Vec const& strides, bool views)
{
    using I = typename E::index_type;
    if constexpr (E::rank() >= 1) {
        if (!compatible<E>(ext)) { return; }
        using M = typename md::layout_stride::template mapping<E>;
        Arr<I, E::rank()> s{};
        for (size_t r = 0; r < E::rank(); ++r) { s[r] = I(strides[r]); }
        Tag t{"stride", tname<I>(), pattern_of<E>(), ext, strides, "extents+strides"};
        M m(make_ext<E>(ext), s);
        emit_mapinfo(t, m);
        emit_maps(t, m);
        if (views) { emit_views<md::layout_stride>(t, m, false); }
        {
            // strides() must hand back what was given
            Ev e("mapinfo");
            Tag t2 = t;
            t2.via = "strides()";
            put_tag(e, t2);
            e.arr("xext", observed(m.extents())).arr("xstat", pattern_of<E>()).num("rank", long(E::rank()));
            e.num("rdyn", long(E::rank_dynamic())).arr("strides", m.strides()).flag("uniq", m.is_unique()).flag("strd", m.is_strided()).end();
        }
    }
}

// ---- extents constructors --------------------------------------------------------------------------------------
// the object is built inside a buffer with slack behind it, so that a constructor writing past its own
// storage damages nothing the driver depends on
template <typename E>
struct Slot {
    alignas(64) unsigned char raw[sizeof(E) + 512];
    Slot() { std::memset(raw, 0x5A, sizeof(raw)); }
};

template <typename E>
void emit_ctor(char const* form, Vec const& ext, E const& e, char const* src_it = nullptr, Vec const* src_pat = nullptr)
{
    Ev ev("ext_ctor");
    ev.str("form", form).str("it", tname<typename E::index_type>()).arr("pat", pattern_of<E>()).arr("ext", ext).arr("xext", observed(e));
    ev.num("rank", long(E::rank())).num("rdyn", long(E::rank_dynamic()));
    if (src_it) { ev.str("src_it", src_it).arr("src_pat", *src_pat); }
    ev.end();
}

template <typename E>
void run_ctors(Vec const& ext)
{
    using I           = typename E::index_type;
    constexpr size_t R = E::rank();
    constexpr size_t D = E::rank_dynamic();
    if (!compatible<E>(ext)) { return; }
    auto const dv = dyn_values<E>(ext);
    Arr<I, R> av{};
    for (size_t r = 0; r < R; ++r) { av[r] = I(ext[r]); }
    if constexpr (D > 0) {
        {
            Slot<E> s;
            E* e = [&]<size_t... K>(std::index_sequence<K...>) { return new (s.raw) E(dv[K]...); }(std::make_index_sequence<D>{});
            emit_ctor("dyn_args", ext, *e);
        }
        {
            Slot<E> s;
            E* e = new (s.raw) E(dv);
            emit_ctor("array_dyn", ext, *e);
        }
        {
            Slot<E> s;
            E* e = new (s.raw) E(Span<I const, D>(dv));
            emit_ctor("span_dyn", ext, *e);
        }
    }
    if constexpr (R > 0) {
        {
            Slot<E> s;
            E* e = [&]<size_t... K>(std::index_sequence<K...>) { return new (s.raw) E(av[K]...); }(std::make_index_sequence<R>{});
            emit_ctor("all_args", ext, *e);
        }
        {
            Slot<E> s;
            E* e = new (s.raw) E(av);
            emit_ctor("array_all", ext, *e);
        }
        {
            Slot<E> s;
            E* e = new (s.raw) E(Span<I const, R>(av));
            emit_ctor("span_all", ext, *e);
        }
        {
            // index values given in another integer type
            Slot<E> s;
            E* e = [&]<size_t... K>(std::index_sequence<K...>) { return new (s.raw) E(short(av[K])...); }(std::make_index_sequence<R>{});
            emit_ctor("all_args_short", ext, *e);
        }
    }
    bool zero = true;
    for (size_t r = 0; r < R; ++r) {
        if (E::static_extent(r) == DYN and ext[r] != 0) { zero = false; }
    }
    if (zero) {
        Slot<E> s;
        E* e = new (s.raw) E();
        emit_ctor("default", ext, *e);
    }
}

// converting constructor To(From)
template <typename To, typename From>
void run_convert(Vec const& ext)
{
    if constexpr (To::rank() == From::rank() and std::is_constructible_v<To, From const&>) {
        if (!compatible<To>(ext) or !compatible<From>(ext)) { return; }
        auto const from = make_ext<From>(ext);
        Slot<To> s;
        To* e          = new (s.raw) To(from);
        Vec const spat = pattern_of<From>();
        emit_ctor("convert", ext, *e, tname<typename From::index_type>(), &spat);
    }
}

// ---- submdspan_extents ----------------------------------------------------------------------------------------------
template <typename E, unsigned Mask>
void run_subext_mask(Vec const& ext, E const& e, int pick)
{
    constexpr size_t R = E::rank();
    // slice r: full_extent if bit r of Mask is set, else one index (0 or extent-1, by pick)
    Vec slices;
    for (size_t r = 0; r < R; ++r) {
        if ((Mask >> r) & 1U) {
            slices.push_back(-1);
        } else {
            if (ext[r] == 0) { return; }
            slices.push_back(pick == 0 ? 0 : ext[r] - 1);
        }
    }
    // the result is materialised inside a buffer with slack behind it (see Slot)
    auto one = [&]<size_t Kk>() {
        if constexpr ((Mask >> Kk) & 1U) {
            return md::full_extent;
        } else {
            return int(slices[Kk]);
        }
    };
    auto call = [&]<size_t... K>(std::index_sequence<K...>) { return md::submdspan_extents(e, one.template operator()<K>()...); };
    using S   = decltype(call(std::make_index_sequence<R>{}));
    Slot<S> slot;
    S const& sub = *new (slot.raw) S(call(std::make_index_sequence<R>{}));
    Ev ev("subext");
    ev.str("it", tname<typename E::index_type>()).arr("pat", pattern_of<E>()).arr("ext", ext).arr("slices", slices);
    ev.arr("rpat", pattern_of<S>()).arr("rext", observed(sub)).num("rrank", long(S::rank())).end();
}
template <typename E, unsigned... Masks>
void run_subext_masks(Vec const& ext, E const& e, std::integer_sequence<unsigned, Masks...>)
{
    (run_subext_mask<E, Masks>(ext, e, 0), ...);
    (run_subext_mask<E, Masks>(ext, e, 1), ...);
}
template <typename E>
void run_subext(Vec const& ext)
{
    if (!compatible<E>(ext)) { return; }
    auto const e = make_ext<E>(ext);
    run_subext_masks(ext, e, std::make_integer_sequence<unsigned, (1U << E::rank())>{});
}

// ---- pattern enumeration --------------------------------------------------------------------------------------------
constexpr size_t PV[5] = {DYN, 0, 1, 2, 3};

struct Line {
    std::string k;
    Vec ext, strides;
    long n = 0, o = 0, c = 0;
};

enum class What { dense, stride, ctors, subext };

template <typename E>
void run_one(What w, Line const& ln, bool views)
{
    switch (w) {
    case What::dense: run_dense<E>(ln.ext, views); break;
    case What::stride: run_stride<E>(ln.ext, ln.strides, views); break;
    case What::ctors: run_ctors<E>(ln.ext); break;
    case What::subext: run_subext<E>(ln.ext); break;
    }
}

// all patterns over {D, 0, 1, 2, 3}^R that start with the given codes
template <typename I, size_t R, size_t... Codes>
void for_patterns(What w, Line const& ln, bool views)
{
    if constexpr (sizeof...(Codes) == R) {
        run_one<md::extents<I, PV[Codes]...>>(w, ln, views);
    } else {
        for_patterns<I, R, Codes..., 0>(w, ln, views);
        for_patterns<I, R, Codes..., 1>(w, ln, views);
        for_patterns<I, R, Codes..., 2>(w, ln, views);
        for_patterns<I, R, Codes..., 3>(w, ln, views);
        for_patterns<I, R, Codes..., 4>(w, ln, views);
    }
}

// a sample of patterns for the other index types
template <typename I>
void sample_patterns(What w, Line const& ln)
{
    run_one<md::extents<I>>(w, ln, true);
    run_one<md::extents<I, DYN>>(w, ln, true);
    run_one<md::extents<I, 3>>(w, ln, true);
    run_one<md::extents<I, DYN, DYN>>(w, ln, true);
    run_one<md::extents<I, DYN, 2>>(w, ln, true);
    run_one<md::extents<I, 3, DYN>>(w, ln, true);
    run_one<md::extents<I, 2, 3>>(w, ln, true);
    run_one<md::extents<I, DYN, DYN, DYN>>(w, ln, true);
    run_one<md::extents<I, 2, DYN, 3>>(w, ln, true);
    run_one<md::extents<I, DYN, DYN, 1>>(w, ln, true);
    run_one<md::extents<I, DYN, 3, DYN>>(w, ln, true);
}

// conversions between every pair of rank-2 patterns (the constructor is only available for compatible pairs)
template <typename I, typename J, size_t A, size_t B>
void convert_to_all2(Vec const& ext)
{
    [&]<size_t... C>(std::index_sequence<C...>) {
        (run_convert<md::extents<J, PV[C / 5], PV[C % 5]>, md::extents<I, PV[A], PV[B]>>(ext), ...);
    }(std::make_index_sequence<25>{});
}
template <typename I, typename J>
void convert_all2(Vec const& ext)
{
    [&]<size_t... C>(std::index_sequence<C...>) { (convert_to_all2<I, J, C / 5, C % 5>(ext), ...); }(std::make_index_sequence<25>{});
}
template <typename I, typename J>
void convert_all1(Vec const& ext)
{
    [&]<size_t... C>(std::index_sequence<C...>) {
        (run_convert<md::extents<J, PV[C / 5]>, md::extents<I, PV[C % 5]>>(ext), ...);
    }(std::make_index_sequence<25>{});
}
template <typename I, typename J>
void convert_some3(Vec const& ext)
{
    using D3 = md::extents<I, DYN, DYN, DYN>;
    run_convert<md::extents<J, DYN, DYN, DYN>, D3>(ext);
    run_convert<md::extents<J, 2, DYN, DYN>, D3>(ext);
    run_convert<md::extents<J, DYN, 3, DYN>, D3>(ext);
    run_convert<md::extents<J, DYN, DYN, 1>, D3>(ext);
    run_convert<md::extents<J, 3, DYN, 3>, D3>(ext);
    run_convert<md::extents<J, 2, 2, DYN>, D3>(ext);
    run_convert<md::extents<J, DYN, 1, 2>, D3>(ext);
    run_convert<md::extents<J, 3, 2, 1>, D3>(ext);
    run_convert<md::extents<J, DYN, DYN, DYN>, md::extents<I, 2, DYN, 3>>(ext);
    run_convert<md::extents<J, DYN, DYN, DYN>, md::extents<I, 3, 2, 1>>(ext);
    run_convert<md::extents<J, DYN, DYN, DYN>, md::extents<I, DYN, 3, DYN>>(ext);
    run_convert<md::extents<J, 2, DYN, DYN>, md::extents<I, DYN, DYN, 3>>(ext);
    run_convert<md::extents<J, DYN, 1, DYN>, md::extents<I, 3, DYN, 2>>(ext);
    run_convert<md::extents<J, 3, DYN, 2>, md::extents<I, DYN, 1, DYN>>(ext);
    run_convert<md::extents<J, 2, 3, DYN>, md::extents<I, 2, DYN, 1>>(ext);
}

// ---- equality --------------------------------------------------------------------------------------------------------
// extents == / != and layout_left/right mapping == / != between two extents types, on every pair of exported tuples
// the two types can hold (step > 1: a sample of the tuples)
template <typename EA, typename EB>
void run_eq(std::vector<Vec> const& exts, size_t step = 1)
{
    Vec const pa = pattern_of<EA>(), pb = pattern_of<EB>();
    auto emit = [&](char const* what, Vec const& a, Vec const& b, bool eq, bool ne) {
        Ev e("eq");
        e.str("what", what).str("it", tname<typename EA::index_type>()).str("it2", tname<typename EB::index_type>());
        e.arr("pat", pa).arr("pat2", pb).arr("ext", a).arr("ext2", b).flag("eq", eq).flag("ne", ne).end();
    };
    for (size_t i = 0; i < exts.size(); i += step) {
        Vec const& a = exts[i];
        if (!compatible<EA>(a)) { continue; }
        auto const ea = make_ext<EA>(a);
        for (size_t j = 0; j < exts.size(); j += step) {
            Vec const& b = exts[j];
            if (!compatible<EB>(b)) { continue; }
            auto const eb = make_ext<EB>(b);
            if constexpr (requires { ea == eb; }) { emit("extents", a, b, ea == eb, ea != eb); }
            if constexpr (EA::rank() == EB::rank()) {
                {
                    typename md::layout_right::template mapping<EA> ma(ea);
                    typename md::layout_right::template mapping<EB> mb(eb);
                    emit("right", a, b, ma == mb, ma != mb);
                }
                {
                    typename md::layout_left::template mapping<EA> ma(ea);
                    typename md::layout_left::template mapping<EB> mb(eb);
                    emit("left", a, b, ma == mb, ma != mb);
                }
            }
        }
    }
}
template <typename I, typename J, size_t A, size_t B>
void eq_to_all2(std::vector<Vec> const& exts)
{
    [&]<size_t... C>(std::index_sequence<C...>) {
        (run_eq<md::extents<I, PV[A], PV[B]>, md::extents<J, PV[C / 5], PV[C % 5]>>(exts), ...);
    }(std::make_index_sequence<25>{});
}
template <typename I, typename J>
void eq_all2(std::vector<Vec> const& exts)
{
    [&]<size_t... C>(std::index_sequence<C...>) { (eq_to_all2<I, J, C / 5, C % 5>(exts), ...); }(std::make_index_sequence<25>{});
}
template <typename I, typename J>
void eq_all1(std::vector<Vec> const& exts)
{
    [&]<size_t... C>(std::index_sequence<C...>) {
        (run_eq<md::extents<I, PV[C / 5]>, md::extents<J, PV[C % 5]>>(exts), ...);
    }(std::make_index_sequence<25>{});
}
template <typename EA, typename... EBs>
void eq_row(std::vector<Vec> const& exts, size_t step)
{
    (run_eq<EA, EBs>(exts, step), ...);
}
template <typename... Es>
void eq_square(std::vector<Vec> const& exts, size_t step = 1)
{
    (eq_row<Es, Es...>(exts, step), ...);
}
void run_eq_all(std::vector<Vec> const& exts)
{
    using I = int;
    eq_square<md::extents<I>, md::extents<long>>(exts);
    eq_all1<I, I>(exts);
    eq_all1<I, unsigned char>(exts);
    eq_all2<I, I>(exts);
    eq_square<md::extents<I, DYN, DYN, DYN>, md::extents<I, 2, DYN, 3>, md::extents<I, DYN, 3, DYN>, md::extents<I, DYN, DYN, 1>,
              md::extents<I, 3, 2, 1>, md::extents<I, 2, DYN, DYN>, md::extents<I, 3, 3, 3>, md::extents<unsigned long, DYN, DYN, DYN>,
              md::extents<short, 1, DYN, 2>>(exts);
    eq_square<md::extents<I, DYN, DYN, DYN, DYN>, md::extents<I, 2, DYN, 3, DYN>, md::extents<I, DYN, 3, DYN, 2>,
              md::extents<long, 3, 2, 1, 3>>(exts, 7);
    // different ranks never compare equal
    eq_row<md::extents<I>, md::extents<I, DYN>, md::extents<I, 0>, md::extents<I, 1>>(exts, 1);
    eq_row<md::extents<I, DYN>, md::extents<I>, md::extents<I, DYN, DYN>, md::extents<I, 1, DYN>, md::extents<I, 2, 2>>(exts, 1);
    eq_row<md::extents<I, 2>, md::extents<I, 2, 2>, md::extents<I, DYN, 1>, md::extents<I, 2, 1, 1>>(exts, 1);
    eq_row<md::extents<I, DYN, DYN>, md::extents<I, DYN>, md::extents<I, DYN, DYN, DYN>, md::extents<I, DYN, DYN, 1>>(exts, 3);
    eq_row<md::extents<I, 2, 3>, md::extents<I, 2, 3, 1>, md::extents<I, 2>, md::extents<I, DYN, DYN, DYN>>(exts, 1);
}

// ---- span ------------------------------------------------------------------------------------------------------------
template <typename S>
constexpr long ext_of()
{
    return S::extent == DYN ? -1 : long(S::extent);
}
template <typename R>
void emit_span(char const* form, bool tpl, long sn, long n, long o, long c, R const& r)
{
    Ev e("span");
    e.str("form", form).flag("tpl", tpl).num("sn", sn).num("n", n).num("o", o).num("c", c);
    e.num("roff", long(r.data() - g_buf)).num("rsize", long(r.size())).num("rext", ext_of<R>()).end();
}

template <typename S, size_t O, size_t C>
void span_tpl_sub(S const& s, long sn, long n)
{
    // template forms are ill-formed (static_assert) outside the static extent of the source
    constexpr bool ok = S::extent == DYN or (O <= S::extent and (C == DYN or C <= S::extent - O));
    if constexpr (ok) {
        emit_span("subspan", true, sn, n, long(O), C == DYN ? -1 : long(C), s.template subspan<O, C>());
        if constexpr (O == 0 and C != DYN) {
            emit_span("first", true, sn, n, 0, long(C), s.template first<C>());
            emit_span("last", true, sn, n, 0, long(C), s.template last<C>());
        }
    }
}

template <typename S>
void span_forms(S const& s, long sn, long n, long o, long c)
{
    // run-time forms
    if (c == -1) {
        emit_span("subspan", false, sn, n, o, -1, s.subspan(size_t(o)));
        emit_span("subspan", false, sn, n, o, -1, s.subspan(size_t(o), DYN));
    } else {
        emit_span("subspan", false, sn, n, o, c, s.subspan(size_t(o), size_t(c)));
        if (o == 0) {
            emit_span("first", false, sn, n, 0, c, s.first(size_t(c)));
            emit_span("last", false, sn, n, 0, c, s.last(size_t(c)));
        }
    }
    // template forms: dispatch the run-time triple to the matching instantiation
    [&]<size_t... K>(std::index_sequence<K...>) {
        auto one = [&]<size_t Kk>() {
            constexpr size_t O = Kk / 8;
            constexpr size_t C = (Kk % 8 == 7) ? DYN : Kk % 8;
            if (long(O) == o and (C == DYN ? c == -1 : long(C) == c)) { span_tpl_sub<S, O, C>(s, sn, n); }
        };
        (one.template operator()<K>(), ...);
    }(std::make_index_sequence<7 * 8>{});
}

template <size_t N>
void span_static(long n, long o, long c)
{
    if (long(N) != n) { return; }
    Span<int, N> s(g_buf, N);
    span_forms(s, long(N), n, o, c);
    if (o == 0 and c == -1) {
        Ev e("span_obs");
        e.num("sn", long(N)).num("n", n).num("data", long(s.data() - g_buf)).num("size", long(s.size())).num("bytes", long(s.size_bytes()));
        e.num("esize", long(sizeof(int))).flag("empty", s.empty());
        Vec fw, bw, at;
        for (auto it = s.begin(); it != s.end(); ++it) { fw.push_back(long(&*it - g_buf)); }
        for (auto it = s.rbegin(); it != s.rend(); ++it) { bw.push_back(long(&*it - g_buf)); }
        for (size_t i = 0; i < s.size(); ++i) { at.push_back(long(&s[i] - g_buf)); }
        e.arr("fwd", fw).arr("bwd", bw).arr("at", at);
        if (n > 0) { e.num("front", long(&s.front() - g_buf)).num("back", long(&s.back() - g_buf)); }
        e.end();
    }
}

void run_span(long n, long o, long c)
{
    {
        Span<int> s(g_buf, size_t(n));
        span_forms(s, -1, n, o, c);
        if (o == 0 and c == -1) {
            Ev e("span_obs");
            e.num("sn", -1).num("n", n).num("data", long(s.data() - g_buf)).num("size", long(s.size())).num("bytes", long(s.size_bytes()));
            e.num("esize", long(sizeof(int))).flag("empty", s.empty());
            Vec fw, bw, at;
            for (auto it = s.begin(); it != s.end(); ++it) { fw.push_back(long(&*it - g_buf)); }
            for (auto it = s.rbegin(); it != s.rend(); ++it) { bw.push_back(long(&*it - g_buf)); }
            for (size_t i = 0; i < s.size(); ++i) { at.push_back(long(&s[i] - g_buf)); }
            e.arr("fwd", fw).arr("bwd", bw).arr("at", at);
            if (n > 0) { e.num("front", long(&s.front() - g_buf)).num("back", long(&s.back() - g_buf)); }
            e.end();
        }
        // a sub-view of a sub-view still counts from the original range
        if (c != -1 and c >= 1) {
            auto inner = s.subspan(size_t(o), size_t(c));
            emit_span("subspan", false, -1, n, o + 1, c - 1, inner.subspan(1));
            emit_span("subspan", false, -1, n, o, c - 1, inner.first(size_t(c - 1)));
        }
    }
    span_static<0>(n, o, c);
    span_static<1>(n, o, c);
    span_static<2>(n, o, c);
    span_static<3>(n, o, c);
    span_static<4>(n, o, c);
    span_static<5>(n, o, c);
    span_static<6>(n, o, c);
}

// ---- main loop -----------------------------------------------------------------------------------------------------------
long product(Vec const& v)
{
    long p = 1;
    for (long x : v) { p *= x; }
    return p;
}

void process(Line const& ln)
{
    bool const is_ext    = ln.k == "ext";
    bool const is_stride = ln.k == "stride";
    size_t const rank    = ln.ext.size();
#if VH_PART == 0
    if (ln.k == "span") {
        run_span(ln.n, ln.o, ln.c);
        return;
    }
    What const w = is_ext ? What::dense : What::stride;
    if (rank == 0 and is_ext) { for_patterns<int, 0>(w, ln, true); }
    if (rank == 1) { for_patterns<int, 1>(w, ln, true); }
    if (rank == 2) { for_patterns<int, 2>(w, ln, true); }
#elif VH_PART == 8
    if (is_ext) {
        if (rank == 0) { for_patterns<int, 0>(What::ctors, ln, false); }
        if (rank == 1) {
            for_patterns<int, 1>(What::ctors, ln, false);
            for_patterns<int, 1>(What::subext, ln, false);
        }
        if (rank == 2) {
            for_patterns<int, 2>(What::ctors, ln, false);
            for_patterns<int, 2>(What::subext, ln, false);
            for_patterns<unsigned long, 2>(What::ctors, ln, false);
        }
        if (rank == 3) {
            for_patterns<int, 3>(What::ctors, ln, false);
            run_subext<md::extents<int, DYN, DYN, DYN>>(ln.ext);
            run_subext<md::extents<int, 2, 3, 1>>(ln.ext);
            run_subext<md::extents<int, 3, 3, 3>>(ln.ext);
            run_subext<md::extents<int, 2, DYN, 3>>(ln.ext);
            run_subext<md::extents<int, DYN, 2, DYN>>(ln.ext);
            run_subext<md::extents<int, DYN, DYN, 2>>(ln.ext);
            run_subext<md::extents<unsigned long, 1, DYN, DYN>>(ln.ext);
        }
    }
#elif VH_PART == 11
    if (is_ext) {
        if (rank == 1) {
            convert_all1<int, int>(ln.ext);
            convert_all1<int, unsigned char>(ln.ext);
            convert_all1<short, long>(ln.ext);
        }
        if (rank == 2) {
            convert_all2<int, int>(ln.ext);
            convert_all2<unsigned char, long>(ln.ext);
        }
        if (rank == 3) {
            convert_some3<int, int>(ln.ext);
            convert_some3<unsigned short, long>(ln.ext);
        }
    }
#elif VH_PART == 10
    // compact selection for instrumented (sanitizer) builds, where the full pattern set is too expensive to compile
    if (ln.k == "span") {
        run_span(ln.n, ln.o, ln.c);
        return;
    }
    {
        What const w = is_ext ? What::dense : What::stride;
        auto both    = [&]<typename E>(std::type_identity<E>) {
            run_one<E>(w, ln, true);
            if (is_ext) { run_one<E>(What::ctors, ln, false); }
        };
        both(std::type_identity<md::extents<int>>{});
        both(std::type_identity<md::extents<int, DYN>>{});
        both(std::type_identity<md::extents<int, 3>>{});
        both(std::type_identity<md::extents<int, DYN, DYN>>{});
        both(std::type_identity<md::extents<int, DYN, 2>>{});
        both(std::type_identity<md::extents<int, 3, DYN>>{});
        both(std::type_identity<md::extents<int, 2, 3>>{});
        both(std::type_identity<md::extents<int, DYN, DYN, DYN>>{});
        both(std::type_identity<md::extents<int, 2, DYN, 3>>{});
        both(std::type_identity<md::extents<int, DYN, 3, DYN>>{});
        both(std::type_identity<md::extents<int, 3, 2, 1>>{});
        both(std::type_identity<md::extents<unsigned char, DYN, DYN>>{});
        both(std::type_identity<md::extents<long, DYN, 2, DYN>>{});
        if (is_ext) {
            run_subext<md::extents<int, DYN, 2>>(ln.ext);
            run_subext<md::extents<int, 2, DYN, 3>>(ln.ext);
            run_subext<md::extents<int, DYN, DYN, DYN>>(ln.ext);
            run_convert<md::extents<int, 3, DYN>, md::extents<long, DYN, DYN>>(ln.ext);
            run_convert<md::extents<long, DYN, DYN>, md::extents<int, 3, DYN>>(ln.ext);
            run_convert<md::extents<int, 2, DYN, 3>, md::extents<int, DYN, DYN, DYN>>(ln.ext);
            run_convert<md::extents<int, DYN, DYN, DYN>, md::extents<short, 3, 2, 1>>(ln.ext);
        }
    }
#elif VH_PART == 7
    // other index types: a sample of patterns; 8-bit index types only where every offset is representable
    if ((is_ext or is_stride) and rank <= 3) {
        What const w     = is_ext ? What::dense : What::stride;
        long const bound = is_stride ? 10000 : product(ln.ext);
        sample_patterns<short>(w, ln);
        sample_patterns<unsigned short>(w, ln);
        sample_patterns<unsigned>(w, ln);
        sample_patterns<long>(w, ln);
        sample_patterns<unsigned long>(w, ln);
        sample_patterns<long long>(w, ln);
        if (bound <= 127) {
            sample_patterns<signed char>(w, ln);
            sample_patterns<unsigned char>(w, ln);
        }
    }
#elif VH_PART >= 1 && VH_PART <= 5
    if (rank == 3 and (is_ext or is_stride)) { for_patterns<int, 3, VH_PART - 1>(is_ext ? What::dense : What::stride, ln, true); }
#elif VH_PART == 6
    if (rank == 4 and (is_ext or is_stride)) {
        What const w = is_ext ? What::dense : What::stride;
        run_one<md::extents<int, DYN, DYN, DYN, DYN>>(w, ln, true);
        run_one<md::extents<int, 2, DYN, 3, DYN>>(w, ln, true);
        run_one<md::extents<int, DYN, 3, DYN, 2>>(w, ln, true);
        run_one<md::extents<int, 3, 2, 1, 3>>(w, ln, true);
        run_one<md::extents<int, 2, 2, 2, 2>>(w, ln, true);
        run_one<md::extents<int, DYN, 0, DYN, 1>>(w, ln, true);
        run_one<md::extents<int, 1, DYN, DYN, DYN>>(w, ln, true);
        run_one<md::extents<int, DYN, DYN, DYN, 3>>(w, ln, true);
        run_one<md::extents<unsigned long, DYN, DYN, DYN, DYN>>(w, ln, true);
        run_one<md::extents<short, DYN, 2, DYN, DYN>>(w, ln, true);
        if (is_ext) {
            run_ctors<md::extents<int, DYN, DYN, DYN, DYN>>(ln.ext);
            run_ctors<md::extents<int, 2, DYN, 3, DYN>>(ln.ext);
            run_ctors<md::extents<int, DYN, 3, DYN, 2>>(ln.ext);
            run_ctors<md::extents<int, 3, 2, 1, 3>>(ln.ext);
            run_subext<md::extents<int, DYN, DYN, DYN, DYN>>(ln.ext);
            run_subext<md::extents<int, 2, DYN, 3, DYN>>(ln.ext);
        }
    }
#endif
}

struct Args {
    int argc;
    char** argv;
    int rc;
};

void* work(void* p)
{
    static char altstack[1 << 16];
    stack_t ss{};
    ss.ss_sp   = altstack;
    ss.ss_size = sizeof(altstack);
    g_domain_only = std::getenv("VH_DOMAIN_ONLY") != nullptr;
    if (not g_domain_only) { sigaltstack(&ss, nullptr); } // (a sanitizer run time installs and owns its own alternate stack)
    sigset_t alrm;
    sigemptyset(&alrm);
    sigaddset(&alrm, SIGVTALRM);
    pthread_sigmask(SIG_UNBLOCK, &alrm, nullptr);
    struct sigaction sa {};
    sa.sa_handler = on_trap;
    sa.sa_flags   = SA_NODEFER | SA_ONSTACK;
    for (int s : {SIGFPE, SIGSEGV, SIGBUS, SIGVTALRM}) { sigaction(s, &sa, nullptr); }
    for (int s : {SIGABRT, SIGILL}) {
        if (g_domain_only) {
            sigaction(s, &sa, nullptr);
        } else {
            std::signal(s, on_fatal);
        }
    }

    auto& a = *static_cast<Args*>(p);
    if (a.argc < 2) {
        std::fprintf(stderr, "usage: md_driver <gen.ndjson>\n");
        a.rc = 2;
        return nullptr;
    }
    auto lines = vh::read_ndjson(a.argv[1]);
    std::vector<Vec> all_exts;
    for (auto const& j : lines) {
        Line ln;
        ln.k = j.at("k").get<std::string>();
        if (j.contains("ext")) { ln.ext = j.at("ext").get<Vec>(); }
        if (j.contains("strides")) { ln.strides = j.at("strides").get<Vec>(); }
        if (ln.k == "span") {
            ln.n = j.at("n").get<long>();
            ln.o = j.at("o").get<long>();
            ln.c = j.at("c").get<long>();
        }
        if (ln.k == "ext") { all_exts.push_back(ln.ext); }
        if (not g_domain_only) {
            process(ln);
            continue;
        }
        size_t mark        = g_out.size();
        long const n0      = g_events;
        long const flushes = g_flushes;
        if (not guarded([&] { process(ln); })) {
            if (g_flushes != flushes) {
                mark = 0;
            } else {
                g_events = n0;
            }
            g_out.resize(mark < g_out.size() ? mark : g_out.size());
            Ev e("crash");
            e.str("k", ln.k.c_str()).arr("ext", ln.ext).arr("sin", ln.strides).num("n", ln.n).num("o", ln.o).num("c", ln.c).end();
            flush_out();
        }
    }
#if VH_PART == 9
    run_eq_all(all_exts);
#elif VH_PART == 10
    eq_square<md::extents<int, DYN, DYN>, md::extents<int, 3, DYN>, md::extents<long, 2, 3>>(all_exts);
    eq_square<md::extents<int, DYN, DYN, DYN>, md::extents<int, 2, DYN, 3>>(all_exts);
#endif
    flush_out();
    std::fprintf(stderr, "SUMMARY part=%d events=%ld traps=%ld\n", int(VH_PART), g_events, g_traps);
    a.rc = 0;
    return nullptr;
}

} // namespace

int main(int argc, char** argv)
{
    Args a{argc, argv, 2};
    // SIGVTALRM (watchdog) must reach the worker thread, whose jump buffer the handler uses: block it here
    sigset_t alrm;
    sigemptyset(&alrm);
    sigaddset(&alrm, SIGVTALRM);
    pthread_sigmask(SIG_BLOCK, &alrm, nullptr);
    pthread_attr_t at;
    pthread_attr_init(&at);
    pthread_attr_setstacksize(&at, 1 << 22);
    pthread_t th;
    if (pthread_create(&th, &at, work, &a) != 0) { return 2; }
    pthread_join(th, nullptr);
    return a.rc;
}
