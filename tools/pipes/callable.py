"""Callable / Tuple pipeline (spec/CallableOps.tla, Callable.tla, CallableTrace.tla, harness/callable_driver.cpp).
Serves C20 (behaviour); life events of the inplace_function histories are C03 material (deviation kinds life-*)."""
import json
import os
import random
import subprocess
import vlib
from pipes.vector import concat

PATH_OPS = {"ctor_target", "set_small"}           # the only operation used to *reach* a state
S0 = {"f": {"e": 0, "t": 0, "c": 0}, "g": {"e": 0, "t": 0, "c": 0}, "h": {"e": 0, "t": 0, "c": 0}}

PRELUDE = {
    "etl": "#include <etl/functional.hpp>\n#include <etl/tuple.hpp>\n#include <etl/utility.hpp>\n#include <utility>\nnamespace L = etl;\n",
    "std": "#include <functional>\n#include <tuple>\n#include <utility>\nnamespace L = std;\n",
}
# members that are declared but whose body may not instantiate (a requires-expression cannot see that)
PROBES = {
    "VP_TUPLE_EMPTY": "L::tuple<> t; L::tuple<> u(t); (void)(t == u);",
    "VP_BF_LVALUE": "int b = 1; auto f = L::bind_front([](int x, int y) { return x + y; }, b); (void)f(1);",
    "VP_GET_T_PAIR": "L::pair<int, long> t{1, 2L}; (void)L::get<int>(t);",
    "VP_GET_T_TUPLE": "L::tuple<int, long> t{1, 2L}; (void)L::get<int>(t);",
    "VP_TUPLE_SB": "L::tuple<int, int> t{1, 2}; auto& [a, b] = t; (void)a; (void)b;",
    "VP_RGET_REF_PAIR": "int x = 1; L::pair<int&, int> t{x, 2}; (void)L::get<0>(std::move(t)); (void)L::get<0>(std::move(std::as_const(t)));",
    "VP_RGET_REF_TUPLE": "int x = 1; L::tuple<int&, int> t{x, 2}; (void)L::get<0>(std::move(t)); (void)L::get<0>(std::move(std::as_const(t)));",
    "VP_APPLY_PAIR": "L::pair<int, int> t{1, 2}; (void)L::apply([](int a, int b) { return a + b; }, t); (void)L::apply([](int a, int b) { return a + b; }, std::move(t));",
    "VP_MFT_PAIR": "struct R { R(int, int) { } }; L::pair<int, int> t{1, 2}; (void)L::make_from_tuple<R>(t);",
    "VP_CAT_LVALUE": "L::tuple<int, int> t{1, 2}; L::tuple<int> u{3}; auto r = L::tuple_cat(t, u); auto r2 = L::tuple_cat(std::move(t), u); (void)r; (void)r2;",
    "VP_CAT_PAIR": "L::pair<int, int> t{1, 2}; L::tuple<int> u{3}; auto r = L::tuple_cat(std::move(t), std::move(u)); (void)r;",
    "VP_CAT_MOVEONLY": "struct M { explicit M(int) { } M(M&&) = default; M(M const&) = delete; }; auto r = L::tuple_cat(L::tuple<M, int>{M(1), 2}, L::tuple<int>{3}); (void)r;",
    "VP_CAT_RVALUE": "auto r = L::tuple_cat(L::tuple<int, int>{1, 2}, L::tuple<int>{3}); (void)r;",
}


def probes(impl):
    d = vlib.workdir("callable_probe")
    from concurrent.futures import ThreadPoolExecutor

    def one(item):
        name, body = item
        src = os.path.join(d, "%s_%s.cpp" % (impl, name))
        open(src, "w").write(PRELUDE[impl] + "int main() { " + body + " }\n")
        cmd = ["g++", "-std=c++20" if impl == "etl" else "-std=c++23", "-fsyntax-only", "-w"]
        if impl == "etl":
            cmd += ["-I" + os.path.join(vlib.REPO, "include")]
        try:
            p = subprocess.run(cmd + [src], capture_output=True, timeout=300)
        except subprocess.TimeoutExpired:
            raise vlib.ModelFailure("compile probe timeout " + name)
        return name, p.returncode == 0
    with ThreadPoolExecutor(max_workers=6) as ex:
        return dict(ex.map(one, PROBES.items()))


def _key(t, which):
    return json.dumps(t[which], sort_keys=True)


def _call(t):
    return {"op": t["op"], "o": t["o"], "x": t["x"]}


def model(tier, rep):
    from concurrent.futures import ThreadPoolExecutor
    with ThreadPoolExecutor(max_workers=2) as ex:
        f1 = ex.submit(vlib.tlc_mc, "Callable.tla", "Callable_ipf.cfg", "callable_ipf_" + tier, 4, "3g")
        f2 = ex.submit(vlib.tlc_mc, "Callable.tla", "Callable_cases.cfg", "callable_cases_" + tier, 8, "4g")
        ripf, rcases = f1.result(), f2.result()
    rep.add_mc("Callable[ipf]", ripf)
    rep.add_mc("Callable[cases]", rcases)
    d = vlib.workdir("scripts")
    gen = [t for t in ripf["gen"] if t["op"] != "init"]
    s0 = json.dumps(S0, sort_keys=True)
    sc, st = vlib.plan_edges(gen, _key, lambda n: n == s0, _call, follow=lambda t: t["op"] in PATH_OPS and t["x"]["m"] == 0)
    if st["unreachable"]:
        raise vlib.ModelFailure("planner: %d unreachable edges in Callable[ipf]" % st["unreachable"])
    # seeded random walks (long histories); moves leave the source "valid but unspecified": a walk continues from
    # the modelled (emptied) source only through operations that overwrite it, so walks avoid reading it: keep it simple
    # and end the walk after a move
    rng = random.Random(vlib.seed() * 104729 + 20)
    adj = {}
    for t in gen:
        adj.setdefault(_key(t, "pre"), []).append(t)
    nw, ln = (150, 30) if tier == "quick" else (1500, 50)
    walks = []
    for _ in range(nw):
        cur, w = s0, []
        for _ in range(ln):
            t = adj[cur][rng.randrange(len(adj[cur]))]
            w.append(_call(t))
            if t["op"] in ("ctor_move", "assign_move", "ctor_move_small", "assign_move_small"):
                break
            cur = _key(t, "post")
        walks.append(w)
    # after a move the source is "valid but unspecified": dispose of it inside a recorded window (h is rebuilt empty, a
    # same-capacity source is assigned nullptr), so that a second destruction of an already relocated capture and an
    # illegal moved-from state (pre-state of the follow-up event) are observed
    x0 = {"t": 0, "c": 0, "a": 0, "src": "f", "m": 0}

    def follow_up(script):
        if not script:
            return script
        last = script[-1]
        if last["op"] in ("ctor_move_small", "assign_move_small"):
            return script + [{"op": "set_small", "o": "f", "x": x0}]
        if last["op"] in ("ctor_move", "assign_move"):
            return script + [{"op": "assign_nullptr", "o": last["x"]["src"], "x": x0}]
        return script
    sc = [follow_up(s_) for s_ in sc]
    walks = [follow_up(w) for w in walks]
    p1 = os.path.join(d, "callable_ipf_%s.ndjson" % tier)
    vlib.write_scripts(sc + walks, p1)
    p2 = os.path.join(d, "callable_cases_%s.ndjson" % tier)
    with open(p2, "w") as f:
        for c in rcases["gen"]:
            f.write(json.dumps(c) + "\n")
    rep.cov["modules"]["Callable[ipf]"].update({"scripts": len(sc), "walks": len(walks), "planner": st})
    rep.cov["modules"]["Callable[cases]"].update({"cases": len(rcases["gen"])})
    if sc:
        rep.sample({"module": "Callable[ipf]", "script": sc[len(sc) // 2]})
    rep.sample({"module": "Callable[cases]", "case": rcases["gen"][len(rcases["gen"]) // 3]})
    rep.cov["exhaustive"] = True
    return {"ipf": p1, "nipf": len(sc) + len(walks), "cases": p2, "ncases": len(rcases["gen"])}


def build_drivers(have, std=True):
    def flags(h):
        return ["-D%s=%d" % (k, 1 if v else 0) for k, v in sorted(h.items())]
    jobs = [dict(src="callable_driver.cpp", out="callable_etl", flags=["-DTETL_ENABLE_CUSTOM_EXCEPTION_HANDLER=1"] + flags(have["etl"]))]
    if std:
        jobs.append(dict(src="callable_driver.cpp", out="callable_std", flags=["-DVH_STD"] + flags(have["std"]), std="c++23",
                         include_repo=False))
    paths = vlib.build_many(jobs)
    return {"etl": paths[0], "std": paths[1] if std else None}


def run_impl(mdl, bins, impl):
    d = vlib.workdir("traces")
    t1 = os.path.join(d, "callable_%s_ipf.ndjson" % impl)
    t2 = os.path.join(d, "callable_%s_cases.ndjson" % impl)
    res = vlib.run_parallel([([bins[impl], "ipf", mdl["ipf"]], t1), ([bins[impl], "cases", mdl["cases"]], t2)])
    unsupported = sorted({l for _, err in res for l in err.splitlines() if l.startswith("UNSUPPORTED")})
    leaks = [l for _, err in res for l in err.splitlines() if l.startswith("SUMMARY") and not l.endswith("live_delta=0")]
    merged = concat([t1, t2], os.path.join(d, "callable_%s_merged" % impl), 2)
    # split the big case file for parallel validation
    parts = []
    for mp in merged:
        lines = open(mp).read().splitlines(True)
        k = max(1, (len(lines) + 3) // 4)
        for i in range(0, len(lines), k):
            pp = "%s_p%d.ndjson" % (mp[:-7], i // k)
            open(pp, "w").writelines(lines[i:i + k])
            parts.append(pp)
    tv = vlib.tv_parallel("CallableTrace.tla", "CallableTrace.cfg", parts, "callable_tv_" + impl)
    return tv, {"scripts": mdl["nipf"] + mdl["ncases"], "unsupported": unsupported, "leaks": leaks}


def pipeline(tier, rep, calibrate=True):
    mdl = model(tier, rep)
    have = {"etl": probes("etl")}
    if calibrate:
        have["std"] = probes("std")
    bins = build_drivers(have, std=calibrate)
    tv, st = run_impl(mdl, bins, "etl")
    rep.add_tv("Callable", tv, st["scripts"])
    rep.cov["modules"]["Callable"].update({"not_drivable": [u[len("UNSUPPORTED "):] for u in st["unsupported"]],
                                           "compile_probes": have})
    if st["leaks"]:
        rep.notes.append({"live_count_imbalance": st["leaks"]})
    if calibrate:
        ctv, cst = run_impl(mdl, bins, "std")
        if ctv["deviations"]:
            d = ctv["deviations"][0]
            raise vlib.ModelFailure("calibration: libstdc++ deviates from Callable spec (spec/projection error): %s %s"
                                    % (d["kind"], json.dumps(d.get("ev"))[:700]))
        rep.cov["modules"]["Callable"]["calibration_events_std"] = ctv["events"]
        rep.cov["modules"]["Callable"]["not_provided_by_std"] = [u[len("UNSUPPORTED "):] for u in cst["unsupported"]]
    return tv, st


def replay(rec):
    """check.py --replay hook. Re-executes one saved deviating event on the current tree (inplace_function events:
    the planned script of the same edge; form / tuple cases: the one case) and validates it again.
    Returns the (non-lifetime) deviations that are still reported."""
    ev = rec["event"]
    have = {"etl": probes("etl")}
    b = build_drivers(have, std=False)["etl"]
    d = vlib.workdir("scripts")
    tp = os.path.join(vlib.workdir("traces"), "callable_replay.ndjson")
    if ev["fam"] == "ipf":
        r = vlib.tlc_mc("Callable.tla", "Callable_ipf.cfg", "callable_replay_ipf", 4, "3g")
        gen = [t for t in r["gen"] if t["op"] != "init"]
        s0 = json.dumps(S0, sort_keys=True)
        want = [i for i, t in enumerate(gen) if t["op"] == ev["op"] and t["o"] == ev["o"] and t["x"] == ev["x"] and t["pre"] == ev["pre"]]
        if not want:
            raise vlib.ModelFailure("replay: the model has no edge for the saved event")
        sc, st = vlib.plan_edges(gen, _key, lambda n: n == s0, _call, follow=lambda t: t["op"] in PATH_OPS and t["x"]["m"] == 0)
        sp = os.path.join(d, "callable_replay.ndjson")
        vlib.write_scripts([sc[want[0]]], sp)
        vlib.run([b, "ipf", sp], tp)
    else:
        sp = os.path.join(d, "callable_replay.ndjson")
        case = {k: v for k, v in ev.items() if k not in ("ret", "calls", "inst")}
        open(sp, "w").write(json.dumps(case) + "\n")
        vlib.run([b, "cases", sp], tp)
    tv = vlib.tlc_tv("CallableTrace.tla", "CallableTrace.cfg", tp, "callable_tv_replay")
    return [x for x in tv["deviations"] if not x["kind"].startswith("life")]
