// Calibration reference for harness/md_driver.cpp (NOT part of tetl, NOT an oracle used by the check).
// libstdc++ 12 has no <mdspan>; the calibration build (-DVH_STD) therefore runs the driver against this
// deliberately plain re-statement of [mdspan.extents] / [mdspan.layout.*] / [mdspan.mdspan]: every
// extents object stores all its extents, offsets are computed by the nested row-/column-major loops
// (not by the stride sums the TLA+ specification uses), required_span_size by walking the index space.
// The only purpose is to show that spec/MdTrace.tla accepts a straightforward implementation
// (zero deviations), i.e. that a deviation reported for etl is not an artefact of the specification.
#pragma once
#include <array>
#include <cstddef>
#include <span>
#include <type_traits>
#include <utility>
#include <vector>

namespace ref {
using std::array;
using std::size_t;
using std::span;
inline constexpr size_t dynamic_extent = std::dynamic_extent;

struct full_extent_t {
    explicit full_extent_t() = default;
};
inline constexpr auto full_extent = full_extent_t{};

template <typename IndexType, size_t... Extents>
struct extents {
    using index_type = IndexType;
    using size_type  = std::make_unsigned_t<IndexType>;
    using rank_type  = size_t;
    static constexpr size_t N                 = sizeof...(Extents);
    static constexpr size_t stat[N ? N : 1]   = {Extents...};
    IndexType vals[N ? N : 1]{};

    static constexpr auto rank() noexcept -> size_t { return N; }
    static constexpr auto rank_dynamic() noexcept -> size_t { return ((Extents == dynamic_extent ? 1U : 0U) + ... + 0U); }
    static constexpr auto static_extent(size_t r) noexcept -> size_t { return stat[r]; }
    constexpr auto extent(size_t r) const noexcept -> IndexType { return vals[r]; }

    constexpr extents() noexcept
    {
        for (size_t r = 0; r < N; ++r) { vals[r] = stat[r] == dynamic_extent ? IndexType(0) : IndexType(stat[r]); }
    }
    template <typename Other, size_t M>
    constexpr void assign(span<Other, M> es)
    {
        size_t k = 0;
        for (size_t r = 0; r < N; ++r) {
            if (M == N) {
                vals[r] = IndexType(es[r]);
            } else if (stat[r] == dynamic_extent) {
                vals[r] = IndexType(es[k++]);
            } else {
                vals[r] = IndexType(stat[r]);
            }
        }
    }
    template <typename... Is>
        requires((std::is_convertible_v<Is, IndexType> and ...) and (sizeof...(Is) == N or sizeof...(Is) == rank_dynamic()) and sizeof...(Is) > 0)
    explicit constexpr extents(Is... es) noexcept
    {
        array<IndexType, sizeof...(Is)> a{IndexType(es)...};
        assign(span<IndexType const, sizeof...(Is)>(a));
    }
    template <typename Other, size_t M>
        requires(M == N or M == rank_dynamic())
    explicit constexpr extents(span<Other, M> es) noexcept : extents()
    {
        if constexpr (M > 0) { assign(es); }
    }
    template <typename Other, size_t M>
        requires(M == N or M == rank_dynamic())
    explicit constexpr extents(array<Other, M> const& es) noexcept : extents()
    {
        if constexpr (M > 0) { assign(span<Other const, M>(es)); }
    }
    template <typename OI, size_t... OE>
        requires(sizeof...(OE) == N)
    explicit constexpr extents(extents<OI, OE...> const& o) noexcept
    {
        for (size_t r = 0; r < N; ++r) { vals[r] = IndexType(o.extent(r)); }
    }
    template <typename OI, size_t... OE>
    friend constexpr auto operator==(extents const& l, extents<OI, OE...> const& r) noexcept -> bool
    {
        if constexpr (sizeof...(OE) != N) {
            return false;
        } else {
            for (size_t i = 0; i < N; ++i) {
                if (std::cmp_not_equal(l.extent(i), r.extent(i))) { return false; }
            }
            return true;
        }
    }
};
template <typename I, size_t R, typename = std::make_index_sequence<R>>
struct dext;
template <typename I, size_t R, size_t... K>
struct dext<I, R, std::index_sequence<K...>> {
    using type = extents<I, ((void)K, dynamic_extent)...>;
};
template <typename I, size_t R>
using dextents = typename dext<I, R>::type;

namespace detail {
// size of the index space, counted
template <typename E>
constexpr auto count_points(E const& e) -> long
{
    long n = 1;
    for (size_t r = 0; r < E::rank(); ++r) { n *= long(e.extent(r)); }
    return n;
}
} // namespace detail

struct layout_right {
    template <typename E>
    struct mapping {
        using extents_type = E;
        using index_type   = typename E::index_type;
        using layout_type  = layout_right;
        E e{};
        constexpr mapping() = default;
        constexpr mapping(E const& x) : e(x) { }
        template <typename OE>
        explicit constexpr mapping(mapping<OE> const& o) : e(o.extents())
        {
        }
        template <typename OM>
            requires(E::rank() <= 1 and not std::is_same_v<typename OM::layout_type, layout_right>)
        explicit constexpr mapping(OM const& o) : e(o.extents())
        {
        }
        constexpr auto extents() const -> E const& { return e; }
        constexpr auto required_span_size() const -> index_type { return index_type(detail::count_points(e)); }
        template <typename... Is>
            requires(sizeof...(Is) == E::rank())
        constexpr auto operator()(Is... is) const -> index_type
        {
            long const idx[E::rank() ? E::rank() : 1] = {long(is)...};
            long off                                  = 0;
            for (size_t r = 0; r < E::rank(); ++r) { off = off * long(e.extent(r)) + idx[r]; } // row-major nest
            return index_type(off);
        }
        constexpr auto stride(size_t r) const -> index_type
        {
            long s = 1;
            for (size_t k = E::rank(); k-- > r + 1;) { s *= long(e.extent(k)); }
            return index_type(s);
        }
        template <typename OE>
        friend constexpr auto operator==(mapping const& l, mapping<OE> const& r) noexcept -> bool
        {
            if (E::rank() != OE::rank()) { return false; }
            for (size_t k = 0; k < E::rank(); ++k) {
                if (long(l.extents().extent(k)) != long(r.extents().extent(k))) { return false; }
            }
            return true;
        }
        static constexpr auto is_always_unique() -> bool { return true; }
        static constexpr auto is_always_exhaustive() -> bool { return true; }
        static constexpr auto is_always_strided() -> bool { return true; }
        static constexpr auto is_unique() -> bool { return true; }
        static constexpr auto is_exhaustive() -> bool { return true; }
        static constexpr auto is_strided() -> bool { return true; }
    };
};

struct layout_left {
    template <typename E>
    struct mapping {
        using extents_type = E;
        using index_type   = typename E::index_type;
        using layout_type  = layout_left;
        E e{};
        constexpr mapping() = default;
        constexpr mapping(E const& x) : e(x) { }
        template <typename OE>
        explicit constexpr mapping(mapping<OE> const& o) : e(o.extents())
        {
        }
        template <typename OM>
            requires(E::rank() <= 1 and not std::is_same_v<typename OM::layout_type, layout_left>)
        explicit constexpr mapping(OM const& o) : e(o.extents())
        {
        }
        constexpr auto extents() const -> E const& { return e; }
        constexpr auto required_span_size() const -> index_type { return index_type(detail::count_points(e)); }
        template <typename... Is>
            requires(sizeof...(Is) == E::rank())
        constexpr auto operator()(Is... is) const -> index_type
        {
            long const idx[E::rank() ? E::rank() : 1] = {long(is)...};
            long off                                  = 0;
            for (size_t r = E::rank(); r-- > 0;) { off = off * long(e.extent(r)) + idx[r]; } // column-major nest
            return index_type(off);
        }
        constexpr auto stride(size_t r) const -> index_type
        {
            long s = 1;
            for (size_t k = 0; k < r; ++k) { s *= long(e.extent(k)); }
            return index_type(s);
        }
        template <typename OE>
        friend constexpr auto operator==(mapping const& l, mapping<OE> const& r) noexcept -> bool
        {
            if (E::rank() != OE::rank()) { return false; }
            for (size_t k = 0; k < E::rank(); ++k) {
                if (long(l.extents().extent(k)) != long(r.extents().extent(k))) { return false; }
            }
            return true;
        }
        static constexpr auto is_always_unique() -> bool { return true; }
        static constexpr auto is_always_exhaustive() -> bool { return true; }
        static constexpr auto is_always_strided() -> bool { return true; }
        static constexpr auto is_unique() -> bool { return true; }
        static constexpr auto is_exhaustive() -> bool { return true; }
        static constexpr auto is_strided() -> bool { return true; }
    };
};

struct layout_stride {
    template <typename E>
    struct mapping {
        using extents_type = E;
        using index_type   = typename E::index_type;
        using layout_type  = layout_stride;
        E e{};
        array<index_type, E::rank()> s{};
        constexpr mapping() = default;
        template <typename O>
        constexpr mapping(E const& x, array<O, E::rank()> const& st) : e(x)
        {
            for (size_t r = 0; r < E::rank(); ++r) { s[r] = index_type(st[r]); }
        }
        constexpr auto extents() const -> E const& { return e; }
        constexpr auto strides() const -> array<index_type, E::rank()> { return s; }
        constexpr auto stride(size_t r) const -> index_type { return s[r]; }
        // largest offset + 1, found by visiting the last point of the index space
        constexpr auto required_span_size() const -> index_type
        {
            long last = 0;
            for (size_t r = 0; r < E::rank(); ++r) {
                if (e.extent(r) == 0) { return index_type(0); }
                last += (long(e.extent(r)) - 1) * long(s[r]);
            }
            return index_type(last + 1);
        }
        template <typename... Is>
            requires(sizeof...(Is) == E::rank())
        constexpr auto operator()(Is... is) const -> index_type
        {
            long const idx[E::rank() ? E::rank() : 1] = {long(is)...};
            long off                                  = 0;
            for (size_t r = 0; r < E::rank(); ++r) {
                for (long k = 0; k < idx[r]; ++k) { off += long(s[r]); } // idx[r] steps of stride r
            }
            return index_type(off);
        }
        static constexpr auto is_always_unique() -> bool { return true; }
        static constexpr auto is_always_strided() -> bool { return true; }
        static constexpr auto is_always_exhaustive() -> bool { return false; }
        static constexpr auto is_unique() -> bool { return true; }
        static constexpr auto is_strided() -> bool { return true; }
        constexpr auto is_exhaustive() const -> bool
        {
            return E::rank() == 0 or (detail::count_points(e) > 0 and long(required_span_size()) == detail::count_points(e));
        }
    };
};

namespace linalg {
namespace detail {
template <typename E>
using transpose_extents_t = extents<typename E::index_type, E::static_extent(1), E::static_extent(0)>;
}
template <typename Layout>
struct layout_transpose {
    template <typename E>
        requires(E::rank() == 2)
    struct mapping {
        using nested_mapping_t = typename Layout::template mapping<detail::transpose_extents_t<E>>;
        using extents_type     = E;
        using size_type        = typename E::size_type;
        using layout_type      = layout_transpose;
        nested_mapping_t n;
        constexpr explicit mapping(nested_mapping_t const& m) : n(m) { }
        constexpr auto extents() const -> E
        {
            auto const& ne = n.extents();
            return E(array<typename E::index_type, 2>{ne.extent(1), ne.extent(0)});
        }
        constexpr auto required_span_size() const { return n.required_span_size(); }
        template <typename I>
        constexpr auto operator()(I i, I j) const -> size_type
        {
            return size_type(n(j, i));
        }
        constexpr auto stride(size_t r) const -> size_type { return size_type(n.stride(r == 0 ? 1 : 0)); }
        static constexpr auto is_always_unique() -> bool { return true; }
        static constexpr auto is_always_strided() -> bool { return true; }
        constexpr auto is_unique() const -> bool { return true; }
        constexpr auto is_strided() const -> bool { return true; }
    };
};
} // namespace linalg

template <typename T, typename E, typename L = layout_right>
struct mdspan {
    using extents_type = E;
    using mapping_type = typename L::template mapping<E>;
    using index_type   = typename E::index_type;
    using size_type    = typename E::size_type;
    T* p{};
    mapping_type m{};
    constexpr mdspan(T* ptr, mapping_type const& map) : p(ptr), m(map) { }
    constexpr mdspan(T* ptr, E const& e)
        requires(std::is_constructible_v<mapping_type, E const&>)
        : p(ptr), m(e)
    {
    }
    template <typename... Is>
        requires((std::is_convertible_v<Is, index_type> and ...) and sizeof...(Is) > 0
                 and (sizeof...(Is) == E::rank() or sizeof...(Is) == E::rank_dynamic())
                 and std::is_constructible_v<mapping_type, E const&>)
    explicit constexpr mdspan(T* ptr, Is... es) : p(ptr), m(E(index_type(es)...))
    {
    }
    template <typename... Is>
        requires(sizeof...(Is) == E::rank())
    constexpr auto operator()(Is... is) const -> T&
    {
        return p[size_t(m(index_type(is)...))];
    }
    template <typename O>
    constexpr auto operator[](array<O, E::rank()> const& idx) const -> T&
    {
        return [&]<size_t... K>(std::index_sequence<K...>) -> T& { return (*this)(idx[K]...); }(std::make_index_sequence<E::rank()>{});
    }
    template <typename O>
    constexpr auto operator[](span<O, E::rank()> idx) const -> T&
    {
        return [&]<size_t... K>(std::index_sequence<K...>) -> T& { return (*this)(idx[K]...); }(std::make_index_sequence<E::rank()>{});
    }
    constexpr auto data_handle() const -> T* const& { return p; }
    constexpr auto mapping() const -> mapping_type const& { return m; }
    constexpr auto extents() const -> E const& { return m.extents(); }
    constexpr auto extent(size_t r) const -> index_type { return m.extents().extent(r); }
    constexpr auto stride(size_t r) const -> index_type { return m.stride(r); }
    constexpr auto size() const -> size_type { return size_type(detail::count_points(m.extents())); }
    constexpr auto empty() const -> bool { return detail::count_points(m.extents()) == 0; }
    static constexpr auto rank() -> size_t { return E::rank(); }
    static constexpr auto rank_dynamic() -> size_t { return E::rank_dynamic(); }
    static constexpr auto static_extent(size_t r) -> size_t { return E::static_extent(r); }
};

template <typename T, typename E, typename L, typename C>
struct mdarray {
    using extents_type = E;
    using mapping_type = typename L::template mapping<E>;
    using index_type   = typename E::index_type;
    using size_type    = typename E::size_type;
    mapping_type m{};
    C c;
    explicit constexpr mdarray(E const& e) : m(e), c(size_t(m.required_span_size())) { }
    explicit constexpr mdarray(mapping_type const& map) : m(map), c(size_t(m.required_span_size())) { }
    constexpr mdarray(E const& e, T const& v) : m(e), c(size_t(m.required_span_size()), v) { }
    constexpr mdarray(mapping_type const& map, C const& cc) : m(map), c(cc) { }
    template <typename... Is>
        requires(sizeof...(Is) == E::rank())
    constexpr auto operator()(Is... is) -> T&
    {
        return c[size_t(m(index_type(is)...))];
    }
    template <typename O>
    constexpr auto operator[](array<O, E::rank()> const& idx) -> T&
    {
        return [&]<size_t... K>(std::index_sequence<K...>) -> T& { return (*this)(idx[K]...); }(std::make_index_sequence<E::rank()>{});
    }
    constexpr auto container_data() -> T* { return c.data(); }
    constexpr auto container_size() const -> size_t { return c.size(); }
    constexpr auto extents() const -> E const& { return m.extents(); }
    constexpr auto extent(size_t r) const -> index_type { return m.extents().extent(r); }
    constexpr auto mapping() const -> mapping_type const& { return m; }
    constexpr auto stride(size_t r) const -> index_type { return m.stride(r); }
    constexpr auto size() const -> size_type { return size_type(detail::count_points(m.extents())); }
    constexpr auto empty() const -> bool { return detail::count_points(m.extents()) == 0; }
    constexpr auto to_mdspan() -> mdspan<T, E, L> { return mdspan<T, E, L>(c.data(), m); }
};

// submdspan_extents for slices that are full_extent_t or a single index: keep, in order, the dimensions
// sliced with full_extent (and whether they were static)
namespace detail {
template <typename S>
inline constexpr bool is_full = std::is_convertible_v<S, full_extent_t>;

template <typename I, typename Acc, typename FullSeq, typename EsSeq>
struct sub_ext;
template <typename I, size_t... A>
struct sub_ext<I, std::index_sequence<A...>, std::integer_sequence<bool>, std::index_sequence<>> {
    using type = extents<I, A...>;
};
template <typename I, size_t... A, bool F, bool... Fs, size_t E, size_t... Es>
struct sub_ext<I, std::index_sequence<A...>, std::integer_sequence<bool, F, Fs...>, std::index_sequence<E, Es...>>
    : sub_ext<I, std::conditional_t<F, std::index_sequence<A..., E>, std::index_sequence<A...>>, std::integer_sequence<bool, Fs...>,
              std::index_sequence<Es...>> { };
} // namespace detail

template <typename I, size_t... Es, typename... Slices>
    requires(sizeof...(Slices) == sizeof...(Es))
constexpr auto submdspan_extents(extents<I, Es...> const& e, Slices... /*slices*/)
{
    using R = typename detail::sub_ext<I, std::index_sequence<>, std::integer_sequence<bool, detail::is_full<Slices>...>,
                                       std::index_sequence<Es...>>::type;
    constexpr size_t N = sizeof...(Es);
    bool const full[N ? N : 1] = {detail::is_full<Slices>...};
    array<I, R::rank()> kept{};
    size_t j = 0;
    for (size_t r = 0; r < N; ++r) {
        if (full[r]) { kept[j++] = e.extent(r); }
    }
    if constexpr (R::rank() == 0) {
        return R{};
    } else {
        return R(kept);
    }
}

} // namespace ref
