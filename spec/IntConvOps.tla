---------------------------- MODULE IntConvOps ----------------------------
(* Meaning of the integer <-> text conversions, transcribed from the standards, not from etl:        *)
(*   ToText / to_chars      [charconv.to.chars]   digits of |v| in base b, no leading zeros, 'a'..'z',  *)
(*                          a leading '-' for negative v in EVERY base; value_too_large exactly when    *)
(*                          the text does not fit; nothing outside [first,last) is written              *)
(*   FromChars              [charconv.from.chars] no whitespace, no '+', no prefix, '-' only for signed *)
(*                          types; result_out_of_range with ptr past ALL pattern characters             *)
(*   StrTo                  ISO C 7.22.1.4 strtol/strtoul (+ll): whitespace, sign, 0x prefix for base   *)
(*                          16, base 0 detection, clamping on overflow, negation in the unsigned type   *)
(*   Sto / Ato              [string.conversions] / ISO C 7.22.1.2 on top of StrTo                       *)
(* Numbers are Wide numbers [neg, m]; characters are ASCII codes; texts are sequences of codes.        *)
EXTENDS Wide

SignedT == {"i8", "i16", "i32", "i64"}
UnsignedT == {"u8", "u16", "u32", "u64"}
AllT == SignedT \cup UnsignedT
Bits(t) == CASE t \in {"i8", "u8"} -> 8 [] t \in {"i16", "u16"} -> 16 [] t \in {"i32", "u32"} -> 32
             [] t \in {"i64", "u64"} -> 64

MaxPos(t) == IF t \in SignedT THEN Pow2m1(Bits(t) - 1) ELSE Pow2m1(Bits(t))
MaxNeg(t) == IF t \in SignedT THEN Pow2(Bits(t) - 1) ELSE <<>>
\* magnitude mag with sign neg representable in t
InRangeMag(t, neg, mag) == IF neg THEN NatLE(mag, MaxNeg(t)) ELSE NatLE(mag, MaxPos(t))
InRange(t, v) == InRangeMag(t, v.neg, v.m)

Zero == Num(FALSE, <<>>)

DigitVal(c) == IF c \in 48..57 THEN c - 48
               ELSE IF c \in 97..122 THEN c - 87
               ELSE IF c \in 65..90 THEN c - 55
               ELSE 99
DigitChar(d) == IF d < 10 THEN 48 + d ELSE 87 + d
IsSpaceC(c) == c \in 9..13 \/ c = 32
MinOf(S) == CHOOSE i \in S : \A j \in S : i <= j

\* number of consecutive characters of text, starting at 1-based position s, that are digits in base b
DigitRun(text, s, b) ==
    LET Bad == {j \in s..Len(text) : DigitVal(text[j]) >= b}
    IN (IF Bad = {} THEN Len(text) + 1 ELSE MinOf(Bad)) - s
SpaceRun(text) ==
    LET Bad == {j \in 1..Len(text) : ~IsSpaceC(text[j])}
    IN (IF Bad = {} THEN Len(text) + 1 ELSE MinOf(Bad)) - 1
MagOf(text, s, k, b) == Value([j \in 1..k |-> DigitVal(text[s + j - 1])], b)

\* ---------------------------------------------------------------------------------------------
\* formatting
\* ---------------------------------------------------------------------------------------------
ToText(v, b) ==
    (IF v.neg THEN <<45>> ELSE <<>>)
    \o (IF v.m = <<>> THEN <<48>> ELSE LET ds == Digits(v.m, b) IN [i \in 1..Len(ds) |-> DigitChar(ds[i])])

GuardLen == 4
\* one to_chars call on a buffer of run.len characters; run.buf = guard ++ region ++ guard after the call
\* "ok" or the first kind of deviation
ToCharsRun(text, run, guard) ==
    LET n == Len(text) IN
    IF Len(run.buf) # run.len + 2 * GuardLen THEN "harness-buf"
    ELSE IF SubSeq(run.buf, 1, GuardLen) # guard \/ SubSeq(run.buf, run.len + GuardLen + 1, run.len + 2 * GuardLen) # guard
    THEN "guard"
    ELSE IF run.len < n THEN (IF run.ec # 1 THEN "ec-nofit" ELSE IF run.ptr # run.len THEN "ptr-nofit" ELSE "ok")
    ELSE IF run.ec # 0 THEN "ec-fit"
    ELSE IF run.ptr # n THEN "ptr"
    ELSE IF SubSeq(run.buf, GuardLen + 1, GuardLen + n) # text THEN "text"
    ELSE "ok"

\* strings::from_integer: the same text, optionally followed by a terminating null that must also fit
FromIntegerRun(text, term, run, guard) ==
    LET n == Len(text)
        need == n + (IF term THEN 1 ELSE 0)
    IN
    IF Len(run.buf) # run.len + 2 * GuardLen THEN "harness-buf"
    ELSE IF SubSeq(run.buf, 1, GuardLen) # guard \/ SubSeq(run.buf, run.len + GuardLen + 1, run.len + 2 * GuardLen) # guard
    THEN "guard"
    ELSE IF run.len < need THEN (IF run.ec # 1 THEN "ec-nofit" ELSE "ok")
    ELSE IF run.ec # 0 THEN "ec-fit"
    ELSE IF run.ptr # n THEN "ptr"
    ELSE IF SubSeq(run.buf, GuardLen + 1, GuardLen + n) # text THEN "text"
    ELSE IF term /\ run.buf[GuardLen + n + 1] # 0 THEN "terminator"
    ELSE "ok"

FirstBad(verdicts) ==
    LET Bad == {i \in 1..Len(verdicts) : verdicts[i] # "ok"}
    IN IF Bad = {} THEN "ok" ELSE verdicts[MinOf(Bad)]

\* ---------------------------------------------------------------------------------------------
\* parsing
\* ---------------------------------------------------------------------------------------------
\* [charconv.from.chars]: ec 0 ok / 1 invalid_argument / 2 result_out_of_range; ptr = characters matched
FromChars(t, text, b) ==
    LET neg == t \in SignedT /\ Len(text) >= 1 /\ text[1] = 45
        i0 == IF neg THEN 1 ELSE 0
        k == DigitRun(text, i0 + 1, b)
        mag == MagOf(text, i0 + 1, k, b)
    IN IF k = 0 THEN [ec |-> 1, ptr |-> 0, val |-> Zero]
       ELSE IF InRangeMag(t, neg, mag) THEN [ec |-> 0, ptr |-> i0 + k, val |-> Num(neg, mag)]
       ELSE [ec |-> 2, ptr |-> i0 + k, val |-> Zero]

\* ISO C 7.22.1.4.  conv: a conversion was performed; end: characters up to the end of the subject
\* sequence (0 when none); range: the value was out of range and has been clamped (ERANGE);
\* feat: which part of the C grammar the input exercises (used to classify deviations)
StrTo(t, text, b) ==
    LET n == Len(text)
        i1 == SpaceRun(text)
        hasSign == i1 < n /\ text[i1 + 1] \in {43, 45}
        neg == hasSign /\ text[i1 + 1] = 45
        i2 == i1 + (IF hasSign THEN 1 ELSE 0)
        hexPfx == /\ b \in {0, 16}
                  /\ i2 + 3 <= n
                  /\ text[i2 + 1] = 48
                  /\ text[i2 + 2] \in {120, 88}
                  /\ DigitVal(text[i2 + 3]) < 16
        b1 == IF b # 0 THEN b ELSE IF hexPfx THEN 16 ELSE IF i2 < n /\ text[i2 + 1] = 48 THEN 8 ELSE 10
        i3 == IF hexPfx THEN i2 + 2 ELSE i2
        k == DigitRun(text, i3 + 1, b1)
        mag == MagOf(text, i3 + 1, k, b1)
        inr == IF t \in SignedT THEN InRangeMag(t, neg, mag) ELSE NatLE(mag, MaxPos(t))
        val == IF t \in SignedT
               THEN (IF inr THEN Num(neg, mag) ELSE IF neg THEN Num(TRUE, MaxNeg(t)) ELSE Num(FALSE, MaxPos(t)))
               ELSE (IF ~inr THEN Num(FALSE, MaxPos(t))
                     ELSE IF neg /\ mag # <<>> THEN Num(FALSE, NatSub(Pow2(Bits(t)), mag))
                     ELSE Num(FALSE, mag))
        feat == IF b = 0 THEN "base0"
                ELSE IF k = 0 THEN "noconv"
                ELSE IF hexPfx THEN "hexprefix"
                ELSE IF ~inr THEN "range"
                ELSE IF hasSign /\ ~neg THEN "plus"
                ELSE IF neg /\ t \in UnsignedT THEN "neg-unsigned"
                ELSE "plain"
    IN IF k = 0 THEN [conv |-> FALSE, end |-> 0, val |-> Zero, range |-> FALSE, feat |-> feat]
       ELSE [conv |-> TRUE, end |-> i3 + k, val |-> val, range |-> ~inr, feat |-> feat]

StrToOps == {"strtol", "strtoll", "strtoul", "strtoull"}
StoOps == {"stoi", "stol", "stoll", "stoul", "stoull"}
AtoOps == {"atoi", "atol", "atoll"}
\* [string.conversions]: 0 ok, 1 invalid_argument (no conversion), 2 out_of_range (ERANGE or outside the result type)
\* ut: type of the underlying strtol/strtoul(l) call, t: result type of the sto* function
StoEc(ut, t, text, b) ==
    LET r == StrTo(ut, text, b)
    IN IF ~r.conv THEN 1 ELSE IF r.range \/ ~InRange(t, r.val) THEN 2 ELSE 0
=============================================================================
