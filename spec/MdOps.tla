------------------------------- MODULE MdOps -------------------------------
(* Meaning of the multidimensional index mappings and of the contiguous sub-views (property C19),    *)
(* transcribed from [mdspan.extents], [mdspan.layout.left/right/stride], [mdspan.mdspan.members],     *)
(* [mdspan.sub] (submdspan_extents), [linalg.transp.layout.transpose] and [span.sub].  Constant-free.  *)
(*                                                                                                     *)
(*   extents        : sequence of extent values (naturals), 1-based position = rank index + 1          *)
(*   pattern        : sequence of the same length, -1 = dynamic extent, otherwise the static extent     *)
(*   multi-index    : sequence idx with 0 <= idx[r] < ext[r]                                            *)
(*   strides        : sequence of naturals                                                              *)
(*   span           : a pair (data offset relative to the original range, size)                         *)
EXTENDS Integers, Sequences, FiniteSets

Rank(ext) == Len(ext)

RECURSIVE ProdFrom(_, _, _)
ProdFrom(ext, lo, hi) == IF lo > hi THEN 1 ELSE ext[lo] * ProdFrom(ext, lo + 1, hi)   \* product of ext[lo..hi]
Size(ext) == ProdFrom(ext, 1, Len(ext))                                               \* size of the index space

RECURSIVE SumTo(_, _)
SumTo(f, n) == IF n = 0 THEN 0 ELSE f[n] + SumTo(f, n - 1)                            \* f[1] + ... + f[n]

InRange(ext, idx) == Len(idx) = Len(ext) /\ \A r \in 1..Len(ext) : idx[r] \in 0..(ext[r] - 1)
IndexSpace(ext) == {idx \in [1..Len(ext) -> 0..4] : InRange(ext, idx)}                \* bounded: extents <= 5

\* a pattern is an extents *type*; an extents value must agree with its static positions
Compatible(pat, ext) == Len(pat) = Len(ext) /\ \A r \in 1..Len(pat) : pat[r] = -1 \/ pat[r] = ext[r]
RankDynamic(pat) == Cardinality({r \in 1..Len(pat) : pat[r] = -1})

\* [mdspan.extents.cmp]: two extents objects (of any two extents types) are equal iff they have the same rank and the
\* same extent at every position - static-ness and index type play no role.  [mdspan.layout.left/right.obs]: two
\* mappings of the same layout are equal iff their extents are equal.
ExtentsEqual(e1, e2) == Len(e1) = Len(e2) /\ \A r \in 1..Len(e1) : e1[r] = e2[r]

\* ---- [mdspan.layout.right]: stride(r) = product of the extents to the right of r -----------------------
StrideRight(ext, r) == ProdFrom(ext, r + 1, Len(ext))
StridesRight(ext) == [r \in 1..Len(ext) |-> StrideRight(ext, r)]
\* ---- [mdspan.layout.left]: stride(r) = product of the extents to the left of r -----------------------------
StrideLeft(ext, r) == ProdFrom(ext, 1, r - 1)
StridesLeft(ext) == [r \in 1..Len(ext) |-> StrideLeft(ext, r)]

\* operator()(i...) = sum of i_r * stride(r)  (all three standard layouts)
Offset(strides, idx) == SumTo([r \in 1..Len(idx) |-> idx[r] * strides[r]], Len(idx))
LayoutRight(ext, idx) == Offset(StridesRight(ext), idx)
LayoutLeft(ext, idx) == Offset(StridesLeft(ext), idx)
LayoutStride(strides, idx) == Offset(strides, idx)

\* the textbook nested (Horner) forms: row-major ((i0*e1 + i1)*e2 + i2)..., column-major from the right
RECURSIVE HornerRight(_, _, _), HornerLeft(_, _, _)
HornerRight(ext, idx, r) == IF r = 0 THEN 0 ELSE HornerRight(ext, idx, r - 1) * ext[r] + idx[r]
HornerLeft(ext, idx, r) == IF r > Len(ext) THEN 0 ELSE idx[r] + ext[r] * HornerLeft(ext, idx, r + 1)
RowMajor(ext, idx) == HornerRight(ext, idx, Len(ext))
ColMajor(ext, idx) == HornerLeft(ext, idx, 1)

\* required_span_size: left/right = size of the index space (1 for rank 0);
\* stride: 0 if the index space is empty, else 1 + sum (extent_r - 1) * stride_r
ReqSpanDense(ext) == Size(ext)
ReqSpanStride(ext, strides) ==
    IF \E r \in 1..Len(ext) : ext[r] = 0 THEN 0
    ELSE 1 + SumTo([r \in 1..Len(ext) |-> (ext[r] - 1) * strides[r]], Len(ext))

\* ---- [linalg.transp.layout.transpose]: rank 2; extents swapped, m(i, j) = nested(j, i), strides swapped ---
Swap2(s) == <<s[2], s[1]>>

\* one record for every layout the driver can name: what a mapping over `ext` (for "stride": with the given
\* strides) must report.  For the transposed layouts `ext` are the extents of the transposed mapping itself
\* (the nested mapping has Swap2(ext)).
Strides(layout, ext, sin) ==
    CASE layout = "right" -> StridesRight(ext)
      [] layout = "left" -> StridesLeft(ext)
      [] layout = "stride" -> sin
      [] layout = "transpose_right" -> Swap2(StridesRight(Swap2(ext)))
      [] layout = "transpose_left" -> Swap2(StridesLeft(Swap2(ext)))
Layouts == {"right", "left", "stride", "transpose_right", "transpose_left"}
Map(layout, ext, sin, idx) == Offset(Strides(layout, ext, sin), idx)
ReqSpan(layout, ext, sin) == IF layout = "stride" THEN ReqSpanStride(ext, sin) ELSE ReqSpanDense(ext)

\* ---- [mdspan.sub.extents], slices restricted to full_extent (-1) and a single index (k >= 0) ------------
\* the result keeps, in order, the extents (and their static-ness) of the dimensions sliced with full_extent
RECURSIVE SubKeep(_, _, _)
SubKeep(s, slices, r) == IF r > Len(slices) THEN <<>>
                         ELSE (IF slices[r] = -1 THEN <<s[r]>> ELSE <<>>) \o SubKeep(s, slices, r + 1)
SubExtents(ext, slices) == SubKeep(ext, slices, 1)
SubPattern(pat, slices) == SubKeep(pat, slices, 1)
SlicesOK(ext, slices) == Len(slices) = Len(ext) /\ \A r \in 1..Len(ext) : slices[r] = -1 \/ slices[r] \in 0..(ext[r] - 1)

\* ---- [span.sub] on a span of n elements; the result is (data offset, size); -1 = dynamic_extent --------------
SpanFirst(n, c) == <<0, c>>                                   \* precondition c <= n
SpanLast(n, c) == <<n - c, c>>                                \* precondition c <= n
SpanSubspan(n, o, c) == <<o, IF c = -1 THEN n - o ELSE c>>    \* precondition o <= n /\ (c = -1 \/ c <= n - o)
SpanPre(form, n, o, c) ==
    CASE form \in {"first", "last"} -> c \in 0..n
      [] form = "subspan" -> o \in 0..n /\ (c = -1 \/ c \in 0..(n - o))
SpanRet(form, n, o, c) ==
    CASE form = "first" -> SpanFirst(n, c)
      [] form = "last" -> SpanLast(n, c)
      [] form = "subspan" -> SpanSubspan(n, o, c)
\* static extent of the result type: tpl = the arguments were template arguments; sn = static extent of the source
SpanRetExtent(form, tpl, sn, o, c) ==
    IF ~tpl THEN -1
    ELSE IF form \in {"first", "last"} THEN c
    ELSE IF c # -1 THEN c ELSE IF sn # -1 THEN sn - o ELSE -1
=============================================================================
