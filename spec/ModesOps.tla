------------------------------ MODULE ModesOps ------------------------------
(* C13: compile-time evaluation and run-time execution give the same answer.                                   *)
(*                                                                                                              *)
(* The monitor: a memo  [Call -> Result]  and one operation  Observe(memo, call, r):  the first observation of   *)
(* a call records its result, every later observation (another evaluation mode: "ct" constant evaluation,       *)
(* "rt0" run time -O0, "rt2" run time -O2) must repeat it.  Agreement = at most one result per call.             *)
(* Where the result is exactly specified AND a definition is at hand (IEEE operations of FloatOps, the bit and   *)
(* saturation utilities and C-string functions below, transcribed from the C/C++ standard) the result must also  *)
(* equal the definition.  Results are sequences of integers (scalars have length 1) so that any two results can  *)
(* be compared.                                                                                                  *)
EXTENDS FloatOps, FiniteSets

ModeNames == {"ct", "rt0", "rt2"}

\* memo is a function whose domain is the set of calls seen so far
EmptyMemo == [c \in {} |-> <<>>]
Observe(memo, call, r) ==
    IF call \in DOMAIN memo
    THEN [ok |-> r = memo[call], memo |-> memo]
    ELSE [ok |-> TRUE, memo |-> [c \in DOMAIN memo \cup {call} |-> IF c = call THEN r ELSE memo[c]]]

(* ------------------------------------------ integers as bit strings ------------------------------------------ *)
\* unsigned values of width w in {8,16,32,64} travel as little-endian limbs base 2^16 (one limb for w <= 16)
NLimbs(w) == IF w <= 16 THEN 1 ELSE w \div 16
LimbW(w) == IF w <= 16 THEN w ELSE 16

RECURSIVE PopN(_)
PopN(n) == IF n = 0 THEN 0 ELSE (n % 2) + PopN(n \div 2)
RECURSIVE BitLen(_)
BitLen(n) == IF n = 0 THEN 0 ELSE 1 + BitLen(n \div 2)             \* position of the highest set bit + 1
RECURSIVE Ctz(_)
Ctz(n) == IF n % 2 = 1 THEN 0 ELSE 1 + Ctz(n \div 2)               \* n # 0

RECURSIVE SumSeq(_)
SumSeq(s) == IF s = <<>> THEN 0 ELSE Head(s) + SumSeq(Tail(s))
PopCount(v) == SumSeq([i \in 1..Len(v) |-> PopN(v[i])])
IsZeroV(v) == \A i \in 1..Len(v) : v[i] = 0
\* number of bits needed (bit_width)
BitWidth(v, w) ==
    IF IsZeroV(v) THEN 0
    ELSE LET top == CHOOSE i \in 1..Len(v) : v[i] # 0 /\ \A j \in (i + 1)..Len(v) : v[j] = 0
         IN (top - 1) * 16 + BitLen(v[top])
CountlZero(v, w) == w - BitWidth(v, w)
CountrZero(v, w) ==
    IF IsZeroV(v) THEN w
    ELSE LET low == CHOOSE i \in 1..Len(v) : v[i] # 0 /\ \A j \in 1..(i - 1) : v[j] = 0
         IN (low - 1) * 16 + Ctz(v[low])
Compl(v, w) == [i \in 1..Len(v) |-> Pow2(LimbW(w)) - 1 - v[i]]
CountlOne(v, w) == CountlZero(Compl(v, w), w)
CountrOne(v, w) == CountrZero(Compl(v, w), w)
HasSingleBit(v) == PopCount(v) = 1
\* bytes, little endian
Bytes(v, w) == [i \in 1..(w \div 8) |-> IF (i % 2) = 1 THEN v[(i + 1) \div 2] % 256 ELSE v[i \div 2] \div 256]
FromBytes(b, w) == IF w = 8 THEN <<b[1]>> ELSE [i \in 1..NLimbs(w) |-> b[2 * i - 1] + 256 * b[2 * i]]
ByteSwap(v, w) == LET b == Bytes(v, w) n == w \div 8 IN FromBytes([i \in 1..n |-> b[n + 1 - i]], w)
\* rotations by k bits to the left (0 <= k < w) via the bit sequence
BitAt(v, i) == (v[(i \div 16) + 1] \div Pow2(i % 16)) % 2                      \* bit i, 0-based
FromBits(bf, w) == [l \in 1..NLimbs(w) |-> SumSeq([j \in 1..LimbW(w) |-> bf[(l - 1) * 16 + (j - 1)] * Pow2(j - 1)])]
Rotl(v, w, k) == FromBits([i \in 0..(w - 1) |-> BitAt(v, (i - k + w) % w)], w)

\* binary32 <-> its object representation
F32Bits(x) == <<x[3] % 65536, x[1] * 32768 + x[2] * 128 + x[3] \div 65536>>
BitsF32(v) == <<v[2] \div 32768, (v[2] % 32768) \div 128, (v[2] % 128) * 65536 + v[1]>>

(* ------------------------------------------ saturation arithmetic ------------------------------------------ *)
\* ty = <<signed (0/1), width>> with width <= 16 so that products fit
TyMin(ty) == IF ty[1] = 1 THEN -Pow2(ty[2] - 1) ELSE 0
TyMax(ty) == IF ty[1] = 1 THEN Pow2(ty[2] - 1) - 1 ELSE Pow2(ty[2]) - 1
Clamp(n, ty) == IF n < TyMin(ty) THEN TyMin(ty) ELSE IF n > TyMax(ty) THEN TyMax(ty) ELSE n
TruncDiv(a, b) == IF (a < 0) = (b < 0) THEN Abs(a) \div Abs(b) ELSE -(Abs(a) \div Abs(b))
SatOp(op, ty, a, b) ==
    CASE op = "add_sat" -> Clamp(a + b, ty)
      [] op = "sub_sat" -> Clamp(a - b, ty)
      [] op = "mul_sat" -> Clamp(a * b, ty)
      [] op = "div_sat" -> Clamp(TruncDiv(a, b), ty)                  \* b # 0 (precondition)

(* ------------------------------------------------- C strings ------------------------------------------------- *)
\* a string is the sequence of its character codes (unsigned char values) WITHOUT the terminator
Sign(n) == IF n < 0 THEN -1 ELSE IF n > 0 THEN 1 ELSE 0
CharAt(s, i) == IF i <= Len(s) THEN s[i] ELSE 0                                  \* reading the terminator
\* strcmp / strncmp: sign of the difference of the first differing unsigned chars (C 7.24.4)
RECURSIVE CmpFrom(_, _, _, _)
CmpFrom(a, b, i, n) ==
    IF i > n THEN 0
    ELSE IF CharAt(a, i) # CharAt(b, i) THEN Sign(CharAt(a, i) - CharAt(b, i))
    ELSE IF CharAt(a, i) = 0 THEN 0
    ELSE CmpFrom(a, b, i + 1, n)
StrCmp(a, b) == CmpFrom(a, b, 1, Len(a) + Len(b) + 1)
StrNCmp(a, b, n) == CmpFrom(a, b, 1, n)
\* strchr: 0-based index of the first occurrence, the terminator counts as part of the string; -1 = null
StrChr(s, c) ==
    LET cc == c % 256 IN
    IF cc = 0 THEN Len(s)
    ELSE IF \E i \in 1..Len(s) : s[i] = cc THEN (CHOOSE i \in 1..Len(s) : s[i] = cc /\ \A j \in 1..(i - 1) : s[j] # cc) - 1
    ELSE -1
StrRChr(s, c) ==
    LET cc == c % 256 IN
    IF cc = 0 THEN Len(s)
    ELSE IF \E i \in 1..Len(s) : s[i] = cc THEN (CHOOSE i \in 1..Len(s) : s[i] = cc /\ \A j \in (i + 1)..Len(s) : s[j] # cc) - 1
    ELSE -1
\* memchr over the first n bytes of the buffer  s ++ <<0>>
MemChr(s, c, n) ==
    LET cc == c % 256 IN
    IF \E i \in 1..n : CharAt(s, i) = cc THEN (CHOOSE i \in 1..n : CharAt(s, i) = cc /\ \A j \in 1..(i - 1) : CharAt(s, j) # cc) - 1
    ELSE -1

(* ------------------------------- algorithms on sequences of (byte) elements ------------------------------- *)
\* elements are integers (the VALUES of the char / signed char / unsigned char elements): the order is the order of
\* the values, never of the representations ([alg.lex.comparison], [alg.equal], [mismatch], ... and the container
\* relational operators defined through them)
RECURSIVE LexLtFrom(_, _, _)
LexLtFrom(a, b, i) ==
    IF i > Len(b) THEN FALSE
    ELSE IF i > Len(a) THEN TRUE
    ELSE IF a[i] < b[i] THEN TRUE
    ELSE IF b[i] < a[i] THEN FALSE
    ELSE LexLtFrom(a, b, i + 1)
LexLt(a, b) == LexLtFrom(a, b, 1)
MinLen(a, b) == IF Len(a) < Len(b) THEN Len(a) ELSE Len(b)
MismatchAt(a, b) ==      \* 0-based offset of the first difference within the common length, else the common length
    IF \E i \in 1..MinLen(a, b) : a[i] # b[i] THEN (CHOOSE i \in 1..MinLen(a, b) : a[i] # b[i] /\ \A j \in 1..(i - 1) : a[j] = b[j]) - 1
    ELSE MinLen(a, b)
FindAt(a, v) == IF \E i \in 1..Len(a) : a[i] = v THEN (CHOOSE i \in 1..Len(a) : a[i] = v /\ \A j \in 1..(i - 1) : a[j] # v) - 1 ELSE Len(a)
CountOf(a, v) == Cardinality({i \in 1..Len(a) : a[i] = v})
MinAt(a) == IF Len(a) = 0 THEN 0 ELSE (CHOOSE i \in 1..Len(a) : (\A j \in 1..Len(a) : a[i] <= a[j]) /\ (\A j \in 1..(i - 1) : a[i] < a[j])) - 1
MaxAt(a) == IF Len(a) = 0 THEN 0 ELSE (CHOOSE i \in 1..Len(a) : (\A j \in 1..Len(a) : a[j] <= a[i]) /\ (\A j \in 1..(i - 1) : a[j] < a[i])) - 1
RelOps(a, b) == <<B2I(a = b), B2I(a # b), B2I(LexLt(a, b)), B2I(~LexLt(b, a)), B2I(LexLt(b, a)), B2I(~LexLt(a, b))>>
\* float elements as codes 0: -0.0, 1: +0.0, 2: 1.0, 3: NaN ;  == on the values
FltEq(i, j) == i # 3 /\ j # 3 /\ (i = j \/ {i, j} = {0, 1})
BytesDef(fn, a) ==
    CASE fn = "lexicographical_compare" -> <<B2I(LexLt(a[1], a[2]))>>
      [] fn = "equal" -> <<B2I(a[1] = a[2])>>
      [] fn = "mismatch" -> <<MismatchAt(a[1], a[2]), MismatchAt(a[1], a[2])>>
      [] fn = "find" -> <<FindAt(a[1], a[3][1])>>
      [] fn = "count" -> <<CountOf(a[1], a[3][1])>>
      [] fn \in {"copy", "move"} -> [i \in 1..5 |-> IF i = 5 THEN Len(a[1]) ELSE IF i <= Len(a[1]) THEN a[1][i] ELSE a[2][i]]
      [] fn = "fill" -> [i \in 1..4 |-> IF i <= Len(a[1]) THEN a[3][1] ELSE a[2][i]]
      [] fn = "min_element" -> <<MinAt(a[1])>>
      [] fn = "max_element" -> <<MaxAt(a[1])>>
      [] fn \in {"vector_relops", "array_relops"} -> RelOps(a[1], a[2])
      [] fn = "equal_flt" -> <<B2I(Len(a[1]) = Len(a[2]) /\ \A i \in 1..Len(a[1]) : FltEq(a[1][i], a[2][i]))>>

(* ------------------------------------- dispatch: definition of a call ------------------------------------- *)
\* op names carry the instantiation:  popcount_u8, byteswap_u32, add_sat_i8, floor_f, lrint_d, ...
\* HasDef(op): an exact definition exists here;  Def(op, a): the expected result (sequence of integers)
BitOps == {"popcount", "countl_zero", "countr_zero", "countl_one", "countr_one", "bit_width", "has_single_bit", "byteswap",
           "rotl", "rotr"}
SatOps == {"add_sat", "sub_sat", "mul_sat", "div_sat"}
StrOps == {"strlen", "strcmp", "strncmp", "strchr", "strrchr", "memchr"}
FloatUnary == ExactUnaryFp \cup ExactUnaryInt \cup ExactUnaryLong
FloatBinary == ExactBinary

FV(f, a) == IF f = F32 THEN V(a[1], a[2], 0, a[3]) ELSE V(a[1], a[2], a[3], a[4])
FSeq(f, v) == IF f = F32 THEN <<v.s, v.e, v.l>> ELSE <<v.s, v.e, v.h, v.l>>

\* ev: [fam, fn, w / ty / p, a]  (family, function, width or type or precision, arguments)
HasDef(ev) ==
    CASE ev.fam = "bit" -> ev.fn \in BitOps
      [] ev.fam = "sat" -> ev.fn \in SatOps
      [] ev.fam = "str" -> ev.fn \in StrOps
      [] ev.fam = "bitcast" -> TRUE
      [] ev.fam = "bytes" -> TRUE
      [] ev.fam = "flt" -> ev.fn \in (FloatUnary \cup {"copysign", "fmin", "fmax", "nextafter"}) \ {"lround", "llround"}
      [] OTHER -> FALSE

\* for relations (NaN payloads, fmin/fmax of +-0, unspecified lrint range) the definition is a predicate on r
DefOK(ev, r) ==
    CASE ev.fam = "bit" ->
            LET v == ev.a[1] w == ev.w IN
            (CASE ev.fn = "popcount" -> r = <<PopCount(v)>>
              [] ev.fn = "countl_zero" -> r = <<CountlZero(v, w)>>
              [] ev.fn = "countr_zero" -> r = <<CountrZero(v, w)>>
              [] ev.fn = "countl_one" -> r = <<CountlOne(v, w)>>
              [] ev.fn = "countr_one" -> r = <<CountrOne(v, w)>>
              [] ev.fn = "bit_width" -> r = <<BitWidth(v, w)>>
              [] ev.fn = "has_single_bit" -> r = <<B2I(HasSingleBit(v))>>
              [] ev.fn = "byteswap" -> r = ByteSwap(v, w)
              [] ev.fn = "rotl" -> r = Rotl(v, w, ev.a[2][1] % w)
              [] ev.fn = "rotr" -> r = Rotl(v, w, (w - (ev.a[2][1] % w)) % w))
      [] ev.fam = "sat" -> r = <<SatOp(ev.fn, ev.ty, ev.a[1][1], ev.a[2][1])>>
      [] ev.fam = "str" ->
            (CASE ev.fn = "strlen" -> r = <<Len(ev.a[1])>>
              [] ev.fn = "strcmp" -> r = <<StrCmp(ev.a[1], ev.a[2])>>
              [] ev.fn = "strncmp" -> r = <<StrNCmp(ev.a[1], ev.a[2], ev.a[3][1])>>
              [] ev.fn = "strchr" -> r = <<StrChr(ev.a[1], ev.a[2][1])>>
              [] ev.fn = "strrchr" -> r = <<StrRChr(ev.a[1], ev.a[2][1])>>
              [] ev.fn = "memchr" -> r = <<MemChr(ev.a[1], ev.a[2][1], ev.a[3][1])>>)
      [] ev.fam = "bitcast" -> IF ev.fn = "f32_to_u32" THEN r = F32Bits(ev.a[1]) ELSE r = BitsF32(ev.a[1])
      [] ev.fam = "bytes" -> r = BytesDef(ev.fn, ev.a)
      [] ev.fam = "flt" ->
            LET f == IF ev.p = "f" THEN F32 ELSE F64 x == FV(f, ev.a[1]) IN
            (CASE ev.fn \in ExactUnaryFp -> Same(f, FV(f, r), UnaryFp(f, ev.fn, x))
              [] ev.fn \in ExactUnaryInt -> r = <<UnaryInt(f, ev.fn, x)>>
              [] ev.fn \in ExactUnaryLong ->
                    LET lr == LongRounded(f, ev.fn, x) IN
                    ~LongInRange(f, lr) \/ (r[5] = 1 /\ V(r[1], r[2], r[3], r[4]) = AsLong(f, lr))
              [] ev.fn \in ExactBinary -> BinaryOK(f, ev.fn, x, FV(f, ev.a[2]), FV(f, r)))

\* is the call inside the domain where constant evaluation has to succeed?  (float calls whose exact result is not
\* finite are not: C++ rejects overflow / NaN production in constant expressions; out-of-range lrint is undefined)
CtRequired(ev) ==
    IF ev.fam # "flt" THEN TRUE
    ELSE LET f == IF ev.p = "f" THEN F32 ELSE F64 x == FV(f, ev.a[1]) IN
         (CASE ev.fn \in ExactUnaryLong -> LongInRange(f, LongRounded(f, ev.fn, x))
            [] ev.fn \in ExactUnaryInt -> TRUE
            [] OTHER -> ~IsNaN(f, x) /\ (Len(ev.a) < 2 \/ ~IsNaN(f, FV(f, ev.a[2]))))
=============================================================================
