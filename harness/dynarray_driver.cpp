// dynamic_array driver (extension module X03, second part; NOT part of tetl).
// Replays the scripts exported by TLC from spec/DynArray.tla on etl::dynamic_array<T, CountingAlloc<T>> (default
// build) or, with -DVH_STD, on std::vector<T, CountingAlloc<T>> used as a fixed-length owning array (calibration).
// Every call is logged (also the path prefix): {op, o, x, pre, post, live, blocks, badfree, obs, inst}.
// No oracle, no comparison: spec/DynArrayTrace.tla judges.
//
// usage: dynarray_driver replay <int|trk> <script.ndjson>
#include "common.hpp"

#include <algorithm>
#include <map>
#include <new>
#include <string>
#include <utility>
#include <vector>

#ifndef VH_STD
    #include <etl/array.hpp>
    #include <etl/memory.hpp>
    #include <etl/utility.hpp>
static char const* const IMPL = "etl";
#else
static char const* const IMPL = "std";
#endif

namespace {
using vh::json;
using vh::Tracked;

// ---- instrumented allocator: remembers what it handed out (an instrument, not a judgement) ----
std::map<void*, std::size_t> g_out; // outstanding blocks -> element count
long g_badfree = 0;

template <typename T>
struct CountingAlloc {
    using value_type = T;
    CountingAlloc()  = default;
    template <typename U>
    CountingAlloc(CountingAlloc<U> const&) noexcept
    {
    }
    T* allocate(std::size_t n)
    {
        void* p  = std::malloc(n * sizeof(T) + 1);
        g_out[p] = n;
        return static_cast<T*>(p);
    }
    void deallocate(T* p, std::size_t n) noexcept
    {
        if (p == nullptr && n == 0) { return; } // nothing was ever allocated for an empty object
        auto it = g_out.find(p);
        if (it == g_out.end() || it->second != n) {
            ++g_badfree;
            return;
        }
        g_out.erase(it);
        std::free(p);
    }
    friend bool operator==(CountingAlloc const&, CountingAlloc const&) { return true; }
    friend bool operator!=(CountingAlloc const&, CountingAlloc const&) { return false; }
};

template <typename T>
struct Runner {
#ifndef VH_STD
    using DA = etl::dynamic_array<T, CountingAlloc<T>>;
#else
    using DA = std::vector<T, CountingAlloc<T>>;
#endif
    alignas(DA) unsigned char store[2][sizeof(DA)];
    bool live[2] = {false, false};
    std::string elem;
    long live0 = 0; // element count at the start of the script
    long nev = 0, nskip = 0;
    bool broken = false;

    explicit Runner(std::string e) : elem(std::move(e)) { }
    ~Runner() { reset(); }
    DA& ob(int i) { return *std::launder(reinterpret_cast<DA*>(store[i])); }
    static int oi(std::string const& o) { return o == "a" ? 0 : 1; }

    void reset()
    {
        for (int i = 0; i < 2; ++i) {
            if (live[i]) {
                ob(i).~DA();
                live[i] = false;
            }
        }
        for (auto& kv : g_out) { std::free(kv.first); } // whatever a defective run left behind
        g_out.clear();
        g_badfree = 0;
        live0     = vh::live_count();
    }

    json contents(int i)
    {
        json r = json::array();
        if (live[i]) {
            DA& d = ob(i);
            std::size_t k = 0;
            for (auto it = d.begin(); it != d.end() && k < 8; ++it, ++k) { r.push_back(vh::val_of(*it)); }
        }
        return r;
    }
    json state() { return json{{"a", {{"live", live[0]}, {"els", contents(0)}}}, {"b", {{"live", live[1]}, {"els", contents(1)}}}}; }
    json observe(int i)
    {
        json q;
        json kf = json::array(), da = json::array(), kd = json::array();
        long sz = 0, ksz = 0;
        if (live[i]) {
            DA& d       = ob(i);
            DA const& k = d;
            sz          = (long)d.size();
            ksz         = (long)k.size();
            std::size_t c = 0;
            for (auto it = k.begin(); it != k.end() && c < 8; ++it, ++c) { kf.push_back(vh::val_of(*it)); }
            for (long j = 0; j < sz && j < 8; ++j) {
                da.push_back(vh::val_of(d.data()[j]));
                kd.push_back(vh::val_of(k.data()[j]));
            }
        }
        q["size"]  = sz;
        q["ksize"] = ksz;
        q["kfwd"]  = kf;
        q["data"]  = da;
        q["kdata"] = kd;
        return q;
    }

    bool apply(std::string const& op, int o, json const& x)
    {
        std::size_t n = (std::size_t)x.value("n", 0);
        int v         = x.value("v", 0);
        void* slot    = store[o];
        if (op == "ctor_default") { new (slot) DA(CountingAlloc<T>{}); live[o] = true; return true; }
        if (op == "ctor_n") { new (slot) DA(n, CountingAlloc<T>{}); live[o] = true; return true; }
        if (op == "ctor_fill") {
            {
                T val(v);
                new (slot) DA(n, val, CountingAlloc<T>{});
            }
            live[o] = true;
            return true;
        }
        if (op == "move_ctor") { new (slot) DA(std::move(ob(1 - o))); live[o] = true; return true; }
        if (op == "move_assign") { ob(o) = std::move(ob(1 - o)); return true; }
        if (op == "dtor") { ob(o).~DA(); live[o] = false; return true; }
        return false;
    }

    void step(json const& ln)
    {
        std::string op = ln["op"].get<std::string>();
        std::string o  = ln["o"].get<std::string>();
        json ev;
        ev["op"]  = op;
        ev["o"]   = o;
        ev["x"]   = ln["x"];
        ev["pre"] = state();
        if (!apply(op, oi(o), ln["x"])) {
            std::fprintf(stderr, "UNSUPPORTED %s %s\n", IMPL, op.c_str());
            ++nskip;
            broken = true;
            return;
        }
        ev["post"] = state();
        ev["live"] = vh::is_tracked<T> ? vh::live_count() - live0 : (long)(contents(0).size() + contents(1).size());
        std::vector<long> bl;
        for (auto const& kv : g_out) {
            if (kv.second > 0) { bl.push_back((long)kv.second); }
        }
        std::sort(bl.begin(), bl.end());
        ev["blocks"]  = bl;
        ev["badfree"] = g_badfree;
        ev["obs"]     = json{{"a", observe(0)}, {"b", observe(1)}};
        ev["inst"]    = std::string(IMPL) + "_" + elem;
        vh::emit(ev);
        ++nev;
    }

    void replay(std::vector<json> const& script)
    {
        for (auto const& ln : script) {
            if (ln.contains("reset")) {
                reset();
                broken = false;
                vh::emit(json{{"op", "reset"}});
                continue;
            }
            if (broken) { continue; }
            step(ln);
        }
    }
};

template <typename T>
int run(std::string const& elem, char const* script)
{
    Runner<T> r(elem);
    r.replay(vh::read_ndjson(script));
    std::fprintf(stderr, "SUMMARY impl=%s elem=%s events=%ld unsupported=%ld\n", IMPL, elem.c_str(), r.nev, r.nskip);
    return 0;
}
} // namespace

int main(int argc, char** argv)
{
    if (argc < 4 || std::string(argv[1]) != "replay") {
        std::fprintf(stderr, "usage: dynarray_driver replay <int|trk> <script>\n");
        return 2;
    }
    std::string elem = argv[2];
    if (elem == "int") { return run<int>(elem, argv[3]); }
    if (elem == "trk") { return run<Tracked>(elem, argv[3]); }
    return 2;
}
