"""IntMath pipeline (spec/IntMath.tla, IntMathOps.tla, BitsIM.tla, WideIM.tla, IntMathTrace.tla,
harness/intmath_driver.cpp).  Serves C14.

  MC/GEN : TLC proves the laws of the model on every 8-bit input and exports the input domain
  replay : the exported domain is executed on uint8_t/int8_t; the driver adds its own 16-bit sweeps and
           32/64-bit boundary + seeded random values
  TV     : every recorded event is judged by IntMathTrace.tla
  calibration: the same calls on libstdc++/glibc/__int128 reference must give zero deviations
"""
import json
import os
from concurrent.futures import ThreadPoolExecutor

import vlib

WIDE_TYPES = ("u32", "i32", "u64", "i64", "ull", "ll", "mixed")


def _split(path, n, outprefix):
    """Split an ndjson file into n files of (almost) equal line count."""
    with open(path, "rb") as f:
        lines = f.readlines()
    if not lines:
        raise vlib.ModelFailure("driver produced no events: " + path)
    n = max(1, min(n, (len(lines) + 19999) // 20000))
    per = (len(lines) + n - 1) // n
    outs = []
    for i in range(n):
        chunk = lines[i * per:(i + 1) * per]
        if not chunk:
            break
        op = "%s_%d.ndjson" % (outprefix, i)
        with open(op, "wb") as g:
            g.writelines(chunk)
        outs.append(op)
    return outs, len(lines)


def model(tier):
    consts = {"quick": {"ZStride": "3"}, "thorough": {"ZStride": "1"}}[tier]
    return vlib.tlc_mc("IntMath.tla", "IntMath.cfg", "intmath_mc_" + tier, workers=8, heap="4g", constants=consts, timeout=1500)


def build_drivers():
    jobs = [dict(src="intmath_driver.cpp", out="intmath_etl", std="c++23"),
            dict(src="intmath_driver.cpp", out="intmath_std", std="c++23", flags=["-DVH_STD"], include_repo=False)]
    p = vlib.build_many(jobs)
    return {"etl": p[0], "std": p[1]}


def run_sweeps(tier, bins, impl):
    """16-bit sweeps (4 parts) and the wide types; returns trace paths and the drivers' stderr."""
    d = vlib.workdir("traces")
    tasks = []
    nparts = 4 if tier == "quick" else 8
    for part in range(nparts):
        tasks.append(([bins[impl], "sweep16", tier, str(part), str(nparts)],
                      os.path.join(d, "intmath_%s_s16_%d.ndjson" % (impl, part))))
    for t in WIDE_TYPES:
        tasks.append(([bins[impl], "wide", tier, t], os.path.join(d, "intmath_%s_wide_%s.ndjson" % (impl, t))))
    res = vlib.run_parallel(tasks, par=8)
    return [t[1] for t in tasks], [e for _, e in res]


def run_replay(bins, impl, genfile):
    d = vlib.workdir("traces")
    tp = os.path.join(d, "intmath_%s_replay8.ndjson" % impl)
    _, err = vlib.run([bins[impl], "replay8", genfile], tp)
    return tp, err


def _tv(paths, tag, nsplit, par):
    chunks = []
    for p in paths:
        c, _ = _split(p, nsplit, p[:-len(".ndjson")] + "_c")
        chunks += c
    return vlib.tv_parallel("IntMathTrace.tla", "IntMathTrace.cfg", chunks, tag, par=par, heap="3g")


def pipeline(tier, rep, calibrate=True):
    par = 8
    with ThreadPoolExecutor(max_workers=2) as ex:
        fmc = ex.submit(model, tier)
        bins = build_drivers()
        # sweeps do not depend on the model run: execute and validate them while TLC explores
        sw_etl, err_etl = run_sweeps(tier, bins, "etl")
        tv_sw = _tv(sw_etl, "intmath_tv_sw_etl", 2 if tier == "quick" else 6, par)
        ctv_sw = None
        if calibrate:
            sw_std, _ = run_sweeps(tier, bins, "std")
            ctv_sw = _tv(sw_std, "intmath_tv_sw_std", 2 if tier == "quick" else 6, par)
        mc = fmc.result()
    rep.add_mc("IntMath", mc)
    rep.cov["exhaustive"] = True
    gen = mc["gen"]
    want = 256 + 256 * 256 + 256 * 261
    if len(gen) != want:
        raise vlib.ModelFailure("IntMath.tla exported %d inputs, expected %d" % (len(gen), want))
    genfile = os.path.join(vlib.workdir("scripts"), "intmath_gen_%s.ndjson" % tier)
    with open(genfile, "w") as f:
        for g in gen:
            f.write(json.dumps(g) + "\n")
    rp_etl, err_rp = run_replay(bins, "etl", genfile)
    tv_rp = _tv([rp_etl], "intmath_tv_rp_etl", 2 * par, 2 * par)
    rep.add_tv("IntMath", tv_rp, len(gen), "8-bit domain exported by TLC")
    rep.add_tv("IntMath", tv_sw, len(sw_etl), "16-bit sweeps, 32/64-bit boundary and seeded random values")
    rep.cov["modules"]["IntMath"]["not_drivable"] = ["sub_sat / mul_sat (not provided by etl)"]
    rep.sample({"module": "IntMath", "input": gen[len(gen) // 2]})
    if calibrate:
        rp_std, _ = run_replay(bins, "std", genfile)
        ctv_rp = _tv([rp_std], "intmath_tv_rp_std", 2 * par, 2 * par)
        for ctv in (ctv_sw, ctv_rp):
            if ctv["deviations"]:
                dv = ctv["deviations"][0]
                raise vlib.ModelFailure("calibration: the reference implementation deviates from the IntMath spec "
                                        "(spec/projection error): %s %s" % (dv["kind"], json.dumps(dv.get("ev"))[:500]))
        rep.cov["modules"]["IntMath"]["calibration_events_std"] = ctv_sw["events"] + ctv_rp["events"]
    return tv_rp, tv_sw
