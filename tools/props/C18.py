"""C18 - the C-library reimplementations (cctype, cwctype, cstring, cwchar, div/labs) behave like the
host C library in the "C" locale."""
from pipes import clib


def run(tier, rep):
    clib.pipeline(tier, rep)
    rep.assumptions += [
        "strings up to length 4 (thorough: 5 for the byte family) over {a, b, one code >= 0x80}; blocks with embedded "
        "zeros up to length 3 (4); longer strings only through seeded random vectors",
        "the wide classification functions are compared on [WEOF, 0..767] (thorough 0..8191): glibc's \"C\" locale "
        "classifies nothing above 0x7f in that range",
        "ASCII execution character set; wchar_t is a signed 32-bit type (Linux x86-64); g++ only, so etl's own loops "
        "are exercised, not the clang builtin branch",
        "div/ldiv/lldiv/imaxdiv/labs/llabs are driven with operands inside 32 bits",
        "reads outside the source strings are not observable by this check (C02 runs under ASan); writes are: the "
        "whole block including guard cells on both sides of every region is compared",
        "the TLA+ reading of ISO C 7.4/7.24/7.29.4/7.22.6 is calibrated against glibc on the same vectors (zero "
        "deviations required)"]


def replay(path):
    return clib.replay(path, "C18")
