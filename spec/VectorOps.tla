--------------------------- MODULE VectorOps ---------------------------
(* Constant-free meaning of every operation of a fixed-capacity vector (static_vector,            *)
(* inplace_vector, stack on top of them), written as the std::vector / std::stack clause over    *)
(* sequences.  Used by Vector.tla (state machine, model checked + behaviours exported) and by      *)
(* VectorTrace.tla (judging executions recorded from the real templates).                          *)
(*                                                                                                 *)
(* A state s is a record [a |-> Seq(Int), b |-> Seq(Int)] : the two objects of a history.          *)
(* A call is (op, o, x): operation name, target object, uniform argument record                    *)
(*     x = [v, p, q, n, xs, src]  (value, position, second position, count, sequence, other obj).  *)
(* Positions are 0-based iterator offsets.  Returned iterators/references are offsets, void is 0,  *)
(* a null pointer is -1.                                                                            *)
EXTENDS Naturals, Integers, Sequences, FiniteSets

Min2(a, b) == IF a < b THEN a ELSE b
Ins(s, p, t) == SubSeq(s, 1, p) \o t \o SubSeq(s, p + 1, Len(s))
Cut(s, p, q) == SubSeq(s, 1, p) \o SubSeq(s, q + 1, Len(s))
Fill(n, v) == [i \in 1..n |-> v]
Rev(s) == [i \in 1..Len(s) |-> s[Len(s) + 1 - i]]
Odd(v) == v % 2 = 1 \/ v % 2 = -1
Count(s, P(_)) == Cardinality({i \in 1..Len(s) : P(s[i])})
DefaultVal == 0

LexLess(s, t) ==
    \E k \in 0..Min2(Len(s), Len(t)) :
        /\ \A i \in 1..k : s[i] = t[i]
        /\ \/ k = Len(s) /\ k < Len(t)
           \/ k < Len(s) /\ k < Len(t) /\ s[k + 1] < t[k + 1]

\* ---- operation classes ---------------------------------------------------------------------
PushOps == {"push_back", "push_back_mv", "emplace_back"}
UncheckedOps == {"unchecked_push_back", "unchecked_push_back_mv", "unchecked_emplace_back"}
TryOps == {"try_push_back", "try_push_back_mv", "try_emplace_back"}
InsertOneOps == {"emplace", "insert_copy", "insert_move"}
MoveSrcOps == {"move_assign", "ctor_move"}   \* leave x.src "valid but unspecified"
TwoObjOps == {"swap", "fswap", "copy_assign", "move_assign", "ctor_copy", "ctor_move"}

AllOps == PushOps \cup UncheckedOps \cup TryOps \cup InsertOneOps \cup TwoObjOps \cup
          {"pop_back", "insert_fill", "insert_range", "insert_self", "erase_pos", "erase_range",
           "clear", "resize", "resize_val", "assign_fill", "assign_range", "ctor_default",
           "ctor_n", "ctor_fill", "ctor_range", "erase_val", "erase_if_odd", "at", "front", "back", "ctor_dinit"}
ReadOps == {"at", "front", "back"}    \* element access with a documented precondition

\* ---- precondition: the call is inside the domain the property quantifies over ---------------
Pre(op, o, x, s, cap) ==
    LET e == s[o] n == Len(s[o]) IN
    CASE op \in PushOps \cup UncheckedOps \cup InsertOneOps -> n < cap /\ (op \in InsertOneOps => x.p \in 0..n)
      [] op \in TryOps -> TRUE
      [] op = "pop_back" -> n > 0
      [] op = "insert_fill" -> x.p \in 0..n /\ x.n >= 0 /\ n + x.n <= cap
      [] op = "insert_range" -> x.p \in 0..n /\ n + Len(x.xs) <= cap
      [] op = "insert_self" -> x.p \in 0..n /\ x.q \in 0..(n - 1) /\ n < cap
      [] op = "erase_pos" -> x.p \in 0..(n - 1)
      [] op = "at" -> x.p \in 0..(n - 1)
      [] op \in {"front", "back"} -> n > 0
      [] op = "erase_range" -> x.p \in 0..n /\ x.q \in x.p..n
      [] op \in {"resize", "resize_val", "assign_fill", "ctor_n", "ctor_fill"} -> x.n \in 0..cap
      [] op \in {"assign_range", "ctor_range"} -> Len(x.xs) <= cap
      [] op \in {"ctor_copy", "ctor_move", "move_assign"} -> x.src # o
      [] OTHER -> op \in AllOps

\* ---- effect ---------------------------------------------------------------------------------
\* new contents of the target object and the return value
Tgt(op, o, x, s, cap) ==
    LET e == s[o] n == Len(s[o]) IN
    CASE op \in PushOps -> [els |-> Append(e, x.v), ret |-> 0]
      [] op \in UncheckedOps -> [els |-> Append(e, x.v), ret |-> n]
      [] op \in TryOps -> IF n = cap THEN [els |-> e, ret |-> -1] ELSE [els |-> Append(e, x.v), ret |-> n]
      [] op = "pop_back" -> [els |-> SubSeq(e, 1, n - 1), ret |-> 0]
      [] op \in InsertOneOps -> [els |-> Ins(e, x.p, <<x.v>>), ret |-> x.p]
      [] op = "insert_fill" -> [els |-> Ins(e, x.p, Fill(x.n, x.v)), ret |-> x.p]
      [] op = "insert_range" -> [els |-> Ins(e, x.p, x.xs), ret |-> x.p]
      [] op = "insert_self" -> [els |-> Ins(e, x.p, <<e[x.q + 1]>>), ret |-> x.p]
      [] op = "erase_pos" -> [els |-> Cut(e, x.p, x.p + 1), ret |-> x.p]
      [] op = "erase_range" -> [els |-> Cut(e, x.p, x.q), ret |-> x.p]
      [] op = "clear" -> [els |-> <<>>, ret |-> 0]
      [] op = "at" -> [els |-> e, ret |-> e[x.p + 1]]
      [] op = "front" -> [els |-> e, ret |-> e[1]]
      [] op = "back" -> [els |-> e, ret |-> e[n]]
      [] op = "resize" -> [els |-> IF x.n <= n THEN SubSeq(e, 1, x.n) ELSE e \o Fill(x.n - n, DefaultVal), ret |-> 0]
      [] op = "resize_val" -> [els |-> IF x.n <= n THEN SubSeq(e, 1, x.n) ELSE e \o Fill(x.n - n, x.v), ret |-> 0]
      [] op \in {"assign_fill", "ctor_fill"} -> [els |-> Fill(x.n, x.v), ret |-> 0]
      [] op \in {"assign_range", "ctor_range"} -> [els |-> x.xs, ret |-> 0]
      [] op \in {"ctor_default", "ctor_dinit"} -> [els |-> <<>>, ret |-> 0]
      [] op = "ctor_n" -> [els |-> Fill(x.n, DefaultVal), ret |-> 0]
      [] op \in {"swap", "fswap", "copy_assign", "move_assign", "ctor_copy", "ctor_move"} -> [els |-> s[x.src], ret |-> 0]
      [] op = "erase_val" -> [els |-> SelectSeq(e, LAMBDA y : y # x.v), ret |-> Count(e, LAMBDA y : y = x.v)]
      [] op = "erase_if_odd" -> [els |-> SelectSeq(e, LAMBDA y : ~Odd(y)), ret |-> Count(e, Odd)]

\* full post-state for the deterministic reading (moved-from source modelled as emptied)
Eff(op, o, x, s, cap) ==
    LET t == Tgt(op, o, x, s, cap) IN
    [st |-> IF op \in {"swap", "fswap"} /\ x.src # o THEN [s EXCEPT ![o] = s[x.src], ![x.src] = s[o]]
            ELSE [s EXCEPT ![o] = t.els],
     ret |-> t.ret]

\* the relation a recorded (post, ret) has to satisfy
Post(op, o, x, s, cap, t, r) ==
    LET ef == Eff(op, o, x, s, cap) IN
    /\ r = ef.ret
    /\ IF op \in MoveSrcOps
       THEN /\ t[o] = ef.st[o]
            /\ Len(t[x.src]) <= cap          \* source: valid, contents unspecified
       ELSE t = ef.st

\* ---- observers: every observer is a function of the abstract contents only -------------------
ObsOne(ob, e, cap) ==
    /\ ob.size = Len(e)
    /\ ob.empty = (Len(e) = 0)
    /\ "full" \in DOMAIN ob => ob.full = (Len(e) = cap)
    /\ "cap" \in DOMAIN ob => ob.cap = cap
    /\ "maxsize" \in DOMAIN ob => ob.maxsize = cap
    /\ "idx" \in DOMAIN ob => ob.idx = e
    /\ "cidx" \in DOMAIN ob => ob.cidx = e
    /\ "dat" \in DOMAIN ob => ob.dat = e
    /\ "rev" \in DOMAIN ob => ob.rev = Rev(e)
    /\ "crev" \in DOMAIN ob => ob.crev = Rev(e)
    /\ "front" \in DOMAIN ob => ob.front = (IF Len(e) = 0 THEN -1 ELSE e[1])
    /\ "back" \in DOMAIN ob => ob.back = (IF Len(e) = 0 THEN -1 ELSE e[Len(e)])

CmpOK(c, a, b) ==       \* c = <<eq, ne, lt, le, gt, ge>> of a against b
    /\ c[1] = (a = b)
    /\ c[2] = (a # b)
    /\ c[3] = LexLess(a, b)
    /\ c[4] = ~LexLess(b, a)
    /\ c[5] = LexLess(b, a)
    /\ c[6] = ~LexLess(a, b)

ObsOK(obs, t, cap) ==
    /\ "corrupt" \notin DOMAIN obs
    /\ ObsOne(obs.a, t.a, cap)
    /\ ObsOne(obs.b, t.b, cap)
    /\ "cmp" \in DOMAIN obs => CmpOK(obs.cmp, t.a, t.b)
=========================================================================
