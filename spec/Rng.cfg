SPECIFICATION Spec
CONSTANTS
  Modes = {"orbit", "seeds", "w16", "xs", "xo"}
  Full = FALSE
INVARIANTS Laws EmitInv
CHECK_DEADLOCK FALSE
