---------------------------- MODULE SumOps ----------------------------
(* Constant-free meaning of every operation of the sum types optional / variant / expected          *)
(* ([optional], [variant], [expected], P2988 for optional<T&>), over abstract objects               *)
(*        ob = [idx |-> active index (0-based, as index()), val |-> value held]                      *)
(*   optional<T>   = alternatives <<"none", T>>     idx 0 disengaged (val 0), idx 1 engaged          *)
(*   variant<Ts..> = alternatives Ts                                                                *)
(*   expected<T,E> = alternatives <<T, E>>          idx 0 value, idx 1 error                         *)
(*   optional<T&>  = alternatives <<"none","ref">>  val = number (1..2) of the referent bound;       *)
(*                                                   s.r = values of the two referents               *)
(* A state s = [a, b, r].  A call is (op, o, x) with the uniform argument record                     *)
(*     x = [i, v, t, src, d, si, m]   alternative index, value, source type tag, other object,       *)
(*                                    default value, engaged flag of a foreign optional<U>, 1 = the  *)
(*                                    value argument is passed as rvalue                             *)
(* Every return value is a sequence of integers (TLC cannot compare values of different kinds).      *)
(* Type tags: "int" "bool" "trk" (non-trivial element type of the harness) "mono" "shrt" "long".     *)
(* A moved-from "trk" value is MOVED (that is how the harness' element type is written); a           *)
(* moved-from object keeps its index ([optional.ctor]/8, [variant.ctor]/10, [expected]).             *)
EXTENDS Naturals, Integers, Sequences, FiniteSets

MOVED == -1
NULLV == -99        \* "null pointer" in get_if / operator-> projections
NA == -1            \* relational form not provided by the instantiation (reported as not drivable)

Arith == {"int", "bool", "shrt", "long"}
Dom(t) == CASE t \in {"int", "trk", "shrt", "long"} -> 0..2
            [] t = "bool" -> 0..1
            [] t = "ref" -> 1..2
            [] OTHER -> {0}
TC(t) == CASE t = "int" -> 1 [] t = "bool" -> 2 [] t = "trk" -> 3 [] t = "mono" -> 4 [] t = "shrt" -> 5
           [] t = "long" -> 6 [] OTHER -> 0
Ty(alts, i) == alts[i + 1]
\* type-based forms (in_place_type, emplace<T>, get_if<T>, holds_alternative<T>) need T to occur exactly once
UniqueAt(alts, j) == Cardinality({k \in 1..Len(alts) : alts[k] = alts[j]}) = 1
ILL == -98          \* projection of a type-based observer that is ill-formed for this alternative
\* value of type S converted to type T
Cv(S, T, v) == IF T = "bool" THEN (IF v = 0 THEN 0 ELSE 1) ELSE IF T \in {"mono", "none"} THEN 0 ELSE v
B(p) == IF p THEN 1 ELSE 0
Other(o) == IF o = "a" THEN "b" ELSE "a"
Empty == [idx |-> 0, val |-> 0]

\* ---- which alternative a converting constructor / assignment of variant selects ([variant.ctor]/14,
\*      P0608R3): imaginary overload set FUN(T_j) for every T_j with  T_j x[] = {forward<T>(t)}  well-formed
\* implicit conversion S -> T: 0 exact, 1 promotion, 2 conversion, 3 user-defined, 9 none
Rank(S, T) == IF S = T THEN 0
              ELSE IF S \in {"shrt", "bool"} /\ T = "int" THEN 1
              ELSE IF S \in Arith /\ T \in Arith THEN 2
              ELSE IF S \in Arith /\ T = "trk" THEN 3
              ELSE 9
Narrow(S, T) == Rank(S, T) = 2 /\ S # "bool" /\ T # "long"
Viable(S, alts) == {j \in 1..Len(alts) : Rank(S, alts[j]) < 9 /\ ~Narrow(S, alts[j])}
Best(S, alts) == {j \in Viable(S, alts) : \A k \in Viable(S, alts) : Rank(S, alts[j]) <= Rank(S, alts[k])}
Selectable(S, alts) == Cardinality(Best(S, alts)) = 1
Select(S, alts) == CHOOSE j \in Best(S, alts) : TRUE
\* direct-initialisation T(S) used by optional / expected
Constructible(S, T) == Rank(S, T) < 9

\* ---- helpers ---------------------------------------------------------------------------------
Engaged(kind, ob) == IF kind = "expected" THEN ob.idx = 0 ELSE ob.idx = 1
Mv(alts, ob) == IF Ty(alts, ob.idx) = "trk" THEN [ob EXCEPT !.val = MOVED] ELSE ob
\* the value an observer reads
PVal(kind, s, ob) == IF kind = "optref" THEN (IF ob.idx = 1 THEN s.r[ob.val] ELSE 0) ELSE ob.val
Key(kind, s, ob) == <<ob.idx, PVal(kind, s, ob)>>
Less(p, q) == p[1] < q[1] \/ (p[1] = q[1] /\ p[2] < q[2])
\* <<==, !=, <, <=, >, >=>> of p against q
Flags6(p, q) == <<B(p = q), B(p # q), B(Less(p, q)), B(~Less(q, p)), B(Less(q, p)), B(~Less(p, q))>>
\* expected has == and != only
FlagsEq(e) == <<B(e), B(~e), NA, NA, NA, NA>>
FlagsOK(got, want) == Len(got) = 6 /\ \A k \in 1..6 : got[k] = NA \/ got[k] = want[k]

\* the fixed callables the harness passes to the monadic operations
FAnd(kind, v) == IF v = 1 THEN (IF kind = "expected" THEN [idx |-> 1, val |-> 7] ELSE Empty)
                 ELSE [idx |-> IF kind = "expected" THEN 0 ELSE 1, val |-> v + 10]
GOrOpt == [idx |-> 1, val |-> 1]
GOrExp(e) == IF e = 1 THEN [idx |-> 1, val |-> 8] ELSE [idx |-> 0, val |-> 1]
HTr(v) == v + 5

\* ---- operation classes -----------------------------------------------------------------------
ValueOps == {"ctor_value", "assign_value"}
\* aliasing converting assignment  o = <reference to o's own held value>  ([variant.assign]/13: "if *this holds a T_j,
\* assigns to the value contained", [optional.assign]: "if *this contains a value, assigns to the contained value"):
\* the value is unchanged and the contained object is neither destroyed nor constructed
SelfOps == {"assign_self"}
UnexOps == {"ctor_unexpected", "assign_unexpected"}
PlaceOps == {"ctor_inplace", "ctor_inplace_t", "emplace", "emplace_t"}
CopyOps == {"ctor_copy", "assign_copy"}
MoveOps == {"ctor_move", "assign_move"}
SwapOps == {"swap", "fswap"}
ConvOps == {"ctor_conv_copy", "ctor_conv_move", "assign_conv_copy", "assign_conv_move"}
ClearOps == {"ctor_default", "ctor_nullopt", "assign_nullopt", "reset"}
TwoObjOps == CopyOps \cup MoveOps \cup SwapOps
SelfMvOps == {"value_or_mv", "deref_mv", "error_mv", "visit_mv"}
MonadOps == {"and_then", "or_else", "transform", "transform_error"}
ReadOps == {"deref", "arrow", "value", "error", "value_or", "error_or"}
CmpOps == {"cmp_value", "cmp_value_r", "cmp_null", "cmp_null_r", "cmp_mixed", "cmp_mixed_r", "cmp_unexpected"}
\* visit / visit_with_index over two variants of different types: the object and a foreign variant H3 / H4 in state
\* (x.i, x.v); x.si = 0: visit(f, object, foreign), 1: visit(f, foreign, object)
HetOps == {"visit_het", "vwi_het"}
HAlts(t) == IF t = "h3" THEN <<"int", "bool", "trk">> ELSE <<"int", "bool", "trk", "mono">>
PureOps == MonadOps \cup ReadOps \cup CmpOps \cup HetOps \cup {"conv_ref", "unex"}
\* monadic operations the harness calls twice: on the object and through a const reference (both overloads)
Doubled(kind, op) == (op = "and_then" /\ kind \in {"optional", "expected"}) \/ (op = "or_else" /\ kind = "expected")

OpsOf(kind) ==
    CASE kind = "optional" ->
            ClearOps \cup ValueOps \cup SelfOps \cup {"ctor_inplace", "emplace"} \cup TwoObjOps \cup ConvOps
            \cup {"value_or_mv", "deref_mv", "and_then", "or_else", "transform", "deref", "arrow", "value", "value_or",
                  "cmp_value", "cmp_value_r", "cmp_null", "cmp_null_r", "cmp_mixed", "cmp_mixed_r"}
      [] kind = "optref" ->
            ClearOps \cup ValueOps \cup {"emplace"} \cup TwoObjOps
            \cup {"deref", "arrow", "value", "value_or", "write_through", "and_then", "or_else", "transform",
                  "cmp_value", "cmp_value_r", "cmp_null", "cmp_null_r", "conv_ref"}
      [] kind = "variant" ->
            {"ctor_default", "visit_mv"} \cup ValueOps \cup SelfOps \cup PlaceOps \cup TwoObjOps \cup HetOps
      [] kind = "expected" ->
            {"ctor_default", "ctor_inplace", "emplace"} \cup ValueOps \cup SelfOps \cup UnexOps \cup TwoObjOps
            \cup {"value_or_mv", "deref_mv", "error_mv", "and_then", "or_else", "transform", "transform_error",
                  "deref", "arrow", "value", "error", "value_or", "error_or", "cmp_value", "cmp_unexpected", "unex"}
      [] OTHER -> {}

\* ---- precondition: the call is inside the domain the property quantifies over -----------------
Pre(kind, alts, op, o, x, s) ==
    LET ob == s[o] n == Len(alts) IN
    /\ op \in OpsOf(kind)
    /\ CASE op \in ValueOps ->
                IF kind = "variant" THEN Selectable(x.t, alts)
                ELSE IF kind = "optref" THEN x.v \in 1..2
                ELSE IF kind = "expected" THEN Constructible(x.t, alts[1])
                ELSE Constructible(x.t, alts[2])
         [] op \in SelfOps ->
                \* the held alternative is the one a value of its own type selects
                IF kind = "variant" THEN Selectable(Ty(alts, ob.idx), alts) /\ Select(Ty(alts, ob.idx), alts) = ob.idx + 1
                ELSE Engaged(kind, ob)
         [] op \in UnexOps -> Constructible(x.t, alts[2])
         [] op \in PlaceOps ->
                /\ x.i \in 0..(n - 1)
                /\ x.v \in Dom(Ty(alts, x.i))
                /\ (kind \in {"optional", "optref"} => x.i = 1)
                /\ (kind = "expected" /\ op = "emplace" => x.i = 0)
                /\ (op \in {"ctor_inplace_t", "emplace_t"} => UniqueAt(alts, x.i + 1))
         [] op \in MoveOps \cup {"ctor_copy"} -> x.src = Other(o)
         [] op \in ConvOps \cup {"cmp_mixed", "cmp_mixed_r"} -> Constructible(x.t, alts[2]) /\ x.si \in 0..1 /\ (x.si = 0 => x.v = 0)
         [] op \in {"deref", "arrow", "value", "deref_mv", "write_through"} -> Engaged(kind, ob)
         [] op \in {"error", "error_mv"} -> ~Engaged(kind, ob)
         [] op = "conv_ref" -> x.si \in 0..1
         [] op \in HetOps -> /\ x.t \in {"h3", "h4"} /\ x.si \in 0..1
                             /\ x.i \in 0..(Len(HAlts(x.t)) - 1) /\ x.v \in Dom(Ty(HAlts(x.t), x.i))
         [] OTHER -> TRUE

\* ---- effect ----------------------------------------------------------------------------------
\* new value of the target object for the operations that (re)initialise it
NewT(kind, alts, op, o, x, s) ==
    CASE op \in ClearOps -> Empty
      [] op \in ValueOps ->
            IF kind = "variant" THEN LET j == Select(x.t, alts) IN [idx |-> j - 1, val |-> Cv(x.t, alts[j], x.v)]
            ELSE IF kind = "optref" THEN [idx |-> 1, val |-> x.v]
            ELSE IF kind = "expected" THEN [idx |-> 0, val |-> Cv(x.t, alts[1], x.v)]
            ELSE [idx |-> 1, val |-> Cv(x.t, alts[2], x.v)]
      [] op \in UnexOps -> [idx |-> 1, val |-> Cv(x.t, alts[2], x.v)]
      [] op \in PlaceOps -> [idx |-> x.i, val |-> x.v]
      [] op \in TwoObjOps -> s[x.src]
      [] op \in ConvOps -> IF x.si = 0 THEN Empty ELSE [idx |-> 1, val |-> Cv(x.t, alts[2], x.v)]

MonadRet(kind, alts, op, s, ob) ==
    LET e == Engaged(kind, ob) v == PVal(kind, s, ob) IN
    CASE op = "and_then" ->
            IF e THEN <<FAnd(kind, v).idx, FAnd(kind, v).val, 1, v>>
            ELSE IF kind = "expected" THEN <<1, v, 0, 0>> ELSE <<0, 0, 0, 0>>
      [] op = "or_else" ->
            IF kind = "expected"
            THEN (IF e THEN <<0, v, 0, 0>> ELSE <<GOrExp(v).idx, GOrExp(v).val, 1, v>>)
            ELSE (IF e THEN <<1, v, 0, 0>> ELSE <<GOrOpt.idx, GOrOpt.val, 1, 0>>)
      [] op = "transform" ->
            IF e THEN <<ob.idx, HTr(v), 1, v>>
            ELSE IF kind = "expected" THEN <<1, v, 0, 0>> ELSE <<0, 0, 0, 0>>
      [] op = "transform_error" ->
            IF e THEN <<0, v, 0, 0>> ELSE <<1, HTr(v), 1, v>>

Eff(kind, alts, op, o, x, s) ==
    LET ob == s[o] e == Engaged(kind, ob) pv == PVal(kind, s, ob) IN
    CASE op \in SwapOps -> [st |-> [s EXCEPT ![o] = s[x.src], ![x.src] = s[o]], ret |-> <<>>]
      [] op \in MoveOps -> [st |-> [s EXCEPT ![o] = s[x.src], ![x.src] = Mv(alts, s[x.src])], ret |-> <<>>]
      [] op \in {"emplace", "emplace_t"} ->
            LET st2 == [s EXCEPT ![o] = NewT(kind, alts, op, o, x, s)] IN
            [st |-> st2, ret |-> <<PVal(kind, st2, st2[o])>>]
      [] op \in {"ctor_conv_copy", "assign_conv_copy"} ->
            [st |-> [s EXCEPT ![o] = NewT(kind, alts, op, o, x, s)], ret |-> <<x.si, x.v>>]
      [] op \in {"ctor_conv_move", "assign_conv_move"} ->
            [st |-> [s EXCEPT ![o] = NewT(kind, alts, op, o, x, s)],
             ret |-> <<x.si, IF x.si = 1 /\ x.t = "trk" THEN MOVED ELSE x.v>>]
      [] op \in ClearOps \cup ValueOps \cup UnexOps \cup {"ctor_inplace", "ctor_inplace_t"} \cup CopyOps ->
            [st |-> [s EXCEPT ![o] = NewT(kind, alts, op, o, x, s)], ret |-> <<>>]
      [] op \in SelfOps -> [st |-> s, ret |-> <<>>]
      [] op = "value_or" -> [st |-> s, ret |-> <<IF e THEN pv ELSE x.d>>]
      [] op = "value_or_mv" -> [st |-> IF e THEN [s EXCEPT ![o] = Mv(alts, ob)] ELSE s, ret |-> <<IF e THEN pv ELSE x.d>>]
      [] op = "error_or" -> [st |-> s, ret |-> <<IF e THEN x.d ELSE pv>>]
      [] op \in {"deref", "arrow", "value", "error"} -> [st |-> s, ret |-> <<pv>>]
      [] op \in {"deref_mv", "error_mv"} -> [st |-> [s EXCEPT ![o] = Mv(alts, ob)], ret |-> <<pv>>]
      [] op = "visit_mv" ->
            \* visitor called once with the active alternative as an rvalue (category code 3), result passed through
            [st |-> [s EXCEPT ![o] = Mv(alts, ob)], ret |-> <<TC(Ty(alts, ob.idx)), pv, 3, 1, 100 * TC(Ty(alts, ob.idx)) + pv>>]
      \* the visitor is called exactly once, with the ACTIVE alternative of each argument, in argument order:
      \* visit logs <<type, value, type, value, #calls>>, visit_with_index <<index, value, index, value, #calls>>
      [] op = "visit_het" ->
            LET mine == <<TC(Ty(alts, ob.idx)), pv>> other == <<TC(Ty(HAlts(x.t), x.i)), x.v>> IN
            [st |-> s, ret |-> (IF x.si = 0 THEN mine \o other ELSE other \o mine) \o <<1>>]
      [] op = "vwi_het" ->
            LET mine == <<ob.idx, pv>> other == <<x.i, x.v>> IN
            [st |-> s, ret |-> (IF x.si = 0 THEN mine \o other ELSE other \o mine) \o <<1>>]
      [] op = "write_through" -> [st |-> [s EXCEPT !.r[ob.val] = x.v], ret |-> <<x.v>>]
      [] op \in MonadOps ->
            LET m == MonadRet(kind, alts, op, s, ob) IN [st |-> s, ret |-> IF Doubled(kind, op) THEN m \o m ELSE m]
      \* unexpected<E> u1(v), u2(d): <<u1.error(), u1 == u2, u1.error() and u2.error() after swap(u1, u2)>>
      [] op = "unex" -> [st |-> s, ret |-> <<x.v, B(x.v = x.d), x.d, x.v>>]
      [] op = "cmp_value" ->
            [st |-> s, ret |-> IF kind = "expected" THEN FlagsEq(e /\ pv = x.v) ELSE Flags6(Key(kind, s, ob), <<1, x.v>>)]
      [] op = "cmp_value_r" -> [st |-> s, ret |-> Flags6(<<1, x.v>>, Key(kind, s, ob))]
      [] op = "cmp_unexpected" -> [st |-> s, ret |-> FlagsEq(~e /\ pv = x.v)]
      [] op = "cmp_null" -> [st |-> s, ret |-> Flags6(Key(kind, s, ob), <<0, 0>>)]
      [] op = "cmp_null_r" -> [st |-> s, ret |-> Flags6(<<0, 0>>, Key(kind, s, ob))]
      [] op = "cmp_mixed" -> [st |-> s, ret |-> Flags6(Key(kind, s, ob), <<x.si, x.v>>)]
      [] op = "cmp_mixed_r" -> [st |-> s, ret |-> Flags6(<<x.si, x.v>>, Key(kind, s, ob))]
      [] op = "conv_ref" -> [st |-> s, ret |-> <<x.si, IF x.si = 1 THEN x.v ELSE 0>>]

\* the relation a recorded (post, ret) has to satisfy
Post(kind, alts, op, o, x, s, t, r) ==
    LET ef == Eff(kind, alts, op, o, x, s) IN
    /\ t = ef.st
    /\ IF op \in CmpOps THEN FlagsOK(r, ef.ret) ELSE r = ef.ret

\* ---- observers: every observer is a function of the abstract object only ----------------------
ObsOne(kind, alts, q, s, ob) ==
    LET pv == PVal(kind, s, ob) n == Len(alts) t == Ty(alts, ob.idx) IN
    /\ "has" \in DOMAIN q => q.has = Engaged(kind, ob)
    /\ "bool" \in DOMAIN q => q.bool = Engaged(kind, ob)
    /\ "idx" \in DOMAIN q => q.idx = ob.idx
    /\ "arrow" \in DOMAIN q => q.arrow = pv
    /\ "gi" \in DOMAIN q => q.gi = [j \in 1..n |-> IF j - 1 = ob.idx THEN pv ELSE NULLV]
    /\ "gic" \in DOMAIN q => q.gic = [j \in 1..n |-> IF j - 1 = ob.idx THEN pv ELSE NULLV]
    /\ "git" \in DOMAIN q => q.git = [j \in 1..n |-> IF ~UniqueAt(alts, j) THEN ILL ELSE IF j - 1 = ob.idx THEN pv ELSE NULLV]
    /\ "holds" \in DOMAIN q => q.holds = [j \in 1..n |-> IF ~UniqueAt(alts, j) THEN ILL ELSE B(j - 1 = ob.idx)]
    /\ "ug" \in DOMAIN q => q.ug = pv
    /\ "sub" \in DOMAIN q => q.sub = pv
    \* visit: <<type code, value, category (1 lvalue, 2 const lvalue), #visitor calls, result passed through>>
    /\ "visit" \in DOMAIN q => q.visit = <<TC(t), pv, 1, 1, 100 * TC(t) + pv>>
    /\ "visitc" \in DOMAIN q => q.visitc = <<TC(t), pv, 2, 1, 100 * TC(t) + pv>>
    \* visit_with_index: <<index, type code, value, #calls>>
    /\ "vwi" \in DOMAIN q => q.vwi = <<ob.idx, TC(t), pv, 1>>

ObsOK(kind, alts, obs, s) ==
    /\ ObsOne(kind, alts, obs.a, s, s.a)
    /\ ObsOne(kind, alts, obs.b, s, s.b)
    /\ "cmp" \in DOMAIN obs =>
          FlagsOK(obs.cmp, IF kind = "expected" THEN FlagsEq(Key(kind, s, s.a) = Key(kind, s, s.b))
                           ELSE Flags6(Key(kind, s, s.a), Key(kind, s, s.b)))
    \* visit with two variants: <<type a, value a, type b, value b, #calls>>
    /\ "v2" \in DOMAIN obs =>
          obs.v2 = <<TC(Ty(alts, s.a.idx)), s.a.val, TC(Ty(alts, s.b.idx)), s.b.val, 1>>

\* cells alive in an object's storage (lifetime monitor, LifeOps): the active alternative if non-trivial
Els(alts, ob) == IF Ty(alts, ob.idx) = "trk" THEN <<ob.val>> ELSE <<>>
=======================================================================
