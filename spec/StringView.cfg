SPECIFICATION Spec
CONSTANTS
  Alphabet = {0, 200}
  MaxH = 4
  MaxN = 4
  MaxC5 = 2
INVARIANTS TypeOK DeclEqOper Laws EmitInv
CHECK_DEADLOCK FALSE
