------------------------------ MODULE WideIM ------------------------------
(* Exact integers beyond TLC's 32-bit arithmetic, and the integer utilities of <numeric>, <utility>  *)
(* and etl/_math defined on them.                                                                    *)
(*   natural number  = little-endian sequence of limbs base WB, no most-significant zero limb;       *)
(*                     zero is <<>>                                                                   *)
(*   integer (Z)     = [neg |-> BOOLEAN, m |-> natural], neg = FALSE for zero (canonical, so = works)*)
(* WB = 2^LB is a parameter: the trace specification instantiates WB = 2^15 (limb products stay below 2^30); *)
(* IntMath.tla also instantiates WB = 4, which spreads an 8-bit value over four limbs, so that TLC     *)
(* exercises every carry/borrow path when it proves these definitions equal to plain TLC arithmetic.  *)
EXTENDS Integers, Sequences

CONSTANTS WB, LB
ASSUME WB = 2^LB /\ LB >= 1 /\ LB <= 15

\* ---- naturals -----------------------------------------------------------------------------------
Limb(a, i) == IF i <= Len(a) THEN a[i] ELSE 0

RECURSIVE NNorm(_)
NNorm(a) == IF a = <<>> THEN a ELSE IF a[Len(a)] = 0 THEN NNorm(SubSeq(a, 1, Len(a) - 1)) ELSE a

RECURSIVE NOfInt(_)
NOfInt(x) == IF x = 0 THEN <<>> ELSE <<x % WB>> \o NOfInt(x \div WB)          \* x >= 0

RECURSIVE NToIntR(_, _)
NToIntR(a, i) == IF i > Len(a) THEN 0 ELSE a[i] + WB * NToIntR(a, i + 1)
NToInt(a) == NToIntR(a, 1)                                                     \* only if it fits

NCmp(a, b) ==
    IF Len(a) # Len(b) THEN (IF Len(a) < Len(b) THEN -1 ELSE 1)
    ELSE LET RECURSIVE c(_)
             c(i) == IF i = 0 THEN 0
                     ELSE IF a[i] # b[i] THEN (IF a[i] < b[i] THEN -1 ELSE 1) ELSE c(i - 1)
         IN c(Len(a))

RECURSIVE NAddR(_, _, _, _)
NAddR(a, b, i, c) ==
    IF i > Len(a) /\ i > Len(b) THEN (IF c = 0 THEN <<>> ELSE <<c>>)
    ELSE LET s == Limb(a, i) + Limb(b, i) + c IN <<s % WB>> \o NAddR(a, b, i + 1, s \div WB)
NAdd(a, b) == NAddR(a, b, 1, 0)

\* a - b for a >= b
RECURSIVE NSubR(_, _, _, _)
NSubR(a, b, i, br) ==
    IF i > Len(a) THEN <<>>
    ELSE LET d == a[i] - Limb(b, i) - br IN
         IF d < 0 THEN <<d + WB>> \o NSubR(a, b, i + 1, 1) ELSE <<d>> \o NSubR(a, b, i + 1, 0)
NSub(a, b) == NNorm(NSubR(a, b, 1, 0))

\* a * d for a small factor d (d * WB < 2^31; d may exceed WB)
RECURSIVE NMulLimbR(_, _, _, _)
NMulLimbR(a, d, i, c) ==
    IF i > Len(a) THEN NOfInt(c)
    ELSE LET p == a[i] * d + c IN <<p % WB>> \o NMulLimbR(a, d, i + 1, p \div WB)
NMulLimb(a, d) == IF d = 0 THEN <<>> ELSE NMulLimbR(a, d, 1, 0)

NShiftLimbs(a, k) == IF a = <<>> THEN a ELSE [i \in 1..k |-> 0] \o a

RECURSIVE NMulR(_, _, _)
NMulR(a, b, j) == IF j > Len(b) THEN <<>>
                  ELSE NAdd(NShiftLimbs(NMulLimb(a, b[j]), j - 1), NMulR(a, b, j + 1))
NMul(a, b) == NMulR(a, b, 1)

NOdd(a) == a # <<>> /\ a[1] % 2 = 1                                            \* WB is even
NDouble(a) == NAdd(a, a)

\* floor(a / 2): from the top limb down, carrying the remainder
RECURSIVE NHalfR(_, _, _)
NHalfR(a, i, r) == IF i = 0 THEN <<>>
                   ELSE LET v == r * WB + a[i] IN NHalfR(a, i - 1, v % 2) \o <<v \div 2>>
NHalf(a) == NNorm(NHalfR(a, Len(a), 0))

\* 2^n: by repeated doubling (definition) and written down limb by limb (used; IntMath.tla: equal)
RECURSIVE NPow2Def(_)
NPow2Def(n) == IF n = 0 THEN <<1>> ELSE NDouble(NPow2Def(n - 1))
NPow2(n) == [i \in 1..((n \div LB) + 1) |-> IF i = (n \div LB) + 1 THEN 2^(n % LB) ELSE 0]

\* value of a 0/1 sequence, index 1 least significant
RECURSIVE NOfBitsR(_, _)
NOfBitsR(b, i) == IF i > Len(b) THEN <<>>
                  ELSE NAdd(NDouble(NOfBitsR(b, i + 1)), IF b[i] = 1 THEN <<1>> ELSE <<>>)
NOfBits(b) == NOfBitsR(b, 1)

\* value of a little-endian array of 16-bit limbs (how 32/64-bit words are logged): Horner, 65536 = 256 * 256
RECURSIVE NOfLimbs16R(_, _)
NOfLimbs16R(l, k) == IF k > Len(l) THEN <<>>
                     ELSE NAdd(NMulLimb(NMulLimb(NOfLimbs16R(l, k + 1), 256), 256), NOfInt(l[k]))
NOfLimbs16(l) == NOfLimbs16R(l, 1)

\* schoolbook binary long division: a = q*b + r, 0 <= r < b   (b # 0)
RECURSIVE NDivMod(_, _)
NDivMod(a, b) ==
    IF a = <<>> THEN [q |-> <<>>, r |-> <<>>]
    ELSE LET h == NDivMod(NHalf(a), b)
             r2 == NAdd(NDouble(h.r), IF NOdd(a) THEN <<1>> ELSE <<>>)
             q2 == NDouble(h.q)
         IN IF NCmp(r2, b) >= 0 THEN [q |-> NAdd(q2, <<1>>), r |-> NSub(r2, b)]
            ELSE [q |-> q2, r |-> r2]

\* greatest common divisor, twice: Euclid on NDivMod and Stein's binary algorithm (IntMath.tla: equal)
RECURSIVE NGcdEuclid(_, _)
NGcdEuclid(a, b) == IF b = <<>> THEN a ELSE NGcdEuclid(b, NDivMod(a, b).r)

RECURSIVE NGcd(_, _)
NGcd(a, b) ==
    IF a = <<>> THEN b ELSE IF b = <<>> THEN a
    ELSE IF ~NOdd(a) /\ ~NOdd(b) THEN NDouble(NGcd(NHalf(a), NHalf(b)))
    ELSE IF ~NOdd(a) THEN NGcd(NHalf(a), b)
    ELSE IF ~NOdd(b) THEN NGcd(a, NHalf(b))
    ELSE IF NCmp(a, b) >= 0 THEN NGcd(NSub(a, b), b) ELSE NGcd(a, NSub(b, a))

\* ---- integers ------------------------------------------------------------------------------------
ZMk(neg, m) == [neg |-> (neg /\ m # <<>>), m |-> m]
Z0 == ZMk(FALSE, <<>>)
ZOfInt(x) == IF x < 0 THEN ZMk(TRUE, NOfInt(0 - x)) ELSE ZMk(FALSE, NOfInt(x))
ZToInt(z) == IF z.neg THEN 0 - NToInt(z.m) ELSE NToInt(z.m)                   \* only if it fits
ZNeg(z) == ZMk(~z.neg, z.m)
ZAbs(z) == ZMk(FALSE, z.m)
ZSign(z) == IF z.m = <<>> THEN 0 ELSE IF z.neg THEN -1 ELSE 1

ZCmp(x, y) == IF x.neg # y.neg THEN (IF x.neg THEN -1 ELSE 1)
              ELSE IF x.neg THEN NCmp(y.m, x.m) ELSE NCmp(x.m, y.m)
ZLt(x, y) == ZCmp(x, y) < 0
ZLe(x, y) == ZCmp(x, y) <= 0

ZAdd(x, y) == IF x.neg = y.neg THEN ZMk(x.neg, NAdd(x.m, y.m))
              ELSE IF NCmp(x.m, y.m) >= 0 THEN ZMk(x.neg, NSub(x.m, y.m))
              ELSE ZMk(y.neg, NSub(y.m, x.m))
ZSub(x, y) == ZAdd(x, ZNeg(y))
ZMul(x, y) == ZMk(x.neg # y.neg, NMul(x.m, y.m))

\* the C++ operators / and % (quotient truncated toward zero, remainder has the sign of the dividend)
ZQuot(x, y) == ZMk(x.neg # y.neg, NDivMod(x.m, y.m).q)
ZRem(x, y) == ZMk(x.neg, NDivMod(x.m, y.m).r)

\* two's complement word (0/1 sequence) of a type with signedness s -> integer
ZOfBits(b, s) == LET n == NOfBits(b) IN
                 IF s = 1 /\ b[Len(b)] = 1 THEN ZMk(TRUE, NSub(NPow2(Len(b)), n)) ELSE ZMk(FALSE, n)

\* numeric_limits of the integer type with w value+sign bits and signedness s
ZMin(w, s) == IF s = 1 THEN ZMk(TRUE, NPow2(w - 1)) ELSE Z0
ZMax(w, s) == ZMk(FALSE, NSub(NPow2(IF s = 1 THEN w - 1 ELSE w), <<1>>))

\* two's complement word given as 16-bit limbs -> integer
ZOfLimbs16(l, w, s) == LET n == NOfLimbs16(l) IN
                       IF s = 1 /\ l[Len(l)] >= 32768 THEN ZMk(TRUE, NSub(NPow2(w), n)) ELSE ZMk(FALSE, n)
ZFits(z, w, s) == ZLe(ZMin(w, s), z) /\ ZLe(z, ZMax(w, s))
ZClamp(z, w, s) == IF ZLt(z, ZMin(w, s)) THEN ZMin(w, s) ELSE IF ZLt(ZMax(w, s), z) THEN ZMax(w, s) ELSE z

\* ---- the utilities on exact integers ------------------------------------------------------------------
\* [numeric.sat.func]: "the result of the infinitely precise operation if representable, otherwise the
\* largest or smallest representable value, whichever is closer"
AddSatZ(x, y, w, s) == ZClamp(ZAdd(x, y), w, s)
SubSatZ(x, y, w, s) == ZClamp(ZSub(x, y), w, s)
MulSatZ(x, y, w, s) == ZClamp(ZMul(x, y), w, s)
DivSatZ(x, y, w, s) == ZClamp(ZQuot(x, y), w, s)                               \* precondition y # 0
SatCastZ(x, w, s) == ZClamp(x, w, s)                                           \* [numeric.sat.cast]

\* [numeric.ops.midpoint]: "half the sum of a and b; no overflow occurs; if the sum is odd the result is
\* rounded towards a"   =   a + trunc((b - a) / 2)
MidpointZ(a, b) == LET d == ZSub(b, a) IN ZAdd(a, ZMk(d.neg, NHalf(d.m)))

\* [numeric.ops.gcd]/[numeric.ops.lcm]: on |m| and |n|; gcd(0,0) = 0; lcm = 0 if either is 0
GcdZ(a, b) == ZMk(FALSE, NGcd(a.m, b.m))
LcmZ(a, b) == IF a.m = <<>> \/ b.m = <<>> THEN Z0
              ELSE ZMk(FALSE, NMul(NDivMod(a.m, NGcd(a.m, b.m)).q, b.m))

\* base^e for e >= 0, or "out" as soon as the magnitude exceeds lim (keeps the computation bounded)
RECURSIVE NPowCap(_, _, _, _)
NPowCap(acc, base, e, lim) ==
    IF e = <<>> THEN [ok |-> TRUE, v |-> acc]
    ELSE LET p == NMul(acc, base) IN
         IF NCmp(p, lim) > 0 THEN [ok |-> FALSE, v |-> <<>>]
         ELSE NPowCap(p, base, NSub(e, <<1>>), lim)

\* IPowZ(b, e, w, s) = [ok, v]: ok iff b^e is representable in (w, s); e >= 0
IPowZ(b, e, w, s) ==
    LET lim == NPow2(w) IN
    IF e.m = <<>> THEN [ok |-> TRUE, v |-> ZOfInt(1)]
    ELSE IF b.m = <<>> THEN [ok |-> TRUE, v |-> Z0]
    ELSE IF b.m = <<1>> THEN [ok |-> TRUE, v |-> ZMk(b.neg /\ NOdd(e.m), <<1>>)]
    ELSE LET r == NPowCap(<<1>>, b.m, e.m, lim)
             z == ZMk(b.neg /\ NOdd(e.m), r.v)
         IN IF r.ok /\ ZFits(z, w, s) THEN [ok |-> TRUE, v |-> z] ELSE [ok |-> FALSE, v |-> Z0]
=============================================================================
