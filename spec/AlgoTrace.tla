--------------------------- MODULE AlgoTrace ---------------------------
(* Trace validation for the algorithm family.  Every event recorded from the real templates         *)
(*   [op, inst, a, b, m, v, c, oa, ob, od, oc, r, p, cz]                                             *)
(* is judged by Post / PredOK of AlgoOps (kinds "post", "pred-range", "canary"; "stable-doc" for an   *)
(* algorithm whose own documentation promises stability).  Deviations are printed as DEV lines, not   *)
(* fatal.  Independently the validator checks that the driver covered the input domain of            *)
(* AlgoDom exactly: events of one (op, inst) group are contiguous, every input lies in the domain,    *)
(* keys strictly increase (no input twice) and the group has DomSize(op) events - otherwise a         *)
(* "harness-*" deviation, which tools/vlib.py turns into a model failure, never a verdict.            *)
EXTENDS AlgoDom, Json, IOUtils, TLC

Tr == ndJsonDeserialize(IOEnv.TRACE)

VARIABLES l, nbad, grp
\* grp = [op, inst, cnt, key, done] : the current group and the set of groups already closed

DocStableOps == {"bubble_sort"}    \* "The order of equal elements is guaranteed to be preserved."

Out(ev) == [oa |-> ev.oa, ob |-> ev.ob, od |-> ev.od, oc |-> ev.oc, r |-> ev.r]

Judge(ev) ==
    IF ev.op = "#end" THEN "ok"
    ELSE IF ev.op \notin AllOps THEN "harness-op"
    ELSE IF ~InDom(ev.op, ev) THEN "harness-domain"
    ELSE IF ~Post(ev.op, ev, Out(ev)) THEN "post"
    ELSE IF ~PredOK(ev, ev.p) THEN "pred-range"
    ELSE IF ev.cz # 1 THEN "canary"
    ELSE IF ev.op \in DocStableOps /\ ~StableSorted(ev.oa, ev.a, ev.c) THEN "stable-doc"
    ELSE "ok"

Expected(ev) == IF ev.op \in AllOps /\ InDom(ev.op, ev) THEN ToJson(Ref(ev.op, ev)) ELSE "-"

\* coverage bookkeeping: verdict for the group structure at event ev
GroupVerdict(ev) ==
    IF ev.op = grp.op /\ ev.inst = grp.inst
    THEN IF KeyLess(grp.key, KeyOf(ev)) THEN "ok" ELSE "harness-order"
    ELSE IF grp.op # "" /\ grp.cnt # DomSize(grp.op) THEN "harness-coverage"
    ELSE IF <<ev.op, ev.inst>> \in grp.done THEN "harness-regroup"
    ELSE "ok"

GroupNext(ev) ==
    IF ev.op = grp.op /\ ev.inst = grp.inst
    THEN [grp EXCEPT !.cnt = @ + 1, !.key = KeyOf(ev)]
    ELSE [op |-> ev.op, inst |-> ev.inst, cnt |-> 1, key |-> IF ev.op = "#end" THEN <<>> ELSE KeyOf(ev),
          done |-> grp.done \cup {<<grp.op, grp.inst>>}]

Init == l = 1 /\ nbad = 0 /\ grp = [op |-> "", inst |-> "", cnt |-> 0, key |-> <<>>, done |-> {}]

Next ==
    /\ l <= Len(Tr)
    /\ l' = l + 1
    /\ grp' = GroupNext(Tr[l])
    /\ LET v == Judge(Tr[l])
           g == GroupVerdict(Tr[l])
           e == IF l = Len(Tr) /\ Tr[l].op # "#end" THEN "harness-noend" ELSE "ok" IN
       /\ nbad' = nbad + (IF v = "ok" THEN 0 ELSE 1) + (IF g = "ok" THEN 0 ELSE 1) + (IF e = "ok" THEN 0 ELSE 1)
       /\ (v = "ok" \/ PrintT(<<"DEV", l, v, Expected(Tr[l])>>))
       /\ (g = "ok" \/ PrintT(<<"DEV", l, g, ToJson([op |-> grp.op, inst |-> grp.inst, cnt |-> grp.cnt])>>))
       /\ (e = "ok" \/ PrintT(<<"DEV", l, e, "-">>))

Spec == Init /\ [][Next]_<<l, nbad, grp>>
Consumed == TLCGet("stats").diameter - 1 = Len(Tr)
==========================================================================
