"""C12 - duration arithmetic and rounding casts are exact rational arithmetic."""
from pipes import duration


def run(tier, rep):
    duration.pipeline(tier, rep)
    rep.assumptions += [
        "inputs are selected by TLC: the exact result is representable AND the arithmetic the standard prescribes "
        "(duration_cast through common_type<To::rep, Rep, intmax_t>, operators through the common type) has no signed overflow",
        "floating-point results are judged only where they are exact (all intermediates below 2^53, dyadic quotient)",
        "integer representations are int64_t and int32_t, the floating one is double; counts are integral",
        "the TLA+ reading of std::chrono is calibrated against libstdc++ on the identical inputs (zero deviations required)",
    ]
