"""C10 - integer <-> text conversion is exact, round-trips, and respects the buffer."""
from pipes import intconv


def run(tier, rep):
    intconv.pipeline(tier, rep)
    rep.assumptions += [
        "LP64, two's complement, ASCII; char is not driven separately (same code as signed char)",
        "8-bit types: every value x every base x every buffer length 0..len+2 (TLC-enumerated); 16-bit types exhaustively "
        "only in the thorough tier (buffers exact-1/exact/exact+2); 32/64-bit types: powers of the base +-1, limits, "
        "limits/base +-1 and seeded random values",
        "parse inputs: every text up to 3 (thorough 4) characters over {' ','-','+','0','1','2','9','x','F'} for bases "
        "{0,2,8,10,16,36} plus a sign/space/prefix/overflow grammar for every type; quick tier: grammar for bases "
        "{2,8,10,16,36,0} + 2 seeded bases, boundary values for 12 bases; thorough: all 35 bases",
        "sto* in etl has no error channel (no exceptions): only calls that succeed in the standard are compared; "
        "ato* out-of-range results are undefined in C and not compared; strto* errno is not observable in etl",
        "etl::strings::to_integer/from_integer have no standard counterpart: they are judged as from_chars after optional "
        "white space (end pointer only on success) and as to_chars plus optional terminator; not calibrated directly",
        "on value_too_large the contents of [first,last) are unspecified and not compared; bytes outside are (guards)",
        "the TLA+ reading of [charconv], ISO C 7.22.1 and [string.conversions] is calibrated against libstdc++/glibc 2.36 "
        "on the same jobs (zero deviations required)"]


def replay(path):
    return intconv.replay(path, "C10")
