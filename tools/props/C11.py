"""C11 - calendar conversions are a Gregorian bijection over the whole year range."""
import os

from pipes import calendar


def run(tier, rep):
    selftest = os.environ.get("VERIF_SELFTEST") == "1"     # mutation self-test: etl side only
    calendar.pipeline(tier, rep, calibrate=not selftest, walk=not selftest)
    if selftest:
        rep.notes.append("VERIF_SELFTEST=1: calibration and walker model checking skipped")
    rep.assumptions += [
        "day 0 = 1970-01-01 is a Thursday and the civil successor with the Gregorian leap rule define the calendar; "
        "the closed forms used by the judge are proved equal to that walker by TLC on the eras listed in the evidence",
        "quick tier sweeps years -800..800 (year 0), 1900..2100 (day 0), both ends of the year range and three years around every 400-year era start; "
        "the thorough tier sweeps every sys_days of years -32767..32767",
        "arithmetic is driven on results that stay inside years -32767..32767 (outside, the standard leaves the value unspecified)",
        "the TLA+ reading of std::chrono is calibrated against libstdc++ on the identical inputs (zero deviations required)",
    ]


def replay(path):
    """Re-execute the recorded deviation: the inputs are enumerated by TLC (no randomness), so the whole etl side of
    the tier is re-run on the current tree and the recorded event is looked up among the deviations.
    Exit 1 (VIOLATION line) if it deviates again, 0 if the current tree no longer shows it."""
    import json
    import vlib
    rec = json.load(open(path))
    tier = os.environ.get("VERIF_TIER", "quick")
    rep = vlib.Report("C11", tier)
    calendar.pipeline(tier, rep, calibrate=False, walk=False)
    same = [d for d in rep.devs if d.get("ev") == rec.get("event")]
    if same:
        print("VIOLATION property=C11 replay=%s" % path)
        print("  kind=%s expected=%s" % (same[0]["kind"], json.dumps(same[0].get("expected"))[:300]))
        return 1
    print("not reproduced on this tree in tier %s (%d events validated, %d other deviation(s))"
          % (tier, rep.cov["events_validated"], len(rep.devs)))
    return 0
