"""C17 - bitset equals std::bitset for every size and operation history."""
import json
import os

import vlib
from pipes import bitset


def run(tier, rep):
    tv, st = bitset.pipeline(tier, rep)
    # debugging aid only (never read by a check): the raw deviations of this run
    with open(os.path.join(vlib.workdir("bitset"), "devs_%s.json" % tier), "w") as f:
        json.dump(rep.devs, f)
    rep.assumptions += [
        "exhaustive part: every pair of values of widths 1..4 (thorough: 1..5); operations involving both objects from every pair, "
        "single-object operations while the other object is zero, the constructor family from the initial state",
        "widths below/at/above a storage word {1,7,8,9,31,32,33,63,64,65,127,128,129} by seeded random histories only",
        "string constructors inside the common domain of std and etl: pos <= size, used characters are zero/one, zero != one, "
        "at most N characters used (etl declares len <= size() a precondition; std would throw for the others)",
        "to_ulong/to_ullong are observed for N <= 64 (etl does not offer them above, std throws on overflow)",
        "basic_bitset is driven through its own surface (unchecked_set/reset/flip/test; it has no string constructors, operator~ or conversions)",
        "the TLA+ reading of std::bitset is calibrated against libstdc++ std::bitset on the same scripts and histories",
    ]

