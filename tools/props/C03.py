"""C03 - each element is constructed once and destroyed once; no leak or double destroy.
Vector family part: the life events recorded with the Tracked element types (copy+move, move-only,
copy-only) are judged by spec/LifeOps.tla inside VectorTrace.tla (deviation kinds life-*), the global
constructed-minus-destroyed balance after the owners are gone (life-balance), and self-assignment /
self-swap must leave the value unchanged (post deviations of calls with src = target)."""
from pipes import vector


def _mine(d):
    ev = d.get("ev", {})
    if d["kind"].startswith("life"):
        return True
    return d["kind"] == "post" and ev.get("op") in ("copy_assign", "swap", "fswap") and ev.get("x", {}).get("src") == ev.get("o")


def run(tier, rep):
    vector.pipeline(tier, rep)
    rep.devs = [d for d in rep.devs if _mine(d)]
    rep.assumptions += ["element lifetimes are observed through the special members of the harness' Tracked types",
                        "trivially-copyable elements are invisible to the monitor by definition",
                        "cells are named by owner storage region and index (data() + i), never by raw address"]
