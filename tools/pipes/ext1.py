"""Shared helper of the extension modules X01..X04: contained replay.
A driver that dies inside a call (a defect of the code under test: null dereference, runaway loop into unmapped
memory) must not end the check as a model failure.  Like vlib.run_scripts_resilient, but it also hands back the
driver's stderr (UNSUPPORTED / SUMMARY lines): the driver is restarted behind the script in flight and a
{"op":"trap"} event is written in its place, which the trace specs judge as deviation kind `crash`.
The driver must print {"op":"reset"} for every {"reset":1} line when VH_MARK is set."""
import json
import os
import shutil
from concurrent.futures import ThreadPoolExecutor

import vlib


def replay(cmd_of, scripts, out_path, tag, chunk=4000, par=2, timeout=600):
    """scripts: list of lists of call dicts; cmd_of(script_file) -> argv.
    Returns dict(lines=<lines in out_path>, traps=[...], stderr=[lines], markers=<reset markers seen>)."""
    d = vlib.workdir("resilient", tag)
    shutil.rmtree(d, ignore_errors=True)
    os.makedirs(d)
    chunks = [scripts[i:i + chunk] for i in range(0, len(scripts), chunk)]

    def one(ci):
        todo = chunks[ci]
        outp = os.path.join(d, "out_%d.ndjson" % ci)
        traps, errs, runs = [], [], 0
        with open(outp, "wb") as outf:
            while todo:
                sp = os.path.join(d, "script_%d_%d.ndjson" % (ci, runs))
                vlib.write_scripts(todo, sp)
                part = os.path.join(d, "part_%d_%d.ndjson" % (ci, runs))
                rc, err = vlib.run(cmd_of(sp), part, timeout=timeout, env={"VH_MARK": "1"}, ok_codes=None)
                errs += err.splitlines()
                runs += 1
                nreset, keep, cur = 0, [], []
                for ln in open(part, "rb").read().split(b"\n"):
                    if not ln:
                        continue
                    if ln.startswith(b'{"op":"reset"}'):
                        nreset += 1
                        keep += cur
                        cur = [ln]
                    else:
                        cur.append(ln)
                if rc == 0:
                    keep += cur
                    outf.write(b"\n".join(keep) + (b"\n" if keep else b""))
                    break
                keep += [l for l in cur if vlib._is_json(l)]
                outf.write(b"\n".join(keep) + (b"\n" if keep else b""))
                if nreset == 0:
                    raise vlib.ModelFailure("driver died before the first script: rc=%s %s" % (rc, err[-800:]))
                crashed = todo[nreset - 1]
                rep = [l for l in err.splitlines() if "ERROR" in l or "runtime error" in l or "SUMMARY" in l]
                trap = {"op": "trap", "rc": rc, "script": crashed, "events_in_script": max(0, len(cur) - 1),
                        "report": (rep[0] if rep else err[-300:])[:400], "inst": tag}
                outf.write(json.dumps(trap).encode() + b"\n")
                traps.append(trap)
                todo = todo[nreset:]
                if runs > 200:
                    raise vlib.ModelFailure("more than 200 driver deaths in one chunk (%s)" % tag)
        return outp, traps, errs
    with ThreadPoolExecutor(max_workers=par) as ex:
        res = list(ex.map(one, range(len(chunks))))
    lines = markers = 0
    with open(out_path, "wb") as f:
        for outp, _, _ in res:
            for ln in open(outp, "rb"):
                f.write(ln)
                lines += 1
                if ln.startswith(b'{"op":"reset"}'):
                    markers += 1
    shutil.rmtree(d, ignore_errors=True)
    traps = [t for _, ts, _ in res for t in ts]
    for t in traps:
        vlib.log("[trap] %s rc=%s %s" % (tag, t["rc"], json.dumps(t["script"][-1])[:200]))
    return {"lines": lines, "traps": traps, "stderr": [l for _, _, es in res for l in es], "markers": markers}
