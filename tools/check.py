#!/usr/bin/env python3
"""Entry point: python3 tools/check.py <property-id> [--tier quick|thorough] [--replay <path>]"""
import importlib
import os
import sys

sys.path.insert(0, os.path.dirname(os.path.abspath(__file__)))
import vlib  # noqa: E402


def main():
    if len(sys.argv) < 2:
        print("usage: check.py <id> [--tier quick|thorough] [--replay path]", file=sys.stderr)
        return 2
    pid = sys.argv[1]
    del sys.argv[1]
    import argparse
    ap = argparse.ArgumentParser()
    ap.add_argument("--tier", default=os.environ.get("VERIF_TIER", "quick"), choices=["quick", "thorough"])
    ap.add_argument("--replay", default=None)
    a = ap.parse_args()
    try:
        mod = importlib.import_module("props." + pid)
        if a.replay:
            return mod.replay(a.replay)
        rep = vlib.Report(pid, a.tier, getattr(mod, "LEVEL", "model_checking"))
        mod.run(a.tier, rep)
        return rep.finish()
    except vlib.ModelFailure as e:
        print("MODEL-FAILURE property=%s: %s" % (pid, e), file=sys.stderr)
        return 2


if __name__ == "__main__":
    sys.exit(main())
