// C15 harness: a small fixed main around the generated tables (tools/gen_types.py writes them under
// /verif/build/types/..., never committed).  No oracle, no comparison: every row evaluates one trait /
// concept / numeric_limits member / ratio operation of namespace X at compile time and prints the value.
//   -DVH_STD            : X = std (calibration build), otherwise X = etl
//   -DVH_DECLS="file"   : generated class/enum definitions, type aliases T<i> and their JSON terms TJ[i]
//   -DVH_ROWS="file"    : generated rows of this translation unit (one statement per line)
#include "types_support.hpp"

#include <cstdint>

#if defined(VH_STD)
    #include <concepts>
    #include <limits>
    #include <ratio>
    #include <type_traits>
namespace X = std;
#else
    #include <etl/concepts.hpp>
    #include <etl/limits.hpp>
    #include <etl/ratio.hpp>
    #include <etl/type_traits.hpp>
namespace X = etl;
#endif

#include VH_DECLS

static void run()
{
#include VH_ROWS
}

int main()
{
    static char buf[1 << 16];
    std::setvbuf(stdout, buf, _IOFBF, sizeof buf);
    run();
    std::fflush(stdout);
    return 0;
}
