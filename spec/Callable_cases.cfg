SPECIFICATION SpecCases
INVARIANTS EmitCase CaseLaws
CHECK_DEADLOCK FALSE
