--------------------------- MODULE VectorTrace ---------------------------
(* Trace validation for the vector family: every event recorded from the real templates            *)
(* ([op, o, x, pre, post, ret, cap, obs] + optional life events) is judged by the operators of      *)
(* VectorOps / LifeOps.  Deviations are collected (printed as DEV lines), not fatal, so the whole   *)
(* trace is always examined; tools/vlib.py turns them into KNOWN-FINDING / VIOLATION.               *)
EXTENDS VectorOps, LifeOps, Json, IOUtils, TLC

Tr == ndJsonDeserialize(IOEnv.TRACE)

VARIABLES l, nbad

LifeVerdict(ev) ==
    LET owners0 == <<[r |-> 1, els |-> ev.pre.a], [r |-> 2, els |-> ev.pre.b]>>
        owners1 == <<[r |-> 1, els |-> ev.post.a], [r |-> 2, els |-> ev.post.b]>>
        f0 == InitCells(owners0, ev.life.ext)
        run == LRun(f0, ev.life.evs, 1)
    IN IF run.bad # 0 THEN "life-protocol"
       ELSE IF ~FinalOK(run.f, owners1, {ev.life.extend[j] : j \in 1..Len(ev.life.extend)}) THEN "life-final"
       ELSE "ok"

\* Contract build (C05): a call outside the documented precondition must end in the assertion handler,
\* with a location, and - all vector preconditions are visible from the arguments - with both objects
\* still exactly as before the call.  A call inside the precondition must never reach the handler.
\* a violating *constructor* call has no object yet whose state could be preserved (the harness destroys
\* the old object first); only the other object must be untouched
CtorOps == {"ctor_default", "ctor_n", "ctor_fill", "ctor_range", "ctor_copy", "ctor_move"}
OtherObj(o) == IF o = "a" THEN "b" ELSE "a"

Judge(ev) ==
    IF ev.op = "reset" THEN "ok"
    ELSE IF ev.op = "owner_end" THEN (IF ev.live = 0 THEN "ok" ELSE "life-balance")
    ELSE IF ev.op = "trap" THEN "mem-trap"      \* a sanitizer / signal stopped a call the model considers valid (C02)
    ELSE IF "outcome" \in DOMAIN ev /\ ~Pre(ev.op, ev.o, ev.x, ev.pre, ev.cap) THEN
        (IF ev.outcome # "handler" THEN "contract-missed"
         ELSE IF ev.hline <= 0 THEN "contract-nolocation"
         ELSE IF ev.op \in CtorOps /\ ev.snap[OtherObj(ev.o)] # ev.pre[OtherObj(ev.o)] THEN "contract-modified"
         ELSE IF ev.op \notin CtorOps /\ ev.snap # ev.pre THEN "contract-modified"
         ELSE "ok")
    ELSE IF ~Pre(ev.op, ev.o, ev.x, ev.pre, ev.cap) THEN "harness-pre"
    ELSE IF "outcome" \in DOMAIN ev /\ ev.outcome # "returned" THEN "contract-spurious"
    ELSE IF ~Post(ev.op, ev.o, ev.x, ev.pre, ev.cap, ev.post, ev.ret) THEN "post"
    ELSE IF ~ObsOK(ev.obs, ev.post, ev.cap) THEN "obs"
    ELSE IF "allocs" \in DOMAIN ev /\ ev.allocs # 0 THEN "mem-alloc"     \* C02: never calls a dynamic allocator
    ELSE IF "life" \in DOMAIN ev THEN LifeVerdict(ev)
    ELSE "ok"

Expected(ev) ==
    IF ev.op \notin {"reset", "owner_end", "trap"} /\ "post" \in DOMAIN ev /\ Pre(ev.op, ev.o, ev.x, ev.pre, ev.cap)
    THEN ToJson(Eff(ev.op, ev.o, ev.x, ev.pre, ev.cap)) ELSE "-"

Init == l = 1 /\ nbad = 0

Next ==
    /\ l <= Len(Tr)
    /\ l' = l + 1
    /\ LET v == Judge(Tr[l]) IN
       IF v = "ok" THEN nbad' = nbad
       ELSE /\ nbad' = nbad + 1
            /\ PrintT(<<"DEV", l, v, Expected(Tr[l])>>)

Spec == Init /\ [][Next]_<<l, nbad>>
Consumed == TLCGet("stats").diameter - 1 = Len(Tr)
==========================================================================
