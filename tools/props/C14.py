"""C14 - bit and integer utilities equal their mathematical definition for all values."""
from pipes import intmath


def run(tier, rep):
    intmath.pipeline(tier, rep)
    rep.assumptions += [
        "two's complement, 8-bit bytes, little-endian host (the driver logs std::endian::native and the spec follows it)",
        "8-bit types: every value / every pair (domain exported by TLC); 16-bit: every value for the bit functions, "
        "a boundary+stride+seeded sample (quick) or every value (thorough) x a 16-value boundary grid for the others",
        "32/64-bit: every single bit, all-ones-below-bit, +-1 neighbours, limits, structured and seeded random pairs only",
        "calls outside a function's documented domain (bit_ceil above 2^(w-1), abs(min), gcd/lcm/ipow/idiv with an "
        "unrepresentable result, division by zero) are executed where possible but not judged",
        "the TLA+ reading of <bit>/<numeric>/<utility> is calibrated against libstdc++ 12, glibc htons/htonl and an "
        "__int128 reference for the C++26 saturation functions and the etl-only helpers",
    ]
