"""Memory-helper pipeline (extension X04): spec/Mem.tla (one TLC run per family), MemOps.tla, MemTrace.tla,
harness/mem_driver.cpp.  Families: align, ident (assume_aligned / to_address / addressof), pip (pointer_int_pair),
sptr (small_ptr), uninit (uninitialized_* / destroy* / construct_at with life events), mono (monotonic_allocator)."""
import json
import os
from collections import Counter

import vlib
from pipes import ext1
from pipes.vector import concat

FAMILIES = ("align", "ident", "pip", "sptr", "uninit", "mono")
TIERS = {
    "quick": {},
    "thorough": {"Aligns": "{1, 2, 4, 8, 16, 32, 64}",
                 "Offs": "{0, 1, 2, 3, 4, 5, 6, 7, 8, 9, 15, 16, 17, 31, 32, 33, 63, 64, 65}",
                 "Sizes": "{0, 1, 2, 3, 4, 7, 8, 9, 16, 17, 64}",
                 "Spaces": "{0, 1, 2, 3, 4, 5, 6, 7, 8, 9, 10, 11, 12, 13, 14, 15, 16, 17, 24, 31, 32, 33, 63, 64, 65, 128}",
                 "BigVs": "{0, 1, 8, 64}", "UnVals": "{0, 1, 2, 3}", "UnMax": "4",
                 "MonoOffs": "{0, 1, 3}", "MonoSizes": "{0, 7, 16, 33}", "MonoReqs": "{0, 1, 2, 3}", "MonoBig": "{0, 1, 2}"},
}
PROBES = {1: ("MEM_SP_ARROW", "small_ptr<T>::operator-> for a non-const T"),
          2: ("MEM_UFILL_FWD", "uninitialized_fill with a forward iterator that is not a pointer"),
          3: ("MEM_TOADDR_ARROW", "to_address(fancy pointer) through operator-> (element type without associated namespace)")}
# operations every family must export (vacuity guard)
MUST = {"ident": ["assume_aligned", "to_address_raw", "to_address_arrow", "to_address_traits", "to_address_nested", "addressof_plain",
                  "addressof_evil", "addressof_const"],
        "pip": ["ctor", "ctor_ptr", "set_pointer", "set_int", "set_ptr_and_int", "from_opaque", "copy", "low_set_pointer", "low_set_int",
                "low_set_ptr_and_int"],
        "sptr": ["ctor", "null", "pre_inc", "post_inc", "pre_dec", "post_dec", "minus", "conv", "kconv", "kget", "star", "arrow"],
        "uninit": ["uninit_copy", "uninit_move", "uninit_fill", "destroy", "destroy_n", "destroy_at", "construct_at", "r_destroy",
                   "r_destroy_range", "r_destroy_at", "r_construct_at"]}


def probes():
    from concurrent.futures import ThreadPoolExecutor

    def one(n):
        try:
            vlib.build("mem_probe.cpp", "mem_probe_%d" % n, flags=["-DPROBE=%d" % n, "-fsyntax-only"], timeout=120)
            return n, True
        except vlib.ModelFailure:
            return n, False
    with ThreadPoolExecutor(max_workers=3) as ex:
        return dict(ex.map(one, sorted(PROBES)))


def model(tier, rep):
    from concurrent.futures import ThreadPoolExecutor

    def one(fam):
        consts = dict(TIERS[tier])
        consts["Family"] = '"%s"' % fam
        return fam, vlib.tlc_mc("Mem.tla", "Mem.cfg", "mem_mc_%s_%s" % (tier, fam), workers=1, heap="2g", constants=consts)
    with ThreadPoolExecutor(max_workers=3) as ex:
        res = dict(ex.map(one, FAMILIES))
    cases = {}
    for fam in FAMILIES:
        r = res[fam]
        name = "Mem[%s]" % fam
        rep.add_mc(name, r)
        gen = r["gen"]
        if not gen or any(c["f"] != fam for c in gen):
            raise vlib.ModelFailure("%s: no / foreign cases exported" % name)
        if fam in MUST:
            per_op = Counter(c["op"] for c in gen)
            missing = [op for op in MUST[fam] if not per_op.get(op)]
            if missing:
                raise vlib.ModelFailure("%s: no case exported for %s" % (name, missing))
            rep.cov["modules"][name]["exported_per_op"] = dict(per_op)
        p = os.path.join(vlib.workdir("scripts"), "mem_%s_%s.ndjson" % (tier, fam))
        with open(p, "w") as f:
            for c in gen:
                f.write(json.dumps(c) + "\n")
        nev = sum(len(c["reqs"]) for c in gen) if fam == "mono" else len(gen)
        cases[fam] = (gen, len(gen), nev)
        rep.sample({"module": name, "case": gen[len(gen) // 2]})
    rep.cov["exhaustive"] = True
    return cases


def _side(impl, exe, cases, tier):
    from concurrent.futures import ThreadPoolExecutor

    def one(fam):
        gen = cases[fam][0]
        tp = os.path.join(vlib.workdir("traces"), "mem_%s_%s_%s.ndjson" % (impl, fam, tier))
        # every case is a one-line script: a death is attributed to the case in flight
        return tp, ext1.replay(lambda sp: [exe, "run", sp], [[c] for c in gen], tp, "mem_%s_%s_%s" % (impl, fam, tier), chunk=20000, par=1)
    with ThreadPoolExecutor(max_workers=6) as ex:
        res = list(ex.map(one, list(cases)))
    outs = [tp for tp, _ in res]
    errs = [l for _, r in res for l in r["stderr"]]
    unsupported = sorted({l for l in errs if l.startswith("UNSUPPORTED")})
    summ = [l for l in errs if l.startswith("SUMMARY")]
    skipped = sum(int(l.split("unsupported=")[1].split()[0]) for l in summ)
    leaks = [l for l in summ if not l.endswith("live_delta=0")]
    ntraps = sum(len(r["traps"]) for _, r in res)
    got = sum(r["lines"] - r["markers"] for _, r in res)
    expect = sum(nev for _, _, nev in cases.values())
    if not ntraps and got + skipped != expect:           # vacuity guard: every case produced its event(s)
        raise vlib.ModelFailure("mem driver (%s): %d events + %d not drivable for %d expected" % (impl, got, skipped, expect))
    merged = concat([o for o in outs if os.path.getsize(o) > 0], os.path.join(vlib.workdir("traces"), "mem_%s_merged_%s" % (impl, tier)), 4)
    tv = vlib.tv_parallel("MemTrace.tla", "MemTrace.cfg", merged, "mem_tv_%s_%s" % (impl, tier), par=4, heap="2g")
    return tv, unsupported, leaks, skipped, ntraps


def pipeline(tier, rep, calibrate=None):
    from concurrent.futures import ThreadPoolExecutor
    if calibrate is None:
        calibrate = os.environ.get("VERIF_CALIBRATE", "1") != "0"
    have = probes()
    cases = model(tier, rep)
    jobs = [dict(src="mem_driver.cpp", out="mem_etl", flags=["-D%s=%d" % (PROBES[n][0], have[n]) for n in sorted(PROBES)])]
    if calibrate:
        jobs.append(dict(src="mem_driver.cpp", out="mem_std", flags=["-DVH_STD"], include_repo=False))
    bins = vlib.build_many(jobs)
    with ThreadPoolExecutor(max_workers=2) as ex:
        fe = ex.submit(_side, "etl", bins[0], cases, tier)
        fs = ex.submit(_side, "std", bins[1], cases, tier) if calibrate else None
        tv, unsup, leaks, skipped, ntraps = fe.result()
        ctv, cunsup, cleaks, _, _ = fs.result() if fs else (None, [], [], 0, 0)
    if calibrate:
        if ctv["deviations"]:
            d = ctv["deviations"][0]
            raise vlib.ModelFailure("calibration: libstdc++ / the reference stand-ins deviate from Mem spec (spec/projection error): %s %s"
                                    % (d["kind"], json.dumps(d.get("ev"))[:700]))
        if cunsup or cleaks:
            raise vlib.ModelFailure("calibration build: %s %s" % (cunsup, cleaks))
        rep.cov["modules"]["Mem"] = {"calibration_events_std": ctv["events"]}
    rep.add_tv("Mem", tv, sum(n for _, n, _ in cases.values()))
    rep.cov["modules"]["Mem"].update({"not_drivable": unsup + ["%s: does not compile" % PROBES[n][1] for n in sorted(PROBES) if not have[n]],
                                      "cases_not_drivable": skipped, "crashes_contained": ntraps, "probes": {PROBES[n][1]: have[n] for n in PROBES}})
    if leaks:
        rep.notes.append({"live_count_imbalance": leaks})
    return tv
