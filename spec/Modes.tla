-------------------------------- MODULE Modes --------------------------------
(* MC role for C13: the monitor's own invariant, and export of the enumerated input domains.                 *)
(*                                                                                                            *)
(* A small world of calls, modes and results: observations arrive in any order (each (call, mode) at most     *)
(* once); `seen` is the history, `memo` / `nbad` are the monitor of ModesOps.  Checked:                        *)
(*   TypeOK      memo \in [subset of Calls -> Results] and holds the FIRST observed result of each call        *)
(*   Agreement   the monitor has raised no alarm  <=>  every call has at most one result in the history       *)
(* GEN role: the 8-bit sweep, the 8-bit boundary pairs and the short strings the driver evaluates (at compile  *)
(* time and at run time) are exported as GEN lines and become harness/gen/modes_inputs.hpp.                    *)
EXTENDS ModesOps, TLC, Json

CONSTANTS Calls, Results

VARIABLES memo, seen, nbad, order
vars == <<memo, seen, nbad, order>>

Init == memo = EmptyMemo /\ seen = {} /\ nbad = 0 /\ order = <<>>

Step(c, m, r) ==
    /\ ~\E o \in seen : o.c = c /\ o.m = m
    /\ LET res == Observe(memo, c, r) IN
       /\ memo' = res.memo
       /\ nbad' = IF res.ok THEN nbad ELSE nbad + 1
    /\ seen' = seen \cup {[c |-> c, m |-> m, r |-> r]}
    /\ order' = Append(order, [c |-> c, r |-> r])

Next == \E c \in Calls, m \in ModeNames, r \in Results : Step(c, m, r)
Spec == Init /\ [][Next]_vars

First(c) == LET i == CHOOSE i \in 1..Len(order) : order[i].c = c /\ \A j \in 1..(i - 1) : order[j].c # c IN order[i].r
TypeOK ==
    /\ DOMAIN memo = {o.c : o \in seen}
    /\ \A c \in DOMAIN memo : memo[c] \in Results /\ memo[c] = First(c)
    /\ nbad \in 0..(Cardinality(Calls) * 3)
AtMostOneResult == \A o1, o2 \in seen : o1.c = o2.c => o1.r = o2.r
Agreement == (nbad = 0) <=> AtMostOneResult

(* ------------------------------------------- exported input domains ------------------------------------------- *)
\* boundary values of the 8-bit types (as signed values; the driver reinterprets them for unsigned char)
B8 == {-128, -127, -126, -65, -64, -2, -1, 0, 1, 2, 63, 64, 65, 100, 126, 127}
Alphabet == {97, 98, 200}
Strs == UNION {[1..n -> Alphabet] : n \in 0..3}
Emitted ==
    /\ \A x \in 0..255 : PrintT(<<"GEN", ToJson([k |-> "u8", x |-> x])>>)
    /\ \A x \in B8 : PrintT(<<"GEN", ToJson([k |-> "b8", x |-> x])>>)
    /\ \A s \in Strs : PrintT(<<"GEN", ToJson([k |-> "str", s |-> s])>>)
\* evaluated once, on the initial state
EmitInv == (seen = {}) => Emitted
==============================================================================
