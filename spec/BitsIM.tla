------------------------------ MODULE BitsIM ------------------------------
(* A w-bit machine word viewed as a sequence of 0/1 of length w; index 1 is the LEAST significant  *)
(* bit (bit position p of the C++ functions is index p + 1).  Every function of <bit> is defined   *)
(* on this view, transcribed from [bit.pow.two], [bit.rotate], [bit.count], [bit.byteswap]:        *)
(* nothing here knows how etl computes them.  Most functions have two definitions, an operational  *)
(* (recursive) one used for judging traces and a declarative one ("the largest k such that ...");  *)
(* IntMath.tla lets TLC prove they agree on every 8-bit word.                                      *)
EXTENDS Integers, Sequences, FiniteSets

\* ---- words <-> numbers (only for words of at most 30 bits: TLC integers are 32-bit) -----------
BitsOfNat(x, w) == [i \in 1..w |-> (x \div 2^(i - 1)) % 2]

NatOfBits(b) ==
    LET RECURSIVE f(_)
        f(i) == IF i > Len(b) THEN 0 ELSE b[i] + 2 * f(i + 1)
    IN f(1)

\* two's complement: mathematical value <-> bit pattern read as a natural number (w <= 16)
PatOf(x, w) == IF x < 0 THEN x + 2^w ELSE x
ValOf(p, w, s) == IF s = 1 /\ p >= 2^(w - 1) THEN p - 2^w ELSE p

\* 32/64-bit words travel as little-endian arrays of 16-bit limbs
LimbsOK(l, w) == Len(l) = w \div 16 /\ \A k \in 1..Len(l) : l[k] \in 0..65535
BitsOfLimbs(l, w) == [i \in 1..w |-> (l[((i - 1) \div 16) + 1] \div 2^((i - 1) % 16)) % 2]
LimbsOfBits(b) == [k \in 1..(Len(b) \div 16) |-> NatOfBits(SubSeq(b, 16 * (k - 1) + 1, 16 * k))]

Zeros(w) == [i \in 1..w |-> 0]
Ones(w) == [i \in 1..w |-> 1]
OneHot(w, k) == [i \in 1..w |-> IF i = k THEN 1 ELSE 0]     \* 2^(k-1); k = 0 gives zero
NotB(b) == [i \in DOMAIN b |-> 1 - b[i]]

\* ---- [bit.count] -------------------------------------------------------------------------------
Popcount(b) == Cardinality({i \in DOMAIN b : b[i] = 1})

RECURSIVE PopcountR(_, _)
PopcountR(b, i) == IF i > Len(b) THEN 0 ELSE b[i] + PopcountR(b, i + 1)

\* number of consecutive bits equal to v starting at index i and walking in direction d
RECURSIVE Run(_, _, _, _)
Run(b, i, d, v) == IF i < 1 \/ i > Len(b) THEN 0
                   ELSE IF b[i] # v THEN 0 ELSE 1 + Run(b, i + d, d, v)

Countl(b, v) == Run(b, Len(b), -1, v)       \* countl_zero (v = 0) / countl_one (v = 1)
Countr(b, v) == Run(b, 1, 1, v)             \* countr_zero / countr_one

\* declarative: the number of k in 1..w such that the k most (least) significant bits all equal v
CountlDecl(b, v) == LET w == Len(b) IN Cardinality({k \in 1..w : \A i \in 1..k : b[w + 1 - i] = v})
CountrDecl(b, v) == LET w == Len(b) IN Cardinality({k \in 1..w : \A i \in 1..k : b[i] = v})

\* ---- [bit.pow.two] -----------------------------------------------------------------------------
\* bit_width: "if x == 0, 0; otherwise one plus the base-2 logarithm of x, with any fractional part discarded"
BitWidth(b) == Len(b) - Countl(b, 0)
BitWidthDecl(b) == IF \A i \in DOMAIN b : b[i] = 0 THEN 0
                   ELSE CHOOSE k \in DOMAIN b : b[k] = 1 /\ \A j \in DOMAIN b : j > k => b[j] = 0

HasSingleBit(b) == Popcount(b) = 1

\* bit_floor: "if x == 0, 0; otherwise the maximal value y such that has_single_bit(y) and y <= x"
BitFloor(b) == OneHot(Len(b), BitWidth(b))

\* bit_ceil: "the minimal value y such that has_single_bit(y) and x <= y";
\* precondition: y is representable as a value of the type
BitCeilDefined(b) == BitWidth(b) < Len(b) \/ HasSingleBit(b)
BitCeil(b) == IF BitWidth(b) = 0 THEN OneHot(Len(b), 1)
              ELSE IF HasSingleBit(b) THEN b
              ELSE OneHot(Len(b), BitWidth(b) + 1)

\* ---- [bit.rotate]: r = s mod w; bit j moves to bit (j + r) mod w; negative s rotates right -------
Rotl(b, s) == LET w == Len(b) k == s % w IN [i \in 1..w |-> b[((i - 1 - k) % w) + 1]]
Rotr(b, s) == Rotl(b, 0 - s)

\* the standard's own wording, by cases, as a second definition
ShlB(b, k) == [i \in DOMAIN b |-> IF i - k >= 1 THEN b[i - k] ELSE 0]
ShrB(b, k) == [i \in DOMAIN b |-> IF i + k <= Len(b) THEN b[i + k] ELSE 0]
OrB(a, b) == [i \in DOMAIN a |-> IF a[i] = 1 \/ b[i] = 1 THEN 1 ELSE 0]
TruncRem(s, w) == IF s >= 0 THEN s % w ELSE 0 - ((0 - s) % w)       \* the C++ operator %
RECURSIVE RotlStd(_, _), RotrStd(_, _)
RotlStd(b, s) == LET w == Len(b) r == TruncRem(s, w) IN
                 IF r = 0 THEN b ELSE IF r > 0 THEN OrB(ShlB(b, r), ShrB(b, w - r)) ELSE RotrStd(b, 0 - r)
RotrStd(b, s) == LET w == Len(b) r == TruncRem(s, w) IN
                 IF r = 0 THEN b ELSE IF r > 0 THEN OrB(ShrB(b, r), ShlB(b, w - r)) ELSE RotlStd(b, 0 - r)

\* ---- [bit.byteswap]: reverses the bytes of the value representation ---------------------------------
Byteswap(b) == LET w == Len(b) nb == w \div 8 IN
               [i \in 1..w |-> b[(nb - 1 - ((i - 1) \div 8)) * 8 + ((i - 1) % 8) + 1]]

\* ---- single-bit helpers (etl extensions; position p is 0-based, precondition p < w) -----------------
SetBit(b, p) == [b EXCEPT ![p + 1] = 1]
ResetBit(b, p) == [b EXCEPT ![p + 1] = 0]
FlipBit(b, p) == [b EXCEPT ![p + 1] = 1 - b[p + 1]]
SetBitTo(b, p, v) == [b EXCEPT ![p + 1] = v]
TestBit(b, p) == b[p + 1] = 1
=============================================================================
