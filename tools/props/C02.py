"""C02 - valid use never leaves the caller's memory, never allocates, never hits UB.
TLA+ cannot observe memory: the specification supplies the *histories and inputs* (same models as the
behavioural properties) and the relations on what may be written / allocated; ASan + UBSan, guard bytes and
an operator-new monitor supply the observation. A sanitizer stop inside a call the model considers valid is
a `trap` event, which no action of the specification enables."""
from pipes import vector


def _mine(d):
    ev = d.get("ev", {})
    return d["kind"].startswith("mem") or d["kind"] == "trap" or ev.get("op") == "ctor_dinit" or d["kind"] == "obs" and "corrupt" in str(ev.get("obs"))


def run(tier, rep):
    vector.memory_pipeline(tier, rep)
    rep.devs = [d for d in rep.devs if _mine(d)]
    rep.assumptions += ["reads of uninitialised memory are only caught when they change a projected result or the size (no MSan runtime for libstdc++ here)",
                        "UB outside what ASan/UBSan model is not observed",
                        "allocation monitor = replaced global operator new; a direct malloc() call would be missed"]
LEVEL = "exploration"
