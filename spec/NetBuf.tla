------------------------------ MODULE NetBuf ------------------------------
(* State machine of one Networking-TS buffer view over a caller array of L bytes (extension X13).     *)
(* MC role : TLC proves on every reachable state that the view never leaves the caller's range, that   *)
(*           its end stays fixed, and the algebra of advance / clamp (composition, idempotence,        *)
(*           monotonicity, "+" = copy followed by "+=").                                              *)
(* GEN role: every transition is exported as <<"GEN", json>>; tools/pipes/netbuf.py plans one script   *)
(*           per edge and harness/netbuf_driver.cpp replays it on etl::experimental::net.            *)
EXTENDS NetBufOps, TLC, Json

CONSTANTS MaxLen, MaxAdv, MaxMax, ElemSizes

VARIABLES L, buf, last
vars == <<L, buf, last>>
View0 == <<L, buf>>

Rec(op, n, esz, post) ==
    [op |-> op, n |-> n, esz |-> esz, L |-> L, pre |-> buf, post |-> post,
     ret |-> IF op \in Mutators THEN post ELSE Ret(op, buf, L, n, esz)]

Init == /\ L \in 0..MaxLen
        /\ buf = Null
        /\ last = [op |-> "init", n |-> 0, esz |-> 1, L |-> L, pre |-> Null, post |-> Null, ret |-> Null]

Step(op, n, esz) == LET post == Eff(op, buf, L, n) IN
                    /\ buf' = post
                    /\ last' = Rec(op, n, esz, post)
                    /\ UNCHANGED L

Next == \/ \E op \in {"make", "ctor_default", "to_const", "copy"} : Step(op, 0, 1)
        \/ \E n \in 0..MaxAdv : \E op \in {"adv", "plus", "rplus"} : Step(op, n, 1)
        \/ \E n \in 0..MaxMax : Step("max", n, 1)
        \/ /\ L = 0 /\ buf = Null                       \* container factories do not depend on the current view
           /\ \E n \in 0..MaxLen : \E e \in ElemSizes : \E op \in {"make_array", "make_vec"} : Step(op, n, e)

Spec == Init /\ [][Next]_vars
Emit == PrintT(<<"GEN", ToJson(last')>>)

\* ---- invariants ----------------------------------------------------------------------------------------
TypeOK == /\ L \in 0..MaxLen
          /\ buf.size \in 0..L
          /\ buf.off \in (-1)..L

\* a non-null view always ends where the caller's range ends and never starts before it
InRange == buf = Null \/ (buf.off >= 0 /\ buf.off + buf.size = L)

IsSuffix(s, t) == Len(s) <= Len(t) /\ s = SubSeq(t, Len(t) - Len(s) + 1, Len(t))
IsPrefix(s, t) == Len(s) <= Len(t) /\ s = SubSeq(t, 1, Len(s))

Laws ==
    \A n \in 0..MaxAdv :
       /\ Adv(buf, 0) = buf
       /\ Plus(buf, n) = Adv(buf, n)                                   \* b + n  ==  (copy of b) += n
       /\ Adv(buf, n).size = (IF n >= buf.size THEN 0 ELSE buf.size - n)
       /\ (buf # Null => Adv(buf, n).off + Adv(buf, n).size = buf.off + buf.size)   \* the end never moves
       /\ IsSuffix(View(Adv(buf, n)), View(buf))                       \* what stays visible is a suffix
       /\ \A m \in 0..MaxAdv : Adv(Adv(buf, n), m) = Adv(buf, n + m)   \* advancing composes additively
       /\ \A m \in 0..MaxMax :
             /\ Clamp(buf, m).off = buf.off
             /\ Clamp(buf, m).size <= m /\ Clamp(buf, m).size <= buf.size
             /\ (m >= buf.size => Clamp(buf, m) = buf)
             /\ IsPrefix(View(Clamp(buf, m)), View(buf))               \* a clamped view is a prefix
             /\ \A k \in 0..MaxMax : Clamp(Clamp(buf, m), k) = Clamp(buf, Min2(m, k))
             \* clamp and advance commute the way prefixes and suffixes do
             /\ (n <= m => Adv(Clamp(buf, m), n) = Clamp(Adv(buf, n), m - n))

\* container factories: size in BYTES, every element visible
ASSUME ElemLaws == \A n \in 0..MaxLen : \A e \in ElemSizes :
               /\ OfElems(n, e).size = n * e
               /\ Len(View(OfElems(n, e))) = n * e
=============================================================================
