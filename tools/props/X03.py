"""X03 (extension) - etl::array<T, N> is a value sequence of fixed length N with the std::array surface."""
from pipes import array


def run(tier, rep):
    import vlib
    vlib.run_pipelines(rep, [("array", lambda t, r: array.pipeline(t, r)), ("dynarray", lambda t, r: array.dyn_pipeline(t, r))], tier)
    rep.assumptions += ["N in 0..4, element values small integers; int and the lifetime-tracked element type stand for every T",
                        "front() / back() / operator[] of array<T, 0> and out-of-range indices are outside the domain (undefined)",
                        "etl::array has no at() (no exceptions) and no operator<=>: not covered",
                        "the TLA+ reading of [array] is calibrated against libstdc++ std::array on the same scripts",
                        "etl::dynamic_array is undocumented: it is judged as an owning fixed-length heap array (contents of the target of "
                        "each call + an implementation-neutral resource law: live elements / outstanding storage are exactly those of the live "
                        "objects), calibrated against std::vector with the same instrumented allocator; a moved-from object only has to be valid",
                        "etl::c_array is an alias for T[N] (the storage of array): nothing of its own to cover; uninitialized_array is not covered"]
