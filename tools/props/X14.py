"""X14 (extension) - etl::experimental::freertos::queue<T,Size> / stream_buffer forward to the FreeRTOS kernel API
with the right arguments and convert its answers (judged over an executable kernel double)."""
from pipes import rtos


def run(tier, rep):
    rtos.pipeline(tier, rep)
    rep.assumptions += [
        "the kernel is the harness' executable double (harness/rtos_fake_kernel.hpp), not FreeRTOS: non-blocking reading "
        "of the FreeRTOS API documentation, single task, no ISR context, ticksToWait is recorded but never waited for",
        "with the repository's own stubs (TETL_FREERTOS_USE_STUBS) every kernel function is a constant no-op; those "
        "events are judged against that constant kernel only (result conversion), everything else over the double",
        "queue: capacities 1..3 x item sizes 1 / 12 bytes x values 0..2 x ticks {0,5} exhaustively (TLC export); "
        "stream_buffer: capacities 1..4, trigger levels 0..cap, writes of 0..3 bytes over {0,1}, reads of 0..4 bytes; "
        "capacities 7 and 16, 400 random calls per session by a seeded sweep followed statefully by the trace spec",
        "a state is observed through the wrapper only (messages_waiting / bytes_available / space_available); contents "
        "are observed when they are received; the kernel call log {function, handle, numeric arguments, result} of every "
        "wrapper call is part of the event",
        "a failed creation (kernel out of heap, NULL handle) is followed only by members that need no handle and by the "
        "destructor, which must not hand NULL to the kernel",
        "the TLA+ reading of the kernel API is calibrated against a reference wrapper written directly on the kernel "
        "double (same scripts, zero deviations required)",
    ]
