// Conformance driver for the etl::format subset (extension X12).
//   fmt_driver run <cases.ndjson>      every (format string, argument list, capacity) case exported by spec/Fmt.tla
// Entry points driven per case (one ndjson event each, {op, f, args, cap, out, ...}):
//   "fb"     etl::format_to(back_inserter(fmt_buffer), fmt, args...) with the fmt_buffer writing through a
//            back_insert_iterator into an inplace_string<cap>: the only output route etl::format_context accepts
//   "direct" etl::format_to(back_inserter(inplace_string<cap>), fmt, args...)         (-DFMT_HAVE_DIRECT: compile probe passed)
//   "vfmt"   etl::vformat_to(back_inserter(inplace_string<cap>), fmt, make_format_args(args...))  (-DFMT_HAVE_VFORMAT)
//   "n"      etl::format_to_n(char*, n = cap, fmt, args...)    for argument lists of arithmetic / char type
// Calls run in a forked child (harness/contain.hpp).  A call that dies from a signal becomes a `crash` event; a call
// that ends in the library's assertion handler becomes a crash event carrying "assert": line.  No oracle, no
// comparison: spec/FmtTrace.tla judges.
// -DVH_STD: libstdc++ 12 has no <format>; the calibration build is an independent 40-line reference formatter written
// from [format.string.general] with std::to_string for the integers (NOT std::format - said so in the design notes).
#include "contain.hpp"

#include <cstring>
#include <string>
#include <sys/mman.h>
#include <string_view>
#include <type_traits>

// While a call under test runs, the page holding the pending event header (shared with the parent) is read-only:
// a wild write of a call that runs into undefined behaviour then ends the child instead of garbling the record.
inline void guard_pending(bool on)
{
    if (vhc::shared() != nullptr) {
        mprotect(vhc::shared(), sizeof(vhc::Shared), on ? PROT_READ : (PROT_READ | PROT_WRITE));
    }
}

#ifndef VH_STD
    #ifdef FMT_CHECKS
        #define TETL_ENABLE_CONTRACT_CHECKS 1
    #endif
    #define TETL_ENABLE_CUSTOM_ASSERT_HANDLER 1
    #include <etl/format.hpp>
    #include <etl/iterator.hpp>
    #include <etl/string.hpp>
    #include <etl/string_view.hpp>
static char const* const INST = "etl";
using sv_t   = etl::string_view;
using istr_t = etl::inplace_string<8>;

namespace {
vh::json* g_pending = nullptr;
std::string g_header_text;       // serialized copy of the pending header (not on the stack the call under test may smash)
}
namespace etl {
template <typename Assertion> [[noreturn]] auto assert_handler(Assertion const& msg) -> void
{
    // leave the fact in the pending event header, then die: the parent records it
    guard_pending(false);
    if (!g_header_text.empty() && vh::json::accept(g_header_text)) {
        vh::json h  = vh::json::parse(g_header_text);
        h["assert"] = msg.line;
        vhc::set_pending(h);
    }
    std::abort();
}
} // namespace etl
#else
static char const* const INST = "std";
using sv_t   = std::string_view;
using istr_t = std::string;
namespace {
vh::json* g_pending = nullptr;
std::string g_header_text;
}
#endif

namespace {
using vh::json;

// ---- arguments --------------------------------------------------------------------------------------------------
unsigned long long magnitude(json const& a)
{
    unsigned long long v = 0;
    for (int k = 0; k < 4; ++k) { v |= (unsigned long long)a["w"][k].get<int>() << (16 * k); }
    return v;
}
template <class T> T mk_int(json const& a)
{
    unsigned long long const m = magnitude(a);
    return (T)(a["neg"].get<bool>() ? 0ull - m : m);
}
std::string codes_to_string(json const& s)
{
    std::string r;
    for (auto const& c : s) { r.push_back((char)c.get<int>()); }
    return r;
}
json string_to_codes(char const* p, std::size_t n)
{
    json a = json::array();
    for (std::size_t i = 0; i < n; ++i) { a.push_back((int)(unsigned char)p[i]); }
    return a;
}

std::string signature(json const& args)
{
    std::string s;
    for (auto const& a : args) { s += (s.empty() ? "" : ",") + a["ty"].get<std::string>(); }
    return s;
}

// calls f(typed arguments...) for the argument lists spec/Fmt.tla uses; unknown signature = harness error
template <class F> void with_args(json const& args, F f)
{
    std::string const sig = signature(args);
    auto str0             = args.size() > 0 ? codes_to_string(args[0]["s"]) : std::string();
    if (sig.empty()) { f(); }
    else if (sig == "int") { f(mk_int<int>(args[0])); }
    else if (sig == "short") { f(mk_int<short>(args[0])); }
    else if (sig == "long") { f(mk_int<long>(args[0])); }
    else if (sig == "llong") { f(mk_int<long long>(args[0])); }
    else if (sig == "ushort") { f(mk_int<unsigned short>(args[0])); }
    else if (sig == "uint") { f(mk_int<unsigned>(args[0])); }
#if defined(FMT_HAVE_ULONG) || defined(VH_STD)
    else if (sig == "ulong") { f(mk_int<unsigned long>(args[0])); }
    else if (sig == "ullong") { f(mk_int<unsigned long long>(args[0])); }
#else
    else if (sig == "ulong" || sig == "ullong") {
        static bool told = false;
        if (!told) { std::fprintf(stderr, "UNSUPPORTED formatter<unsigned long> / formatter<unsigned long long> (do not instantiate)\n"); }
        told = true;
    }
#endif
    else if (sig == "char") { f((char)args[0]["n"].get<int>()); }
    else if (sig == "sv") { f(sv_t {str0.data(), str0.size()}); }
    else if (sig == "cstr") {
        char const* p = str0.c_str();
        f(p);
    } else if (sig == "istr") {
        istr_t s {str0.c_str()};
        f(s);
    } else if (sig == "carr") {
        if (str0.size() != 3) { std::exit(2); }
        char arr[3] = {str0[0], str0[1], str0[2]};
        f(arr);
    } else if (sig == "int,char") { f(mk_int<int>(args[0]), (char)args[1]["n"].get<int>()); }
    else if (sig == "char,char") { f((char)args[0]["n"].get<int>(), (char)args[1]["n"].get<int>()); }
    else if (sig == "sv,int") { f(sv_t {str0.data(), str0.size()}, mk_int<int>(args[1])); }
    else if (sig == "int,int,int") { f(mk_int<int>(args[0]), mk_int<int>(args[1]), mk_int<int>(args[2])); }
    else {
        std::fprintf(stderr, "fmt_driver: argument signature '%s' not instantiated\n", sig.c_str());
        std::exit(2);
    }
}

#ifdef VH_STD
// ---- reference formatter (calibration only) -----------------------------------------------------------------------
struct Sink {
    std::string s;
    std::size_t cap;
    void put(char c)
    {
        if (s.size() < cap) { s.push_back(c); }
    }
    void put(std::string_view v)
    {
        for (char c : v) { put(c); }
    }
};
template <class T> std::string ref_text(T const& v)
{
    if constexpr (std::is_same_v<T, char>) { return std::string(1, v); }
    else if constexpr (std::is_integral_v<T>) { return std::to_string(v); }
    else if constexpr (std::is_array_v<T>) { return std::string(v, strnlen(v, std::extent_v<T>)); }
    else if constexpr (std::is_pointer_v<T>) { return std::string(v); }
    else { return std::string(v.data(), v.size()); }
}
// returns false on an ill-formed string (what std::format reports by throwing format_error)
template <class... Ts> bool ref_format(Sink& o, std::string const& f, Ts const&... xs)
{
    std::string texts[sizeof...(Ts) + 1];
    std::size_t n = 0;
    ((texts[n++] = ref_text(xs)), ...);
    std::size_t next = 0;
    for (std::size_t i = 0; i < f.size(); ++i) {
        char const c = f[i];
        if (c == '{') {
            if (i + 1 >= f.size()) { return false; }
            if (f[i + 1] == '{') { o.put('{'), ++i; }
            else if (f[i + 1] == '}') {
                if (next >= n) { return false; }
                o.put(texts[next++]), ++i;
            } else { return false; }          // arg-id / format-spec: outside the subset
        } else if (c == '}') {
            if (i + 1 < f.size() && f[i + 1] == '}') { o.put('}'), ++i; }
            else { return false; }
        } else { o.put(c); }
    }
    return true;
}
#endif

// ---- one case -------------------------------------------------------------------------------------------------------
json header(char const* entry, json const& c)
{
    json e;
    e["op"]    = "format";
    e["entry"] = entry;
    e["f"]     = c["f"];
    e["args"]  = c["args"];
    e["cap"]   = c["cap"];
    e["inst"]  = INST;
#ifdef FMT_CHECKS
    e["checks"] = true;          // built with TETL_ENABLE_CONTRACT_CHECKS: violated preconditions reach the assert handler
#endif
    g_header_text = e.dump();
    return e;
}

// A call that runs into undefined behaviour can destroy the harness' own record of the call (it lives on the same
// stack).  The copy in shared memory survives: die here, the parent records the call as a crash.
void check_header(json const& e)
{
    if (!e.is_object() || !e.contains("op") || !e.contains("entry") || !e.contains("f") || !e.contains("args") || !e.contains("cap")) {
        std::abort();
    }
}

template <std::size_t Cap, class... Ts> void entry_fb(json const& c, std::string const& f, Ts const&... xs)
{
    json e    = header("fb", c);
    g_pending = &e;
    vhc::set_pending(e);
#ifdef VH_STD
    Sink o {{}, Cap};
    bool const ok = ref_format(o, f, xs...);
    e["out"]      = string_to_codes(o.s.data(), o.s.size());
    e["ok"]       = ok;
#else
    etl::inplace_string<Cap> s;
    auto it = etl::back_inserter(s);
    etl::detail::fmt_buffer<char> fb {it};
    guard_pending(true);
    (void)etl::format_to(etl::back_inserter(fb), etl::string_view {f.data(), f.size()}, xs...);
    guard_pending(false);
    json out = string_to_codes(s.data(), s.size());
    check_header(e);
    e["out"] = out;
    e["ok"]  = true;          // the call returned
#endif
    g_pending = nullptr;
    vh::emit(e);
}

#if defined(FMT_HAVE_DIRECT) || defined(VH_STD)
template <std::size_t Cap, class... Ts> void entry_direct(json const& c, std::string const& f, Ts const&... xs)
{
    json e    = header("direct", c);
    g_pending = &e;
    vhc::set_pending(e);
    #ifdef VH_STD
    Sink o {{}, Cap};
    e["ok"]  = ref_format(o, f, xs...);
    e["out"] = string_to_codes(o.s.data(), o.s.size());
    #else
    etl::inplace_string<Cap> s;
    guard_pending(true);
    (void)etl::format_to(etl::back_inserter(s), etl::string_view {f.data(), f.size()}, xs...);
    guard_pending(false);
    check_header(e);
    e["out"] = string_to_codes(s.data(), s.size());
    e["ok"]  = true;
    #endif
    g_pending = nullptr;
    vh::emit(e);
}
#endif

#if defined(FMT_HAVE_VFORMAT)
template <std::size_t Cap, class... Ts> void entry_vfmt(json const& c, std::string const& f, Ts const&... xs)
{
    json e    = header("vfmt", c);
    g_pending = &e;
    vhc::set_pending(e);
    etl::inplace_string<Cap> s;
    guard_pending(true);
    (void)etl::vformat_to(etl::back_inserter(s), etl::string_view {f.data(), f.size()}, etl::make_format_args(xs...));
    guard_pending(false);
    e["out"]  = string_to_codes(s.data(), s.size());
    e["ok"]   = true;
    g_pending = nullptr;
    vh::emit(e);
}
#endif

// format_to_n into a raw char buffer with slack behind the n permitted characters
template <class... Ts> void entry_n(json const& c, std::string const& f, Ts const&... xs)
{
    if constexpr ((std::is_arithmetic_v<Ts> && ...)) {
        json e    = header("n", c);
        g_pending = &e;
        vhc::set_pending(e);
        long const n = c["cap"];
        constexpr int SLACK = 96;
        char buf[32 + SLACK];
        std::memset(buf, 0x7E, sizeof(buf));
#ifdef VH_STD
        Sink full {{}, 1000};
        e["ok"]        = ref_format(full, f, xs...);
        long const len = (long)full.s.size();
        long const wr  = len < n ? len : n;
        std::memcpy(buf, full.s.data(), (std::size_t)wr);
        e["size"]    = len;
        e["written"] = wr;
#else
        guard_pending(true);
        auto const r = etl::format_to_n(buf, (etl::ptrdiff_t)n, etl::string_view {f.data(), f.size()}, xs...);
        guard_pending(false);
        check_header(e);
        long wr      = (long)(r.out - buf);
        e["size"]    = (long)r.size;
        e["written"] = wr;
        e["ok"]      = true;
#endif
        long w2 = e["written"].get<long>();
        if (w2 < 0) { w2 = 0; }
        if (w2 > (long)sizeof(buf)) { w2 = (long)sizeof(buf); }
        e["out"] = string_to_codes(buf, (std::size_t)w2);
        long spill = 0;                                   // bytes changed beyond the n permitted characters
        for (long i = n; i < (long)sizeof(buf); ++i) { spill += buf[i] != 0x7E ? 1 : 0; }
        e["spill"] = spill;
        g_pending  = nullptr;
        vh::emit(e);
    }
}

template <std::size_t Cap, class... Ts> void all_entries(json const& c, std::string const& f, Ts const&... xs)
{
    entry_fb<Cap>(c, f, xs...);
#if defined(FMT_HAVE_DIRECT) || defined(VH_STD)
    entry_direct<Cap>(c, f, xs...);
#endif
#if defined(FMT_HAVE_VFORMAT)
    entry_vfmt<Cap>(c, f, xs...);
#endif
    entry_n(c, f, xs...);
}

// one entry point per task, so that a call that dies takes nothing else with it
struct Task {
    long idx;      // index into the case list
    int entry;     // 0 fb, 1 direct, 2 vfmt, 3 n
};

template <std::size_t Cap, class... Ts> void one_entry(int entry, json const& c, std::string const& f, Ts const&... xs)
{
    switch (entry) {
    case 0: entry_fb<Cap>(c, f, xs...); break;
#if defined(FMT_HAVE_DIRECT) || defined(VH_STD)
    case 1: entry_direct<Cap>(c, f, xs...); break;
#endif
#if defined(FMT_HAVE_VFORMAT)
    case 2: entry_vfmt<Cap>(c, f, xs...); break;
#endif
    case 3: entry_n(c, f, xs...); break;
    default: break;
    }
}

void run_case(json const& c, int entry)
{
    std::string const f = codes_to_string(c["f"]);
    long const cap      = c["cap"];
    with_args(c["args"], [&](auto const&... xs) {
        switch (cap) {
        case 1: one_entry<1>(entry, c, f, xs...); break;
        case 3: one_entry<3>(entry, c, f, xs...); break;
        case 32: one_entry<32>(entry, c, f, xs...); break;
        default: std::fprintf(stderr, "fmt_driver: capacity %ld not instantiated\n", cap); std::exit(2);
        }
    });
}

} // namespace

int main(int argc, char** argv)
{
    if (argc < 3 || std::string(argv[1]) != "run") {
        std::fprintf(stderr, "usage: fmt_driver run <cases.ndjson> [k/n]\n");
        return 2;
    }
    auto const cases = vh::read_ndjson(argv[2]);
    long k = 0, n = 1;
    if (argc > 3) { std::sscanf(argv[3], "%ld/%ld", &k, &n); }
    std::vector<Task> ts;
    for (long i = 0; i < (long)cases.size(); ++i) {
        if (i % n != k) { continue; }
#ifdef FMT_CHECKS
        if (cases[(size_t)i]["cap"].get<long>() != 32) { continue; }      // overflow of a small sink is a contract matter there
#endif
        for (int e : {0, 1, 2, 3}) { ts.push_back({i, e}); }
    }
    std::fprintf(stderr, "ENTRIES fb=1 direct=%d vfmt=%d n=1\n",
#if defined(FMT_HAVE_DIRECT) || defined(VH_STD)
        1,
#else
        0,
#endif
#if defined(FMT_HAVE_VFORMAT)
        1
#else
        0
#endif
    );
    return vhc::run_contained(
        true,
        [&](long start) {
            for (long i = start; i < (long)ts.size(); ++i) {
                vhc::begin_script(i, 10);
                run_case(cases[(size_t)ts[(size_t)i].idx], ts[(size_t)i].entry);
            }
            return 0;
        },
        1000000);
}
