SPECIFICATION Spec
CONSTANTS
  Mode = "f32"
INVARIANTS ToyLaws Laws32 EmitInv
CHECK_DEADLOCK FALSE
