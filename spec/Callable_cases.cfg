SPECIFICATION SpecCases
INVARIANTS EmitCase CaseLaws PairOrderTransitive
CHECK_DEADLOCK FALSE
