SPECIFICATION Spec
CONSTANTS
  Kind = "variant"
  A1 = "int"
  A2 = "trk"
  A3 = ""
  A4 = ""
  SrcTypes = {"int", "trk", "shrt", "bool"}
  MixTypes = {}
VIEW View
ACTION_CONSTRAINT Emit
INVARIANTS TypeOK Canonical OrderLaws SelectLaws
PROPERTIES CopyIndependence CopyMakesEqual MoveKeepsIndex SwapExchanges PureIsPure
CHECK_DEADLOCK FALSE
