SPECIFICATION Spec
CONSTANTS
  MaxLen = 4
  MaxLenB = 4
  MaxLenW = 3
  LawLen = 4
  MaxBytes = 3
  MaxMove = 5
  WideHi = 767
ACTION_CONSTRAINT Emit
INVARIANTS Laws
CHECK_DEADLOCK FALSE
