------------------------------ MODULE TypesOps ------------------------------
(* The C++ type system as a term algebra, and the <type_traits> / <concepts> facilities as           *)
(* structural functions on the terms (property C15).  Transcribed from the C++20 standard            *)
(* [basic.types], [basic.type.qualifier], [dcl.ref], [dcl.array], [dcl.fct], [class.prop],           *)
(* [class.default.ctor], [class.copy.ctor], [class.copy.assign], [class.dtor], [conv], [dcl.init],   *)
(* [meta.unary.cat], [meta.unary.comp], [meta.unary.prop], [meta.unary.prop.query], [meta.rel],      *)
(* [meta.trans.*], [concepts.lang], [concepts.object] - never from the etl sources.                  *)
(*                                                                                                   *)
(* Terms (records; the field k is the constructor):                                                  *)
(*   [k|->"void"] [k|->"nullptr"] [k|->"bool"] [k|->"char",n] [k|->"int",r,s] [k|->"float",n]        *)
(*   [k|->"enum",n] [k|->"class",n]              (facts about n: EnumFacts / ClassFacts below)       *)
(*   [k|->"cv",c,v,t]  [k|->"ptr",t]  [k|->"lref",t]  [k|->"rref",t]  [k|->"arr",n,t] (n=0: T[])     *)
(*   [k|->"fn",r,a,c,v,ref,ne]   [k|->"memptr",cls,t]                                                *)
(* Normal form (= identity of C++ types): no cv node with c=v=FALSE, no cv of cv, the cv of an array *)
(* lives in its element type, no cv on references and functions, references do not nest, function    *)
(* parameters are already adjusted (no arrays/functions/top-level cv).  Two C++ types are the same   *)
(* type iff their normal forms are equal records.                                                    *)
(*                                                                                                   *)
(* Where the standard leaves a result open, or where I cannot state the rule safely, the operator    *)
(* U*Pre / B*Pre is FALSE: such (trait, type) combinations are neither generated nor judged.         *)
(*                                                                                                   *)
(* Platform assumptions (stated in the evidence): LP64 x86-64, Itanium C++ ABI, plain char and       *)
(* wchar_t signed, wchar_t 32 bit, long double = x87 80-bit extended.                                *)
EXTENDS Integers, Sequences, FiniteSets

\* ---------------------------------------------------------------------------------------------
\* Constructors
\* ---------------------------------------------------------------------------------------------
TVoid == [k |-> "void"]
TNull == [k |-> "nullptr"]
TBool == [k |-> "bool"]
TChar(n) == [k |-> "char", n |-> n]
TInt(r, s) == [k |-> "int", r |-> r, s |-> s]
TFloat(n) == [k |-> "float", n |-> n]
TEnum(n) == [k |-> "enum", n |-> n]
TClass(n) == [k |-> "class", n |-> n]
Ptr(t) == [k |-> "ptr", t |-> t]
LRef(t) == [k |-> "lref", t |-> t]
RRef(t) == [k |-> "rref", t |-> t]
Arr(n, t) == [k |-> "arr", n |-> n, t |-> t]
Fn(r, a, c, v, ref, ne) == [k |-> "fn", r |-> r, a |-> a, c |-> c, v |-> v, ref |-> ref, ne |-> ne]
Fn0(r, a) == Fn(r, a, FALSE, FALSE, "none", FALSE)
MemPtr(cls, t) == [k |-> "memptr", cls |-> cls, t |-> t]

CharNames == {"char", "schar", "uchar", "wchar", "char8", "char16", "char32"}
IntRanks == {"short", "int", "long", "llong"}
FloatNames == {"float", "double", "ldouble"}

TIntS == TInt("int", TRUE)
TUInt == TInt("int", FALSE)

\* ---------------------------------------------------------------------------------------------
\* Facts about the named types.  tools/gen_types.py generates the C++ definitions *from these         *)
\* descriptors* (exported by Types.tla), so the spec is the single source.                            *)
\* ---------------------------------------------------------------------------------------------
EnumNames == {"EU", "EUc", "ES", "ESl", "ESb", "ESs"}
\* fixed = FALSE: underlying type implementation-defined ([dcl.enum]/7) - only its size (4) is assumed
EnumFacts(n) ==
    CASE n = "EU"  -> [scoped |-> FALSE, fixed |-> FALSE, ut |-> TUInt]
      [] n = "EUc" -> [scoped |-> FALSE, fixed |-> TRUE, ut |-> TChar("uchar")]
      [] n = "ES"  -> [scoped |-> TRUE, fixed |-> TRUE, ut |-> TIntS]
      [] n = "ESl" -> [scoped |-> TRUE, fixed |-> TRUE, ut |-> TInt("llong", TRUE)]
      [] n = "ESb" -> [scoped |-> TRUE, fixed |-> TRUE, ut |-> TBool]
      [] n = "ESs" -> [scoped |-> TRUE, fixed |-> TRUE, ut |-> TInt("short", FALSE)]

\* Special member states: "implicit" (not user-declared), "default" (= default on the first declaration),
\* "user_ne" (user-provided, noexcept), "user_th" (user-provided, noexcept(false)), "deleted".
MemberStates == {"implicit", "default", "user_ne", "user_th", "deleted"}
\* data: has a public non-static member `int m`; virt: "none" | "virtual" (a virtual member function) | "pure";
\* vdtor: the destructor is virtual (then dt # "implicit"); base: name of one public base or "-" (bases have
\* all-implicit special members and no base of their own); privbase: the base is private; ovr: overrides the
\* base's virtual function; dtacc: access of the destructor ("protected" requires dt # "implicit");
\* ccnc / canc: the user-provided copy constructor / copy assignment takes a non-const T& (auto_ptr style).
D0 == [union |-> FALSE, data |-> TRUE, virt |-> "none", vdtor |-> FALSE, final |-> FALSE, base |-> "-",
       privbase |-> FALSE, ovr |-> FALSE, dc |-> "implicit", cc |-> "implicit", mc |-> "implicit",
       ca |-> "implicit", ma |-> "implicit", dt |-> "implicit", dtacc |-> "public", ccnc |-> FALSE, canc |-> FALSE]

ClassDefs == <<
    <<"Triv", D0>>,
    <<"Empty", [D0 EXCEPT !.data = FALSE]>>,
    <<"EmptyFinal", [D0 EXCEPT !.data = FALSE, !.final = TRUE]>>,
    <<"Final", [D0 EXCEPT !.final = TRUE]>>,
    <<"Un", [D0 EXCEPT !.union = TRUE]>>,
    <<"UnDc", [D0 EXCEPT !.union = TRUE, !.dc = "user_ne"]>>,
    <<"Poly", [D0 EXCEPT !.virt = "virtual"]>>,
    <<"PolyVd", [D0 EXCEPT !.vdtor = TRUE, !.dt = "default"]>>,
    <<"PolyE", [D0 EXCEPT !.virt = "virtual", !.data = FALSE]>>,
    <<"Abstract", [D0 EXCEPT !.virt = "pure"]>>,
    <<"AbstractPd", [D0 EXCEPT !.virt = "pure", !.vdtor = TRUE, !.dt = "default", !.dtacc = "protected"]>>,
    <<"Base0", D0>>,
    <<"Derived", [D0 EXCEPT !.base = "Base0"]>>,
    <<"DerivedE", [D0 EXCEPT !.base = "Empty", !.data = FALSE]>>,
    <<"DerivedD", [D0 EXCEPT !.base = "Empty"]>>,
    <<"PrivD", [D0 EXCEPT !.base = "Base0", !.privbase = TRUE]>>,
    <<"PDerived", [D0 EXCEPT !.base = "PolyVd"]>>,
    <<"Impl", [D0 EXCEPT !.base = "Abstract", !.ovr = TRUE]>>,
    <<"StillAbs", [D0 EXCEPT !.base = "Abstract"]>>,
    <<"DcDef", [D0 EXCEPT !.dc = "default"]>>,
    <<"DcNe", [D0 EXCEPT !.dc = "user_ne"]>>,
    <<"DcTh", [D0 EXCEPT !.dc = "user_th"]>>,
    <<"DcDel", [D0 EXCEPT !.dc = "deleted"]>>,
    <<"CcDef", [D0 EXCEPT !.cc = "default"]>>,
    <<"CcNe", [D0 EXCEPT !.cc = "user_ne", !.dc = "default"]>>,
    <<"CcTh", [D0 EXCEPT !.cc = "user_th"]>>,
    <<"CcDel", [D0 EXCEPT !.cc = "deleted", !.dc = "default"]>>,
    <<"McDef", [D0 EXCEPT !.mc = "default"]>>,
    <<"McNe", [D0 EXCEPT !.mc = "user_ne", !.dc = "default"]>>,
    <<"McTh", [D0 EXCEPT !.mc = "user_th", !.cc = "default", !.dc = "user_ne"]>>,
    <<"McDel", [D0 EXCEPT !.mc = "deleted", !.cc = "default", !.dc = "default"]>>,
    <<"CaDef", [D0 EXCEPT !.ca = "default"]>>,
    <<"CaNe", [D0 EXCEPT !.ca = "user_ne"]>>,
    <<"CaTh", [D0 EXCEPT !.ca = "user_th"]>>,
    <<"CaDel", [D0 EXCEPT !.ca = "deleted"]>>,
    <<"MaDef", [D0 EXCEPT !.ma = "default"]>>,
    <<"MaNe", [D0 EXCEPT !.ma = "user_ne", !.ca = "default"]>>,
    <<"MaTh", [D0 EXCEPT !.ma = "user_th", !.ca = "user_ne", !.cc = "default", !.dc = "default"]>>,
    <<"MaDel", [D0 EXCEPT !.ma = "deleted", !.ca = "default"]>>,
    <<"DtDef", [D0 EXCEPT !.dt = "default"]>>,
    <<"DtNe", [D0 EXCEPT !.dt = "user_ne"]>>,
    <<"DtTh", [D0 EXCEPT !.dt = "user_th"]>>,
    <<"DtDel", [D0 EXCEPT !.dt = "deleted"]>>,
    <<"DtProt", [D0 EXCEPT !.dt = "default", !.dtacc = "protected"]>>,
    <<"MoveOnly", [D0 EXCEPT !.dc = "default", !.cc = "deleted", !.mc = "user_ne", !.ca = "deleted", !.ma = "user_ne"]>>,
    <<"CopyOnly", [D0 EXCEPT !.dc = "default", !.cc = "user_ne", !.mc = "deleted", !.ca = "user_ne", !.ma = "deleted"]>>,
    <<"AllNe", [D0 EXCEPT !.dc = "user_ne", !.cc = "user_ne", !.mc = "user_ne", !.ca = "user_ne", !.ma = "user_ne", !.dt = "user_ne"]>>,
    <<"AllTh", [D0 EXCEPT !.dc = "user_th", !.cc = "user_th", !.mc = "user_th", !.ca = "user_th", !.ma = "user_th"]>>,
    <<"AllDef", [D0 EXCEPT !.dc = "default", !.cc = "default", !.mc = "default", !.ca = "default", !.ma = "default", !.dt = "default"]>>,
    <<"AllDel", [D0 EXCEPT !.dc = "default", !.cc = "deleted", !.mc = "deleted", !.ca = "deleted", !.ma = "deleted"]>>,
    <<"EmptyDc", [D0 EXCEPT !.data = FALSE, !.dc = "user_ne"]>>,
    <<"UnCc", [D0 EXCEPT !.union = TRUE, !.cc = "user_ne", !.dc = "default"]>>,
    <<"CcNc", [D0 EXCEPT !.cc = "user_ne", !.ccnc = TRUE, !.dc = "default"]>>,
    <<"CaNc", [D0 EXCEPT !.ca = "user_ne", !.canc = TRUE]>>,
    <<"NcBoth", [D0 EXCEPT !.cc = "user_th", !.ccnc = TRUE, !.ca = "user_th", !.canc = TRUE, !.dc = "default",
                           !.mc = "user_ne", !.ma = "user_ne"]>>
>>
ClassNames == {ClassDefs[i][1] : i \in 1..Len(ClassDefs)}
ClassFacts == [n \in ClassNames |-> ClassDefs[CHOOSE i \in 1..Len(ClassDefs) : ClassDefs[i][1] = n][2]]

\* well-formedness of the descriptor table (checked by Types.tla as an ASSUME-like invariant)
DescOK(d) ==
    /\ d.dc \in MemberStates /\ d.cc \in MemberStates /\ d.mc \in MemberStates
    /\ d.ca \in MemberStates /\ d.ma \in MemberStates /\ d.dt \in MemberStates
    /\ d.virt \in {"none", "virtual", "pure"} /\ d.dtacc \in {"public", "protected"}
    /\ (d.vdtor => d.dt # "implicit") /\ (d.dtacc = "protected" => d.dt # "implicit")
    /\ (d.union => d.virt = "none" /\ ~d.vdtor /\ d.base = "-" /\ d.data)
    /\ (d.base # "-" => /\ d.base \in ClassNames
                        /\ LET b == ClassFacts[d.base] IN
                           /\ b.base = "-" /\ ~b.union /\ ~b.final /\ b.dtacc = "public"
                           /\ b.dc = "implicit" /\ b.cc = "implicit" /\ b.mc = "implicit"
                           /\ b.ca = "implicit" /\ b.ma = "implicit" /\ b.dt \in {"implicit", "default"}
                           /\ ~b.ccnc /\ ~b.canc)
    /\ (d.ovr => d.base # "-" /\ ClassFacts[d.base].virt # "none")
    /\ (d.privbase => d.base # "-")
    /\ (d.ccnc => d.cc \in {"user_ne", "user_th"}) /\ (d.canc => d.ca \in {"user_ne", "user_th"})
ClassTableOK == \A n \in ClassNames : DescOK(ClassFacts[n])

\* ---------------------------------------------------------------------------------------------
\* cv-qualification ([basic.type.qualifier]; an array is as qualified as its elements)
\* ---------------------------------------------------------------------------------------------
K(t) == IF t.k = "cv" THEN t.t.k ELSE t.k            \* constructor below an outermost cv node
Uq(t) == IF t.k = "cv" THEN t.t ELSE t
IsRef(t) == t.k \in {"lref", "rref"}

RECURSIVE TopC(_)
TopC(t) == IF t.k = "cv" THEN t.c ELSE IF t.k = "arr" THEN TopC(t.t) ELSE FALSE
RECURSIVE TopV(_)
TopV(t) == IF t.k = "cv" THEN t.v ELSE IF t.k = "arr" THEN TopV(t.t) ELSE FALSE

RECURSIVE SetCv(_, _, _)
SetCv(c, v, t) ==
    IF t.k = "arr" THEN [k |-> "arr", n |-> t.n, t |-> SetCv(c, v, t.t)]
    ELSE IF t.k = "cv" THEN SetCv(c, v, t.t)
    ELSE IF t.k \in {"lref", "rref", "fn"} THEN t
    ELSE IF c \/ v THEN [k |-> "cv", c |-> c, v |-> v, t |-> t]
    ELSE t

AddCvQ(c, v, t) == SetCv(TopC(t) \/ c, TopV(t) \/ v, t)
Unq(t) == SetCv(FALSE, FALSE, t)
Const(t) == AddCvQ(TRUE, FALSE, t)
Volatile(t) == AddCvQ(FALSE, TRUE, t)
CV(t) == AddCvQ(TRUE, TRUE, t)

\* ---------------------------------------------------------------------------------------------
\* Class facts derived from the descriptors
\* ---------------------------------------------------------------------------------------------
HasBase(n) == ClassFacts[n].base # "-"
BaseOf(n) == ClassFacts[n].base
IsUnionN(n) == ClassFacts[n].union
PolyN(n) == LET d == ClassFacts[n] IN
    d.virt # "none" \/ d.vdtor \/ (d.base # "-" /\ (ClassFacts[d.base].virt # "none" \/ ClassFacts[d.base].vdtor))
VDtorN(n) == LET d == ClassFacts[n] IN d.vdtor \/ (d.base # "-" /\ ClassFacts[d.base].vdtor)
AbstractN(n) == LET d == ClassFacts[n] IN
    d.virt = "pure" \/ (d.base # "-" /\ ClassFacts[d.base].virt = "pure" /\ ~d.ovr)
\* [class.prop]/ [meta.unary.prop] is_empty: non-union class, no non-static data members, no virtual functions,
\* no virtual bases, all bases empty
EmptyN(n) == LET d == ClassFacts[n] IN
    ~d.union /\ ~d.data /\ ~PolyN(n) /\ (d.base # "-" => ~ClassFacts[d.base].data)
\* [dcl.init.aggr]/1 (C++20): no user-declared or inherited constructors, no private/protected direct data members,
\* no virtual functions, no virtual/private/protected base classes
AggregateN(n) == LET d == ClassFacts[n] IN
    d.dc = "implicit" /\ d.cc = "implicit" /\ d.mc = "implicit" /\ ~PolyN(n) /\ ~d.privbase
\* [class.prop]/3 standard-layout, specialised to the zoo (one `int m`, at most one base, all public members)
StdLayoutN(n) == LET d == ClassFacts[n] IN
    ~PolyN(n) /\ (d.base # "-" => ~(d.data /\ ClassFacts[d.base].data))

UserDeclared(s) == s # "implicit"
\* kind of an implicitly-defined / defaulted copy, move or default operation: trivial unless the class has virtual
\* functions ([class.default.ctor]/3, [class.copy.ctor]/11, [class.copy.assign]/9); never throwing in the zoo
ImplKind(n) == IF PolyN(n) THEN "ne" ELSE "trivial"
DtImplKind(n) == IF VDtorN(n) THEN "ne" ELSE "trivial"
StateKind(s, impl) ==
    CASE s \in {"implicit", "default"} -> impl
      [] s = "user_ne" -> "ne"
      [] s = "user_th" -> "th"
      [] s = "deleted" -> "deleted"
\* The declared special members ("none": not declared)                        [class.default.ctor]/1
DefCtor(n) == LET d == ClassFacts[n] IN
    IF d.dc # "implicit" THEN StateKind(d.dc, ImplKind(n))
    ELSE IF d.cc = "implicit" /\ d.mc = "implicit" THEN ImplKind(n) ELSE "none"
\* [class.copy.ctor]/6: implicit copy ctor is deleted if the class declares a move ctor or move assignment
CopyCtor(n) == LET d == ClassFacts[n] IN
    IF d.cc # "implicit" THEN StateKind(d.cc, ImplKind(n))
    ELSE IF UserDeclared(d.mc) \/ UserDeclared(d.ma) THEN "deleted" ELSE ImplKind(n)
\* [class.copy.ctor]/8: implicit move ctor only if no user-declared copy ctor, copy assignment, move assignment, dtor
MoveCtor(n) == LET d == ClassFacts[n] IN
    IF d.mc # "implicit" THEN StateKind(d.mc, ImplKind(n))
    ELSE IF d.cc = "implicit" /\ d.ca = "implicit" /\ d.ma = "implicit" /\ d.dt = "implicit" THEN ImplKind(n)
    ELSE "none"
CopyAsg(n) == LET d == ClassFacts[n] IN
    IF d.ca # "implicit" THEN StateKind(d.ca, ImplKind(n))
    ELSE IF UserDeclared(d.mc) \/ UserDeclared(d.ma) THEN "deleted" ELSE ImplKind(n)
MoveAsg(n) == LET d == ClassFacts[n] IN
    IF d.ma # "implicit" THEN StateKind(d.ma, ImplKind(n))
    ELSE IF d.cc = "implicit" /\ d.mc = "implicit" /\ d.ca = "implicit" /\ d.dt = "implicit" THEN ImplKind(n)
    ELSE "none"
Dtor(n) == StateKind(ClassFacts[n].dt, DtImplKind(n))
DtorUsable(n) == Dtor(n) # "deleted" /\ ClassFacts[n].dtacc = "public"
\* overload resolution between T(const T&) and T(T&&) for an argument of the class type ([over.match], [over.ics.rank]):
\* rvalue non-const -> the move ctor if declared (even if deleted), otherwise the copy ctor
\* a copy operation taking T& is viable only for a non-const lvalue
CtorFor(n, rvalue, const) ==
    IF rvalue /\ ~const /\ MoveCtor(n) # "none" THEN MoveCtor(n)
    ELSE IF ClassFacts[n].ccnc /\ (rvalue \/ const) THEN "none"
    ELSE CopyCtor(n)
AsgFor(n, rvalue, const) ==
    IF rvalue /\ ~const /\ MoveAsg(n) # "none" THEN MoveAsg(n)
    ELSE IF ClassFacts[n].canc /\ (rvalue \/ const) THEN "none"
    ELSE CopyAsg(n)
Usable(kd) == kd \in {"trivial", "ne", "th"}
Yes(kd) == kd # "no"
Nothrow(kd) == kd \in {"trivial", "ne"}
Trivial(kd) == kd = "trivial"

\* is Derived (n) the same class as or publicly derived from b
DerivesPub(n, b) == n = b \/ (ClassFacts[n].base = b /\ ~ClassFacts[n].privbase)
DerivesAny(n, b) == n = b \/ ClassFacts[n].base = b

\* ---------------------------------------------------------------------------------------------
\* Structural predicates on terms
\* ---------------------------------------------------------------------------------------------
IsVoidT(t) == K(t) = "void"
IsIntegralT(t) == K(t) \in {"bool", "char", "int"}
IsFloatT(t) == K(t) = "float"
IsArithT(t) == IsIntegralT(t) \/ IsFloatT(t)
IsEnumT(t) == K(t) = "enum"
IsClassOrUnionT(t) == K(t) = "class"
IsUnionT(t) == K(t) = "class" /\ IsUnionN(Uq(t).n)
IsClassT(t) == K(t) = "class" /\ ~IsUnionN(Uq(t).n)
IsFnT(t) == t.k = "fn"
IsArrT(t) == t.k = "arr"
IsPtrT(t) == K(t) = "ptr"
IsMemPtrT(t) == K(t) = "memptr"
IsMemFnPtrT(t) == K(t) = "memptr" /\ Uq(t).t.k = "fn"
IsMemObjPtrT(t) == K(t) = "memptr" /\ Uq(t).t.k # "fn"
IsNullT(t) == K(t) = "nullptr"
IsScalarT(t) == IsArithT(t) \/ IsEnumT(t) \/ IsPtrT(t) \/ IsMemPtrT(t) \/ IsNullT(t)
IsObjectT(t) == ~IsRef(t) /\ ~IsFnT(t) /\ ~IsVoidT(t)
Abominable(t) == t.k = "fn" /\ (t.c \/ t.v \/ t.ref # "none")
Referenceable(t) == ~IsVoidT(t) /\ ~Abominable(t)
AbstractT(t) == K(t) = "class" /\ AbstractN(Uq(t).n)
RECURSIVE ElemT(_)
ElemT(t) == IF t.k = "arr" THEN ElemT(t.t) ELSE t          \* remove_all_extents
IsUnboundedT(t) == t.k = "arr" /\ t.n = 0
IsBoundedT(t) == t.k = "arr" /\ t.n > 0

RECURSIVE Valid(_)
ValidSeq(s) == \A i \in 1..Len(s) : Valid(s[i])
Valid(t) ==
    CASE t.k \in {"void", "nullptr", "bool"} -> TRUE
      [] t.k = "char" -> t.n \in CharNames
      [] t.k = "int" -> t.r \in IntRanks /\ t.s \in BOOLEAN
      [] t.k = "float" -> t.n \in FloatNames
      [] t.k = "enum" -> t.n \in EnumNames
      [] t.k = "class" -> t.n \in ClassNames
      [] t.k = "cv" -> (t.c \/ t.v) /\ t.t.k \notin {"cv", "arr", "lref", "rref", "fn"} /\ Valid(t.t)
      [] t.k = "ptr" -> ~IsRef(t.t) /\ ~Abominable(t.t) /\ Valid(t.t)
      [] t.k \in {"lref", "rref"} -> ~IsRef(t.t) /\ Referenceable(t.t) /\ Valid(t.t)
      [] t.k = "arr" -> t.n >= 0 /\ IsObjectT(t.t) /\ ~IsUnboundedT(t.t) /\ ~AbstractT(ElemT(t.t)) /\ Valid(t.t)
      [] t.k = "fn" ->
            /\ t.r.k \notin {"arr", "fn", "cv"} /\ ~AbstractT(t.r) /\ Valid(t.r)
            /\ \A i \in 1..Len(t.a) : t.a[i].k \notin {"void", "arr", "fn", "cv"} /\ ~AbstractT(t.a[i]) /\ Valid(t.a[i])
            /\ t.ref \in {"none", "l", "r"}
      [] t.k = "memptr" -> t.cls \in ClassNames /\ ~IsRef(t.t) /\ ~IsVoidT(t.t) /\ Valid(t.t)
      [] OTHER -> FALSE

\* ---------------------------------------------------------------------------------------------
\* Sizes and alignments (platform table, LP64 x86-64)
\* ---------------------------------------------------------------------------------------------
CharSigned(n) == n \in {"char", "schar", "wchar"}
CharSize(n) == CASE n \in {"char", "schar", "uchar", "char8"} -> 1 [] n = "char16" -> 2 [] OTHER -> 4
RankSize(r) == CASE r = "short" -> 2 [] r = "int" -> 4 [] OTHER -> 8
FloatSize(n) == CASE n = "float" -> 4 [] n = "double" -> 8 [] OTHER -> 16
RECURSIVE ScalarSize(_)
ScalarSize(t) == LET u == Uq(t) IN
    CASE u.k = "bool" -> 1
      [] u.k = "char" -> CharSize(u.n)
      [] u.k = "int" -> RankSize(u.r)
      [] u.k = "float" -> FloatSize(u.n)
      [] u.k = "enum" -> ScalarSize(EnumFacts(u.n).ut)
      [] u.k \in {"ptr", "nullptr"} -> 8
      [] u.k = "memptr" -> IF u.t.k = "fn" THEN 16 ELSE 8
ScalarAlign(t) == IF IsMemFnPtrT(t) THEN 8 ELSE ScalarSize(t)

\* ---------------------------------------------------------------------------------------------
\* [meta.trans.*]
\* ---------------------------------------------------------------------------------------------
RemoveConst(t) == SetCv(FALSE, TopV(t), t)
RemoveVolatile(t) == SetCv(TopC(t), FALSE, t)
RemoveRef(t) == IF IsRef(t) THEN t.t ELSE t
AddLRef(t) == IF ~Referenceable(t) THEN t ELSE IF t.k = "lref" THEN t ELSE IF t.k = "rref" THEN LRef(t.t) ELSE LRef(t)
AddRRef(t) == IF ~Referenceable(t) THEN t ELSE IF IsRef(t) THEN t ELSE RRef(t)
AddPointer(t) == IF Referenceable(t) \/ IsVoidT(t) THEN Ptr(RemoveRef(t)) ELSE t
RemovePointer(t) == IF K(t) = "ptr" THEN Uq(t).t ELSE t
RemoveExtent(t) == IF t.k = "arr" THEN t.t ELSE t
RemoveCvRef(t) == Unq(RemoveRef(t))
Decay(t) == LET u == RemoveRef(t) IN
    IF u.k = "arr" THEN Ptr(u.t) ELSE IF u.k = "fn" THEN AddPointer(u) ELSE Unq(u)

\* make_signed / make_unsigned [meta.trans.sign]: defined for (cv) integral types other than bool and (cv) enums
SignPre(t) == (IsIntegralT(t) /\ K(t) # "bool") \/ IsEnumT(t)
\* "the signed/unsigned integer type with the smallest rank for which sizeof is equal"
SmallestOfSize(sz, s) ==
    CASE sz = 1 -> TChar(IF s THEN "schar" ELSE "uchar")
      [] sz = 2 -> TInt("short", s)
      [] sz = 4 -> TInt("int", s)
      [] sz = 8 -> TInt("long", s)
MakeSign(t, s) == LET u == Uq(t) IN
    AddCvQ(TopC(t), TopV(t),
        CASE u.k = "int" -> TInt(u.r, s)
          [] u.k = "char" /\ u.n \in {"schar", "uchar"} -> TChar(IF s THEN "schar" ELSE "uchar")
          [] OTHER -> SmallestOfSize(ScalarSize(u), s))

UnderlyingPre(t) == t.k = "enum" \/ (t.k = "cv" /\ t.t.k = "enum")    \* otherwise: no member `type` (C++20)
UnderlyingJudged(t) == UnderlyingPre(t) /\ EnumFacts(Uq(t).n).fixed
Underlying(t) == EnumFacts(Uq(t).n).ut

\* usual arithmetic conversions [expr.arith.conv] for common_type of two arithmetic types
Promote(u) ==          \* integral promotion [conv.prom] of an unqualified arithmetic type
    CASE u.k = "bool" -> TIntS
      [] u.k = "char" -> IF u.n = "char32" THEN TUInt ELSE TIntS
      [] u.k = "int" /\ u.r = "short" -> TIntS
      [] OTHER -> u
IntRankNo(r) == CASE r = "int" -> 1 [] r = "long" -> 2 [] r = "llong" -> 3
FloatRankNo(n) == CASE n = "float" -> 1 [] n = "double" -> 2 [] n = "ldouble" -> 3
UsualArith(a0, b0) ==
    LET a == Promote(a0) b == Promote(b0) IN
    IF a0 = b0 THEN a0          \* [expr.cond]/6: same type, no conversion
    ELSE IF a.k = "float" /\ b.k = "float" THEN (IF FloatRankNo(a.n) >= FloatRankNo(b.n) THEN a ELSE b)
    ELSE IF a.k = "float" THEN a ELSE IF b.k = "float" THEN b
    ELSE IF a = b THEN a
    ELSE IF a.s = b.s THEN (IF IntRankNo(a.r) >= IntRankNo(b.r) THEN a ELSE b)
    ELSE LET u == IF a.s THEN b ELSE a       \* the unsigned one
             s == IF a.s THEN a ELSE b IN
         IF IntRankNo(u.r) >= IntRankNo(s.r) THEN u
         ELSE IF RankSize(s.r) > RankSize(u.r) THEN s
         ELSE TInt(s.r, FALSE)

\* ---------------------------------------------------------------------------------------------
\* [meta.unary.prop.query]
\* ---------------------------------------------------------------------------------------------
RECURSIVE Rank(_)
Rank(t) == IF t.k = "arr" THEN 1 + Rank(t.t) ELSE 0
RECURSIVE Extent(_, _)
Extent(t, i) == IF t.k # "arr" THEN 0 ELSE IF i = 0 THEN t.n ELSE Extent(t.t, i - 1)
\* alignment_of: complete object type or reference to one; stated for scalars, arrays of scalars and references to them
AlignPre(t) == LET e == ElemT(RemoveRef(t)) IN IsScalarT(e) /\ ~IsUnboundedT(RemoveRef(t))
AlignOf(t) == ScalarAlign(ElemT(RemoveRef(t)))

\* ---------------------------------------------------------------------------------------------
\* Signedness [meta.unary.prop]: is_arithmetic_v<T> && T(-1) < T(0)
\* ---------------------------------------------------------------------------------------------
IsSignedT(t) == LET u == Uq(t) IN
    CASE u.k = "float" -> TRUE
      [] u.k = "int" -> u.s
      [] u.k = "char" -> CharSigned(u.n)
      [] OTHER -> FALSE
IsUnsignedT(t) == IsArithT(t) /\ ~IsSignedT(t)

\* ---------------------------------------------------------------------------------------------
\* Expressions declval<A>() and reference binding
\* ---------------------------------------------------------------------------------------------
ArgLvalue(a) == a.k = "lref" \/ (a.k = "rref" /\ a.t.k = "fn")
ArgType(a) == RemoveRef(a)

\* Reference binding T& / T&& r(declval<A>()) restricted to the "same type or public base" family [dcl.init.ref];
\* everything else about references is stated only where RefBindPre holds.
\* reference-compatible: Unq equal (or base) and cv of the target >= cv of the source
CvGE(t, a) == (TopC(a) => TopC(t)) /\ (TopV(a) => TopV(t))
SameOrBase(t, a) ==      \* t is the same type as a, or an accessible base class of a (ignoring cv)
    \/ Unq(t) = Unq(a)
    \/ (K(t) = "class" /\ K(a) = "class" /\ DerivesPub(Uq(a).n, Uq(t).n))
RelatedAny(t, a) == Unq(t) = Unq(a) \/ (K(t) = "class" /\ K(a) = "class" /\ DerivesAny(Uq(a).n, Uq(t).n))
RefBindPre(r, a) ==      \* the families I can state: source reference-related to the target (incl. fn noexcept dropped: excluded)
    /\ IsRef(r)
    /\ LET t == r.t s == ArgType(a) IN
       /\ RelatedAny(t, s)
       /\ ~(K(t) = "class" /\ K(s) = "class" /\ Uq(t).n # Uq(s).n /\ ClassFacts[Uq(s).n].privbase)
RefBinds(r, a) ==
    LET t == r.t s == ArgType(a) lv == ArgLvalue(a) IN
    /\ SameOrBase(t, s) /\ CvGE(t, s)
    /\ IF r.k = "lref" THEN (lv \/ (TopC(t) /\ ~TopV(t)))
       ELSE (~lv \/ t.k = "fn")          \* [dcl.init.ref]/5.3: function lvalues bind to rvalue references

\* ---------------------------------------------------------------------------------------------
\* Implicit conversion [conv], is_convertible<From, To>: `To test() { return declval<From>(); }`
\* ConvPre = the rule families stated here; Conv = the answer.
\* ---------------------------------------------------------------------------------------------
FnNoexceptDrop(f, t) == f.k = "fn" /\ t.k = "fn" /\ f.ne /\ ~t.ne /\ [f EXCEPT !.ne = FALSE] = t
\* pointer conversions among object/function/void pointers; pointees that are themselves pointers or member pointers
\* only when identical up to top-level cv (multi-level qualification conversions are not modelled)
PtrConvPre(pf, pt) ==
    \/ K(pf) \notin {"ptr", "memptr"} \/ K(pt) \notin {"ptr", "memptr"}
    \/ Unq(pf) = Unq(pt)
PtrConv(pf, pt) ==      \* pointee types
    /\ CvGE(pt, pf)
    /\ \/ Unq(pf) = Unq(pt)
       \/ IsVoidT(pt) /\ ~IsFnT(pf)
       \/ K(pf) = "class" /\ K(pt) = "class" /\ DerivesPub(Uq(pf).n, Uq(pt).n)
       \/ FnNoexceptDrop(pf, pt)

\* the source expression after array-to-pointer / function-to-pointer conversion
SrcDecayed(s) == IF s.k = "arr" THEN Ptr(s.t) ELSE IF s.k = "fn" THEN Ptr(s) ELSE s

ConvPre(f, t) ==
    LET s0 == ArgType(f) s == SrcDecayed(s0) IN
    \/ IsVoidT(f) \/ IsVoidT(t)
    \/ IsFnT(t) \/ t.k = "arr"
    \/ Abominable(f)          \* add_rvalue_reference leaves F alone and "F declval()" cannot be formed: not convertible
    \/ /\ IsRef(t) /\ RefBindPre(t, f) /\ s0.k # "fn" /\ s0.k # "arr"
    \/ /\ IsRef(t) /\ s0.k = "fn" /\ t.t = s0
    \/ /\ ~IsRef(t) /\ IsScalarT(t) /\ IsScalarT(s)
       /\ (K(t) = "ptr" /\ K(s) = "ptr" => PtrConvPre(Uq(s).t, Uq(t).t))
       /\ (K(t) = "memptr" /\ K(s) = "memptr" => Unq(s) = Unq(t))
    \/ /\ ~IsRef(t) /\ IsScalarT(t) /\ K(s) = "class"
    \/ /\ ~IsRef(t) /\ K(t) = "class" /\ IsScalarT(s)
    \/ /\ ~IsRef(t) /\ K(t) = "class" /\ K(s) = "class"
       /\ (Uq(t).n = Uq(s).n \/ ~DerivesAny(Uq(s).n, Uq(t).n) \/ DerivesPub(Uq(s).n, Uq(t).n))
       /\ ~TopV(s) /\ DtorUsable(Uq(t).n)

ScalarConv(s, t) ==      \* unqualified-target scalar t from decayed source s (cv of the source value is irrelevant)
    LET a == Uq(s) b == Uq(t) IN
    CASE b.k = "bool" -> a.k \in {"bool", "char", "int", "float", "ptr", "memptr"} \/ (a.k = "enum" /\ ~EnumFacts(a.n).scoped)
      [] b.k \in {"char", "int", "float"} -> a.k \in {"bool", "char", "int", "float"} \/ (a.k = "enum" /\ ~EnumFacts(a.n).scoped)
      [] b.k = "enum" -> a = b
      [] b.k = "nullptr" -> a.k = "nullptr"
      [] b.k = "ptr" -> a.k = "nullptr" \/ (a.k = "ptr" /\ PtrConv(a.t, b.t))
      [] b.k = "memptr" -> a.k = "nullptr" \/ a = b

Conv(f, t) ==
    LET s0 == ArgType(f) s == SrcDecayed(s0) IN
    IF IsVoidT(t) THEN IsVoidT(f)
    ELSE IF IsVoidT(f) \/ IsFnT(t) \/ t.k = "arr" \/ Abominable(f) THEN FALSE
    ELSE IF IsRef(t) THEN
        (IF s0.k = "fn" THEN TRUE ELSE RefBinds(t, f))
    ELSE IF AbstractT(t) THEN FALSE
    ELSE IF K(t) = "class" THEN
        (IF K(s) # "class" THEN FALSE
         ELSE IF ~DerivesPub(Uq(s).n, Uq(t).n) THEN FALSE
         ELSE Usable(CtorFor(Uq(t).n, ~ArgLvalue(f), TopC(s))))
    ELSE IF K(s) = "class" THEN FALSE
    ELSE ScalarConv(s, t)

\* is_nothrow_convertible: additionally the conversion must not throw
ConvNothrow(f, t) ==
    LET s == SrcDecayed(ArgType(f)) IN
    Conv(f, t) /\ (~IsRef(t) /\ K(t) = "class" =>
                      /\ Nothrow(CtorFor(Uq(t).n, ~ArgLvalue(f), TopC(s)))
                      /\ Dtor(Uq(t).n) # "th")

\* ---------------------------------------------------------------------------------------------
\* Initialisation, assignment, destruction [meta.unary.prop] via [dcl.init], [class.*]
\* Argument descriptions: the expression declval<A>() has type RemoveRef(A) and is an lvalue iff A is an lvalue
\* reference (to object: function rvalue references yield lvalues too).
\* ---------------------------------------------------------------------------------------------
RECURSIVE Destructible(_)
Destructible(t) ==
    IF IsRef(t) THEN TRUE
    ELSE IF IsVoidT(t) \/ IsFnT(t) \/ IsUnboundedT(t) THEN FALSE
    ELSE IF t.k = "arr" THEN Destructible(ElemT(t))
    ELSE IF K(t) = "class" THEN DtorUsable(Uq(t).n)
    ELSE TRUE
DtorKindT(t) == LET e == ElemT(t) IN IF K(e) = "class" THEN Dtor(Uq(e).n) ELSE "trivial"
NothrowDestructible(t) == Destructible(t) /\ (IsRef(t) \/ DtorKindT(t) # "th")
TriviallyDestructible(t) == Destructible(t) /\ (IsRef(t) \/ DtorKindT(t) = "trivial")

\* --- T t(); (value-/default-initialisation)                                  is_default_constructible
\* "kind" result: "no" (ill-formed) or the kind of the selected operation
DefaultKind(t) ==
    IF IsRef(t) \/ IsVoidT(t) \/ IsFnT(t) \/ IsUnboundedT(t) THEN "no"
    ELSE LET e == ElemT(t) IN
         IF K(e) = "class" THEN
            (IF AbstractN(Uq(e).n) \/ ~DtorUsable(Uq(e).n) \/ ~Usable(DefCtor(Uq(e).n)) THEN "no" ELSE DefCtor(Uq(e).n))
         ELSE "trivial"

\* --- T t(declval<A>()) for one argument that is reference-related to T (copy/move family)
\* CopyFamPre: object T (possibly array -> never constructible from one argument), A's type the same type up to cv
\* T[N] t(declval<A>()): parenthesised aggregate initialisation (C++20, P0960): the first element is
\* copy-initialised from the argument, the others are value-initialised.  Stated for scalar elements.
ArrInitPre(t, a) == t.k = "arr" /\ t.n > 0 /\ IsScalarT(t.t) /\ ConvPre(a, t.t)
ArrInitKind(t, a) == IF Conv(a, t.t) THEN "trivial" ELSE "no"
InitKind1(t, a) ==      \* kind of T t(declval<A>()) when Unq(ArgType(a)) = Unq(t), T an object type
    IF t.k = "arr" THEN (IF ArrInitPre(t, a) THEN ArrInitKind(t, a) ELSE "no")
    ELSE IF K(t) = "class" THEN
        LET n == Uq(t).n s == ArgType(a)
            kd == CtorFor(n, ~ArgLvalue(a), TopC(s)) IN
        IF TopV(s) \/ AbstractN(n) \/ ~DtorUsable(n) \/ ~Usable(kd) THEN "no" ELSE kd
    ELSE "trivial"        \* scalars: lvalue-to-rvalue conversion, also from volatile

\* generic front end for the unary traits: is_constructible<T, A> where A is T-related (built from T by the traits)
Construct1Kind(t, a) ==
    IF IsVoidT(t) \/ IsFnT(t) THEN "no"
    ELSE IF IsRef(t) THEN (IF RefBinds(t, a) THEN "trivial" ELSE "no")
    ELSE InitKind1(t, a)

CopyArg(t) == AddLRef(Const(t))
MoveArg(t) == AddRRef(t)

\* with the destructor taken into account as libstdc++/libc++/MSVC all do (LWG 2116, 2827): the variable definition
\* "T t(args);" is trivial / non-throwing only if the destruction is, too
KindWithDtor(kd, t) ==
    IF kd = "no" \/ IsRef(t) THEN kd
    ELSE LET dk == DtorKindT(t) IN
         IF kd = "th" \/ dk = "th" THEN "th" ELSE IF kd = "ne" \/ dk = "ne" THEN "ne" ELSE "trivial"

\* --- assignment declval<L>() = declval<R>() for the copy/move family
\* L must be an lvalue of non-const scalar type, or a class object (lvalue or rvalue: no ref-qualifiers in the zoo)
AssignKind(l, r) ==      \* Pre: Unq(ArgType(l)) = Unq(ArgType(r))
    LET t == ArgType(l) s == ArgType(r) IN
    IF IsVoidT(t) \/ IsFnT(t) \/ t.k = "arr" \/ TopC(t) THEN "no"
    ELSE IF K(t) = "class" THEN
        LET kd == AsgFor(Uq(t).n, ~ArgLvalue(r), TopC(s)) IN
        IF TopV(t) \/ TopV(s) \/ ~Usable(kd) THEN "no" ELSE kd
    ELSE IF ArgLvalue(l) THEN "trivial" ELSE "no"

CopyAssignKind(t) == IF ~Referenceable(t) THEN "no" ELSE AssignKind(AddLRef(t), AddLRef(Const(t)))
MoveAssignKind(t) == IF ~Referenceable(t) THEN "no" ELSE AssignKind(AddLRef(t), AddRRef(t))


\* is_swappable<T> = is_swappable_with<T&, T&>: std::swap(T&, T&) requires move-constructible and move-assignable,
\* the array overload requires swappable elements [utility.swap]
RECURSIVE SwapKind(_)
SwapKind(t0) ==
    IF ~Referenceable(t0) THEN "no"
    ELSE LET t == RemoveRef(t0) IN
         IF t.k = "arr" THEN (IF t.n = 0 THEN "no" ELSE SwapKind(t.t))
         ELSE IF IsFnT(t) THEN "no"
         ELSE LET mc == KindWithDtor(Construct1Kind(t, MoveArg(t)), t)
                  ma == MoveAssignKind(t) IN
              IF mc = "no" \/ ma = "no" THEN "no"
              ELSE IF mc = "th" \/ ma = "th" THEN "th" ELSE "ne"

\* is_trivially_copyable [basic.types]/9, [class.prop]/1.  Classes with no eligible copy/move operation are left
\* open (CWG 1734: the standard says "not trivially copyable", gcc 12 says yes).
TCopyablePre(t) == LET e == ElemT(t) IN
    K(e) = "class" => LET n == Uq(e).n IN
        /\ \E kd \in {CopyCtor(n), MoveCtor(n), CopyAsg(n), MoveAsg(n)} : Usable(kd)
        /\ Dtor(n) # "deleted"       \* "trivial non-deleted destructor" (C++20); gcc 12 accepts a deleted one
\* a class whose only default constructor is deleted has no *eligible* default constructor (P0848): not trivial;
\* gcc 12 still says trivial -> left open
TrivialPre(t) == LET e == ElemT(t) IN
    TCopyablePre(t) /\ (K(e) = "class" => DefCtor(Uq(e).n) # "deleted")
TriviallyCopyable(t) == LET e == ElemT(t) IN
    IF IsRef(t) \/ IsVoidT(t) \/ IsFnT(t) THEN FALSE
    ELSE IF K(e) = "class" THEN
        LET n == Uq(e).n IN
        /\ \A kd \in {CopyCtor(n), MoveCtor(n), CopyAsg(n), MoveAsg(n)} : kd \in {"trivial", "deleted", "none"}
        /\ Dtor(n) = "trivial"
    ELSE TRUE
\* is_trivial: trivially copyable and one or more eligible default constructors, all trivial
TrivialT(t) == LET e == ElemT(t) IN
    TriviallyCopyable(t) /\ (K(e) = "class" => DefCtor(Uq(e).n) = "trivial")
StdLayoutT(t) == LET e == ElemT(t) IN
    IF IsRef(t) \/ IsVoidT(t) \/ IsFnT(t) THEN FALSE
    ELSE IF K(e) = "class" THEN StdLayoutN(Uq(e).n) ELSE TRUE

\* is_constructible<T, A> (direct-initialisation) where it coincides with, or differs in a stated way from, Conv
\*  - object scalar targets: = Conv except bool <- nullptr_t (direct-init only, [conv.bool])
\*  - class targets from a related class: = copy/move selection (no explicit ctors in the zoo)
\*  - class targets that are aggregates accept one scalar argument by parenthesised aggregate init (C++20 P0960): left open
\*  - reference targets: only the direct-binding family (a static_cast-like derived<-base binding is *not* allowed)
\*  - bounded arrays of scalars: parenthesised aggregate init of the first element (ArrInitKind); other arrays left open
Ctor2Pre(t, a) ==
    LET s == SrcDecayed(ArgType(a)) IN
    /\ ~IsVoidT(a) /\ ~Abominable(a)
    /\ IF t.k = "arr" THEN ArrInitPre(t, a)
       ELSE /\ ConvPre(a, t)
            /\ ~(~IsRef(t) /\ K(t) = "class" /\ AggregateN(Uq(t).n) /\ (K(s) # "class" \/ ~DerivesPub(Uq(s).n, Uq(t).n)))
            /\ ~(IsRef(t) /\ ArgType(a).k = "fn")
Ctor2Kind(t, a) ==
    LET s == SrcDecayed(ArgType(a)) IN
    IF IsVoidT(t) \/ IsFnT(t) THEN "no"
    ELSE IF t.k = "arr" THEN ArrInitKind(t, a)
    ELSE IF IsRef(t) THEN (IF RefBinds(t, a) THEN "trivial" ELSE "no")
    ELSE IF K(t) = "class" THEN
        (IF K(s) # "class" THEN "no"
         ELSE IF ~DerivesPub(Uq(s).n, Uq(t).n) \/ AbstractN(Uq(t).n) \/ ~DtorUsable(Uq(t).n) THEN "no"
         ELSE LET kd == CtorFor(Uq(t).n, ~ArgLvalue(a), TopC(s)) IN IF Usable(kd) THEN kd ELSE "no")
    ELSE IF K(t) = "bool" /\ K(s) = "nullptr" THEN "trivial"
    ELSE IF ScalarConv(s, t) THEN "trivial" ELSE "no"

\* is_assignable<L, R>: declval<L>() = declval<R>(); stated for scalar and same/derived class families
Asg2Pre(l, r) ==
    LET t == ArgType(l) s == SrcDecayed(ArgType(r)) IN
    /\ ~Abominable(l) /\ ~Abominable(r)
    /\ ~(~IsRef(l) /\ AbstractT(l))        \* gcc 12: __is_assignable(Abstract, X) is false (prvalue of abstract type): left open
    /\ \/ IsVoidT(l) \/ IsVoidT(r) \/ IsFnT(t) \/ t.k = "arr"
       \/ IsScalarT(t) /\ ConvPre(r, Unq(t))
       \/ K(t) = "class" /\ K(s) # "class"
       \/ K(t) = "class" /\ K(s) = "class" /\ ~TopV(s) /\ ~TopV(t)
          /\ (Uq(t).n = Uq(s).n \/ ~DerivesAny(Uq(s).n, Uq(t).n) \/ DerivesPub(Uq(s).n, Uq(t).n))
Asg2Kind(l, r) ==
    LET t == ArgType(l) s == SrcDecayed(ArgType(r)) IN
    IF IsVoidT(l) \/ IsVoidT(r) \/ IsFnT(t) \/ t.k = "arr" \/ TopC(t) THEN "no"
    ELSE IF K(t) = "class" THEN
        (IF K(s) # "class" \/ ~DerivesPub(Uq(s).n, Uq(t).n) THEN "no"
         ELSE LET kd == AsgFor(Uq(t).n, ~ArgLvalue(r), TopC(s)) IN IF Usable(kd) THEN kd ELSE "no")
    ELSE IF ~ArgLvalue(l) THEN "no"
    ELSE IF Conv(r, Unq(t)) THEN "trivial" ELSE "no"

\* [meta.rel] is_base_of<B, D>: both non-union class types, B is D or a (possibly private) base of D; cv ignored
BaseOfPre(b, d) == TRUE
IsBaseOf(b, d) == IsClassT(b) /\ IsClassT(d) /\ DerivesAny(Uq(d).n, Uq(b).n)

\* ---------------------------------------------------------------------------------------------
\* const-default-constructible [dcl.init]/7 for default_initializable (`new T;`)
\* ---------------------------------------------------------------------------------------------
ConstDefaultOK(e) ==        \* e: element type (cv class or scalar)
    IF ~TopC(e) THEN TRUE
    ELSE IF K(e) = "class" THEN
        LET d == ClassFacts[Uq(e).n] IN
        d.dc \in {"user_ne", "user_th"} \/ (~d.union /\ ~d.data /\ (d.base = "-" \/ ~ClassFacts[d.base].data))
    ELSE FALSE


\* ---------------------------------------------------------------------------------------------
\* [meta.logical] conjunction / disjunction / negation over sequences of "T" (true_type), "F" (false_type) and
\* "P" (a type without a member `value`).  The specialisation is the first Bi that decides, and "the instantiation of
\* conjunction<B1, ..., BN> does not require the instantiation of Bj::value for j > i": a "P" after the deciding
\* element must not hurt; a "P" before it makes the program ill-formed (not generated).
\* ---------------------------------------------------------------------------------------------
LogicNames == {"conjunction", "disjunction", "negation"}
RECURSIVE FirstIdx(_, _, _)
FirstIdx(bs, x, i) == IF i > Len(bs) THEN 0 ELSE IF bs[i] = x THEN i ELSE FirstIdx(bs, x, i + 1)
LogicPre(op, bs) ==
    LET stop == FirstIdx(bs, IF op = "conjunction" THEN "F" ELSE "T", 1)
        p == FirstIdx(bs, "P", 1) IN
    IF op = "negation" THEN Len(bs) = 1 /\ bs[1] # "P"
    ELSE p = 0 \/ (stop # 0 /\ stop < p)
LogicVal(op, bs) ==
    CASE op = "conjunction" -> FirstIdx(bs, "F", 1) = 0
      [] op = "disjunction" -> FirstIdx(bs, "T", 1) # 0
      [] op = "negation" -> bs[1] = "F"

\* ---------------------------------------------------------------------------------------------
\* Concepts [concepts.lang], [concepts.object] on top of the kinds above
\* ---------------------------------------------------------------------------------------------
CDestructible(t) == NothrowDestructible(t)
CDefaultInit(t) == CDestructible(t) /\ Yes(DefaultKind(t)) /\ ConstDefaultOK(ElemT(t))
CConstructFrom1(t, a) == CDestructible(t) /\ Yes(Construct1Kind(t, a))
\* move_constructible<T> = constructible_from<T, T> && convertible_to<T, T>; nothing converts to an array type
CMoveConstructible(t) == t.k # "arr" /\ CConstructFrom1(t, AddRRef(t))
CCopyConstructible(t) ==
    /\ CMoveConstructible(t)
    /\ CConstructFrom1(t, AddLRef(t)) /\ CConstructFrom1(t, AddLRef(Const(t))) /\ CConstructFrom1(t, AddRRef(Const(t)))
CAssignSelf(t, a) == Referenceable(t) /\ ~IsRef(t) /\ Yes(AssignKind(LRef(t), a))
CMovable(t) == IsObjectT(t) /\ CMoveConstructible(t) /\ CAssignSelf(t, AddRRef(t))
CCopyable(t) ==
    /\ CCopyConstructible(t) /\ CMovable(t)
    /\ CAssignSelf(t, LRef(t)) /\ CAssignSelf(t, LRef(Const(t))) /\ CAssignSelf(t, RRef(Const(t)))
CSemiregular(t) == CCopyable(t) /\ CDefaultInit(t)
\* equality_comparable<T>: t == u, t != u on const lvalues yield something boolean-testable.  Stated for scalars (built-in
\* ==; for enumerations, pointers, member pointers and nullptr_t too) and for the zoo's classes (no operator== -> false),
\* and for references to them
EqComparablePre(t) == LET r == RemoveRef(t) IN IsScalarT(r) \/ K(r) = "class"
CEqComparable(t) == IsScalarT(RemoveRef(t))
CRegular(t) == CSemiregular(t) /\ CEqComparable(t)
RECURSIVE CSwappable(_)
CSwappable(t0) ==
    IF ~Referenceable(t0) THEN FALSE
    ELSE LET t == RemoveRef(t0) IN
         IF t.k = "arr" THEN t.n > 0 /\ CSwappable(t.t)
         ELSE IsObjectT(t) /\ CMoveConstructible(t) /\ CAssignSelf(t, AddRRef(t))

\* ---------------------------------------------------------------------------------------------
\* Dispatch: unary value traits.  UPre = the combination is defined here (and by the standard); UVal = the value.
\* ---------------------------------------------------------------------------------------------
PrimaryTraits == {"is_void", "is_null_pointer", "is_integral", "is_floating_point", "is_array", "is_enum", "is_union",
                  "is_class", "is_function", "is_pointer", "is_lvalue_reference", "is_rvalue_reference",
                  "is_member_object_pointer", "is_member_function_pointer"}
CompositeTraits == {"is_fundamental", "is_arithmetic", "is_scalar", "is_object", "is_compound", "is_reference",
                    "is_member_pointer"}
PropTraits == {"is_const", "is_volatile", "is_trivial", "is_trivially_copyable", "is_standard_layout", "is_empty",
               "is_polymorphic", "is_abstract", "is_final", "is_aggregate", "is_signed", "is_unsigned",
               "is_bounded_array", "is_unbounded_array", "is_scoped_enum", "has_virtual_destructor"}
OpTraits == {"is_default_constructible", "is_copy_constructible", "is_move_constructible", "is_copy_assignable",
             "is_move_assignable", "is_destructible", "is_swappable",
             "is_trivially_default_constructible", "is_trivially_copy_constructible", "is_trivially_move_constructible",
             "is_trivially_copy_assignable", "is_trivially_move_assignable", "is_trivially_destructible",
             "is_nothrow_default_constructible", "is_nothrow_copy_constructible", "is_nothrow_move_constructible",
             "is_nothrow_copy_assignable", "is_nothrow_move_assignable", "is_nothrow_destructible", "is_nothrow_swappable"}
QueryTraits == {"rank", "extent0", "extent1", "alignment_of"}
UnaryConcepts == {"c:integral", "c:signed_integral", "c:unsigned_integral", "c:floating_point", "c:destructible",
                  "c:default_initializable", "c:move_constructible", "c:copy_constructible", "c:movable", "c:copyable",
                  "c:semiregular", "c:swappable", "c:equality_comparable", "c:regular"}
UnaryValTraits == PrimaryTraits \cup CompositeTraits \cup PropTraits \cup OpTraits \cup QueryTraits \cup UnaryConcepts

ClassNameOf(t) == Uq(ElemT(t)).n
\* arrays of scalars are constructible from one argument by parenthesised aggregate init: defined where the
\* conversion of the decayed array to the element type is
OpArrPre(t) ==
    (t.k = "arr" /\ t.n > 0 /\ IsScalarT(t.t)) =>
        \A a \in {AddLRef(t), AddLRef(Const(t)), AddRRef(t), AddRRef(Const(t))} : ConvPre(a, t.t)
CtorFamily == {"is_copy_constructible", "is_move_constructible", "is_trivially_copy_constructible",
               "is_trivially_move_constructible", "is_nothrow_copy_constructible", "is_nothrow_move_constructible",
               "c:move_constructible", "c:copy_constructible", "c:movable", "c:copyable", "c:semiregular"}
UPre(tr, t) ==
    CASE tr = "alignment_of" -> AlignPre(t)
      [] tr \in CtorFamily -> OpArrPre(t)
      [] tr = "c:equality_comparable" -> EqComparablePre(t)
      [] tr = "c:regular" -> EqComparablePre(t) /\ OpArrPre(t)
      [] tr = "is_trivially_copyable" -> TCopyablePre(t)
      [] tr = "is_trivial" -> TrivialPre(t)
      \* gcc 12 forgets the element destructor for arrays in __is_trivially_constructible / noexcept(T()): left open
      [] tr \in {"is_trivially_default_constructible", "is_nothrow_default_constructible"} ->
            ~(t.k = "arr" /\ K(ElemT(t)) = "class" /\ (Dtor(Uq(ElemT(t)).n) # "trivial" \/ ~DtorUsable(Uq(ElemT(t)).n)))
      [] tr \in {"is_default_constructible", "c:default_initializable", "c:semiregular"} ->
            ~(t.k = "arr" /\ K(ElemT(t)) = "class" /\ ~DtorUsable(Uq(ElemT(t)).n))
      [] OTHER -> TRUE

UVal(tr, t) ==
    CASE tr = "is_void" -> IsVoidT(t)
      [] tr = "is_null_pointer" -> IsNullT(t)
      [] tr = "is_integral" -> IsIntegralT(t)
      [] tr = "is_floating_point" -> IsFloatT(t)
      [] tr = "is_array" -> IsArrT(t)
      [] tr = "is_enum" -> IsEnumT(t)
      [] tr = "is_union" -> IsUnionT(t)
      [] tr = "is_class" -> IsClassT(t)
      [] tr = "is_function" -> IsFnT(t)
      [] tr = "is_pointer" -> IsPtrT(t)
      [] tr = "is_lvalue_reference" -> t.k = "lref"
      [] tr = "is_rvalue_reference" -> t.k = "rref"
      [] tr = "is_member_object_pointer" -> IsMemObjPtrT(t)
      [] tr = "is_member_function_pointer" -> IsMemFnPtrT(t)
      [] tr = "is_fundamental" -> IsArithT(t) \/ IsVoidT(t) \/ IsNullT(t)
      [] tr = "is_arithmetic" -> IsArithT(t)
      [] tr = "is_scalar" -> IsScalarT(t)
      [] tr = "is_object" -> IsObjectT(t)
      [] tr = "is_compound" -> ~(IsArithT(t) \/ IsVoidT(t) \/ IsNullT(t))
      [] tr = "is_reference" -> IsRef(t)
      [] tr = "is_member_pointer" -> IsMemPtrT(t)
      [] tr = "is_const" -> TopC(t)
      [] tr = "is_volatile" -> TopV(t)
      [] tr = "is_trivial" -> TrivialT(t)
      [] tr = "is_trivially_copyable" -> TriviallyCopyable(t)
      [] tr = "is_standard_layout" -> StdLayoutT(t)
      [] tr = "is_empty" -> K(t) = "class" /\ EmptyN(Uq(t).n)
      [] tr = "is_polymorphic" -> K(t) = "class" /\ PolyN(Uq(t).n)
      [] tr = "is_abstract" -> AbstractT(t)
      [] tr = "is_final" -> K(t) = "class" /\ ClassFacts[Uq(t).n].final
      [] tr = "is_aggregate" -> t.k = "arr" \/ (K(t) = "class" /\ AggregateN(Uq(t).n))
      [] tr = "is_signed" -> IsSignedT(t)
      [] tr = "is_unsigned" -> IsUnsignedT(t)
      [] tr = "is_bounded_array" -> IsBoundedT(t)
      [] tr = "is_unbounded_array" -> IsUnboundedT(t)
      [] tr = "is_scoped_enum" -> IsEnumT(t) /\ EnumFacts(Uq(t).n).scoped
      [] tr = "has_virtual_destructor" -> K(t) = "class" /\ VDtorN(Uq(t).n)
      [] tr = "is_default_constructible" -> Yes(DefaultKind(t))
      [] tr = "is_copy_constructible" -> Yes(Construct1Kind(t, CopyArg(t)))
      [] tr = "is_move_constructible" -> Yes(Construct1Kind(t, MoveArg(t)))
      [] tr = "is_copy_assignable" -> Yes(CopyAssignKind(t))
      [] tr = "is_move_assignable" -> Yes(MoveAssignKind(t))
      [] tr = "is_destructible" -> Destructible(t)
      [] tr = "is_swappable" -> Yes(SwapKind(t))
      [] tr = "is_trivially_default_constructible" -> Trivial(KindWithDtor(DefaultKind(t), t))
      [] tr = "is_trivially_copy_constructible" -> Trivial(KindWithDtor(Construct1Kind(t, CopyArg(t)), t))
      [] tr = "is_trivially_move_constructible" -> Trivial(KindWithDtor(Construct1Kind(t, MoveArg(t)), t))
      [] tr = "is_trivially_copy_assignable" -> Trivial(CopyAssignKind(t))
      [] tr = "is_trivially_move_assignable" -> Trivial(MoveAssignKind(t))
      [] tr = "is_trivially_destructible" -> TriviallyDestructible(t)
      [] tr = "is_nothrow_default_constructible" -> Nothrow(KindWithDtor(DefaultKind(t), t))
      [] tr = "is_nothrow_copy_constructible" -> Nothrow(KindWithDtor(Construct1Kind(t, CopyArg(t)), t))
      [] tr = "is_nothrow_move_constructible" -> Nothrow(KindWithDtor(Construct1Kind(t, MoveArg(t)), t))
      [] tr = "is_nothrow_copy_assignable" -> Nothrow(CopyAssignKind(t))
      [] tr = "is_nothrow_move_assignable" -> Nothrow(MoveAssignKind(t))
      [] tr = "is_nothrow_destructible" -> NothrowDestructible(t)
      [] tr = "is_nothrow_swappable" -> Nothrow(SwapKind(t))
      [] tr = "rank" -> Rank(t)
      [] tr = "extent0" -> Extent(t, 0)
      [] tr = "extent1" -> Extent(t, 1)
      [] tr = "alignment_of" -> AlignOf(t)
      [] tr = "c:integral" -> IsIntegralT(t)
      [] tr = "c:signed_integral" -> IsIntegralT(t) /\ IsSignedT(t)
      [] tr = "c:unsigned_integral" -> IsIntegralT(t) /\ ~IsSignedT(t)
      [] tr = "c:floating_point" -> IsFloatT(t)
      [] tr = "c:destructible" -> CDestructible(t)
      [] tr = "c:default_initializable" -> CDefaultInit(t)
      [] tr = "c:move_constructible" -> CMoveConstructible(t)
      [] tr = "c:copy_constructible" -> CCopyConstructible(t)
      [] tr = "c:movable" -> CMovable(t)
      [] tr = "c:copyable" -> CCopyable(t)
      [] tr = "c:semiregular" -> CSemiregular(t)
      [] tr = "c:swappable" -> CSwappable(t)
      [] tr = "c:equality_comparable" -> CEqComparable(t)
      [] tr = "c:regular" -> CRegular(t)

\* ---------------------------------------------------------------------------------------------
\* Dispatch: unary transformation traits
\* ---------------------------------------------------------------------------------------------
UnaryTransTraits == {"remove_const", "remove_volatile", "remove_cv", "add_const", "add_volatile", "add_cv",
                     "remove_reference", "add_lvalue_reference", "add_rvalue_reference", "remove_pointer", "add_pointer",
                     "remove_extent", "remove_all_extents", "remove_cvref", "decay", "make_signed", "make_unsigned",
                     "underlying_type", "type_identity"}
TPre(tr, t) ==
    CASE tr \in {"make_signed", "make_unsigned"} -> SignPre(t)
      [] tr = "underlying_type" -> UnderlyingJudged(t)
      [] OTHER -> TRUE
TRes(tr, t) ==
    CASE tr = "remove_const" -> RemoveConst(t)
      [] tr = "remove_volatile" -> RemoveVolatile(t)
      [] tr = "remove_cv" -> Unq(t)
      [] tr = "add_const" -> Const(t)
      [] tr = "add_volatile" -> Volatile(t)
      [] tr = "add_cv" -> CV(t)
      [] tr = "remove_reference" -> RemoveRef(t)
      [] tr = "add_lvalue_reference" -> AddLRef(t)
      [] tr = "add_rvalue_reference" -> AddRRef(t)
      [] tr = "remove_pointer" -> RemovePointer(t)
      [] tr = "add_pointer" -> AddPointer(t)
      [] tr = "remove_extent" -> RemoveExtent(t)
      [] tr = "remove_all_extents" -> ElemT(t)
      [] tr = "remove_cvref" -> RemoveCvRef(t)
      [] tr = "decay" -> Decay(t)
      [] tr = "make_signed" -> MakeSign(t, TRUE)
      [] tr = "make_unsigned" -> MakeSign(t, FALSE)
      [] tr = "underlying_type" -> Underlying(t)
      [] tr = "type_identity" -> t
\* traits whose member `type` is absent outside the precondition (SFINAE-friendly since C++20): observed as has=false
HasTypeTraits == {"underlying_type"}
HasType(tr, t) == CASE tr = "underlying_type" -> UnderlyingPre(t)

\* ---------------------------------------------------------------------------------------------
\* Dispatch: binary traits
\* ---------------------------------------------------------------------------------------------
BinaryValTraits == {"is_same", "is_base_of", "is_convertible", "is_nothrow_convertible",
                    "is_constructible", "is_trivially_constructible", "is_nothrow_constructible",
                    "is_assignable", "is_trivially_assignable", "is_nothrow_assignable",
                    "c:same_as", "c:derived_from", "c:convertible_to", "c:constructible_from", "c:assignable_from"}
\* convention: (t, u) are the template arguments in the order of the std signature
BPre(tr, t, u) ==
    CASE tr \in {"is_same", "c:same_as", "is_base_of", "c:derived_from"} -> TRUE
      [] tr \in {"is_convertible", "is_nothrow_convertible", "c:convertible_to"} -> ConvPre(t, u)
      [] tr \in {"is_constructible", "is_trivially_constructible", "is_nothrow_constructible", "c:constructible_from"} ->
            Ctor2Pre(t, u)
      [] tr \in {"is_assignable", "is_trivially_assignable", "is_nothrow_assignable"} -> Asg2Pre(t, u)
      [] tr = "c:assignable_from" -> Asg2Pre(t, u) /\ ~IsVoidT(t) /\ ~IsVoidT(u) /\ Unq(ArgType(t)) = Unq(ArgType(u))
BVal(tr, t, u) ==
    CASE tr \in {"is_same", "c:same_as"} -> t = u
      [] tr = "is_base_of" -> IsBaseOf(t, u)
      [] tr = "c:derived_from" -> IsBaseOf(u, t) /\ DerivesPub(Uq(t).n, Uq(u).n)
      [] tr \in {"is_convertible", "c:convertible_to"} -> Conv(t, u)
      [] tr = "is_nothrow_convertible" -> ConvNothrow(t, u)
      [] tr = "is_constructible" -> Yes(Ctor2Kind(t, u))
      [] tr = "is_trivially_constructible" -> Trivial(KindWithDtor(Ctor2Kind(t, u), t))
      [] tr = "is_nothrow_constructible" -> Nothrow(KindWithDtor(Ctor2Kind(t, u), t))
      [] tr = "c:constructible_from" -> CDestructible(t) /\ Yes(Ctor2Kind(t, u))
      [] tr = "is_assignable" -> Yes(Asg2Kind(t, u))
      [] tr = "is_trivially_assignable" -> Trivial(Asg2Kind(t, u))
      [] tr = "is_nothrow_assignable" -> Nothrow(Asg2Kind(t, u))
      [] tr = "c:assignable_from" -> t.k = "lref" /\ Yes(Asg2Kind(t, u))

BinaryTransTraits == {"common_type", "conditional_true", "conditional_false"}
BTPre(tr, t, u) ==
    CASE tr = "common_type" -> IsArithT(RemoveRef(t)) /\ IsArithT(RemoveRef(u))
      [] OTHER -> TRUE
BTRes(tr, t, u) ==
    CASE tr = "common_type" -> UsualArith(Unq(RemoveRef(t)), Unq(RemoveRef(u)))
      [] tr = "conditional_true" -> t
      [] tr = "conditional_false" -> u

=============================================================================
