"""Bitset pipeline (spec/Bitset.tla, BitsetOps.tla, BitsetTrace.tla, harness/bitset_driver.cpp). Serves C17."""
import json
import os

import vlib
from pipes.vector import concat

WORDS = (0, 8, 16, 32, 64)                       # 0 = etl::bitset<N>, else etl::basic_bitset<N, uintW_t>
BIG = (1, 7, 8, 9, 31, 32, 33, 63, 64, 65, 127, 128, 129)
TIERS = {"quick": {"Ns": (1, 2, 3, 4), "rsteps": 120},
         "thorough": {"Ns": (1, 2, 3, 4, 5), "rsteps": 1500}}


_COMMON = ["set_all", "reset_all", "flip_all", "set_one", "set_one1", "reset_one", "flip_one", "ref_assign", "ref_flip", "ref_copy",
           "and_assign", "or_assign", "xor_assign", "copy_assign", "bin_and", "bin_or", "bin_xor", "ctor_default", "ctor_ull"]
SURFACE = {"basic": _COMMON,
           "bitset": _COMMON + ["assign_not", "ctor_sv1", "ctor_sv2", "ctor_sv3", "ctor_sv5", "ctor_cstr1", "ctor_cstr2", "ctor_cstr4"]}


def _inst(w):
    return "bitset" if w == 0 else "basic%d" % w


def _state_key(t, which):
    return json.dumps([t["n"], t[which]], sort_keys=True)


def _call(t):
    return {"op": t["op"], "o": t["o"], "x": t["x"], "post": t["post"]}


def model(tier, rep):
    """MC + GEN for both API surfaces. Returns {kind: {n: (script_path, nscripts)}}."""
    T = TIERS[tier]
    consts = {"Ns": "{%s}" % ", ".join(map(str, T["Ns"]))}
    from concurrent.futures import ThreadPoolExecutor

    def one(kind):
        return kind, vlib.tlc_mc("Bitset.tla", "Bitset_%s.cfg" % kind, "bitset_%s_%s" % (kind, tier), workers=6, constants=consts, heap="3g")
    with ThreadPoolExecutor(max_workers=2) as ex:
        res = dict(ex.map(one, ("bitset", "basic")))
    scripts = {}
    d = vlib.workdir("scripts")
    for kind, r in res.items():
        name = "Bitset[%s]" % kind
        rep.add_mc(name, r)
        want = sum(4 ** n for n in T["Ns"])                      # every pair of values of every width
        if r["states"] != want:
            raise vlib.ModelFailure("%s: %d states, expected %d (not every pair of values reached)" % (name, r["states"], want))
        gen = [t for t in r["gen"] if t["op"] != "init"]
        from collections import Counter
        per_op = Counter(t["op"] for t in gen)
        missing = [op for op in SURFACE[kind] if not per_op.get(op)]
        if missing:                                    # vacuity guard: every action of the surface was exported
            raise vlib.ModelFailure("%s: no transition exported for %s" % (name, missing))
        rep.cov["modules"][name]["exported_per_op"] = dict(per_op)
        sc, st = vlib.plan_edges(gen, _state_key, lambda k: not any(json.loads(k)[1]["a"]) and not any(json.loads(k)[1]["b"]), _call,
                                 follow=lambda t: t["op"] == "ctor_ull")
        if st["unreachable"]:
            raise vlib.ModelFailure("planner: %d unreachable edges in %s" % (st["unreachable"], name))
        sc = [s[:-1] + [dict(s[-1], last=1)] for s in sc]
        byn = {}
        for t, s in zip(gen, sc):
            byn.setdefault(t["n"], []).append(s)
        scripts[kind] = {}
        for n, ss in byn.items():
            p = os.path.join(d, "bitset_%s_%s_n%d.ndjson" % (kind, tier, n))
            vlib.write_scripts(ss, p)
            scripts[kind][n] = (p, len(ss))
        rep.cov["modules"][name].update({"scripts": len(sc), "planner": st})
        if sc:
            rep.sample({"module": name, "script": sc[len(sc) // 3]})
    rep.cov["exhaustive"] = True
    return scripts


def build_drivers(tier, std=True):
    widths = ",".join(str(n) for n in sorted(set(TIERS[tier]["Ns"]) | set(BIG)))
    jobs, keys = [], []
    for w in WORDS:
        jobs.append(dict(src="bitset_driver.cpp", out="bitset_etl_%d" % w, flags=["-DBH_WORD=%d" % w, "-DBH_WIDTHS=" + widths]))
        keys.append(("etl", w))
    if std:
        jobs.append(dict(src="bitset_driver.cpp", out="bitset_std", flags=["-DVH_STD", "-DBH_WIDTHS=" + widths], include_repo=False))
        keys.append(("std", 0))
    return dict(zip(keys, vlib.build_many(jobs)))


def execute(tier, scripts, bins, impl):
    T = TIERS[tier]
    d = vlib.workdir("traces")
    tasks, outs, replays = [], [], []
    nscripts = nhist = 0
    for w in (WORDS if impl == "etl" else (0,)):
        kind = "bitset" if w == 0 else "basic"
        tag = _inst(w) if impl == "etl" else "std"
        for n, (sp, k) in sorted(scripts[kind].items()):
            tp = os.path.join(d, "bitset_%s_%s_n%d_%s.ndjson" % (impl, tag, n, tier))
            tasks.append(([bins[(impl, w)], "replay", str(n), sp], tp))
            outs.append(tp)
            replays.append(tp)
            nscripts += k
        for n in BIG:
            tp = os.path.join(d, "bitset_%s_%s_r%d_%s.ndjson" % (impl, tag, n, tier))
            tasks.append(([bins[(impl, w)], "random", str(n), str(T["rsteps"]), str(vlib.seed())], tp))
            outs.append(tp)
            nhist += 1
    res = vlib.run_parallel(tasks)
    errs = [l for _, err in res for l in err.splitlines()]
    summ = [l for l in errs if l.startswith("SUMMARY")]
    # vacuity guard: one event per script unless accounted for (desynchronised / operation not provided / crash)
    got = 0
    for p in replays:
        with open(p, "rb") as f:
            got += sum(1 for _ in f)
    ncrash = len([l for l in errs if l.startswith("CRASH")])
    acc = sum(int(l.split("desync=")[1].split()[0]) + int(l.split("unsupported=")[1].split()[0]) for l in summ)
    if ncrash == 0 and got + acc != nscripts:
        raise vlib.ModelFailure("bitset driver (%s): %d scripts but %d events + %d accounted" % (impl, nscripts, got, acc))
    return outs, {"scripts": nscripts, "histories": nhist,
                  "unsupported": sorted({l for l in errs if l.startswith("UNSUPPORTED")}),
                  "desync": sum(int(l.split("desync=")[1].split()[0]) for l in summ),
                  "crashes": len([l for l in errs if l.startswith("CRASH")])}


def _side(tier, scripts, bins, impl, groups):
    traces, st = execute(tier, scripts, bins, impl)
    merged = concat(traces, os.path.join(vlib.workdir("traces"), "bitset_%s_merged_%s" % (impl, tier)), groups)
    tv = vlib.tv_parallel("BitsetTrace.tla", "BitsetTrace.cfg", merged, "bitset_tv_%s_%s" % (impl, tier), par=groups, heap="2g")
    return tv, st


def pipeline(tier, rep, calibrate=True):
    from concurrent.futures import ThreadPoolExecutor
    scripts = model(tier, rep)
    bins = build_drivers(tier, std=calibrate)
    with ThreadPoolExecutor(max_workers=2) as ex:      # implementation and calibration side by side
        fe = ex.submit(_side, tier, scripts, bins, "etl", 8)
        fs = ex.submit(_side, tier, scripts, bins, "std", 3) if calibrate else None
        tv, st = fe.result()
        ctv, cst = fs.result() if fs else (None, None)
    if calibrate:
        if ctv["deviations"] or cst["desync"] or cst["crashes"] or cst["unsupported"]:
            d = ctv["deviations"][0] if ctv["deviations"] else {"kind": "desync/crash/unsupported", "ev": [cst["desync"], cst["crashes"], cst["unsupported"]]}
            raise vlib.ModelFailure("calibration: libstdc++ std::bitset deviates from Bitset spec (spec/projection error): %s %s"
                                    % (d["kind"], json.dumps(d.get("ev"))[:700]))
    rep.add_tv("Bitset", tv, st["scripts"] + st["histories"])
    rep.cov["modules"]["Bitset"].update({"not_drivable": st["unsupported"], "replay_desync": st["desync"], "crashes_contained": st["crashes"],
                                         "widths_random": list(BIG), "word_types": ["size_t (etl::bitset)", "uint8_t", "uint16_t", "uint32_t", "uint64_t"]})
    if st["desync"] and not tv["deviations"]:
        raise vlib.ModelFailure("bitset replay: %d scripts left the planned path but no event deviates" % st["desync"])
    if calibrate:
        rep.cov["modules"]["Bitset"]["calibration_events_std"] = ctv["events"]
    return tv, st


def replay(rec):
    """check.py --replay: re-execute one saved deviation on the current tree. The event's pre-state is rebuilt by real calls
    (set(pos) for every one bit), the recorded call runs on the recorded instantiation, BitsetTrace.tla judges it."""
    ev = rec["event"]
    tag, n = ev["inst"].split("_")
    word = 0 if tag == "bitset" else int(tag[len("basic"):])
    x0 = {"p": 0, "q": 0, "v": 0, "src": "a", "src2": "a", "val": [0, 0, 0, 0], "str": [], "pos": 0, "cnt": -1, "zero": 48, "one": 49}
    lines = [{"reset": 1}]
    for o in ("a", "b"):
        for i, bit in enumerate(ev["pre"][o]):
            if bit:
                lines.append({"op": "set_one1", "o": o, "x": dict(x0, p=i)})
    lines.append({"op": ev["op"], "o": ev["o"], "x": ev["x"], "last": 1})
    d = vlib.workdir("bitset", "replay")
    sp, tp = os.path.join(d, "script.ndjson"), os.path.join(d, "trace.ndjson")
    with open(sp, "w") as f:
        for ln in lines:
            f.write(json.dumps(ln) + "\n")
    exe = vlib.build("bitset_driver.cpp", "bitset_replay", flags=["-DBH_WORD=%d" % word, "-DBH_WIDTHS=" + n])
    vlib.run([exe, "replay", n, sp], tp)
    return vlib.tlc_tv("BitsetTrace.tla", "BitsetTrace.cfg", tp, "bitset_tv_replay", heap="2g")["deviations"]
