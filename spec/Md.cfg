SPECIFICATION Spec
CONSTANTS
  MaxRank = 3
  MaxExt = 3
  MaxSpan = 6
INVARIANTS Laws EmitInv
CHECK_DEADLOCK FALSE
