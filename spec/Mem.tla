------------------------------- MODULE Mem -------------------------------
(* Input-domain enumerator for the memory helpers (one TLC run per Family).  Every case is an initial state;   *)
(* TLC (a) proves the laws below about the operators of MemOps on every case (MC role: the operational          *)
(* formula of align equals the declarative wording of [ptr.align], the setters of pointer_int_pair commute       *)
(* with the getters, small_ptr round-trips, a reference bump allocator satisfies the allocator relation, ...)     *)
(* and (b) exports the case (GEN role) for execution on the real templates.                                      *)
EXTENDS MemOps, TLC, Json

CONSTANTS Family,        \* "align" | "ident" | "pip" | "sptr" | "uninit" | "mono"
          Aligns, Offs, Sizes, Spaces, BigVs,          \* align
          SpElems,                                        \* small_ptr: element offsets
          UnVals, UnMax,                                  \* uninitialized_*: element values, maximal range length
          MonoOffs, MonoSizes, MonoReqs, MonoBig, MonoLen \* monotonic allocator: buffer offsets / sizes, request counts, history length

\* instantiations compiled into the driver (harness/mem_driver.cpp keeps the same tables)
\* pointer_int_pair: <<name, IntBits, number of non-null pointer values, spare low bits (free bits - IntBits)>>
PipInsts == {<<"s1", 1, 3, 0>>,      \* <short*, 1, unsigned>          (1 free bit)
             <<"i2", 2, 3, 0>>,      \* <int*, 2, unsigned>
             <<"i1b", 1, 3, 1>>,     \* <int*, 1, bool>                (uses the higher of 2 free bits)
             <<"l3", 3, 3, 0>>,      \* <long*, 3, unsigned>
             <<"l2e", 2, 3, 1>>,     \* <long*, 2, enum>
             <<"cl2", 2, 3, 1>>,     \* <long const*, 2, unsigned>
             <<"o4", 4, 2, 0>>,      \* <alignas(16) struct*, 4, unsigned>
             <<"nest", 1, 7, 1>>}    \* <pointer_int_pair<long*, 1, bool>, 1, bool>: pointer value = 2 * inner pointer + inner bool
\* small_ptr: <<name, BaseAddress, bits of StorageType, sizeof(Type)>>
SpInsts == {<<"i16", 65536, 16, 4>>,     \* small_ptr<int, 0x10000, uint16_t>   fabricated addresses
            <<"s8", 8192, 8, 2>>,        \* small_ptr<short, 0x2000, uint8_t>
            <<"real", 0, 30, 8>>}        \* small_ptr<long, 0, uintptr_t> on a real array (addresses logged relative to it)
\* monotonic_allocator<T>: <<name, sizeof(T), alignof(T)>>
MonoTs == {<<"c1", 1, 1>>, <<"s2", 2, 2>>, <<"i4", 4, 4>>, <<"l8", 8, 8>>, <<"o16", 16, 16>>}
MonoBufs == {<<o, z>> : o \in MonoOffs, z \in MonoSizes}

VARIABLE c
vars == <<c>>

SzSet(smalls) == {Sz(v) : v \in smalls} \cup {[big |-> TRUE, v |-> v] : v \in BigVs}

AlignCases(u) ==
    {[f |-> "align", al |-> al, size |-> sz, off |-> off, space |-> sp] :
        al \in Aligns, sz \in SzSet(Sizes), off \in Offs, sp \in SzSet(Spaces)}

IdentOps == {"assume_aligned", "to_address_raw", "to_address_arrow", "to_address_traits", "to_address_nested",
             "addressof_plain", "addressof_evil", "addressof_const"}
IdentCases(u) ==
    UNION {{[f |-> "ident", op |-> op, al |-> al, off |-> off] : op \in IdentOps, off \in {o \in Offs : o % al = 0}} : al \in Aligns}

\* (built per argument class, not as a filtered cross product: every setter with the arguments it looks at)
PipCasesOf(t) ==
    LET P == 0..t[3]
        I == 0..(2 ^ t[2] - 1)
        S == {[p |-> p, i |-> i] : p \in P, i \in I}
        Low(ops) == IF t[4] > 0 THEN ops ELSE {}
        Mk(s, op, x) == [f |-> "pip", inst |-> t[1], bits |-> t[2], np |-> t[3], spare |-> t[4], s |-> s, op |-> op, x |-> x]
    IN {Mk(s, op, x) : s \in S, op \in {"ctor", "set_ptr_and_int"} \cup Low({"low_set_ptr_and_int"}), x \in S}
       \cup {Mk(s, op, [p |-> p2, i |-> 0]) : s \in S, op \in {"ctor_ptr", "set_pointer"} \cup Low({"low_set_pointer"}), p2 \in P}
       \cup {Mk(s, op, [p |-> 0, i |-> i2]) : s \in S, op \in {"set_int"} \cup Low({"low_set_int"}), i2 \in I}
       \cup {Mk(s, op, [p |-> 0, i |-> 0]) : s \in S, op \in {"from_opaque", "copy"}}
PipCases(u) == UNION {PipCasesOf(t) : t \in PipInsts}

SpCases(u) ==
    UNION {LET inst == [name |-> t[1], base |-> t[2], bits |-> t[3], tsize |-> t[4]] IN
           {[f |-> "sptr", si |-> inst, s |-> e * t[4], op |-> op, x |-> [a |-> t[2] + e2 * t[4]]] :
               e \in SpElems, op \in SpOps, e2 \in SpElems} : t \in SpInsts}

UnSeqs(u) == UNION {[1..k -> UnVals] : k \in 0..UnMax}
UnCases(u) ==
    {[f |-> "uninit", op |-> op, it |-> it, x |-> [src |-> s, n |-> n, v |-> v, p |-> p]] :
        op \in UnOps, it \in {"ptr", "fwd"}, s \in UnSeqs(0), n \in 0..UnMax, v \in UnVals, p \in 0..UnMax}

\* a request count [big |-> TRUE, v |-> k] is one whose byte size is not representable:
\* k = 0, 1: SIZE_MAX / sizeof(T) + 1 + k (the product wraps around to a tiny number), k = 2: SIZE_MAX
MonoReqSet == {Sz(v) : v \in MonoReqs} \cup {[big |-> TRUE, v |-> v] : v \in MonoBig}
MonoSeqs(u) == UNION {[1..k -> MonoReqSet] : k \in 1..MonoLen}
MonoCases(u) ==
    {[f |-> "mono", t |-> [name |-> t[1], tsize |-> t[2], talign |-> t[3]], boff |-> b[1], bsize |-> b[2], reqs |-> rs] :
        t \in MonoTs, b \in MonoBufs, rs \in MonoSeqs(0)}

\* only the cases inside the operators' domains (and without redundant argument combinations)
InDomain(k) ==
    CASE k.f = "align" -> AlignPre(k.al, k.size, k.off, k.space)
      [] k.f = "ident" -> TRUE
      [] k.f = "pip" -> PipPre(k.op, k.x, k.s, k.bits) /\ (k.op \in LowOps => k.spare > 0)
      [] k.f = "sptr" -> /\ SpPre(k.op, k.x, k.s, k.si) /\ SpFits(k.si, k.s)
                         /\ (k.op \notin {"ctor", "minus"} => k.x.a = k.si.base)
                         /\ (k.op = "star" => k.si.name = "real")          \* fabricated addresses are never dereferenced
      [] k.f = "uninit" -> /\ UnPre(k.op, k.x)
                           /\ (k.op = "uninit_fill" => k.x.src = <<>> /\ k.x.p = 0)
                           /\ (k.op # "uninit_fill" => k.x.n = 0)
                           /\ (k.op \notin {"uninit_fill", "construct_at", "r_construct_at"} => k.x.v = 0)
                           /\ (k.op \notin {"destroy", "destroy_n", "r_destroy", "r_destroy_range"} => k.x.p = 0)
                           /\ (k.op \in {"construct_at", "r_construct_at"} => Len(k.x.src) < UnMax)
                           /\ (k.op \in {"destroy_at", "r_destroy_at", "construct_at", "r_construct_at", "r_destroy"} => k.it = "ptr")
      [] k.f = "mono" -> \A i \in 1..(Len(k.reqs) - 1) : k.reqs[i] # Sz(0)     \* see MemOps!MonoSafe

Cases(u) ==
    CASE Family = "align" -> AlignCases(0)
      [] Family = "ident" -> IdentCases(0)
      [] Family = "pip" -> PipCases(0)
      [] Family = "sptr" -> SpCases(0)
      [] Family = "uninit" -> UnCases(0)
      [] Family = "mono" -> MonoCases(0)

\* (the case sets take a dummy argument so that TLC does not pre-compute the families it is not asked for)
Init == c \in {k \in Cases(0) : InDomain(k)}
Next == UNCHANGED c
Spec == Init /\ [][Next]_vars

EmitInv == PrintT(<<"GEN", ToJson(c)>>)

\* ---- laws (MC role) -------------------------------------------------------------------------------------------
\* [ptr.align] declaratively: the first address >= ptr that is a multiple of alignment
FirstAligned(al, off) == CHOOSE p \in off..(off + al - 1) : p % al = 0
AlignLaws ==
    c.f = "align" =>
        LET r == AlignEff(c.al, c.size, c.off, c.space) IN
        IF r.ret # NULL THEN
            /\ r.ret = FirstAligned(c.al, c.off)                       \* "the first possible address"
            /\ r.ptr = r.ret /\ r.ret % c.al = 0 /\ r.ret >= c.off
            /\ SzGe(r.space, c.size)                                   \* the storage fits
            /\ (~c.space.big => r.ret + r.space.v = c.off + c.space.v)   \* "decreases space by the bytes used for alignment"
            /\ AlignEff(c.al, c.size, r.ptr, r.space) = r                \* aligning an aligned pointer changes nothing
        ELSE
            /\ r.ptr = c.off /\ r.space = c.space                        \* "Otherwise, the function does nothing"
            /\ (~c.space.big /\ ~c.size.big) => FirstAligned(c.al, c.off) + c.size.v > c.off + c.space.v

PipLaws ==
    c.f = "pip" =>
        LET t == PipEff(c.op, c.x, c.s) IN
        /\ (c.op = "set_pointer" => t.i = c.s.i /\ t.p = c.x.p)
        /\ (c.op = "set_int" => t.p = c.s.p /\ t.i = c.x.i)
        /\ (c.op \in {"ctor", "set_ptr_and_int"} => t = c.x)
        /\ PipEff("set_int", [p |-> 0, i |-> c.s.i], PipEff("set_pointer", [p |-> c.s.p, i |-> 0], t)) = c.s   \* setters reach every pair

SpLaws ==
    c.f = "sptr" =>
        LET t == SpEff(c.op, c.x, c.s, c.si) IN
        /\ (c.op = "ctor" => t.ret = c.x.a /\ SpEff("conv", c.x, t.s, c.si).ret = c.x.a)      \* round trip
        /\ (c.op = "pre_inc" => SpEff("pre_dec", c.x, t.s, c.si).s = c.s)
        /\ (c.op = "post_dec" => SpEff("post_inc", c.x, t.s, c.si).s = c.s)
        /\ (c.op = "minus" => c.si.base + c.s = c.x.a + t.ret * c.si.tsize)

UnLaws ==
    c.f = "uninit" =>
        LET t == UnEff(c.op, c.x) IN
        /\ (c.op \in {"uninit_copy", "uninit_move"} => Len(t.dst) = Len(c.x.src) /\ Len(t.src) = Len(c.x.src))
        /\ (c.op = "uninit_fill" => Len(t.dst) = c.x.n)
        /\ (c.op \in {"destroy", "destroy_n", "r_destroy", "r_destroy_range"} => Len(t.src) = c.x.p)

\* a reference bump allocator: hand out the first aligned block behind the cursor, null when it does not fit
RefAlloc(cur, boff, bsize, n, tsize, talign) ==
    IF n.big \/ cur + Pad(talign, cur) + n.v * tsize > boff + bsize THEN NULL ELSE cur + Pad(talign, cur)
RECURSIVE RefRunOK(_, _, _, _)
RefRunOK(k, i, cur, hist) ==
    IF i > Len(k.reqs) THEN TRUE
    ELSE LET n == k.reqs[i]
             r == RefAlloc(cur, k.boff, k.bsize, n, k.t.tsize, k.t.talign) IN
         /\ MonoSafe(r, k.boff, k.bsize, hist, n, k.t.tsize, k.t.talign)
         /\ MonoProgress(r, k.boff, k.bsize, hist, n, k.t.tsize, k.t.talign)
         /\ (IF r = NULL THEN RefRunOK(k, i + 1, cur, hist)
             ELSE RefRunOK(k, i + 1, r + n.v * k.t.tsize, Append(hist, [off |-> r, len |-> n.v * k.t.tsize])))
MonoLaws == c.f = "mono" => RefRunOK(c, 1, c.boff, <<>>)
==========================================================================
