------------------------------ MODULE FloatOps ------------------------------
(* Meaning of the <cmath> functions of property C16 on IEEE-754 binary interchange formats, transcribed from  *)
(* ISO C (7.12, Annex F) / IEC 60559, NOT from the etl sources.                                                 *)
(*                                                                                                              *)
(* A format is a record  [P, W, bias, emax]:  P stored mantissa bits, emax the all-ones biased exponent; the     *)
(* mantissa is carried in two limbs  h (P-W bits) and l (W bits)  so that every intermediate fits TLC's 32-bit   *)
(* integers:   binary32 = (s, e, m)            -> [s, e, h = 0,   l = m  ]   (P = W = 23)                        *)
(*             binary64 = (s, e, mhi, mlo)     -> [s, e, h = mhi, l = mlo]   (P = 52, W = 26)                    *)
(*             Toy      = 1+4+4 bit minifloat  (P = 4, W = 2), small enough to be enumerated completely          *)
(* EXACT set: defined below on the triples (bit-exact; a NaN result is only required to be *a* NaN).             *)
(* APPROXIMATE set: TLA+ has no reals, so the specification is the relation the property states:                 *)
(*   UlpLE(result, libm observation, Tol)  plus the Annex-F special values as equalities.                        *)
EXTENDS Integers, Sequences

F32 == [P |-> 23, W |-> 23, bias |-> 127, emax |-> 255]
F64 == [P |-> 52, W |-> 26, bias |-> 1023, emax |-> 2047]
Toy == [P |-> 4, W |-> 2, bias |-> 7, emax |-> 15]

HW(f) == f.P - f.W                       \* width of the high limb
Pow2(n) == 2 ^ n

V(s, e, h, l) == [s |-> s, e |-> e, h |-> h, l |-> l]
Zero(s) == V(s, 0, 0, 0)
One(f, s) == V(s, f.bias, 0, 0)
Inf(f, s) == V(s, f.emax, 0, 0)
QNaN(f) == IF HW(f) > 0 THEN V(0, f.emax, Pow2(HW(f) - 1), 0) ELSE V(0, f.emax, 0, Pow2(f.W - 1))
MinSub(s) == V(s, 0, 0, 1)
MaxFinite(f, s) == V(s, f.emax - 1, Pow2(HW(f)) - 1, Pow2(f.W) - 1)

WellFormed(f, x) == /\ x.s \in {0, 1} /\ x.e \in 0..f.emax
                    /\ x.h \in 0..(Pow2(HW(f)) - 1) /\ x.l \in 0..(Pow2(f.W) - 1)

(* ---------------------------------------- classification ---------------------------------------- *)
IsNaN(f, x) == x.e = f.emax /\ (x.h # 0 \/ x.l # 0)
IsInf(f, x) == x.e = f.emax /\ x.h = 0 /\ x.l = 0
IsZero(x) == x.e = 0 /\ x.h = 0 /\ x.l = 0
IsSubnormal(x) == x.e = 0 /\ (x.h # 0 \/ x.l # 0)
IsFinite(f, x) == x.e < f.emax
IsNormal(f, x) == 0 < x.e /\ x.e < f.emax
\* fpclassify codes used in the traces: 0 nan, 1 infinite, 2 zero, 3 subnormal, 4 normal
FpClass(f, x) == IF IsNaN(f, x) THEN 0 ELSE IF IsInf(f, x) THEN 1 ELSE IF IsZero(x) THEN 2
                 ELSE IF IsSubnormal(x) THEN 3 ELSE 4

IsSNaN(f, x) == IsNaN(f, x) /\ (IF HW(f) > 0 THEN x.h < Pow2(HW(f) - 1) ELSE x.l < Pow2(f.W - 1))   \* signaling NaN
\* equality of results: bit-identical, except that any NaN equals any NaN (payload/sign not compared)
Same(f, a, b) == IF IsNaN(f, a) \/ IsNaN(f, b) THEN IsNaN(f, a) /\ IsNaN(f, b) ELSE a = b

(* ---------------------------------------------- order ---------------------------------------------- *)
MagLt(x, y) == \/ x.e < y.e
               \/ x.e = y.e /\ x.h < y.h
               \/ x.e = y.e /\ x.h = y.h /\ x.l < y.l
MagEq(x, y) == x.e = y.e /\ x.h = y.h /\ x.l = y.l
\* numeric <  on non-NaN values (-0 = +0)
Lt(x, y) == IF IsZero(x) /\ IsZero(y) THEN FALSE
            ELSE IF x.s # y.s THEN x.s = 1
            ELSE IF x.s = 0 THEN MagLt(x, y) ELSE MagLt(y, x)
NumEq(x, y) == (IsZero(x) /\ IsZero(y)) \/ x = y
Le(x, y) == Lt(x, y) \/ NumEq(x, y)
\* total order on the bit patterns of non-NaN values (-0 below +0)
TotLt(x, y) == IF x.s # y.s THEN x.s = 1 ELSE IF x.s = 0 THEN MagLt(x, y) ELSE MagLt(y, x)

(* ------------------------------------ distance in units in the last place ------------------------------------ *)
\* Saturating signed difference of two magnitudes  (e,h,l) as integers, clipped to +-Big.
Big == 1073741824   \* 2^30
SatMagDiff(f, x, y) ==
    IF HW(f) = 0 THEN
        LET de == x.e - y.e IN
        IF de >= 64 THEN Big ELSE IF de <= -64 THEN -Big
        ELSE LET d == de * Pow2(f.W) + (x.l - y.l) IN          \* |d| < 2^6 * 2^23 + 2^23 < 2^30
             IF d >= Big THEN Big ELSE IF d <= -Big THEN -Big ELSE d
    ELSE
        LET de == x.e - y.e IN
        IF de >= 2 THEN Big ELSE IF de <= -2 THEN -Big
        ELSE LET d2 == de * Pow2(HW(f)) + (x.h - y.h) IN       \* |d2| < 2^27
             IF d2 >= 8 THEN Big ELSE IF d2 <= -8 THEN -Big
             ELSE d2 * Pow2(f.W) + (x.l - y.l)                   \* |.| < 2^29 + 2^26
Abs(n) == IF n < 0 THEN -n ELSE n
\* |key(a) - key(b)| <= tol  where key maps the non-NaN bit patterns monotonically to integers with key(-0) = key(+0)
\* and infinity one step beyond the largest finite value; tol < 2^28.
UlpLE(f, a, b, tol) ==
    IF a.s = b.s THEN Abs(SatMagDiff(f, a, b)) <= tol
    ELSE LET ma == SatMagDiff(f, a, Zero(0)) mb == SatMagDiff(f, b, Zero(0)) IN
         ma <= tol /\ mb <= tol /\ ma + mb <= tol

(* ------------------------------------------ rounding to integers ------------------------------------------ *)
\* number of fraction bits of a finite x with |x| >= 1:   P - (e - bias), >= 1 when x can have a fraction
FracBits(f, x) == f.P - (x.e - f.bias)
HasNoFraction(f, x) == x.e - f.bias >= f.P

LowBits(n, k) == n % Pow2(k)
ClearLow(n, k) == (n \div Pow2(k)) * Pow2(k)

\* the fraction as a limb pair and one half in the same unit (fb = number of fraction bits, 1..P)
FracH(f, x, fb) == IF fb <= f.W THEN 0 ELSE LowBits(x.h, fb - f.W)
FracL(f, x, fb) == IF fb <= f.W THEN LowBits(x.l, fb) ELSE x.l
HalfH(f, fb) == IF fb <= f.W THEN 0 ELSE Pow2(fb - f.W - 1)
HalfL(f, fb) == IF fb <= f.W THEN Pow2(fb - 1) ELSE 0
\* -1 / 0 / 1 : fraction below / equal / above one half
CmpHalf(f, x, fb) ==
    LET fh == FracH(f, x, fb) fl == FracL(f, x, fb) hh == HalfH(f, fb) hl == HalfL(f, fb) IN
    IF fh < hh \/ (fh = hh /\ fl < hl) THEN -1 ELSE IF fh = hh /\ fl = hl THEN 0 ELSE 1
FracNonZero(f, x, fb) == FracH(f, x, fb) # 0 \/ FracL(f, x, fb) # 0

\* magnitude truncated to an integer (|x| >= 1, fb >= 1)
TruncMag(f, x, fb) ==
    IF fb <= f.W THEN [x EXCEPT !.l = ClearLow(x.l, fb)]
    ELSE [x EXCEPT !.l = 0, !.h = ClearLow(x.h, fb - f.W)]
\* integer part is odd?  (lowest integer bit = mantissa bit fb, or the implicit leading one when fb = P)
IntOdd(f, x, fb) ==
    IF fb = f.P THEN TRUE
    ELSE IF fb < f.W THEN (x.l \div Pow2(fb)) % 2 = 1
    ELSE (x.h \div Pow2(fb - f.W)) % 2 = 1
\* t (an integer with fb cleared fraction bits) plus one, in magnitude
IncMag(f, t, fb) ==
    LET l1 == IF fb < f.W THEN t.l + Pow2(fb) ELSE t.l
        c1 == IF l1 >= Pow2(f.W) THEN 1 ELSE 0
        l2 == IF c1 = 1 THEN l1 - Pow2(f.W) ELSE l1
        h1 == IF fb < f.W THEN t.h + c1 ELSE t.h + Pow2(fb - f.W)
    IN IF h1 >= Pow2(HW(f)) THEN V(t.s, t.e + 1, 0, 0)          \* mantissa overflow: the next power of two
       ELSE V(t.s, t.e, h1, l2)

\* mode: "zero" trunc, "down" floor, "up" ceil, "away" round (ties away from zero), "even" rint (ties to even)
RoundInt(f, x, mode) ==
    IF IsNaN(f, x) THEN QNaN(f)
    ELSE IF x.e = f.emax \/ IsZero(x) \/ HasNoFraction(f, x) THEN x
    ELSE IF x.e < f.bias THEN                                    \* 0 < |x| < 1
        LET up == CASE mode = "zero" -> FALSE
                    [] mode = "down" -> x.s = 1
                    [] mode = "up" -> x.s = 0
                    [] mode = "away" -> x.e = f.bias - 1
                    [] mode = "even" -> x.e = f.bias - 1 /\ (x.h # 0 \/ x.l # 0)
        IN IF up THEN One(f, x.s) ELSE Zero(x.s)
    ELSE
        LET fb == FracBits(f, x)
            t == TruncMag(f, x, fb)
            c == CmpHalf(f, x, fb)
            up == CASE mode = "zero" -> FALSE
                    [] mode = "down" -> x.s = 1 /\ FracNonZero(f, x, fb)
                    [] mode = "up" -> x.s = 0 /\ FracNonZero(f, x, fb)
                    [] mode = "away" -> c >= 0
                    [] mode = "even" -> c > 0 \/ (c = 0 /\ IntOdd(f, x, fb))
        IN IF up THEN IncMag(f, t, fb) ELSE t

Floor(f, x) == RoundInt(f, x, "down")
Ceil(f, x) == RoundInt(f, x, "up")
Trunc(f, x) == RoundInt(f, x, "zero")
Round(f, x) == RoundInt(f, x, "away")
Rint(f, x) == RoundInt(f, x, "even")        \* default rounding direction; nearbyint has the same value

IsInteger(f, x) == IsFinite(f, x) /\ RoundInt(f, x, "zero") = x

\* exact widening binary32 -> binary64 of an integer-valued (or zero) float
WidenInt(x) == IF IsZero(x) THEN Zero(x.s)
               ELSE V(x.s, x.e - 127 + 1023, x.l * 8, 0)          \* 23-bit mantissa << 29 = (m * 8) in the high limb
\* lrint / llrint / lround / llround with a 64-bit long: the result as the binary64 value of the integer.
\* In range iff  -2^63 <= v < 2^63 ;  outside (and for NaN / infinities) the C result is unspecified.
LongInRange(f, v) == IsFinite(f, v) /\ (v.e - f.bias < 63 \/ (v.s = 1 /\ v.e - f.bias = 63 /\ v.h = 0 /\ v.l = 0))
AsLong(f, v) == LET w == IF f = F32 THEN WidenInt(v) ELSE v IN IF IsZero(w) THEN Zero(0) ELSE w

(* ------------------------------------------ sign manipulation ------------------------------------------ *)
CopySign(x, y) == [x EXCEPT !.s = y.s]
FAbs(x) == [x EXCEPT !.s = 0]
SignBit(x) == x.s

(* ----------------------------------------------- fmin / fmax ----------------------------------------------- *)
\* C F.10.9.2/3: one NaN -> the other argument; the sign of a zero result among +-0 is not specified (a set)
\* (IEC 60559 minNum/maxNum: a signaling NaN operand may also yield a NaN - glibc does)
FMaxOK(f, x, y, r) ==
    IF IsNaN(f, x) /\ IsNaN(f, y) THEN IsNaN(f, r)
    ELSE IF (IsSNaN(f, x) \/ IsSNaN(f, y)) /\ IsNaN(f, r) THEN TRUE
    ELSE IF IsNaN(f, x) THEN r = y
    ELSE IF IsNaN(f, y) THEN r = x
    ELSE IF IsZero(x) /\ IsZero(y) THEN r \in {x, y}
    ELSE r = (IF Lt(x, y) THEN y ELSE x)
FMinOK(f, x, y, r) ==
    IF IsNaN(f, x) /\ IsNaN(f, y) THEN IsNaN(f, r)
    ELSE IF (IsSNaN(f, x) \/ IsSNaN(f, y)) /\ IsNaN(f, r) THEN TRUE
    ELSE IF IsNaN(f, x) THEN r = y
    ELSE IF IsNaN(f, y) THEN r = x
    ELSE IF IsZero(x) /\ IsZero(y) THEN r \in {x, y}
    ELSE r = (IF Lt(y, x) THEN y ELSE x)

(* ------------------------------------------------ nextafter ------------------------------------------------ *)
MagSucc(f, x) == IF x.l + 1 < Pow2(f.W) THEN [x EXCEPT !.l = x.l + 1]
                 ELSE IF x.h + 1 < Pow2(HW(f)) THEN [x EXCEPT !.l = 0, !.h = x.h + 1]
                 ELSE V(x.s, x.e + 1, 0, 0)                      \* largest finite -> infinity included
MagPred(f, x) == IF x.l > 0 THEN [x EXCEPT !.l = x.l - 1]
                 ELSE IF x.h > 0 THEN [x EXCEPT !.l = Pow2(f.W) - 1, !.h = x.h - 1]
                 ELSE V(x.s, x.e - 1, Pow2(HW(f)) - 1, Pow2(f.W) - 1)   \* only called with x # 0
NextAfter(f, x, y) ==
    IF IsNaN(f, x) \/ IsNaN(f, y) THEN QNaN(f)
    ELSE IF NumEq(x, y) THEN y
    ELSE IF IsZero(x) THEN MinSub(y.s)
    ELSE IF Lt(x, y) = (x.s = 0) THEN MagSucc(f, x) ELSE MagPred(f, x)

(* -------------------------------------------------- fdim -------------------------------------------------- *)
\* fdim(x,y) = x - y if x > y, +0 if x <= y, NaN if either is NaN.  The difference is given where it needs no
\* rounding: y = +-0, infinite operands, or equal sign and exponent (the subtraction of the significands is exact).
Sig(f, x) == [h |-> IF x.e = 0 THEN x.h ELSE x.h + Pow2(HW(f)), l |-> x.l]     \* significand with the hidden bit
EffExp(x) == IF x.e = 0 THEN 1 ELSE x.e                                         \* value = Sig * 2^(EffExp - bias - P)

LimbLt(a, b) == a.h < b.h \/ (a.h = b.h /\ a.l < b.l)
LimbSub(f, a, b) == IF a.l >= b.l THEN [h |-> a.h - b.h, l |-> a.l - b.l]      \* a >= b
                    ELSE [h |-> a.h - b.h - 1, l |-> a.l + Pow2(f.W) - b.l]
LimbDbl(f, a) == IF 2 * a.l >= Pow2(f.W) THEN [h |-> 2 * a.h + 1, l |-> 2 * a.l - Pow2(f.W)]
                 ELSE [h |-> 2 * a.h, l |-> 2 * a.l]
LimbZero(a) == a.h = 0 /\ a.l = 0
LimbHasTop(f, a) == a.h >= Pow2(HW(f))                                          \* >= 2^P : normalised significand

\* the value  sig * 2^(ee - bias - P)  (sig < 2^(P+1), ee >= 1) as a float; exact by construction
RECURSIVE Normalize(_, _, _, _)
Normalize(f, s, sig, ee) ==
    IF LimbZero(sig) THEN Zero(s)
    ELSE IF LimbHasTop(f, sig) THEN V(s, ee, sig.h - Pow2(HW(f)), sig.l)
    ELSE IF ee = 1 THEN V(s, 0, sig.h, sig.l)
    ELSE Normalize(f, s, LimbDbl(f, sig), ee - 1)

FDimExact(f, x, y) ==      \* is the value of fdim(x,y) given by FDim below without rounding?
    \/ IsNaN(f, x) \/ IsNaN(f, y) \/ Le(x, y)
    \/ IsZero(y) \/ IsInf(f, x) \/ IsInf(f, y)
    \/ (x.s = y.s /\ EffExp(x) = EffExp(y))
FDim(f, x, y) ==
    IF IsNaN(f, x) \/ IsNaN(f, y) THEN QNaN(f)
    ELSE IF Le(x, y) THEN Zero(0)
    ELSE IF IsInf(f, x) \/ IsInf(f, y) THEN Inf(f, 0)           \* x > y with an infinite operand: +inf
    ELSE IF IsZero(y) THEN x
    ELSE \* same sign, same exponent, x > y:  positive -> Sig(x) - Sig(y);  negative -> Sig(y) - Sig(x)
         LET a == Sig(f, x) b == Sig(f, y)
             d == IF LimbLt(b, a) THEN LimbSub(f, a, b) ELSE LimbSub(f, b, a)
         IN Normalize(f, 0, d, EffExp(x))

(* --------------------------------------------- fmod / remainder --------------------------------------------- *)
\* Binary long division of  Sig(x) * 2^d  by Sig(y)  (d = EffExp(x) - EffExp(y) >= 0): P+1+d steps, one quotient bit
\* each; the running remainder stays below Sig(y) < 2^(P+1), so every limb stays below 2^28.
BitOf(f, a, i) == IF i >= f.W THEN (a.h \div Pow2(i - f.W)) % 2 ELSE (a.l \div Pow2(i)) % 2
AddBit(f, a, b) == [a EXCEPT !.l = a.l + b]      \* a is even here (just doubled), no carry
RECURSIVE LongDiv(_, _, _, _, _, _)
\* i: next bit index of sx to bring down (from P down to 0, then -1..-d bring down zeros); returns [r, q0]
LongDiv(f, sx, sy, i, last, acc) ==
    IF i < last THEN acc
    ELSE LET r2 == AddBit(f, LimbDbl(f, acc.r), IF i >= 0 THEN BitOf(f, sx, i) ELSE 0)
             ge == ~LimbLt(r2, sy)
         IN LongDiv(f, sx, sy, i - 1, last, [r |-> IF ge THEN LimbSub(f, r2, sy) ELSE r2, q0 |-> IF ge THEN 1 ELSE 0])

ExpDiff(x, y) == EffExp(x) - EffExp(y)
\* |x| mod |y| for finite non-zero x, y with ExpDiff >= 0: remainder limb pair at y's scale + parity of the quotient
DivRem(f, x, y) == LongDiv(f, Sig(f, x), Sig(f, y), f.P, -ExpDiff(x, y), [r |-> [h |-> 0, l |-> 0], q0 |-> 0])

FMod(f, x, y) ==
    IF IsNaN(f, x) \/ IsNaN(f, y) \/ IsInf(f, x) \/ IsZero(y) THEN QNaN(f)
    ELSE IF IsInf(f, y) \/ IsZero(x) THEN x
    ELSE IF ExpDiff(x, y) < 0 THEN x                              \* |x| < |y|
    ELSE Normalize(f, x.s, DivRem(f, x, y).r, EffExp(y))

\* IEC 60559 remainder: x - n*y, n = x/y rounded to nearest, ties to even; a zero result has the sign of x
Remainder(f, x, y) ==
    IF IsNaN(f, x) \/ IsNaN(f, y) \/ IsInf(f, x) \/ IsZero(y) THEN QNaN(f)
    ELSE IF IsInf(f, y) \/ IsZero(x) THEN x
    ELSE IF ExpDiff(x, y) <= -2 THEN x                            \* |x| < |y|/2
    ELSE IF ExpDiff(x, y) = -1 THEN                               \* |y| = 2*Sig(y) in units of x
        LET sx == Sig(f, x) sy == Sig(f, y) IN
        IF LimbLt(sy, sx) THEN Normalize(f, 1 - x.s, LimbSub(f, LimbDbl(f, sy), sx), EffExp(x))
        ELSE x                                                    \* below the half, or the tie with n = 0 (even)
    ELSE LET dr == DivRem(f, x, y) sy == Sig(f, y) r2 == LimbDbl(f, dr.r) IN
         IF LimbLt(sy, r2) \/ (r2 = sy /\ dr.q0 = 1)
         THEN Normalize(f, 1 - x.s, LimbSub(f, sy, dr.r), EffExp(y))
         ELSE Normalize(f, x.s, dr.r, EffExp(y))

(* ------------------------------- small integers <-> floats (complex self-operations) ------------------------------- *)
\* |x| is an integer below 2^11 (or zero): then products and sums of two such values are exact in every format here
IsSmallInt(f, x) == IsZero(x) \/ (IsFinite(f, x) /\ x.e >= f.bias /\ x.e - f.bias <= 10 /\ IsInteger(f, x))
SmallIntVal(f, x) ==       \* the integer value of such an x
    IF IsZero(x) THEN 0
    ELSE LET fb == FracBits(f, x) sg == Sig(f, x)
             n == IF fb >= f.W THEN sg.h \div Pow2(fb - f.W) ELSE sg.h * Pow2(f.W - fb) + sg.l \div Pow2(fb)
         IN IF x.s = 1 THEN -n ELSE n
\* the float with integer value n, |n| < 2^23 (a zero result is +0)
FromSmallInt(f, n) ==
    LET a == Abs(n) IN
    Normalize(f, IF n < 0 THEN 1 ELSE 0, [h |-> a \div Pow2(f.W), l |-> a % Pow2(f.W)], f.bias + f.P)
\* z op z for z = a + bi with small-integer components:  2z,  0,  z*z = (a*a - b*b) + 2ab i,  z/z = 1
ComplexSelf(f, op, a, b) ==
    LET x == SmallIntVal(f, a) y == SmallIntVal(f, b) IN
    CASE op = "add" -> <<FromSmallInt(f, 2 * x), FromSmallInt(f, 2 * y)>>
      [] op = "sub" -> <<Zero(0), Zero(0)>>
      [] op = "mul" -> <<FromSmallInt(f, x * x - y * y), FromSmallInt(f, 2 * x * y)>>
      [] op = "div" -> <<One(f, 0), Zero(0)>>
\* numeric equality of a result with the exact value (the sign of a zero component is not compared)
NumSame(f, r, v) == ~IsNaN(f, r) /\ NumEq(r, v)

(* ---------------------------------------- dispatch of the exact set ---------------------------------------- *)
ExactUnaryFp == {"floor", "ceil", "trunc", "round", "rint", "nearbyint", "fabs", "abs"}
ExactUnaryLong == {"lrint", "llrint", "lround", "llround"}
ExactUnaryInt == {"signbit", "isnan", "isinf", "isfinite", "isnormal", "fpclassify"}
ExactBinary == {"copysign", "fmin", "fmax", "fdim", "nextafter", "fmod", "remainder"}

UnaryFp(f, fn, x) ==
    CASE fn = "floor" -> Floor(f, x) [] fn = "ceil" -> Ceil(f, x) [] fn = "trunc" -> Trunc(f, x)
      [] fn = "round" -> Round(f, x) [] fn \in {"rint", "nearbyint"} -> Rint(f, x)
      [] fn \in {"fabs", "abs"} -> (IF IsNaN(f, x) THEN QNaN(f) ELSE FAbs(x))
B2I(b) == IF b THEN 1 ELSE 0
UnaryInt(f, fn, x) ==
    CASE fn = "signbit" -> SignBit(x) [] fn = "isnan" -> B2I(IsNaN(f, x)) [] fn = "isinf" -> B2I(IsInf(f, x))
      [] fn = "isfinite" -> B2I(IsFinite(f, x)) [] fn = "isnormal" -> B2I(IsNormal(f, x))
      [] fn = "fpclassify" -> FpClass(f, x)
LongRounded(f, fn, x) == IF fn \in {"lrint", "llrint"} THEN Rint(f, x) ELSE Round(f, x)

\* largest exponent difference for which fmod/remainder are computed by the long division (recursion depth P+1+d)
MaxExpDiff == 64
BinaryJudged(f, fn, x, y) ==
    CASE fn \in {"fmod", "remainder"} ->
            IsNaN(f, x) \/ IsNaN(f, y) \/ ~IsFinite(f, x) \/ ~IsFinite(f, y) \/ IsZero(x) \/ IsZero(y)
            \/ ExpDiff(x, y) <= MaxExpDiff
      [] fn = "fdim" -> FDimExact(f, x, y)
      [] OTHER -> TRUE
BinaryOK(f, fn, x, y, r) ==
    CASE fn = "copysign" -> Same(f, r, CopySign(x, y))
      [] fn = "fmin" -> FMinOK(f, x, y, r)
      [] fn = "fmax" -> FMaxOK(f, x, y, r)
      [] fn = "fdim" -> Same(f, r, FDim(f, x, y))
      [] fn = "nextafter" -> Same(f, r, NextAfter(f, x, y))
      [] fn = "fmod" -> Same(f, r, FMod(f, x, y))
      [] fn = "remainder" -> Same(f, r, Remainder(f, x, y))
\* what is still required outside BinaryJudged (finite non-zero operands): the sign / magnitude laws of the functions
BinaryWeakOK(f, fn, x, y, r) ==
    CASE fn = "fmod" -> ~IsNaN(f, r) /\ IsFinite(f, r) /\ (IsZero(r) \/ r.s = x.s) /\ MagLt(r, FAbs(y)) /\ r.s = x.s
      [] fn = "remainder" -> ~IsNaN(f, r) /\ IsFinite(f, r) /\ MagLt(r, FAbs(y))
      [] fn = "fdim" -> ~IsNaN(f, r) /\ r.s = 0 /\ ~IsZero(r)
      [] OTHER -> TRUE
BinaryExpected(f, fn, x, y) ==
    CASE fn = "copysign" -> CopySign(x, y)
      [] fn = "fdim" -> FDim(f, x, y) [] fn = "nextafter" -> NextAfter(f, x, y)
      [] fn = "fmod" -> FMod(f, x, y) [] fn = "remainder" -> Remainder(f, x, y)
      [] fn = "fmin" -> (IF IsNaN(f, x) THEN y ELSE IF IsNaN(f, y) THEN x ELSE IF Lt(y, x) THEN y ELSE x)
      [] fn = "fmax" -> (IF IsNaN(f, x) THEN y ELSE IF IsNaN(f, y) THEN x ELSE IF Lt(x, y) THEN y ELSE x)

(* ------------------------- formats with more than two limbs: x87 extended precision ------------------------- *)
\* The 64-bit significand of the x87 format does not fit two limbs of at most 30 bits, so long double values carry the
\* 63 FRACTION bits in n = 3 limbs of L = 21 bits, most significant first:  [s, e, m = <<m1, m2, m3>>].  The explicit
\* integer bit j of the format is 1 exactly when e # 0 (canonical encodings: the only ones the hardware produces); the
\* trace specification checks j separately, here it plays the role of the hidden bit.  Only the operations of the
\* EXACT set that need no arithmetic on significands are defined: classification, order, rounding to integer,
\* copysign / fabs / signbit, fmin / fmax, nextafter.  Toy3 is a 1+4+6 bit format with the same limb structure that
\* TLC enumerates completely (Float.tla, Mode "toy3").
F80 == [P |-> 63, L |-> 21, n |-> 3, bias |-> 16383, emax |-> 32767]
Toy3 == [P |-> 6, L |-> 2, n |-> 3, bias |-> 7, emax |-> 15]

NV(s, e, m) == [s |-> s, e |-> e, m |-> m]
NZeros(f) == [k \in 1..f.n |-> 0]
NOnes(f) == [k \in 1..f.n |-> Pow2(f.L) - 1]
NMZero(x) == \A k \in 1..Len(x.m) : x.m[k] = 0
NIsNaN(f, x) == x.e = f.emax /\ ~NMZero(x)
NIsSNaN(f, x) == NIsNaN(f, x) /\ x.m[1] < Pow2(f.L - 1)
NIsInf(f, x) == x.e = f.emax /\ NMZero(x)
NIsZero(x) == x.e = 0 /\ NMZero(x)
NIsSubnormal(x) == x.e = 0 /\ ~NMZero(x)
NIsFinite(f, x) == x.e < f.emax
NIsNormal(f, x) == 0 < x.e /\ x.e < f.emax
NFpClass(f, x) == IF NIsNaN(f, x) THEN 0 ELSE IF NIsInf(f, x) THEN 1 ELSE IF NIsZero(x) THEN 2 ELSE IF NIsSubnormal(x) THEN 3 ELSE 4
NZero(f, s) == NV(s, 0, NZeros(f))
NOne(f, s) == NV(s, f.bias, NZeros(f))
NInf(f, s) == NV(s, f.emax, NZeros(f))
NQNaN(f) == NV(0, f.emax, [k \in 1..f.n |-> IF k = 1 THEN Pow2(f.L - 1) ELSE 0])
NWellFormed(f, x) == x.s \in {0, 1} /\ x.e \in 0..f.emax /\ Len(x.m) = f.n /\ \A k \in 1..f.n : x.m[k] \in 0..(Pow2(f.L) - 1)
NSame(f, a, b) == IF NIsNaN(f, a) \/ NIsNaN(f, b) THEN NIsNaN(f, a) /\ NIsNaN(f, b) ELSE a = b

RECURSIVE SeqLt(_, _, _)
SeqLt(a, b, k) == IF k > Len(a) THEN FALSE ELSE IF a[k] < b[k] THEN TRUE ELSE IF a[k] > b[k] THEN FALSE ELSE SeqLt(a, b, k + 1)
NMagLt(x, y) == x.e < y.e \/ (x.e = y.e /\ SeqLt(x.m, y.m, 1))
NLt(x, y) == IF NIsZero(x) /\ NIsZero(y) THEN FALSE
             ELSE IF x.s # y.s THEN x.s = 1
             ELSE IF x.s = 0 THEN NMagLt(x, y) ELSE NMagLt(y, x)
NNumEq(x, y) == (NIsZero(x) /\ NIsZero(y)) \/ x = y
NLe(x, y) == NLt(x, y) \/ NNumEq(x, y)

\* limb k holds the fraction bits  LoBit(k) .. LoBit(k)+L-1  (bit 0 = least significant)
LoBit(f, k) == (f.n - k) * f.L
FracCnt(f, k, fb) == LET c == fb - LoBit(f, k) IN IF c < 0 THEN 0 ELSE IF c > f.L THEN f.L ELSE c   \* fraction bits inside limb k
NFrac(f, x, fb) == [k \in 1..f.n |-> x.m[k] % Pow2(FracCnt(f, k, fb))]
NHalf(f, fb) == [k \in 1..f.n |-> IF LoBit(f, k) <= fb - 1 /\ fb - 1 < LoBit(f, k) + f.L THEN Pow2(fb - 1 - LoBit(f, k)) ELSE 0]
NCmpHalf(f, x, fb) == LET fr == NFrac(f, x, fb) hf == NHalf(f, fb) IN IF SeqLt(fr, hf, 1) THEN -1 ELSE IF fr = hf THEN 0 ELSE 1
NFracNonZero(f, x, fb) == \E k \in 1..f.n : NFrac(f, x, fb)[k] # 0
NTruncMag(f, x, fb) == [x EXCEPT !.m = [k \in 1..f.n |-> x.m[k] - NFrac(f, x, fb)[k]]]
NIntOdd(f, x, fb) == IF fb = f.P THEN TRUE ELSE (x.m[f.n - (fb \div f.L)] \div Pow2(fb % f.L)) % 2 = 1
\* add v (a power of two below 2^L, or a carry) to limb k, carries run towards limb 1; c = carry out of limb 1
RECURSIVE NAdd(_, _, _, _)
NAdd(f, m, k, v) ==
    IF k = 0 THEN [m |-> m, c |-> 1]
    ELSE LET t == m[k] + v IN
         IF t >= Pow2(f.L) THEN NAdd(f, [m EXCEPT ![k] = t - Pow2(f.L)], k - 1, 1) ELSE [m |-> [m EXCEPT ![k] = t], c |-> 0]
NIncMag(f, t, fb) ==
    IF fb = f.P THEN NV(t.s, t.e + 1, NZeros(f))
    ELSE LET r == NAdd(f, t.m, f.n - (fb \div f.L), Pow2(fb % f.L)) IN
         IF r.c = 1 THEN NV(t.s, t.e + 1, NZeros(f)) ELSE NV(t.s, t.e, r.m)

NRoundInt(f, x, mode) ==
    IF NIsNaN(f, x) THEN NQNaN(f)
    ELSE IF x.e = f.emax \/ NIsZero(x) \/ x.e - f.bias >= f.P THEN x
    ELSE IF x.e < f.bias THEN
        LET up == CASE mode = "zero" -> FALSE
                    [] mode = "down" -> x.s = 1
                    [] mode = "up" -> x.s = 0
                    [] mode = "away" -> x.e = f.bias - 1
                    [] mode = "even" -> x.e = f.bias - 1 /\ ~NMZero(x)
        IN IF up THEN NOne(f, x.s) ELSE NZero(f, x.s)
    ELSE
        LET fb == f.P - (x.e - f.bias)
            t == NTruncMag(f, x, fb)
            c == NCmpHalf(f, x, fb)
            up == CASE mode = "zero" -> FALSE
                    [] mode = "down" -> x.s = 1 /\ NFracNonZero(f, x, fb)
                    [] mode = "up" -> x.s = 0 /\ NFracNonZero(f, x, fb)
                    [] mode = "away" -> c >= 0
                    [] mode = "even" -> c > 0 \/ (c = 0 /\ NIntOdd(f, x, fb))
        IN IF up THEN NIncMag(f, t, fb) ELSE t

NMagSucc(f, x) == LET r == NAdd(f, x.m, f.n, 1) IN IF r.c = 1 THEN NV(x.s, x.e + 1, NZeros(f)) ELSE [x EXCEPT !.m = r.m]
RECURSIVE NSub1(_, _, _)
NSub1(f, m, k) == IF m[k] > 0 THEN [m EXCEPT ![k] = m[k] - 1] ELSE NSub1(f, [m EXCEPT ![k] = Pow2(f.L) - 1], k - 1)   \* m # 0
NMagPred(f, x) == IF NMZero(x) THEN NV(x.s, x.e - 1, NOnes(f)) ELSE [x EXCEPT !.m = NSub1(f, x.m, f.n)]           \* x # 0
NNextAfter(f, x, y) ==
    IF NIsNaN(f, x) \/ NIsNaN(f, y) THEN NQNaN(f)
    ELSE IF NNumEq(x, y) THEN y
    ELSE IF NIsZero(x) THEN NV(y.s, 0, [k \in 1..f.n |-> IF k = f.n THEN 1 ELSE 0])
    ELSE IF NLt(x, y) = (x.s = 0) THEN NMagSucc(f, x) ELSE NMagPred(f, x)

NFMaxOK(f, x, y, r) ==
    IF NIsNaN(f, x) /\ NIsNaN(f, y) THEN NIsNaN(f, r)
    ELSE IF (NIsSNaN(f, x) \/ NIsSNaN(f, y)) /\ NIsNaN(f, r) THEN TRUE
    ELSE IF NIsNaN(f, x) THEN r = y
    ELSE IF NIsNaN(f, y) THEN r = x
    ELSE IF NIsZero(x) /\ NIsZero(y) THEN r \in {x, y}
    ELSE r = (IF NLt(x, y) THEN y ELSE x)
NFMinOK(f, x, y, r) ==
    IF NIsNaN(f, x) /\ NIsNaN(f, y) THEN NIsNaN(f, r)
    ELSE IF (NIsSNaN(f, x) \/ NIsSNaN(f, y)) /\ NIsNaN(f, r) THEN TRUE
    ELSE IF NIsNaN(f, x) THEN r = y
    ELSE IF NIsNaN(f, y) THEN r = x
    ELSE IF NIsZero(x) /\ NIsZero(y) THEN r \in {x, y}
    ELSE r = (IF NLt(y, x) THEN y ELSE x)

NUnaryFp(f, fn, x) ==
    CASE fn = "floor" -> NRoundInt(f, x, "down") [] fn = "ceil" -> NRoundInt(f, x, "up") [] fn = "trunc" -> NRoundInt(f, x, "zero")
      [] fn = "round" -> NRoundInt(f, x, "away") [] fn \in {"rint", "nearbyint"} -> NRoundInt(f, x, "even")
      [] fn \in {"fabs", "abs"} -> (IF NIsNaN(f, x) THEN NQNaN(f) ELSE [x EXCEPT !.s = 0])
NUnaryInt(f, fn, x) ==
    CASE fn = "signbit" -> x.s [] fn = "isnan" -> B2I(NIsNaN(f, x)) [] fn = "isinf" -> B2I(NIsInf(f, x))
      [] fn = "isfinite" -> B2I(NIsFinite(f, x)) [] fn = "isnormal" -> B2I(NIsNormal(f, x)) [] fn = "fpclassify" -> NFpClass(f, x)
NBinaryOK(f, fn, x, y, r) ==
    CASE fn = "copysign" -> NSame(f, r, [x EXCEPT !.s = y.s])
      [] fn = "fmin" -> NFMinOK(f, x, y, r)
      [] fn = "fmax" -> NFMaxOK(f, x, y, r)
      [] fn = "nextafter" -> NSame(f, r, NNextAfter(f, x, y))
NBinaryExpected(f, fn, x, y) ==
    CASE fn = "copysign" -> [x EXCEPT !.s = y.s]
      [] fn = "nextafter" -> NNextAfter(f, x, y)
      [] fn = "fmin" -> (IF NIsNaN(f, x) THEN y ELSE IF NIsNaN(f, y) THEN x ELSE IF NLt(y, x) THEN y ELSE x)
      [] fn = "fmax" -> (IF NIsNaN(f, x) THEN y ELSE IF NIsNaN(f, y) THEN x ELSE IF NLt(x, y) THEN y ELSE x)

(* ------------------------------- approximate set: Annex F special values ------------------------------- *)
\* A requirement on the result:  [k |-> "nan"] , [k |-> "val", v |-> exact value] , [k |-> "none"] (no special case:
\* the tolerance relation against the libm observation applies).
RNaN == [k |-> "nan", v |-> Zero(0)]
RVal(v) == [k |-> "val", v |-> v]
RNum(v) == [k |-> "num", v |-> v]          \* the standard says "==": numerically equal (+-0 not distinguished)
RNone == [k |-> "none", v |-> Zero(0)]

IsNeg(x) == x.s = 1 /\ ~IsZero(x)            \* x < 0
IsPos(x) == x.s = 0 /\ ~IsZero(x)            \* x > 0
IsOneMag(f, x) == x.e = f.bias /\ x.h = 0 /\ x.l = 0                  \* |x| = 1
GtOneMag(f, x) == x.e > f.bias \/ (x.e = f.bias /\ (x.h # 0 \/ x.l # 0))     \* |x| > 1 (incl. inf)
LtOneMag(f, x) == x.e < f.bias
IsOddInteger(f, x) == IsFinite(f, x) /\ ~IsZero(x) /\ IsInteger(f, x) /\ x.e >= f.bias /\ x.e - f.bias <= f.P
                      /\ IntOdd(f, x, FracBits(f, x))
\* note: for e - bias = P, FracBits = 0 and IntOdd reads mantissa bit 0, the units bit; above that x is even

SpecialUnary(f, fn, x) ==
    IF IsNaN(f, x) THEN RNaN
    ELSE CASE fn = "sqrt" -> IF IsZero(x) THEN RVal(x) ELSE IF x.s = 1 THEN RNaN ELSE IF IsInf(f, x) THEN RVal(x) ELSE RNone
      [] fn = "cbrt" -> IF IsZero(x) \/ IsInf(f, x) THEN RVal(x) ELSE RNone
      [] fn \in {"exp", "exp2"} -> IF IsInf(f, x) THEN (IF x.s = 0 THEN RVal(x) ELSE RVal(Zero(0)))
                                   ELSE IF IsZero(x) THEN RVal(One(f, 0)) ELSE RNone
      [] fn = "expm1" -> IF IsInf(f, x) THEN (IF x.s = 0 THEN RVal(x) ELSE RVal(One(f, 1))) ELSE RNone
      [] fn \in {"log", "log2", "log10"} ->
            IF IsZero(x) THEN RVal(Inf(f, 1)) ELSE IF x.s = 1 THEN RNaN
            ELSE IF IsInf(f, x) THEN RVal(x) ELSE IF IsOneMag(f, x) THEN RVal(Zero(0)) ELSE RNone
      [] fn = "log1p" -> IF x.s = 1 /\ IsOneMag(f, x) THEN RVal(Inf(f, 1))
                         ELSE IF x.s = 1 /\ GtOneMag(f, x) THEN RNaN
                         ELSE IF IsInf(f, x) THEN RVal(x) ELSE RNone
      [] fn \in {"sin", "cos", "tan"} -> IF IsInf(f, x) THEN RNaN
                                         ELSE IF fn = "cos" /\ IsZero(x) THEN RVal(One(f, 0)) ELSE RNone
      [] fn \in {"asin", "acos"} -> IF GtOneMag(f, x) THEN RNaN
                                    ELSE IF fn = "acos" /\ x.s = 0 /\ IsOneMag(f, x) THEN RVal(Zero(0)) ELSE RNone
      [] fn = "atan" -> RNone
      [] fn = "sinh" -> IF IsInf(f, x) THEN RVal(x) ELSE RNone
      [] fn = "cosh" -> IF IsInf(f, x) THEN RVal(Inf(f, 0)) ELSE IF IsZero(x) THEN RVal(One(f, 0)) ELSE RNone
      [] fn = "tanh" -> IF IsInf(f, x) THEN RVal(One(f, x.s)) ELSE RNone
      [] fn = "asinh" -> IF IsInf(f, x) THEN RVal(x) ELSE RNone
      [] fn = "acosh" -> IF x.s = 1 \/ LtOneMag(f, x) THEN RNaN
                         ELSE IF IsInf(f, x) THEN RVal(x) ELSE IF IsOneMag(f, x) THEN RVal(Zero(0)) ELSE RNone
      [] fn = "atanh" -> IF IsOneMag(f, x) THEN RVal(Inf(f, x.s)) ELSE IF GtOneMag(f, x) THEN RNaN ELSE RNone
      [] fn = "erf" -> IF IsInf(f, x) THEN RVal(One(f, x.s)) ELSE RNone
      [] fn = "tgamma" -> IF IsZero(x) THEN RVal(Inf(f, x.s))
                          ELSE IF IsInf(f, x) THEN (IF x.s = 0 THEN RVal(x) ELSE RNaN)
                          ELSE IF x.s = 1 /\ IsInteger(f, x) THEN RNaN ELSE RNone
      [] fn = "lgamma" -> IF IsInf(f, x) THEN RVal(Inf(f, 0))
                          ELSE IF IsZero(x) \/ (x.s = 1 /\ IsInteger(f, x)) THEN RVal(Inf(f, 0)) ELSE RNone
      [] OTHER -> RNone

\* pow(x, y): C F.10.4.4
SpecialPow(f, x, y) ==
    IF IsZero(y) THEN RVal(One(f, 0))                                             \* pow(x, +-0) = 1 even for NaN
    ELSE IF x.s = 0 /\ IsOneMag(f, x) THEN RVal(One(f, 0))                         \* pow(+1, y) = 1 even for NaN
    ELSE IF IsNaN(f, x) \/ IsNaN(f, y) THEN RNaN
    ELSE IF IsZero(x) THEN
        IF y.s = 1 THEN (IF IsOddInteger(f, y) THEN RVal(Inf(f, x.s)) ELSE RVal(Inf(f, 0)))
        ELSE (IF IsOddInteger(f, y) THEN RVal(x) ELSE RVal(Zero(0)))
    ELSE IF IsInf(f, y) THEN
        IF IsOneMag(f, x) THEN RVal(One(f, 0))                                     \* pow(-1, +-inf) = 1
        ELSE IF LtOneMag(f, x) = (y.s = 1) THEN RVal(Inf(f, 0)) ELSE RVal(Zero(0))
    ELSE IF IsInf(f, x) THEN
        IF x.s = 0 THEN (IF y.s = 1 THEN RVal(Zero(0)) ELSE RVal(Inf(f, 0)))
        ELSE IF y.s = 1 THEN (IF IsOddInteger(f, y) THEN RVal(Zero(1)) ELSE RVal(Zero(0)))
        ELSE (IF IsOddInteger(f, y) THEN RVal(Inf(f, 1)) ELSE RVal(Inf(f, 0)))
    ELSE IF x.s = 1 /\ ~IsInteger(f, y) THEN RNaN                                  \* finite x < 0, non-integer y
    ELSE RNone

\* atan2(y, x) (first argument y): the cases with an exactly representable result
SpecialAtan2(f, y, x) ==
    IF IsNaN(f, x) \/ IsNaN(f, y) THEN RNaN
    ELSE IF IsZero(y) /\ x.s = 0 THEN RVal(y)                                      \* atan2(+-0, +0 or x > 0) = +-0
    ELSE IF ~IsZero(y) /\ IsFinite(f, y) /\ IsInf(f, x) /\ x.s = 0 THEN RVal(Zero(y.s))   \* atan2(+-y, +inf) = +-0
    ELSE RNone

SpecialHypot(f, x, y) ==
    IF IsInf(f, x) \/ IsInf(f, y) THEN RVal(Inf(f, 0))                             \* even if the other is NaN
    ELSE IF IsNaN(f, x) \/ IsNaN(f, y) THEN RNaN
    ELSE IF IsZero(y) THEN RVal(FAbs(x)) ELSE IF IsZero(x) THEN RVal(FAbs(y)) ELSE RNone
\* three arguments [c.math.hypot3]: C++ states no Annex-F rule for infinities (libstdc++ returns NaN for
\* hypot(0, 0, inf)); +infinity (IEC 60559) and NaN are both accepted there
SpecialHypot3(f, x, y, z) ==
    IF IsInf(f, x) \/ IsInf(f, y) \/ IsInf(f, z) THEN [k |-> "infnan", v |-> Inf(f, 0)]
    ELSE IF IsNaN(f, x) \/ IsNaN(f, y) \/ IsNaN(f, z) THEN [k |-> "any", v |-> Zero(0)]   \* libstdc++ 12: hypot(0,0,NaN) = 0
    ELSE RNone

\* lerp(a, b, t) [c.math.lerp] for finite a, b: exact at t = 0 and t = 1, and lerp(a, a, t) = a for finite t
SpecialLerp(f, a, b, t) ==
    IF ~(IsFinite(f, a) /\ IsFinite(f, b)) THEN RNone
    ELSE IF IsZero(t) THEN RNum(a)
    ELSE IF t.s = 0 /\ IsOneMag(f, t) THEN RNum(b)
    ELSE IF IsFinite(f, t) /\ a = b THEN RNum(a)
    ELSE RNone
\* midpoint(a, b) [numeric.ops.midpoint]: midpoint(a, a) = a; finite operands never overflow
SpecialMidpoint(f, a, b) ==
    IF IsNaN(f, a) \/ IsNaN(f, b) THEN RNaN
    ELSE IF a = b THEN RNum(a) ELSE RNone

(* ------------------------------------ approximate set: the relation ------------------------------------ *)
\* r: result of the implementation, c: result of libm for the same input (a recorded observation).  Where Annex F
\* fixes the value (Special*) r must be that value; otherwise (FloatTrace.ApproxVerdict):
\*  - libm NaN (domain error)  =>  r NaN
\*  - otherwise r is not NaN and UlpLE(r, c, Tol[f]): infinity counts as the value one step beyond the largest finite
\*    number, so an overflow threshold may be missed by Tol ulps, not more
SpecialOK(f, req, r) ==
    CASE req.k = "nan" -> IsNaN(f, r)
      [] req.k = "val" -> r = req.v
      [] req.k = "num" -> ~IsNaN(f, r) /\ NumEq(r, req.v)
      [] req.k = "infnan" -> IsNaN(f, r) \/ r = req.v
      [] req.k \in {"none", "any"} -> TRUE
=============================================================================
