// Conformance driver for the civil calendar (property C11).
// Reads the inputs exported by spec/CalendarArith.tla (one JSON object {fam, x} per line), executes
// them on the real calendar types through the public API and records ndjson events that
// spec/CalendarTrace.tla judges.  There is NO oracle and NO expected value in here.
//
//  fam "sweep"      x = [ylo, yhi, lo, hi, detail]  every sys_days in [lo, hi]: sys_days -> year_month_day
//                   -> sys_days, local_days both ways, weekday, year_month_day_last.  The per-day results are
//                   written RUN-LENGTH ENCODED and lossless: consecutive days that continue the pattern
//                   "same y/m, day + 1, weekday + 1 (mod 7), ok, identity round trips" are folded into one
//                   `run` event {y, m, d0, n0, len, wd0, L}; a day whose own observations are not of that
//                   shape is written in full as a `day` event.  (Folding compares successive observations
//                   with each other only - never with a reference.)
//  fam "oksweep"    x = [ylo, yhi]   ok() of year_month_day for every (y, m in 0..13, d in 0..32) as
//                   intervals, is_leap, year_month / year_month_day_last ok()
//  fam "yearsweep"  x = [ylo, yhi]   ++/--/+1/-1/negation of every year in the range
//  fam "misc"       ok() of day, month, year (whole int16 range), month_day, month_day_last, weekday_last, ...
//  fam "ymw_ok"     x = [y]          year_month_weekday::ok for every month, weekday, index
//  fam month, month_diff, wd, wd_diff, wd_ctor, wdi, year, year_diff, ym_m, ym_y: arithmetic, every
//                   spelling (x + d, d + x, x - d, +=, -=, ++/-- pre and post) on every type of the family.
//
// Built with -DVH_STD the identical calls run on libstdc++'s std::chrono (calibration).
// -DVP_HAVE_<X> flags come from compile probes (tools/pipes/calendar.py): operations whose body does
// not instantiate or link are not driven and are reported as UNSUPPORTED on stderr.
#include "common.hpp"

#include <cstdarg>
#include <set>
#include <string>

#ifdef VH_STD
    #include <chrono>
namespace ch = std::chrono;
#else
    #include <etl/chrono.hpp>
namespace ch = etl::chrono;
#endif

using vh::json;

namespace {

std::string g_out;
std::set<std::string> g_unsupported;

void flush_out()
{
    std::fwrite(g_out.data(), 1, g_out.size(), stdout);
    std::fflush(stdout);
    g_out.clear();
}

void put(char const* fmt, ...)
{
    char tmp[1024];
    va_list ap;
    va_start(ap, fmt);
    int n = std::vsnprintf(tmp, sizeof tmp, fmt, ap);
    va_end(ap);
    g_out.append(tmp, (size_t)n);
    g_out.push_back('\n');
    if (g_out.size() > (1u << 20)) { flush_out(); }
}

void unsupported(char const* what)
{
    if (g_unsupported.insert(what).second) { std::fprintf(stderr, "UNSUPPORTED %s\n", what); }
}

std::string arr(std::initializer_list<long> v)
{
    std::string s = "[";
    bool first    = true;
    for (long e : v) {
        if (!first) { s += ","; }
        s += std::to_string(e);
        first = false;
    }
    return s + "]";
}

// intervals of a predicate over lo..hi  ->  [[a,b],...]   (pure run-length encoding of the answers)
template <typename P>
std::string intervals(long lo, long hi, P p)
{
    std::string s = "[";
    bool open     = false;
    bool first    = true;
    long start    = 0;
    for (long k = lo; k <= hi; ++k) {
        bool v = p(k);
        if (v and not open) {
            open  = true;
            start = k;
        }
        if (open and (not v or k == hi)) {
            long end = v ? k : k - 1;
            if (!first) { s += ","; }
            s += "[" + std::to_string(start) + "," + std::to_string(end) + "]";
            first = false;
            open  = false;
        }
    }
    return s + "]";
}

using drep = ch::days::rep;
ch::sys_days sd_of(long n) { return ch::sys_days{ch::days{(drep)n}}; }
ch::local_days ld_of(long n) { return ch::local_days{ch::days{(drep)n}}; }

// ---------------------------------------------------------------------------------------------
// sweep over sys_days
// ---------------------------------------------------------------------------------------------
struct DayObs {
    long n;
    int y;
    unsigned m, d;
    bool ok;
    long back;
    int y2;
    unsigned m2, d2;
    long backl;
    unsigned wd, wdl, iso;
    bool wdok;
};

DayObs observe(long n)
{
    DayObs o{};
    o.n      = n;
    auto sd  = sd_of(n);
    auto ymd = ch::year_month_day{sd};
    o.y      = int(ymd.year());
    o.m      = unsigned(ymd.month());
    o.d      = unsigned(ymd.day());
    o.ok     = ymd.ok();
    o.back   = (long)ch::sys_days{ymd}.time_since_epoch().count();
    auto ld  = ld_of(n);
    auto y2  = ch::year_month_day{ld};
    o.y2     = int(y2.year());
    o.m2     = unsigned(y2.month());
    o.d2     = unsigned(y2.day());
    o.backl  = (long)ch::local_days{y2}.time_since_epoch().count();
    auto w   = ch::weekday{sd};
    o.wd     = w.c_encoding();
    o.iso    = w.iso_encoding();
    o.wdok   = w.ok();
    o.wdl    = ch::weekday{ld}.c_encoding();
    return o;
}

// observations that only depend on (y, m): last day of the month (+ its sys_days where drivable)
struct MonthObs {
    long L;
    long ln;
    bool has_ln;
};
MonthObs observe_month(int y, unsigned m)
{
    MonthObs r{-1, 0, false};
    if (m >= 1 and m <= 12) {
        auto ymdl = ch::year_month_day_last{ch::year{y}, ch::month_day_last{ch::month{m}}};
        r.L       = (long)unsigned(ymdl.day());
#if defined(VH_STD) || defined(VP_HAVE_YMDL_SYS)
        r.ln     = (long)ch::sys_days{ymdl}.time_since_epoch().count();
        r.has_ln = true;
#endif
    }
    return r;
}

bool plain(DayObs const& o)
{
    return o.ok and o.back == o.n and o.backl == o.n and o.wdl == o.wd and o.y2 == o.y and o.m2 == o.m and o.d2 == o.d
       and o.wdok and o.iso == (o.wd == 0 ? 7U : o.wd);
}

struct Run {
    bool active = false;
    int y;
    unsigned m, d0;
    long n0, len;
    unsigned wd0;
};

void flush_run(Run& r)
{
    if (!r.active) { return; }
    auto mo = observe_month(r.y, r.m);
    if (mo.has_ln) {
        put(R"({"op":"run","y":%d,"m":%u,"d0":%u,"n0":%ld,"len":%ld,"wd0":%u,"L":%ld,"ln":%ld})", r.y, r.m, r.d0, r.n0,
            r.len, r.wd0, mo.L, mo.ln);
    } else {
        put(R"({"op":"run","y":%d,"m":%u,"d0":%u,"n0":%ld,"len":%ld,"wd0":%u,"L":%ld})", r.y, r.m, r.d0, r.n0, r.len,
            r.wd0, mo.L);
    }
    r.active = false;
}

void sweep(long ylo, long yhi, long lo, long hi, long detail)
{
    put(R"({"op":"sweep_begin","ylo":%ld,"yhi":%ld,"lo":%ld,"hi":%ld})", ylo, yhi, lo, hi);
    Run r;
    for (long n = lo; n <= hi; ++n) {
        DayObs o = observe(n);
        if (r.active and o.y == r.y and o.m == r.m and o.d == r.d0 + (unsigned)r.len
            and o.wd == (r.wd0 + (unsigned)r.len) % 7U and plain(o)) {
            ++r.len;
            continue;
        }
        flush_run(r);
        if (plain(o)) {
            r = Run{true, o.y, o.m, o.d, n, 1, o.wd};
        } else {
            auto mo = observe_month(o.y, o.m);
            put(R"({"op":"day","n":%ld,"y":%d,"m":%u,"d":%u,"ok":%s,"back":%ld,"y2":%d,"m2":%u,"d2":%u,"backl":%ld,"wd":%u,"wdl":%u,"iso":%u,"wdok":%s,"L":%ld})",
                n, o.y, o.m, o.d, o.ok ? "true" : "false", o.back, o.y2, o.m2, o.d2, o.backl, o.wd, o.wdl, o.iso,
                o.wdok ? "true" : "false", mo.L);
        }
    }
    flush_run(r);
    put(R"({"op":"sweep_end","hi":%ld})", hi);

    if (detail != 0) {
#if defined(VH_STD) || (defined(VP_HAVE_YMW_FROM_SYS) && defined(VP_HAVE_YMW_TO_SYS))
        for (long n = lo; n <= hi; ++n) {
            auto w    = ch::year_month_weekday{sd_of(n)};
            long back = (long)ch::sys_days{w}.time_since_epoch().count();
            put(R"({"op":"ymw_day","n":%ld,"ret":%s,"back":%ld})", n,
                arr({int(w.year()), (long)unsigned(w.month()), (long)w.weekday().c_encoding(), (long)w.index(), w.ok() ? 1 : 0})
                    .c_str(),
                back);
        }
#else
        unsupported("year_month_weekday <-> sys_days (declared, never defined)");
#endif
    }
}

// ---------------------------------------------------------------------------------------------
// ok() sweeps
// ---------------------------------------------------------------------------------------------
void oksweep(long ylo, long yhi)
{
    for (long y = ylo; y <= yhi; ++y) {
        auto Y = ch::year{(int)y};
        put(R"({"op":"is_leap","y":%ld,"ret":%s})", y, Y.is_leap() ? "true" : "false");
        for (unsigned m = 0; m <= 13; ++m) {
            auto iv = intervals(0, 32, [&](long d) { return ch::year_month_day{Y, ch::month{m}, ch::day{(unsigned)d}}.ok(); });
            put(R"({"op":"ymd_ok","y":%ld,"m":%u,"iv":%s})", y, m, iv.c_str());
        }
        auto a = intervals(0, 13, [&](long m) { return ch::year_month{Y, ch::month{(unsigned)m}}.ok(); });
        put(R"({"op":"ym_ok","y":%ld,"iv":%s})", y, a.c_str());
        auto b = intervals(0, 13, [&](long m) {
            return ch::year_month_day_last{Y, ch::month_day_last{ch::month{(unsigned)m}}}.ok();
        });
        put(R"({"op":"ymdl_ok","y":%ld,"iv":%s})", y, b.c_str());
    }
}

void misc()
{
    put(R"({"op":"year_ok","iv":%s})", intervals(-32768, 32767, [](long y) { return ch::year{(int)y}.ok(); }).c_str());
    put(R"({"op":"day_ok","iv":%s})", intervals(0, 40, [](long d) { return ch::day{(unsigned)d}.ok(); }).c_str());
    put(R"({"op":"month_ok","iv":%s})", intervals(0, 20, [](long m) { return ch::month{(unsigned)m}.ok(); }).c_str());
    for (unsigned m = 0; m <= 13; ++m) {
        put(R"({"op":"md_ok","m":%u,"iv":%s})", m,
            intervals(0, 32, [&](long d) { return ch::month_day{ch::month{m}, ch::day{(unsigned)d}}.ok(); }).c_str());
    }
    put(R"({"op":"mdl_ok","iv":%s})",
        intervals(0, 13, [](long m) { return ch::month_day_last{ch::month{(unsigned)m}}.ok(); }).c_str());
    put(R"({"op":"wdl_ok","iv":%s})",
        intervals(0, 8, [](long w) { return ch::weekday_last{ch::weekday{(unsigned)w}}.ok(); }).c_str());
    for (unsigned m = 0; m <= 13; ++m) {
        for (unsigned w = 0; w <= 6; ++w) {
            put(R"({"op":"mwd_ok","m":%u,"w":%u,"iv":%s})", m, w, intervals(0, 7, [&](long i) {
                    return ch::month_weekday{ch::month{m}, ch::weekday_indexed{ch::weekday{w}, (unsigned)i}}.ok();
                }).c_str());
        }
        put(R"({"op":"mwdl_ok","m":%u,"iv":%s})", m, intervals(0, 8, [&](long w) {
                return ch::month_weekday_last{ch::month{m}, ch::weekday_last{ch::weekday{(unsigned)w}}}.ok();
            }).c_str());
    }
    // the twelve month and seven weekday constants
    put(R"({"op":"consts","months":%s,"wds":%s})",
        arr({(long)unsigned(ch::January), (long)unsigned(ch::February), (long)unsigned(ch::March), (long)unsigned(ch::April),
             (long)unsigned(ch::May), (long)unsigned(ch::June), (long)unsigned(ch::July), (long)unsigned(ch::August),
             (long)unsigned(ch::September), (long)unsigned(ch::October), (long)unsigned(ch::November),
             (long)unsigned(ch::December)})
            .c_str(),
        arr({(long)ch::Sunday.c_encoding(), (long)ch::Monday.c_encoding(), (long)ch::Tuesday.c_encoding(),
             (long)ch::Wednesday.c_encoding(), (long)ch::Thursday.c_encoding(), (long)ch::Friday.c_encoding(),
             (long)ch::Saturday.c_encoding()})
            .c_str());
}

void ymw_ok(long y)
{
    for (unsigned m = 0; m <= 13; ++m) {
        for (unsigned w = 0; w <= 6; ++w) {
            put(R"({"op":"ymw_ok","y":%ld,"m":%u,"w":%u,"iv":%s})", y, m, w, intervals(0, 7, [&](long i) {
                    return ch::year_month_weekday{ch::year{(int)y}, ch::month{m}, ch::weekday_indexed{ch::weekday{w}, (unsigned)i}}
                        .ok();
                }).c_str());
        }
    }
#if defined(VH_STD) || defined(VP_HAVE_YMWL)
    for (unsigned m = 0; m <= 13; ++m) {
        put(R"({"op":"ymwl_ok","y":%ld,"m":%u,"iv":%s})", y, m, intervals(0, 8, [&](long w) {
                return ch::year_month_weekday_last{ch::year{(int)y}, ch::month{m}, ch::weekday_last{ch::weekday{(unsigned)w}}}
                    .ok();
            }).c_str());
    }
#else
    unsupported("year_month_weekday_last (every member declared, none defined)");
#endif
}

// ---------------------------------------------------------------------------------------------
// scalar arithmetic: month, weekday, year.  V(x) projects a value, Mk(v) makes one, D(d) a delta.
// ---------------------------------------------------------------------------------------------
template <typename Mk, typename Dl, typename V>
void scalar(char const* t, long v, long d, Mk mk, Dl dl, V val, bool incdec)
{
    auto ev = [&](char const* s, long ret) {
        put(R"({"op":"scalar","t":"%s","s":"%s","x":[%ld,%ld],"ret":[%ld]})", t, s, v, d, ret);
    };
    auto evo = [&](char const* s, long ret, long obj) {
        put(R"({"op":"scalar","t":"%s","s":"%s","x":[%ld,%ld],"ret":[%ld],"obj":[%ld]})", t, s, v, d, ret, obj);
    };
    ev("plus", val(mk(v) + dl(d)));
    ev("rplus", val(dl(d) + mk(v)));
    ev("minus", val(mk(v) - dl(d)));
    {
        auto o  = mk(v);
        auto& r = (o += dl(d));
        long rv = val(r);
        evo("pluseq", rv, val(o));
    }
    {
        auto o  = mk(v);
        auto& r = (o -= dl(d));
        long rv = val(r);
        evo("minuseq", rv, val(o));
    }
    if (incdec) {
        {
            auto o  = mk(v);
            auto& r = ++o;
            long rv = val(r);
            evo("preinc", rv, val(o));
        }
        {
            auto o  = mk(v);
            auto r  = o++;
            long rv = val(r);
            evo("postinc", rv, val(o));
        }
        {
            auto o  = mk(v);
            auto& r = --o;
            long rv = val(r);
            evo("predec", rv, val(o));
        }
        {
            auto o  = mk(v);
            auto r  = o--;
            long rv = val(r);
            evo("postdec", rv, val(o));
        }
    }
}

auto mk_month = [](long v) { return ch::month{(unsigned)v}; };
auto mk_wd    = [](long v) { return ch::weekday{(unsigned)v}; };
auto mk_year  = [](long v) { return ch::year{(int)v}; };
auto d_months = [](long d) { return ch::months{(ch::months::rep)d}; };
auto d_days   = [](long d) { return ch::days{(ch::days::rep)d}; };
auto d_years  = [](long d) { return ch::years{(ch::years::rep)d}; };
auto v_month  = [](ch::month const& m) { return (long)unsigned(m); };
auto v_wd     = [](ch::weekday const& w) { return (long)w.c_encoding(); };
auto v_year   = [](ch::year const& y) { return (long)int(y); };

void year_unary(long y)
{
    put(R"({"op":"scalar","t":"year","s":"neg","x":[%ld,0],"ret":[%ld]})", y, v_year(-ch::year{(int)y}));
    put(R"({"op":"scalar","t":"year","s":"pos","x":[%ld,0],"ret":[%ld]})", y, v_year(+ch::year{(int)y}));
}

void yearsweep(long ylo, long yhi)
{
    for (long y = ylo; y <= yhi; ++y) {
        // +-1 stays inside [-32767, 32767] for the ranges spec/CalendarArith.tla exports
        scalar("year", y, 1, mk_year, d_years, v_year, true);
        year_unary(y);
    }
}

// ---------------------------------------------------------------------------------------------
// composite types: year_month, year_month_day, year_month_day_last, year_month_weekday(_last)
// ---------------------------------------------------------------------------------------------
std::string proj(ch::year_month const& v) { return arr({int(v.year()), (long)unsigned(v.month()), v.ok() ? 1 : 0}); }
std::string proj(ch::year_month_day const& v)
{
    return arr({int(v.year()), (long)unsigned(v.month()), (long)unsigned(v.day()), v.ok() ? 1 : 0});
}
std::string proj(ch::year_month_day_last const& v)
{
    unsigned m = unsigned(v.month());
    long L     = (m >= 1 and m <= 12) ? (long)unsigned(v.day()) : -1;
    return arr({int(v.year()), (long)m, L, v.ok() ? 1 : 0});
}
std::string proj(ch::year_month_weekday const& v)
{
    return arr({int(v.year()), (long)unsigned(v.month()), (long)v.weekday().c_encoding(), (long)v.index(), v.ok() ? 1 : 0});
}
#if defined(VH_STD) || defined(VP_HAVE_YMWL)
std::string proj(ch::year_month_weekday_last const& v)
{
    return arr({int(v.year()), (long)unsigned(v.month()), (long)v.weekday().c_encoding(), v.ok() ? 1 : 0});
}
#endif

// every spelling of  value (+|-) delta  for one composite kind; `compound` = members += / -= are drivable
template <bool Compound, typename T, typename D>
void comp(char const* k, char const* u, std::string const& x, T const& v0, D const& dl)
{
    auto ev = [&](char const* s, std::string const& ret) {
        put(R"({"op":"comp","k":"%s","u":"%s","s":"%s","x":%s,"ret":%s})", k, u, s, x.c_str(), ret.c_str());
    };
    auto evo = [&](char const* s, std::string const& ret, std::string const& obj) {
        put(R"({"op":"comp","k":"%s","u":"%s","s":"%s","x":%s,"ret":%s,"obj":%s})", k, u, s, x.c_str(), ret.c_str(),
            obj.c_str());
    };
    ev("plus", proj(v0 + dl));
    ev("rplus", proj(dl + v0));
    ev("minus", proj(v0 - dl));
    if constexpr (Compound) {
        if constexpr (requires(T t) { t += dl; }) {
            {
                T o         = v0;
                auto& r     = (o += dl);
                auto rv     = proj(r);
                evo("pluseq", rv, proj(o));
            }
            {
                T o         = v0;
                auto& r     = (o -= dl);
                auto rv     = proj(r);
                evo("minuseq", rv, proj(o));
            }
        }
    }
}

template <typename D>
void comp_all(char const* u, long y, long m, long delta, D const& dl)
{
    auto Y = ch::year{(int)y};
    auto M = ch::month{(unsigned)m};
    comp<true>("ym", u, arr({y, m, delta}), ch::year_month{Y, M}, dl);
    for (long d : {1L, 29L, 31L}) { comp<true>("ymd", u, arr({y, m, d, delta}), ch::year_month_day{Y, M, ch::day{(unsigned)d}}, dl); }
    comp<true>("ymdl", u, arr({y, m, delta}), ch::year_month_day_last{Y, ch::month_day_last{M}}, dl);
    long const wis[2][2] = {{0, 1}, {6, 5}};
    for (auto const& wi : wis) {
        auto v = ch::year_month_weekday{Y, M, ch::weekday_indexed{ch::weekday{(unsigned)wi[0]}, (unsigned)wi[1]}};
#if defined(VH_STD) || defined(VP_HAVE_YMW_COMPOUND)
        comp<true>("ymw", u, arr({y, m, wi[0], wi[1], delta}), v, dl);
#else
        comp<false>("ymw", u, arr({y, m, wi[0], wi[1], delta}), v, dl);
        unsupported("year_month_weekday::operator+= / -= (declared, never defined)");
#endif
    }
#if defined(VH_STD) || defined(VP_HAVE_YMWL)
    comp<true>("ymwl", u, arr({y, m, 2, delta}), ch::year_month_weekday_last{Y, M, ch::weekday_last{ch::weekday{2U}}}, dl);
#else
    unsupported("year_month_weekday_last arithmetic (declared, never defined)");
#endif
}

template <typename YM = ch::year_month>
void ym_diff(long y, long m, long dm)
{
    // year_month - year_month  (only where the operator exists)
    if constexpr (requires(YM a, YM b) { a - b; }) {
        auto a = YM{ch::year{(int)y}, ch::month{(unsigned)m}};
        auto b = a + ch::months{(ch::months::rep)dm};
        put(R"({"op":"ym_diff","x":%s,"ret":[%ld]})",
            arr({int(b.year()), (long)unsigned(b.month()), int(a.year()), (long)unsigned(a.month())}).c_str(),
            (long)(b - a).count());
    } else {
        unsupported("year_month - year_month (commented out in year_month.hpp)");
    }
}

void dispatch(json const& in)
{
    std::string fam = in["fam"];
    auto const& x   = in["x"];
    auto X          = [&](int i) { return x[i].get<long>(); };
    if (fam == "sweep") {
        sweep(X(0), X(1), X(2), X(3), X(4));
    } else if (fam == "oksweep") {
        oksweep(X(0), X(1));
    } else if (fam == "yearsweep") {
        yearsweep(X(0), X(1));
    } else if (fam == "misc") {
        misc();
    } else if (fam == "ymw_ok") {
        ymw_ok(X(0));
    } else if (fam == "month") {
        scalar("month", X(0), X(1), mk_month, d_months, v_month, X(1) == 1);
    } else if (fam == "wd") {
        scalar("wd", X(0), X(1), mk_wd, d_days, v_wd, X(1) == 1);
    } else if (fam == "year") {
        scalar("year", X(0), X(1), mk_year, d_years, v_year, X(1) == 1);
        if (X(1) == 0) { year_unary(X(0)); }
    } else if (fam == "month_diff") {
        put(R"({"op":"diff","t":"month","x":[%ld,%ld],"ret":[%ld]})", X(0), X(1), (long)(mk_month(X(0)) - mk_month(X(1))).count());
    } else if (fam == "wd_diff") {
        put(R"({"op":"diff","t":"wd","x":[%ld,%ld],"ret":[%ld]})", X(0), X(1), (long)(mk_wd(X(0)) - mk_wd(X(1))).count());
    } else if (fam == "year_diff") {
        put(R"({"op":"diff","t":"year","x":[%ld,%ld],"ret":[%ld]})", X(0), X(1), (long)(mk_year(X(0)) - mk_year(X(1))).count());
    } else if (fam == "wd_ctor") {
        auto w = ch::weekday{(unsigned)X(0)};
        put(R"({"op":"wd_ctor","x":[%ld],"ret":[%ld,%ld,%d]})", X(0), (long)w.c_encoding(), (long)w.iso_encoding(), w.ok() ? 1 : 0);
    } else if (fam == "wdi") {
        auto wi = ch::weekday_indexed{ch::weekday{(unsigned)X(0)}, (unsigned)X(1)};
        auto w2 = ch::weekday{(unsigned)X(0)}[(unsigned)X(1)];
        put(R"({"op":"wdi","x":[%ld,%ld],"ret":[%ld,%ld,%d],"sub":[%ld,%ld,%d]})", X(0), X(1), (long)wi.weekday().c_encoding(),
            (long)wi.index(), wi.ok() ? 1 : 0, (long)w2.weekday().c_encoding(), (long)w2.index(), w2.ok() ? 1 : 0);
    } else if (fam == "ym_m") {
        comp_all("m", X(0), X(1), X(2), ch::months{(ch::months::rep)X(2)});
        ym_diff(X(0), X(1), X(2));
    } else if (fam == "ym_y") {
        comp_all("y", X(0), X(1), X(2), ch::years{(ch::years::rep)X(2)});
    } else {
        std::fprintf(stderr, "unknown family %s\n", fam.c_str());
        std::exit(2);
    }
}

} // namespace

int main(int argc, char** argv)
{
    if (argc < 2) {
        std::fprintf(stderr, "usage: calendar_driver <inputs.ndjson>\n");
        return 2;
    }
    for (auto const& in : vh::read_ndjson(argv[1])) { dispatch(in); }
    flush_out();
    return 0;
}
