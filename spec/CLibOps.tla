------------------------------ MODULE CLibOps ------------------------------
(* Meaning of the C library functions of <ctype.h>/<wctype.h> ("C" locale), <string.h>/<wchar.h>     *)
(* (string and memory functions) and div/labs/llabs of <stdlib.h>, transcribed from ISO C 7.4, 7.24,  *)
(* 7.29.4, 7.22.6 - not from the etl sources.                                                        *)
(*                                                                                                   *)
(* Memory model: `m` is ONE sequence of cells (unsigned-char codes 0..255 for the byte family, the   *)
(* wchar_t value for the wide family); pointers are 0-based offsets into it; a string is the cells   *)
(* from its pointer up to and including the first 0 cell.  Every function is                          *)
(*     Pre(op, w, m, p, q, n, c)   what the caller owes (pointers valid, terminators, room, overlap) *)
(*     Eff(op, w, m, p, q, n, c) = [ret, post]                                                        *)
(* with ret = pointer as offset / -1 for null / sign / length, post = the WHOLE memory after the      *)
(* call: every cell outside the destination extent C defines is required to be unchanged, which is    *)
(* how the write footprint is judged (the harness puts guard cells around every region).              *)
EXTENDS Integers, Sequences, FiniteSets

Min2(a, b) == IF a < b THEN a ELSE b
Max2(a, b) == IF a < b THEN b ELSE a
Cmp3(x, y) == IF x < y THEN -1 ELSE IF x > y THEN 1 ELSE 0
First(S) == CHOOSE i \in S : \A j \in S : i <= j
Last(S) == CHOOSE i \in S : \A j \in S : i >= j
Range(xs) == {xs[i] : i \in 1..Len(xs)}

\* ------------------------------------------------------------------------------------------------
\* 7.4 character handling, "C" locale (ASCII execution character set).  EOF / WEOF is the token -1.
\* ------------------------------------------------------------------------------------------------
Digit == 48..57
Upper == 65..90
Lower == 97..122
Alpha == Upper \cup Lower
Alnum == Alpha \cup Digit
XDigit == Digit \cup (65..70) \cup (97..102)
Blank == {9, 32}
Space == (9..13) \cup {32}
Cntrl == (0..31) \cup {127}
Graph == 33..126
Printable == 32..126
Punct == Graph \ Alnum

ClassOps == {"isalnum", "isalpha", "isblank", "iscntrl", "isdigit", "isgraph", "islower", "isprint",
             "ispunct", "isspace", "isupper", "isxdigit"}
CaseOps == {"tolower", "toupper"}
CTypeOps == ClassOps \cup CaseOps

ClassOf(f) ==
    CASE f = "isalnum" -> Alnum [] f = "isalpha" -> Alpha [] f = "isblank" -> Blank [] f = "iscntrl" -> Cntrl
      [] f = "isdigit" -> Digit [] f = "isgraph" -> Graph [] f = "islower" -> Lower [] f = "isprint" -> Printable
      [] f = "ispunct" -> Punct [] f = "isspace" -> Space [] f = "isupper" -> Upper [] f = "isxdigit" -> XDigit

ToLower(c) == IF c \in Upper THEN c + 32 ELSE c
ToUpper(c) == IF c \in Lower THEN c - 32 ELSE c

\* truth value as 0/1; conversions return the code.  Same tables for the isw*/tow* functions.
CType(f, c) ==
    IF f = "tolower" THEN ToLower(c)
    ELSE IF f = "toupper" THEN ToUpper(c)
    ELSE IF c \in ClassOf(f) THEN 1 ELSE 0

\* argument domain: unsigned char or EOF (7.4p1); wide: the tested range of wint_t or WEOF
CTypeDomain(w, hi) == (-1)..(IF w = 0 THEN 255 ELSE hi)

\* ------------------------------------------------------------------------------------------------
\* memory
\* ------------------------------------------------------------------------------------------------
Cell(m, i) == m[i + 1]
InMem(m, p, n) == p >= 0 /\ n >= 0 /\ p + n <= Len(m)
Term(m, p) == p >= 0 /\ \E k \in p..(Len(m) - 1) : Cell(m, k) = 0
CLen(m, p) == First({k \in p..(Len(m) - 1) : Cell(m, k) = 0}) - p
Chars(m, p, n) == [i \in 1..n |-> Cell(m, p + i - 1)]
Str(m, p) == Chars(m, p, CLen(m, p))
StrZ(m, p) == Chars(m, p, CLen(m, p) + 1)
Take(xs, n) == SubSeq(xs, 1, Min2(n, Len(xs)))
Zeros(n) == [i \in 1..n |-> 0]
Fill(n, v) == [i \in 1..n |-> v]
Put(m, d, xs) == [i \in 1..Len(m) |-> IF i - 1 >= d /\ i - 1 < d + Len(xs) THEN xs[i - d] ELSE m[i]]
Disjoint(p, n, q, k) == n = 0 \/ k = 0 \/ p + n <= q \/ q + k <= p

\* lexicographic three-way comparison over the common length (7.24.4: sign of the difference of the
\* first differing pair, both interpreted as unsigned char - the cells already are; wide: wchar_t)
CmpSeqs(xs, ys) ==
    LET D == {i \in 1..Min2(Len(xs), Len(ys)) : xs[i] # ys[i]}
    IN IF D = {} THEN 0 ELSE Cmp3(xs[First(D)], ys[First(D)])

\* conversion of the int argument to the character type (7.24.5.2 "converted to a char", 7.24.5.1,
\* 7.24.6.1 "converted to an unsigned char"); the wide functions take a wchar_t
Conv(w, c) == IF w = 0 THEN c % 256 ELSE c

StrOps1 == {"strlen", "strchr", "strrchr"}
StrOps2 == {"strcmp", "strncmp", "strspn", "strcspn", "strpbrk", "strstr"}
WriteOps == {"strcpy", "strncpy", "strcat", "strncat", "memcpy", "memmove", "memset"}
MemOps == {"memcmp", "memchr"}
MemOpsAll == StrOps1 \cup StrOps2 \cup WriteOps \cup MemOps

Pre(op, w, m, p, q, n, c) ==
    CASE op \in StrOps1 -> Term(m, p)
      [] op \in StrOps2 -> Term(m, p) /\ Term(m, q) /\ n >= 0
      [] op = "strcpy" -> /\ Term(m, q)
                          /\ InMem(m, p, CLen(m, q) + 1)
                          /\ Disjoint(p, CLen(m, q) + 1, q, CLen(m, q) + 1)
      [] op = "strncpy" -> /\ Term(m, q)
                           /\ InMem(m, p, n)
                           /\ Disjoint(p, n, q, CLen(m, q) + 1)
      [] op = "strcat" -> /\ Term(m, p) /\ Term(m, q)
                          /\ InMem(m, p, CLen(m, p) + CLen(m, q) + 1)
                          /\ Disjoint(p, CLen(m, p) + CLen(m, q) + 1, q, CLen(m, q) + 1)
      [] op = "strncat" -> /\ Term(m, p) /\ Term(m, q) /\ n >= 0
                           /\ InMem(m, p, CLen(m, p) + Min2(n, CLen(m, q)) + 1)
                           /\ Disjoint(p, CLen(m, p) + Min2(n, CLen(m, q)) + 1, q, CLen(m, q) + 1)
      [] op = "memcpy" -> InMem(m, p, n) /\ InMem(m, q, n) /\ Disjoint(p, n, q, n)
      [] op = "memmove" -> InMem(m, p, n) /\ InMem(m, q, n)
      [] op = "memset" -> InMem(m, p, n)
      [] op = "memcmp" -> InMem(m, p, n) /\ InMem(m, q, n)
      [] op = "memchr" -> InMem(m, p, n)
      [] OTHER -> FALSE

R(ret, post) == [ret |-> ret, post |-> post]
PtrOrNull(p, S) == IF S = {} THEN -1 ELSE p + First(S) - 1

Eff(op, w, m, p, q, n, c) ==
    CASE op = "strlen" -> R(CLen(m, p), m)
      \* 7.24.5.2/.5: the terminating null character is part of the string
      [] op = "strchr" -> R(PtrOrNull(p, {i \in 1..(CLen(m, p) + 1) : Cell(m, p + i - 1) = Conv(w, c)}), m)
      [] op = "strrchr" -> LET S == {i \in 1..(CLen(m, p) + 1) : Cell(m, p + i - 1) = Conv(w, c)}
                           IN R(IF S = {} THEN -1 ELSE p + Last(S) - 1, m)
      [] op = "strcmp" -> R(CmpSeqs(StrZ(m, p), StrZ(m, q)), m)
      \* 7.24.4.4: not more than n characters, characters after a null are not compared
      [] op = "strncmp" -> R(CmpSeqs(Take(StrZ(m, p), n), Take(StrZ(m, q), n)), m)
      [] op = "strspn" -> LET a == Str(m, p)
                              S == Range(Str(m, q))
                              B == {i \in 1..Len(a) : a[i] \notin S}
                          IN R(IF B = {} THEN Len(a) ELSE First(B) - 1, m)
      [] op = "strcspn" -> LET a == Str(m, p)
                               S == Range(Str(m, q))
                               B == {i \in 1..Len(a) : a[i] \in S}
                           IN R(IF B = {} THEN Len(a) ELSE First(B) - 1, m)
      [] op = "strpbrk" -> LET a == Str(m, p)
                               S == Range(Str(m, q))
                           IN R(PtrOrNull(p, {i \in 1..Len(a) : a[i] \in S}), m)
      \* 7.24.5.7: first occurrence of the (terminator-less) needle; empty needle -> haystack
      [] op = "strstr" -> LET a == Str(m, p)
                              b == Str(m, q)
                              M == {i \in 1..(Len(a) - Len(b) + 1) : SubSeq(a, i, i + Len(b) - 1) = b}
                          IN R(PtrOrNull(p, M), m)
      [] op = "strcpy" -> R(p, Put(m, p, StrZ(m, q)))
      \* 7.24.2.4: exactly n characters are written; nulls are appended until n in all
      [] op = "strncpy" -> LET s == Take(Str(m, q), n) IN R(p, Put(m, p, s \o Zeros(n - Len(s))))
      [] op = "strcat" -> R(p, Put(m, p + CLen(m, p), StrZ(m, q)))
      \* 7.24.3.2: at most n characters, a terminating null is always appended
      [] op = "strncat" -> R(p, Put(m, p + CLen(m, p), Take(Str(m, q), n) \o <<0>>))
      [] op = "memcpy" -> R(p, Put(m, p, Chars(m, q, n)))
      [] op = "memmove" -> R(p, Put(m, p, Chars(m, q, n)))
      [] op = "memset" -> R(p, Put(m, p, Fill(n, Conv(w, c))))
      [] op = "memcmp" -> R(CmpSeqs(Chars(m, p, n), Chars(m, q, n)), m)
      [] op = "memchr" -> R(PtrOrNull(p, {i \in 1..n : Cell(m, p + i - 1) = Conv(w, c)}), m)

\* the destination extent C defines (cells that may change)
Extent(op, m, p, q, n) ==
    CASE op = "strcpy" -> p..(p + CLen(m, q))
      [] op = "strncpy" -> p..(p + n - 1)
      [] op = "strcat" -> (p + CLen(m, p))..(p + CLen(m, p) + CLen(m, q))
      [] op = "strncat" -> (p + CLen(m, p))..(p + CLen(m, p) + Min2(n, CLen(m, q)))
      [] op \in {"memcpy", "memmove", "memset"} -> p..(p + n - 1)
      [] OTHER -> {}

\* ------------------------------------------------------------------------------------------------
\* 7.22.6 div / labs (quotient truncated toward zero, quot*denom + rem = numer)
\* ------------------------------------------------------------------------------------------------
AbsI(x) == IF x < 0 THEN -x ELSE x
TruncDiv(x, y) == LET q == AbsI(x) \div AbsI(y) IN IF (x < 0) # (y < 0) THEN -q ELSE q
TruncRem(x, y) == x - y * TruncDiv(x, y)
DivOps == {"div", "labs"}
=============================================================================
