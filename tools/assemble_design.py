#!/usr/bin/env python3
"""Rebuild DESIGN.md section 12.5 (per-property 'as built' paragraphs) from pending/DESIGN-C*.md and
section 12.3's fix table from known_findings.json, and 12.4's table from seeded/INDEX.md."""
import glob, json, re
D = '/verif/DESIGN.md'
s = open(D).read()
BEGIN, END = '<!-- BEGIN AS-BUILT -->', '<!-- END AS-BUILT -->'
parts = []
for f in sorted(glob.glob('/verif/pending/DESIGN-C*.md')):
    parts.append(open(f).read().strip())
k = json.load(open('/verif/known_findings.json'))['findings']
fixed = [f for f in k if f['status'] == 'fixed']
openf = [f for f in k if f['status'] == 'open']
tbl = ["| property | commit | what failed |", "|---|---|---|"] + ["| %s | %s | %s |" % (f['property'], f['commit'], f['what'].replace('|', '/')) for f in sorted(fixed, key=lambda f: (f['property'], f['commit']))]
otbl = ["| id | property | what fails (recorded, not repaired) |", "|---|---|---|"] + ["| %s | %s | %s |" % (f['id'], f['property'], f['what'].replace('|', '/')[:400]) for f in sorted(openf, key=lambda f: f['id'])]
seeded = open('/verif/seeded/INDEX.md').read().split('\n', 2)[2] if glob.glob('/verif/seeded/INDEX.md') else ''
xparts = [open(f).read().strip() for f in sorted(glob.glob('/verif/pending/DESIGN-X*.md'))]
block = "\n".join([BEGIN, "", "#### Repaired defects (%d `fix:` commits in /repo)" % len(fixed), "", *tbl, "",
                   "#### Open known findings (%d)" % len(openf), "", *otbl, "",
                   "#### Seeded changes and the checks that catch them", "", seeded.strip(), "",
                   "### 12.5 Per-property: as built", "", "\n\n".join(parts), "",
                   "### 12.6 Specification growth beyond the listed properties (extension modules)", "",
                   "These modules follow the same architecture (`python3 tools/check.py X01 --tier quick` …) but belong to no listed "
                   "property, so they are not registered in MANIFEST.json; they are run by `tools/run_extensions.sh`. Defects they found were "
                   "repaired with `fix:` commits like any other (known_findings.json, property ids X..), except the `format_to` scanner "
                   "(X12): the public `format_to` path never worked (dangling `fmt_buffer` pointer, wrong brace escapes, surplus arguments "
                   "appended); the repair is a ~120-line rewrite (`build/fixes/X12-format-to-single-pass-scanner.patch` is kept as a "
                   "proposal) and was not applied, so `check.py X12` reports it.", "",
                   "\n\n".join(xparts), "",
                   open('/verif/pending/TIMINGS.md').read().strip() if glob.glob('/verif/pending/TIMINGS.md') else "", "", END])
if BEGIN in s:
    s = re.sub(re.escape(BEGIN) + r".*?" + re.escape(END), lambda m: block, s, flags=re.S)
else:
    s = s.replace("---------------------------------------------------------------------------------------------\n\n## Appendix A", block + "\n\n---------------------------------------------------------------------------------------------\n\n## Appendix A", 1)
open(D, 'w').write(s)
print("assembled: %d paragraphs, %d fixed, %d open" % (len(parts), len(fixed), len(openf)))
