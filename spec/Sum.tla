------------------------------ MODULE Sum ------------------------------
(* State machine of two sum-type objects a, b (optional / variant / expected / optional<T&>) of one    *)
(* instantiation (Kind, Alts).  TLC                                                                  *)
(*   - checks the invariants / action properties below (MC role), and                                *)
(*   - exports every transition (GEN role: ACTION_CONSTRAINT Emit prints last' as JSON; the VIEW       *)
(*     hides `last`), which tools/pipes/sum.py turns into scripts replayed on the real templates.      *)
(* SrcTypes: types of the values offered to converting construction / assignment / comparison;        *)
(* MixTypes: U of the foreign optional<U> offered to the converting copy/move and mixed comparisons.  *)
EXTENDS SumOps, TLC, Json

CONSTANTS Kind, A1, A2, A3, A4, SrcTypes, MixTypes

\* the alternatives (a TLC configuration file cannot carry a sequence): "" = absent
Alts == SelectSeq(<<A1, A2, A3, A4>>, LAMBDA t : t # "")

VARIABLES obj, last
\* obj = [a, b, r]
vars == <<obj, last>>
View == obj

Objs == {"a", "b"}
N == Len(Alts)
X0 == [i |-> 0, v |-> 0, t |-> "int", src |-> "a", d |-> 0, si |-> 0, m |-> 0]
C(op, x) == [op |-> op, x |-> x]
Ms(t) == IF t = "trk" THEN {0, 1} ELSE {0}      \* lvalue / rvalue argument matters for the non-trivial type only

TwoObjCalls(o) ==
    {C(op, [X0 EXCEPT !.src = Other(o)]) : op \in {"ctor_copy", "ctor_move", "assign_move"}}
    \cup {C(op, [X0 EXCEPT !.src = s]) : op \in {"assign_copy", "swap", "fswap"}, s \in Objs}

ValT == IF Kind = "expected" THEN Alts[1] ELSE Alts[2]       \* value type of optional / expected

CallsOptional(o) ==
    {C(op, X0) : op \in ClearOps \cup SelfOps \cup {"and_then", "or_else", "transform", "deref", "arrow", "value", "deref_mv",
                                       "cmp_null", "cmp_null_r"}}
    \cup UNION {{C(op, [X0 EXCEPT !.t = t, !.v = v, !.m = m]) : op \in ValueOps, v \in Dom(t), m \in Ms(t)} : t \in SrcTypes}
    \cup {C(op, [X0 EXCEPT !.i = 1, !.v = v]) : op \in {"ctor_inplace", "emplace"}, v \in Dom(ValT)}
    \cup TwoObjCalls(o)
    \cup UNION {{C(op, [X0 EXCEPT !.t = t, !.si = si, !.v = v]) :
              op \in ConvOps \cup {"cmp_mixed", "cmp_mixed_r"}, si \in 0..1, v \in Dom(t)} : t \in MixTypes}
    \cup {C(op, [X0 EXCEPT !.d = d]) : op \in {"value_or", "value_or_mv"}, d \in Dom(ValT)}
    \cup UNION {{C(op, [X0 EXCEPT !.t = t, !.v = v]) : op \in {"cmp_value", "cmp_value_r"}, v \in Dom(t)} : t \in SrcTypes}

CallsOptRef(o) ==
    {C(op, X0) : op \in ClearOps \cup {"and_then", "or_else", "transform", "deref", "arrow", "value",
                                       "cmp_null", "cmp_null_r"}}
    \cup {C(op, [X0 EXCEPT !.v = v]) : op \in ValueOps, v \in 1..2}
    \cup {C("emplace", [X0 EXCEPT !.i = 1, !.v = v]) : v \in 1..2}
    \cup TwoObjCalls(o)
    \cup {C("write_through", [X0 EXCEPT !.v = v]) : v \in 0..2}
    \cup {C("value_or", [X0 EXCEPT !.d = d]) : d \in 0..2}
    \cup {C(op, [X0 EXCEPT !.v = v]) : op \in {"cmp_value", "cmp_value_r"}, v \in 0..2}
    \cup {C("conv_ref", [X0 EXCEPT !.si = si, !.v = v]) : si \in 0..1, v \in 0..2}

CallsVariant(o) ==
    {C(op, X0) : op \in {"ctor_default", "visit_mv"} \cup SelfOps}
    \cup UNION {{C(op, [X0 EXCEPT !.t = t, !.v = v, !.m = m]) : op \in ValueOps, v \in Dom(t), m \in Ms(t)} : t \in SrcTypes}
    \cup UNION {{C(op, [X0 EXCEPT !.i = i, !.v = v]) : op \in PlaceOps, v \in Dom(Ty(Alts, i))} : i \in 0..(N - 1)}
    \* MixTypes of a variant instantiation: the foreign variant types ("h3", "h4") it is visited together with
    \cup UNION {UNION {{C(op, [X0 EXCEPT !.t = h, !.i = i, !.v = v, !.si = si]) : op \in HetOps, v \in Dom(Ty(HAlts(h), i)), si \in 0..1} :
                        i \in 0..(Len(HAlts(h)) - 1)} : h \in MixTypes}
    \cup TwoObjCalls(o)

CallsExpected(o) ==
    {C(op, X0) : op \in SelfOps \cup {"ctor_default", "and_then", "or_else", "transform", "transform_error", "deref", "arrow",
                         "value", "error", "deref_mv", "error_mv"}}
    \cup UNION {{C(op, [X0 EXCEPT !.t = t, !.v = v, !.m = m]) : op \in ValueOps \cup UnexOps, v \in Dom(t), m \in Ms(t)} : t \in SrcTypes}
    \cup UNION {{C("ctor_inplace", [X0 EXCEPT !.i = i, !.v = v]) : v \in Dom(Ty(Alts, i))} : i \in 0..1}
    \cup {C("emplace", [X0 EXCEPT !.v = v]) : v \in Dom(Alts[1])}
    \cup TwoObjCalls(o)
    \cup {C(op, [X0 EXCEPT !.d = d]) : op \in {"value_or", "value_or_mv"}, d \in Dom(Alts[1])}
    \cup {C("error_or", [X0 EXCEPT !.d = d]) : d \in Dom(Alts[2])}
    \cup {C("unex", [X0 EXCEPT !.v = v, !.d = d]) : v \in Dom(Alts[2]), d \in Dom(Alts[2])}
    \cup UNION {{C(op, [X0 EXCEPT !.t = t, !.v = v]) : op \in {"cmp_value", "cmp_unexpected"}, v \in Dom(t)} : t \in SrcTypes}

Calls(o) == CASE Kind = "optional" -> CallsOptional(o)
              [] Kind = "optref" -> CallsOptRef(o)
              [] Kind = "variant" -> CallsVariant(o)
              [] Kind = "expected" -> CallsExpected(o)

S0 == [a |-> Empty, b |-> Empty, r |-> <<1, 2>>]

Init ==
    /\ obj = S0
    /\ last = [op |-> "init", o |-> "a", x |-> X0, pre |-> S0, post |-> S0, ret |-> <<>>]

Step(o, c) ==
    /\ Pre(Kind, Alts, c.op, o, c.x, obj)
    /\ LET ef == Eff(Kind, Alts, c.op, o, c.x, obj) IN
          /\ obj' = ef.st
          /\ last' = [op |-> c.op, o |-> o, x |-> c.x, pre |-> obj, post |-> ef.st, ret |-> ef.ret]

Next == \E o \in Objs : \E c \in Calls(o) : Step(o, c)

Spec == Init /\ [][Next]_vars

Emit == PrintT(<<"GEN", ToJson(last')>>)

\* ---- what TLC proves about the model (MC role) ------------------------------------------------
ValsOf(t) == Dom(t) \cup (IF t = "trk" THEN {MOVED} ELSE {})
ObjSpace == {[idx |-> i, val |-> v] : i \in 0..(N - 1), v \in -1..2}
Legal(ob) == ob.idx \in 0..(N - 1) /\ ob.val \in ValsOf(Ty(Alts, ob.idx))

TypeOK == Legal(obj.a) /\ Legal(obj.b) /\ Len(obj.r) = 2 /\ obj.r[1] \in 0..2 /\ obj.r[2] \in 0..2

\* a disengaged optional / a monostate carries no value
Canonical == \A o \in Objs : Ty(Alts, obj[o].idx) \in {"none", "mono"} => obj[o].val = 0

\* relational tables: a strict total order that extends "disengaged < engaged" / "lower index < higher index",
\* consistent with ==  (checked on every pair and triple of legal objects, not only reachable ones)
LegalObjs == {ob \in ObjSpace : Legal(ob)}
K(ob) == Key(Kind, obj, ob)
OrderLaws ==
    Kind # "expected" =>
        /\ \A p, q \in LegalObjs :
              /\ (Less(K(p), K(q)) \/ Less(K(q), K(p)) \/ K(p) = K(q))
              /\ ~(Less(K(p), K(q)) /\ Less(K(q), K(p)))
              /\ (p.idx < q.idx => Less(K(p), K(q)))
              /\ LET f == Flags6(K(p), K(q)) g == Flags6(K(q), K(p)) IN
                    /\ f[1] + f[2] = 1 /\ f[3] + f[6] = 1 /\ f[4] + f[5] = 1     \* != is not ==, >= is not <, > is not <=
                    /\ f[3] = g[5] /\ f[4] = g[6] /\ f[1] = g[1]                   \* a<b iff b>a, a<=b iff b>=a
                    /\ f[4] = B(f[3] = 1 \/ f[1] = 1)
        /\ \A p, q, w \in LegalObjs : (Less(K(p), K(q)) /\ Less(K(q), K(w))) => Less(K(p), K(w))

\* an operation on o never changes the other object unless it is named as swap partner or move source
CopyIndependence ==
    [][\A o \in Objs :
          (last'.o # o /\ ~(last'.op \in SwapOps \cup MoveOps /\ last'.x.src = o)) => obj'[o] = obj[o]]_vars

\* copy construction / assignment make the target equal to the source and leave the source alone
CopyMakesEqual ==
    [][last'.op \in CopyOps => obj'[last'.o] = obj[last'.x.src] /\ obj'[last'.x.src] = obj[last'.x.src]]_vars

\* a move never changes the active index of its source; swap is an exchange; pure observers change nothing
MoveKeepsIndex ==
    [][/\ (last'.op \in MoveOps => obj'[last'.x.src].idx = obj[last'.x.src].idx)
       /\ (last'.op \in SelfMvOps => obj'[last'.o].idx = obj[last'.o].idx)]_vars
SwapExchanges ==
    [][last'.op \in SwapOps => obj'[last'.o] = obj[last'.x.src] /\ obj'[last'.x.src] = obj[last'.o]]_vars
PureIsPure == [][last'.op \in PureOps => obj' = obj]_vars

\* the converting constructor selects exactly one alternative, and an exact match always wins
SelectLaws ==
    Kind = "variant" =>
        \A t \in SrcTypes : Selectable(t, Alts) =>
            /\ Select(t, Alts) \in 1..N
            /\ (\E j \in 1..N : Alts[j] = t) => Alts[Select(t, Alts)] = t
=========================================================================
