// Compile/link probes for members of the set family whose *body* may fail to instantiate or link
// (invisible to requires-expressions).  Built by tools/pipes/set.py with -DPROBE=<n>; a probe that
// builds switches the corresponding observer/operation on in set_driver.cpp, one that does not is
// reported as "not drivable".
#include <etl/flat_set.hpp>
#include <etl/functional.hpp>
#include <etl/inplace_vector.hpp>
#include <etl/set.hpp>
#include <etl/vector.hpp>

struct HK {
    int k;
};
inline bool operator<(int a, HK b) { return a < b.k; }
inline bool operator<(HK a, int b) { return a.k < b; }

int main()
{
#if PROBE == 1 // static_set::equal_range(key_type const&), const and non-const
    etl::static_set<int, 3> s;
    auto const& cs = s;
    auto p         = s.equal_range(1);
    auto q         = cs.equal_range(1);
    return (int)(p.second - p.first) + (int)(q.second - q.first);
#elif PROBE == 2 // static_set::equal_range(K const&) with a transparent comparator
    etl::static_set<int, 3, etl::less<>> s;
    auto const& cs = s;
    auto p         = s.equal_range(HK{1});
    auto q         = cs.equal_range(HK{1});
    return (int)(p.second - p.first) + (int)(q.second - q.first);
#elif PROBE == 3 // flat_set::insert(sorted_unique, first, last): declared, must also be defined
    etl::flat_set<int, etl::static_vector<int, 3>> s;
    int xs[] = {1, 2};
    s.insert(etl::sorted_unique, xs, xs + 2);
    return (int)s.size();
#elif PROBE == 4 // flat_set over inplace_vector as backing container
    etl::flat_set<int, etl::inplace_vector<int, 3>> s;
    s.insert(1);
    s.erase(1);
    return (int)s.size() + (int)(s.rbegin() == s.rend());
#endif
}
