----------------------------- MODULE StringOps -----------------------------
(* Constant-free meaning of every operation of a fixed-capacity string (basic_inplace_string),      *)
(* written as the std::basic_string clause ([string.cons], [string.modifiers], [string.ops])         *)
(* over sequences of character codes.  Every search / compare is the operator of StringViewOps.      *)
(*                                                                                                   *)
(* A state st is a record [a |-> Seq(Char), b |-> Seq(Char)]: the contents of the two objects.       *)
(* A call is (op, o, x): operation name, target object, uniform argument record                      *)
(*   x = [c, n, p, xs, src, p2, n2, d]                                                                *)
(*     p, n    position / count inside the TARGET string (index, erase count, replaced count, new size)*)
(*     xs      the caller's character buffer (pointer, iterator range or string_view argument)         *)
(*     src     the inplace_string argument ("a" or "b")                                                *)
(*     p2, n2  position / count inside the SOURCE (xs or src); n2 is also the fill count               *)
(*     c       the character argument;  d  number of trailing arguments left to their default          *)
(* Operation names are <family>_<kind>; the kind says what the source argument is:                    *)
(*   fill (n2 x c)  pn (xs, n2)  cstr (xs as null-terminated string)  range / sv (xs)                   *)
(*   str (object src)  sub (src, p2, n2)  sv_sub (xs, p2, n2)  ch (c)  move (src, moved from)           *)
(* Results that fit in the capacity are deterministic std::string semantics; a growing operation       *)
(* whose std result would NOT fit is a relation: only the invariant (size <= capacity, terminator)      *)
(* is required of the target (property C04 does not say what is kept).                                  *)
EXTENDS StringViewOps

Fill(k, v) == [i \in 1..k |-> v]
Take(s, k) == SubSeq(s, 1, k)
Ins(s, p, t) == SubSeq(s, 1, p) \o t \o SubSeq(s, p + 1, Len(s))
Cut(s, p, q) == SubSeq(s, 1, p) \o SubSeq(s, q + 1, Len(s))            \* remove [p, q)
Repl(s, p, k, t) == SubSeq(s, 1, p) \o t \o SubSeq(s, p + k + 1, Len(s))  \* replace [p, p+k) by t
NatOrNpos(v) == v = NPOS \/ v >= 0
OtherObj(o) == IF o = "a" THEN "b" ELSE "a"

\* ---- operation table: name -> <<family, kind>> ------------------------------------------------
OpTab == [
  ctor_default |-> <<"ctor", "default">>, ctor_pn |-> <<"ctor", "pn">>, ctor_cstr |-> <<"ctor", "cstr">>,
  ctor_fill |-> <<"ctor", "fill">>, ctor_range |-> <<"ctor", "range">>, ctor_sub |-> <<"ctor", "sub">>,
  ctor_sv |-> <<"ctor", "sv">>, ctor_sv_sub |-> <<"ctor", "sv_sub">>, ctor_str |-> <<"ctor", "str">>,
  ctor_move |-> <<"ctor", "move">>,
  opas_str |-> <<"opas", "str">>, opas_move |-> <<"opas", "move">>, opas_cstr |-> <<"opas", "cstr">>,
  opas_ch |-> <<"opas", "ch">>, opas_sv |-> <<"opas", "sv">>,
  assign_fill |-> <<"assign", "fill">>, assign_str |-> <<"assign", "str">>, assign_sub |-> <<"assign", "sub">>,
  assign_pn |-> <<"assign", "pn">>, assign_cstr |-> <<"assign", "cstr">>, assign_range |-> <<"assign", "range">>,
  assign_sv |-> <<"assign", "sv">>, assign_sv_sub |-> <<"assign", "sv_sub">>,
  append_fill |-> <<"append", "fill">>, append_cstr |-> <<"append", "cstr">>, append_pn |-> <<"append", "pn">>,
  append_range |-> <<"append", "range">>, append_str |-> <<"append", "str">>, append_sub |-> <<"append", "sub">>,
  append_sv |-> <<"append", "sv">>, append_sv_sub |-> <<"append", "sv_sub">>,
  pluseq_str |-> <<"append", "str">>, pluseq_ch |-> <<"append", "ch">>, pluseq_cstr |-> <<"append", "cstr">>,
  pluseq_sv |-> <<"append", "sv">>, push_back |-> <<"push_back", "ch">>,
  insert_fill |-> <<"insert", "fill">>, insert_cstr |-> <<"insert", "cstr">>, insert_pn |-> <<"insert", "pn">>,
  insert_str |-> <<"insert", "str">>, insert_sub |-> <<"insert", "sub">>, insert_sv |-> <<"insert", "sv">>,
  insert_sv_sub |-> <<"insert", "sv_sub">>,
  replace_str |-> <<"replace", "str">>, replace_sub |-> <<"replace", "sub">>, replace_pn |-> <<"replace", "pn">>,
  replace_cstr |-> <<"replace", "cstr">>,
  replace_it_str |-> <<"replace_it", "str">>, replace_it_pn |-> <<"replace_it", "pn">>,
  replace_it_cstr |-> <<"replace_it", "cstr">>, replace_it_fill |-> <<"replace_it", "fill">>,
  plus_str |-> <<"plus", "str">>, plus_cstr |-> <<"plus", "cstr">>, plus_ch |-> <<"plus", "ch">>,
  rplus_cstr |-> <<"rplus", "cstr">>, rplus_ch |-> <<"rplus", "ch">>,
  pop_back |-> <<"pop_back", "-">>, erase_idx |-> <<"erase_idx", "-">>, erase_it |-> <<"erase_it", "-">>,
  erase_range |-> <<"erase_range", "-">>, resize_ch |-> <<"resize", "ch">>, resize |-> <<"resize", "-">>,
  clear |-> <<"clear", "-">>, swap |-> <<"swap", "str">>, fswap |-> <<"swap", "str">>,
  substr |-> <<"substr", "-">>, copy |-> <<"copy", "-">>, erase_val |-> <<"erase_val", "ch">>,
  erase_if |-> <<"erase_if", "ch">> ]

AllOps == DOMAIN OpTab
Fam(op) == OpTab[op][1]
Kind(op) == OpTab[op][2]

\* families whose result is a new value of the target / a returned string
SetFams == {"ctor", "opas", "assign"}                 \* target := argument  (documented precondition: it fits)
GrowFams == {"append", "insert", "replace", "replace_it", "resize", "plus", "rplus"}  \* may exceed: relation
ValueFams == {"plus", "rplus", "substr"}               \* return a string by value, target unchanged
UsesSrc(op) == Kind(op) \in {"str", "sub", "move"}
MoveOps == {"ctor_move", "opas_move"}

\* the source count / position after applying default arguments (count defaults to npos)
N2(x) == IF x.d >= 1 THEN NPOS ELSE x.n2

\* ---- the character sequence the source argument denotes ----------------------------------------
Arg(kind, x, st) ==
    CASE kind = "fill" -> Fill(x.n2, x.c)
      [] kind = "pn" -> SubSeq(x.xs, 1, x.n2)
      [] kind = "cstr" -> CStr(x.xs)
      [] kind \in {"range", "sv"} -> x.xs
      [] kind \in {"str", "move"} -> st[x.src]
      [] kind = "sub" -> Substr(st[x.src], x.p2, N2(x))
      [] kind = "sv_sub" -> Substr(x.xs, x.p2, N2(x))
      [] kind = "ch" -> <<x.c>>
      [] OTHER -> <<>>

ArgPre(kind, x, st) ==
    CASE kind = "fill" -> x.n2 >= 0
      [] kind = "pn" -> x.n2 \in 0..Len(x.xs)
      [] kind = "sub" -> x.src \in {"a", "b"} /\ x.p2 \in 0..Len(st[x.src]) /\ NatOrNpos(x.n2) /\ x.d \in {0, 1}
      [] kind = "sv_sub" -> x.p2 \in 0..Len(x.xs) /\ NatOrNpos(x.n2) /\ x.d \in {0, 1}
      [] kind \in {"str", "move"} -> x.src \in {"a", "b"}
      [] OTHER -> TRUE

\* ---- std result: new contents of the target (els), returned string (out), return value (ret) ----
\* ret: 0 for void / *this; iterator as offset; counts; out = <<>> when nothing is returned by value
Res(op, o, x, st) ==
    LET e == st[o]
        f == Fam(op)
        A == Arg(Kind(op), x, st)
        same == [els |-> e, out |-> <<>>, ret |-> 0]
    IN
    CASE f \in SetFams -> [same EXCEPT !.els = A]
      [] f \in {"append", "push_back"} -> [same EXCEPT !.els = e \o A]
      [] f = "insert" -> [same EXCEPT !.els = Ins(e, x.p, A)]
      [] f = "replace" -> [same EXCEPT !.els = Repl(e, x.p, RLen(e, x.p, x.n), A)]
      [] f = "replace_it" -> [same EXCEPT !.els = Repl(e, x.p, x.n, A)]
      [] f = "plus" -> [same EXCEPT !.out = e \o A]
      [] f = "rplus" -> [same EXCEPT !.out = A \o e]
      [] f = "pop_back" -> [same EXCEPT !.els = Take(e, Len(e) - 1)]
      [] f = "erase_idx" ->
            IF x.d = 2 THEN [same EXCEPT !.els = <<>>]
            ELSE LET k == IF x.d = 1 THEN NPOS ELSE x.n IN [same EXCEPT !.els = Cut(e, x.p, x.p + RLen(e, x.p, k))]
      [] f = "erase_it" -> [same EXCEPT !.els = Cut(e, x.p, x.p + 1), !.ret = x.p]
      [] f = "erase_range" -> [same EXCEPT !.els = Cut(e, x.p, x.p + x.n), !.ret = x.p]
      [] f = "resize" ->
            LET c == IF op = "resize" THEN 0 ELSE x.c IN
            [same EXCEPT !.els = IF x.n <= Len(e) THEN Take(e, x.n) ELSE e \o Fill(x.n - Len(e), c)]
      [] f = "clear" -> [same EXCEPT !.els = <<>>]
      [] f = "swap" -> [same EXCEPT !.els = st[x.src]]
      [] f = "substr" ->
            LET p == IF x.d = 2 THEN 0 ELSE x.p
                k == IF x.d >= 1 THEN NPOS ELSE x.n
            IN [same EXCEPT !.out = Substr(e, p, k)]
      [] f = "copy" ->
            LET p == IF x.d = 1 THEN 0 ELSE x.p IN
            [same EXCEPT !.out = Copy(e, x.n, p).chars, !.ret = Copy(e, x.n, p).ret]
      [] f = "erase_val" -> [same EXCEPT !.els = SelectSeq(e, LAMBDA y : y # x.c),
                                        !.ret = Cardinality({i \in 1..Len(e) : e[i] = x.c})]
      [] f = "erase_if" -> [same EXCEPT !.els = SelectSeq(e, LAMBDA y : y < x.c),      \* predicate: code >= c
                                       !.ret = Cardinality({i \in 1..Len(e) : e[i] >= x.c})]

\* does the std result fit into the capacity?
Fits(op, o, x, st, cap) == LET r == Res(op, o, x, st) IN Len(r.els) <= cap /\ Len(r.out) <= cap

\* ---- precondition: the call is inside the domain the property quantifies over ------------------
Pre(op, o, x, st, cap) ==
    /\ op \in AllOps /\ o \in {"a", "b"}
    /\ LET e == st[o] L == Len(st[o]) f == Fam(op) k == Kind(op) IN
       /\ ArgPre(k, x, st)
       /\ (f = "ctor" /\ UsesSrc(op)) => x.src # o
       /\ op \in MoveOps => x.src # o
       /\ CASE f \in SetFams \cup {"push_back"} -> Fits(op, o, x, st, cap)       \* documented \pre
            [] f = "rplus" -> Len(Arg(k, x, st)) <= cap                             \* lhs is constructed first
            [] f = "insert" -> x.p \in 0..L
            [] f = "replace" -> x.p \in 0..L /\ NatOrNpos(x.n)
            [] f \in {"replace_it", "erase_range"} -> x.p \in 0..L /\ x.n \in 0..(L - x.p)
            [] f = "pop_back" -> L > 0
            [] f = "erase_idx" -> x.d \in {0, 1, 2} /\ x.p \in 0..L /\ NatOrNpos(x.n)
            [] f = "erase_it" -> x.p \in 0..(L - 1)
            [] f = "resize" -> x.n >= 0
            [] f = "swap" -> x.src \in {"a", "b"}
            [] f = "substr" -> x.d \in {0, 1, 2} /\ x.p \in 0..L /\ NatOrNpos(x.n)
            [] f = "copy" -> x.d \in {0, 1} /\ x.p \in 0..L /\ NatOrNpos(x.n)
            [] OTHER -> TRUE

\* the result does not fit and the operation is one that grows: outcome is a relation
Relational(op, o, x, st, cap) == Fam(op) \in GrowFams /\ ~Fits(op, o, x, st, cap)
\* the source of a move is left valid but unspecified
Unspecified(op, o, x, st, cap) == Relational(op, o, x, st, cap) \/ op \in MoveOps

\* deterministic post-state (used by the model; for relational calls: the clamped prefix, never relied on)
Eff(op, o, x, st, cap) ==
    LET r == Res(op, o, x, st) IN
    [st |-> IF Fam(op) = "swap" /\ x.src # o THEN [st EXCEPT ![o] = st[x.src], ![x.src] = st[o]]
            ELSE [st EXCEPT ![o] = Take(r.els, SvMin(Len(r.els), cap))],
     out |-> Take(r.out, SvMin(Len(r.out), cap)), ret |-> r.ret]

\* ---- invariant of one projected object: [s, size, z, len] ---------------------------------------
\*   s = data()[0 .. size())   z = data()[size()]   len = strlen(c_str()) (bounded scan, -1: no terminator)
ObjInv(ob, cap) ==
    /\ ob.size <= cap
    /\ Len(ob.s) = ob.size
    /\ ob.z = 0
    /\ ob.len = Len(CStr(ob.s))

Abs(p) == [a |-> p.a.s, b |-> p.b.s]

\* ---- the relation a recorded (post, ret, out) has to satisfy -------------------------------------
\* post: projected objects; out: projected returned string (same shape) or absent
Post(op, o, x, st, cap, t, ret, out) ==
    LET ef == Eff(op, o, x, st, cap) IN
    IF Relational(op, o, x, st, cap)
    THEN TRUE                                    \* only the invariants (checked separately) are required
    ELSE /\ ret = ef.ret
         /\ IF op \in MoveOps THEN t[o] = ef.st[o] ELSE t = ef.st
         /\ Fam(op) \in ValueFams => out = ef.out
         /\ Fam(op) = "copy" => out = ef.out

\* ---- observers: every observer is a function of the abstract contents only ------------------------
ObsOne(ob, e, cap) ==
    /\ ob.empty = (Len(e) = 0)
    /\ ob.length = Len(e)
    /\ "full" \in DOMAIN ob => ob.full = (Len(e) = cap)
    /\ "cap" \in DOMAIN ob => ob.cap = cap
    /\ "maxsize" \in DOMAIN ob => ob.maxsize = cap
    /\ ob.idx = e /\ ob.cidx = e /\ ob.it = e /\ ob.cstr = e /\ ob.view = e
    /\ ob.rev = [i \in 1..Len(e) |-> e[Len(e) + 1 - i]]
    /\ ob.front = (IF Len(e) = 0 THEN -1 ELSE e[1])
    /\ ob.back = (IF Len(e) = 0 THEN -1 ELSE e[Len(e)])

\* =================================================================================================
\* Queries: search / compare / predicates of the string, judged with the StringViewOps operators
\* event fields: op, ov, d, h (target contents), n (argument characters), pos, cnt, pos2, cnt2
\*   ov: "str" inplace_string, "str2" inplace_string of another capacity, "sv" string_view, "ch" character
\*       n[1], "p" null-terminated pointer (denotes CStr(n)), "pn" pointer + count; compare additionally
\*       "3str" "5str" "3p" "4pn" "3sv" "5sv"; relops additionally "rp" (pointer on the left-hand side)
\* =================================================================================================
QNeedle(ov, n, cnt) ==
    CASE ov = "ch" -> <<n[1]>>
      [] ov = "pn" -> SubSeq(n, 1, cnt)
      [] ov = "p" -> CStr(n)
      [] OTHER -> n

QArgsOK(ev) ==
    LET L == Len(ev.h) M == Len(ev.n) IN
    CASE ev.op \in SearchOps ->
            /\ ev.ov \in {"str", "sv", "ch", "p", "pn"} /\ NatOrNpos(ev.pos) /\ ev.d \in {0, 1}
            /\ (ev.ov = "ch" => M = 1) /\ (ev.ov = "pn" => ev.cnt \in 0..M /\ ev.d = 0)
      [] ev.op = "compare" ->
            CASE ev.ov \in {"str", "str2", "sv", "p"} -> TRUE
              [] ev.ov \in {"3str", "3sv", "3p"} -> ev.pos \in 0..L /\ NatOrNpos(ev.cnt)
              [] ev.ov \in {"5str", "5sv"} -> ev.pos \in 0..L /\ NatOrNpos(ev.cnt) /\ ev.pos2 \in 0..M /\ NatOrNpos(ev.cnt2) /\ ev.d \in {0, 1}
              [] ev.ov = "4pn" -> ev.pos \in 0..L /\ NatOrNpos(ev.cnt) /\ ev.cnt2 \in 0..M
              [] OTHER -> FALSE
      [] ev.op \in {"starts_with", "ends_with", "contains"} -> ev.ov \in {"sv", "ch", "p"} /\ (ev.ov = "ch" => M = 1)
      [] ev.op = "relops" -> ev.ov \in {"str", "str2", "p", "rp"}
      [] OTHER -> FALSE

QueryOps == SearchOps \cup {"compare", "starts_with", "ends_with", "contains", "relops"}

QExpected(ev) ==
    LET h == ev.h n == ev.n IN
    CASE ev.op \in SearchOps ->
            [ret |-> Search(ev.op, h, QNeedle(ev.ov, n, ev.cnt), IF ev.d = 1 THEN StdDefaultPos(ev.op) ELSE ev.pos)]
      [] ev.op = "compare" ->
            [ret |-> CASE ev.ov \in {"str", "str2", "sv"} -> Compare(h, n)
                       [] ev.ov = "p" -> Compare(h, CStr(n))
                       [] ev.ov \in {"3str", "3sv"} -> Compare3(h, ev.pos, ev.cnt, n)
                       [] ev.ov = "3p" -> Compare3(h, ev.pos, ev.cnt, CStr(n))
                       [] ev.ov \in {"5str", "5sv"} ->
                             Compare5(h, ev.pos, ev.cnt, n, ev.pos2, IF ev.d = 1 THEN NPOS ELSE ev.cnt2)
                       [] ev.ov = "4pn" -> Compare3(h, ev.pos, ev.cnt, SubSeq(n, 1, ev.cnt2))]
      [] ev.op = "starts_with" -> [ret |-> B2I(StartsWith(h, QNeedle(ev.ov, n, 0)))]
      [] ev.op = "ends_with" -> [ret |-> B2I(EndsWith(h, QNeedle(ev.ov, n, 0)))]
      [] ev.op = "contains" -> [ret |-> B2I(Contains(h, QNeedle(ev.ov, n, 0)))]
      [] ev.op = "relops" ->
            [rel |-> CASE ev.ov \in {"str", "str2"} -> RelOps(h, n)
                       [] ev.ov = "p" -> RelOps(h, CStr(n))
                       [] ev.ov = "rp" -> RelOps(CStr(n), h)]

QConforms(ev) ==
    LET e == QExpected(ev) IN
    IF ev.op = "relops" THEN ev.rel = e.rel ELSE ev.ret = e.ret
=============================================================================
