"""C07 - optional, variant and expected track the same state and value as the std types."""
from pipes import sum as sumpipe


def run(tier, rep):
    tv, st = sumpipe.pipeline(tier, rep)
    # life-* deviations are the business of C03 (same traces, different monitor); they are counted, not judged here
    life = [d for d in rep.devs if d["kind"].startswith("life")]
    if life:
        rep.notes.append({"life_deviations_left_to_C03": len(life),
                          "first": {"kind": life[0]["kind"], "op": life[0].get("ev", {}).get("op"), "inst": life[0].get("ev", {}).get("inst")}})
    rep.devs = [d for d in rep.devs if not d["kind"].startswith("life")]
    rep.assumptions += [
        "values are small integers {0,1,2} (bool {0,1}); int, bool, monostate and one non-trivial type (Tracked) stand for all alternatives",
        "the fixed callables passed to and_then/or_else/transform stand for all callables",
        "operations the etl types do not provide are not driven; they are listed under not_drivable",
        "optional<T&> has no libstdc++ counterpart: the spec (P2988) is calibrated against a reference_wrapper based adapter",
        "the TLA+ reading of std::optional/variant/expected is calibrated against libstdc++ (-std=c++23) on the same scripts",
    ]

