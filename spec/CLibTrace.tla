---------------------------- MODULE CLibTrace ----------------------------
(* Trace validation for the C-library module: every event recorded from the real functions is       *)
(* judged by the operators of CLibOps.  Event shapes (harness/clib_driver.cpp):                      *)
(*   memory/string call  [op, w, cv, mem, p, q, n, c, post, ret]                                     *)
(*   <cctype>/<cwctype>  [op, w, c, ret]                                                             *)
(*   div / labs          [op, f, x, y, quot, rem]                                                    *)
(* Deviations are collected (DEV lines), never fatal.                                                *)
EXTENDS CLibOps, Json, IOUtils, TLC

Tr == ndJsonDeserialize(IOEnv.TRACE)

VARIABLES l, nbad

WideHiTested == 1114111

\* "crash": the call did not return (signal); always a deviation
Judge(ev) ==
    IF "crash" \in DOMAIN ev THEN "crash"
    ELSE IF ev.op \in CTypeOps THEN
        IF ev.c \notin CTypeDomain(ev.w, WideHiTested) THEN "harness-pre"
        ELSE IF ev.ret = CType(ev.op, ev.c) THEN "ok" ELSE "ctype"
    ELSE IF ev.op = "div" THEN
        IF ev.y = 0 THEN "harness-pre"
        ELSE IF ev.quot = TruncDiv(ev.x, ev.y) /\ ev.rem = TruncRem(ev.x, ev.y) THEN "ok" ELSE "div"
    ELSE IF ev.op = "labs" THEN
        IF ev.quot = AbsI(ev.x) THEN "ok" ELSE "div"
    ELSE IF ev.op \notin MemOpsAll THEN "harness-op"
    ELSE IF ~Pre(ev.op, ev.w, ev.mem, ev.p, ev.q, ev.n, ev.c) THEN "harness-pre"
    ELSE LET e == Eff(ev.op, ev.w, ev.mem, ev.p, ev.q, ev.n, ev.c) IN
         IF e.ret # ev.ret /\ e.post # ev.post THEN "ret+mem"
         ELSE IF e.ret # ev.ret THEN "ret"
         ELSE IF e.post # ev.post THEN "mem"
         ELSE "ok"

Expected(ev) ==
    IF "crash" \in DOMAIN ev THEN "-"
    ELSE IF ev.op \in CTypeOps THEN ToJson([ret |-> CType(ev.op, ev.c)])
    ELSE IF ev.op = "div" /\ ev.y # 0 THEN ToJson([quot |-> TruncDiv(ev.x, ev.y), rem |-> TruncRem(ev.x, ev.y)])
    ELSE IF ev.op = "labs" THEN ToJson([quot |-> AbsI(ev.x)])
    ELSE IF ev.op \in MemOpsAll /\ Pre(ev.op, ev.w, ev.mem, ev.p, ev.q, ev.n, ev.c)
    THEN ToJson(Eff(ev.op, ev.w, ev.mem, ev.p, ev.q, ev.n, ev.c)) ELSE "-"

Init == l = 1 /\ nbad = 0

Next ==
    /\ l <= Len(Tr)
    /\ l' = l + 1
    /\ LET v == Judge(Tr[l]) IN
       IF v = "ok" THEN nbad' = nbad
       ELSE /\ nbad' = nbad + 1
            /\ PrintT(<<"DEV", l, v, Expected(Tr[l])>>)

Spec == Init /\ [][Next]_<<l, nbad>>
Consumed == TLCGet("stats").diameter - 1 = Len(Tr)
==========================================================================
