// Compile probes for the scope-guard module (X02): instantiations whose members may fail to compile.
#include <etl/scope.hpp>
#include <etl/utility.hpp>

struct Fn {
    int* n;
    void operator()() const { ++*n; }
};

#if PROBE == 1
// LFTS v3 [scopeguard.exit]: EF may be an lvalue reference to a function object type; the move constructor
// initialises exit_function with std::forward<EF>(rhs.exit_function)
int probe()
{
    int n = 0;
    Fn f{&n};
    {
        etl::scope_exit<Fn&> a{f};
        etl::scope_exit<Fn&> b{etl::move(a)};
    }
    return n;
}
#endif
int main() { return probe() == 1 ? 0 : 1; }
