// Compile probes for the etl::format entry points (extension X12).  g++ -fsyntax-only -DPROBE=<n>:
// the pipeline builds fmt_driver.cpp with -DFMT_HAVE_<X> for every probe that compiles and lists the others as
// not drivable.  (A function whose BODY fails to instantiate cannot be detected with a requires-expression.)
#include <etl/format.hpp>
#include <etl/iterator.hpp>
#include <etl/string.hpp>
#include <etl/string_view.hpp>

void probe()
{
    etl::inplace_string<16> s;
#if PROBE == 1      // FMT_HAVE_DIRECT: format_to into the user's own output iterator
    (void)etl::format_to(etl::back_inserter(s), etl::string_view {"a{}"}, 42);
#elif PROBE == 2    // FMT_HAVE_VFORMAT: the type-erased route
    (void)etl::vformat_to(etl::back_inserter(s), etl::string_view {"a{}"}, etl::make_format_args(42));
#elif PROBE == 3    // FMT_HAVE_ULONG: formatter<unsigned long>, formatter<unsigned long long>
    auto it = etl::back_inserter(s);
    etl::detail::fmt_buffer<char> fb {it};
    (void)etl::format_to(etl::back_inserter(fb), etl::string_view {"{}"}, 10UL);
    (void)etl::format_to(etl::back_inserter(fb), etl::string_view {"{}"}, 10ULL);
#endif
}
