// Compile/link probes for property C19: members of the mdspan family that are declared but whose definition is
// missing or does not instantiate cannot be driven.  tools/pipes/md.py builds this file once per probe
// (-DVP_PROBE=n) against the tree under test; a probe that fails to build is reported as "not drivable",
// a probe that builds switches the corresponding calls on in harness/md_driver.cpp (-DVP_HAVE_...).
#include <etl/array.hpp>
#include <etl/linalg.hpp>
#include <etl/mdarray.hpp>
#include <etl/mdspan.hpp>
#include <etl/utility.hpp>

using E2 = etl::dextents<int, 2>;

int main()
{
    E2 e(2, 3);
    etl::array<int, 2> st{3, 1};
    [[maybe_unused]] etl::layout_stride::mapping<E2> ms(e, st);
    [[maybe_unused]] etl::layout_right::mapping<E2> mr(e);
    [[maybe_unused]] etl::layout_left::mapping<E2> ml(e);
#if VP_PROBE == 1 // layout_stride::mapping::required_span_size
    return int(ms.required_span_size());
#elif VP_PROBE == 2 // layout_stride::mapping::is_exhaustive
    return int(ms.is_exhaustive());
#elif VP_PROBE == 3 // layout_stride::mapping operator==
    return int(ms == ms);
#elif VP_PROBE == 4 // layout_stride::mapping(layout_right::mapping)
    etl::layout_stride::mapping<E2> c(mr);
    return int(c.stride(0));
#elif VP_PROBE == 5 // layout_left::mapping(layout_stride::mapping)
    etl::layout_left::mapping<E2> c(ms);
    return int(c.stride(0));
#elif VP_PROBE == 6 // layout_right::mapping(layout_stride::mapping)
    etl::layout_right::mapping<E2> c(ms);
    return int(c.stride(0));
#elif VP_PROBE == 7 // submdspan_extents with an index-pair slice
    auto s = etl::submdspan_extents(e, etl::pair<int, int>{0, 1}, etl::full_extent);
    return int(s.extent(0));
#elif VP_PROBE == 8 // submdspan_extents with a strided_slice
    auto s = etl::submdspan_extents(e, etl::strided_slice{0, 2, 1}, etl::full_extent);
    return int(s.extent(0));
#elif VP_PROBE == 9 // layout_transpose::mapping::is_always_contiguous / is_contiguous
    etl::linalg::layout_transpose<etl::layout_right>::mapping<E2> t{etl::layout_right::mapping<E2>(e)};
    return int(t.is_always_contiguous()) + int(t.is_contiguous());
#elif VP_PROBE == 10 // submdspan
    int buf[6]{};
    etl::mdspan<int, E2> m(buf, e);
    auto s = etl::submdspan(m, 0, etl::full_extent);
    return int(s.extent(0));
#elif VP_PROBE == 11 // mdspan(mdarray) deduction guide
    etl::mdarray<int, E2, etl::layout_right, etl::array<int, 6>> a(e);
    auto m = etl::mdspan(a);
    return int(m.extent(0));
#else
    return 0;
#endif
}
