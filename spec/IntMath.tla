------------------------------ MODULE IntMath ------------------------------
(* Input-domain enumerator and law checker for property C14 on the 8-bit types.                        *)
(*   mode "un"   : a              every 8-bit pattern                     (unary functions)            *)
(*   mode "pair" : a, b           every pair of 8-bit patterns            (binary functions)           *)
(*   mode "rot"  : a, b           every pattern x every count in -RotMax..RotMax                        *)
(* TLC (MC role) proves on each of these inputs that the definitions of IntMathOps/BitsIM/WideIM obey   *)
(* the algebraic laws of the functions and that independent definitions coincide: operational =        *)
(* declarative bit counts, rotation by index arithmetic = the standard's shift formula, Euclid = Stein  *)
(* = "greatest of the common divisors", limb arithmetic (base 2^15 and base 4) = TLC arithmetic.        *)
(* GEN role: every input is exported as one line <<"GEN", json>>; harness/intmath_driver.cpp replays    *)
(* each on uint8_t and int8_t (a pattern p stands for the unsigned value p and the signed value         *)
(* p - 256*[p >= 128]).                                                                                 *)
EXTENDS IntMathOps, TLC, Json

CONSTANTS MaxPat, RotMax, ZStride

W4 == INSTANCE WideIM WITH WB <- 4, LB <- 2

VARIABLES mode, a, b
vars == <<mode, a, b>>
Unset == -1000

Init == /\ mode \in {"pair", "rot"}
        /\ a \in 0..MaxPat
        /\ b = Unset

Next == /\ b = Unset
        /\ b' \in (IF mode = "pair" THEN 0..MaxPat ELSE (0 - RotMax)..RotMax)
        /\ UNCHANGED <<mode, a>>

Spec == Init /\ [][Next]_vars

\* ---- laws of the unary functions (every pattern) ---------------------------------------------------
IsPow2(n) == \E k \in 0..16 : n = 2^k

UnaryLaws(p) ==
    LET w == 8
        x == BitsOfNat(p, w)
        fl == NatOfBits(BitFloor(x))
        ce == NatOfBits(BitCeil(x))
    IN
    /\ NatOfBits(x) = p
    /\ Popcount(x) = PopcountR(x, 1)
    /\ Popcount(x) + Popcount(NotB(x)) = w
    /\ \A v \in {0, 1} : /\ Countl(x, v) = CountlDecl(x, v)
                         /\ Countr(x, v) = CountrDecl(x, v)
                         /\ Countl(x, v) = Countl(NotB(x), 1 - v)
                         /\ Countr(x, v) = Countr(NotB(x), 1 - v)
    /\ BitWidth(x) = BitWidthDecl(x)
    /\ (p = 0 \/ (2^(BitWidth(x) - 1) <= p /\ p < 2^BitWidth(x)))
    /\ HasSingleBit(x) = IsPow2(p)
    /\ (p = 0 => fl = 0)
    /\ (p # 0 => IsPow2(fl) /\ fl <= p /\ p < 2 * fl)                       \* bit_floor <= x < 2 bit_floor
    /\ (BitCeilDefined(x) = (p <= 128))
    /\ (BitCeilDefined(x) => IsPow2(ce) /\ ce >= p /\ (ce = 1 \/ ce \div 2 < p))
    /\ Byteswap(x) = x                                                      \* one byte
    /\ \A q \in 0..(w - 1) :
          /\ TestBit(SetBit(x, q), q) /\ ~TestBit(ResetBit(x, q), q)
          /\ FlipBit(FlipBit(x, q), q) = x
          /\ SetBit(x, q) = SetBitTo(x, q, 1) /\ ResetBit(x, q) = SetBitTo(x, q, 0)
          /\ NatOfBits(SetBit(x, q)) = (IF TestBit(x, q) THEN p ELSE p + 2^q)
          /\ NatOfBits(FlipBit(x, q)) = (IF TestBit(x, q) THEN p - 2^q ELSE p + 2^q)
    /\ \A s \in {0, 1} :
          LET v == ValOf(p, w, s) IN
          /\ PatOf(v, w) = p /\ IFits(v, w, s)
          /\ W!ZToInt(W!ZOfBits(x, s)) = v /\ W4!ZToInt(W4!ZOfBits(x, s)) = v
          /\ W!ZOfInt(v) = W!ZOfBits(x, s) /\ W4!ZOfInt(v) = W4!ZOfBits(x, s)
          /\ W4!ZToInt(W4!ZAbs(W4!ZOfInt(v))) = IAbs(v)
          \* saturation is idempotent and the identity on representable values
          /\ \A t \in {0, 1} : LET c == SatCastI(v, w, t) IN
                /\ SatCastI(c, w, t) = c /\ IFits(c, w, t) /\ (IFits(v, w, t) => c = v)
                /\ W4!ZToInt(W4!SatCastZ(W4!ZOfInt(v), w, t)) = c
                /\ W4!ZFits(W4!ZOfInt(v), w, t) = IFits(v, w, t)
          /\ W!ZToInt(W!ZMin(w, s)) = IMin(w, s) /\ W!ZToInt(W!ZMax(w, s)) = IMax(w, s)
          /\ W4!ZToInt(W4!ZMin(16, s)) = IMin(16, s) /\ W4!ZToInt(W4!ZMax(16, s)) = IMax(16, s)

\* ---- laws of rotation (pattern x count) -----------------------------------------------------------------
RotLaws(p, n) ==
    LET x == BitsOfNat(p, 8) IN
    /\ Rotl(Rotr(x, n), n) = x /\ Rotr(Rotl(x, n), n) = x
    /\ Rotl(x, n) = RotlStd(x, n) /\ Rotr(x, n) = RotrStd(x, n)
    /\ Rotl(x, n) = Rotl(x, n + 8) /\ Rotl(x, 0 - n) = Rotr(x, n)
    /\ Popcount(Rotl(x, n)) = Popcount(x)
    /\ (p = 0 /\ n \in 0..64 => W!NPow2(n) = W!NPow2Def(n) /\ W4!NPow2(n) = W4!NPow2Def(n))    \* (independent of p)
    /\ (n \in 0..7 => NatOfBits(Rotl(x, n)) = ((p * 2^n) % 256) + ((p * 2^n) \div 256))

\* ---- laws of the binary functions (every pair, both signednesses) --------------------------------------
SameZ(z4, z15, v) == W4!ZToInt(z4) = v /\ W!ZToInt(z15) = v

PairLawsS(pa, pb, s) ==
    LET w == 8
        x == ValOf(pa, w, s) y == ValOf(pb, w, s)
        m == MidpointI(x, y)
        g == GcdI(x, y)
        lc == LcmI(x, y, 16, 0)
        as == AddSatI(x, y, w, s)
    IN
    /\ (y # 0 => \* x = q*y + r, |r| < |y|, r has the sign of x
                 /\ IQuot(x, y) * y + IRem(x, y) = x /\ IAbs(IRem(x, y)) < IAbs(y)
                 /\ (IRem(x, y) = 0 \/ (IRem(x, y) < 0) = (x < 0))
                 /\ IFits(DivSatI(x, y, w, s), w, s)
                 /\ (IFits(IQuot(x, y), w, s) => DivSatI(x, y, w, s) = IQuot(x, y)))
    \* saturating addition
    /\ IFits(as, w, s) /\ as = AddSatI(y, x, w, s) /\ (IFits(x + y, w, s) => as = x + y)
    /\ IClamp(as, w, s) = as
    \* midpoint lies between its arguments, is exact for even sums and otherwise the neighbour nearer to x
    /\ (IF x <= y THEN x <= m /\ m <= y ELSE y <= m /\ m <= x)
    /\ 2 * m \in {x + y - 1, x + y, x + y + 1}
    /\ IAbs(m - x) <= IAbs(y - m)
    /\ IFits(m, w, s)
    \* gcd is a common divisor (greatest: PairLawsZ); gcd * lcm = |x y|; lcm is a common multiple
    /\ g >= 0 /\ (x # 0 => IAbs(x) % g = 0) /\ (y # 0 => IAbs(y) % g = 0) /\ ((g = 0) = (x = 0 /\ y = 0))
    /\ lc.ok /\ g * lc.v = IAbs(x) * IAbs(y)
    /\ (x # 0 /\ y # 0 => lc.v % IAbs(x) = 0 /\ lc.v % IAbs(y) = 0)
    /\ LcmI(x, y, w, s).ok = IFits(lc.v, w, s)
    \* powers: b^e = b^(e-1) * b
    /\ (y >= 0 => \A ww \in {8, 16} :
            LET pi == IPowI(x, y, ww, s) IN
            /\ (pi.ok => IFits(pi.v, ww, s))
            /\ (pi.ok /\ y >= 1 /\ IPowI(x, y - 1, ww, s).ok => pi.v = IPowI(x, y - 1, ww, s).v * x))

\* limb arithmetic (base 2^15 and base 4) = TLC arithmetic, function by function
PairLawsZ(pa, pb, s) ==
    LET w == 8
        x == ValOf(pa, w, s) y == ValOf(pb, w, s)
        x4 == W4!ZOfInt(x) y4 == W4!ZOfInt(y)
        xz == W!ZOfInt(x) yz == W!ZOfInt(y)
        lc == LcmI(x, y, 16, 0)
    IN
    /\ SameZ(W4!ZAdd(x4, y4), W!ZAdd(xz, yz), x + y)
    /\ SameZ(W4!ZSub(x4, y4), W!ZSub(xz, yz), x - y)
    /\ SameZ(W4!ZMul(x4, y4), W!ZMul(xz, yz), x * y)
    /\ W4!ZCmp(x4, y4) = (IF x < y THEN -1 ELSE IF x = y THEN 0 ELSE 1) /\ W!ZCmp(xz, yz) = W4!ZCmp(x4, y4)
    /\ (y # 0 => /\ SameZ(W4!ZQuot(x4, y4), W!ZQuot(xz, yz), IQuot(x, y))
                 /\ SameZ(W4!ZRem(x4, y4), W!ZRem(xz, yz), IRem(x, y))
                 /\ SameZ(W4!DivSatZ(x4, y4, w, s), W!DivSatZ(xz, yz, w, s), DivSatI(x, y, w, s)))
    /\ SameZ(W4!AddSatZ(x4, y4, w, s), W!AddSatZ(xz, yz, w, s), AddSatI(x, y, w, s))
    /\ SameZ(W4!SubSatZ(x4, y4, w, s), W!SubSatZ(xz, yz, w, s), SubSatI(x, y, w, s))
    /\ SameZ(W4!MidpointZ(x4, y4), W!MidpointZ(xz, yz), MidpointI(x, y))
    /\ GcdI(x, y) = GcdDecl(x, y)                                   \* Euclid = "greatest of the common divisors"
    /\ SameZ(W4!GcdZ(x4, y4), W!GcdZ(xz, yz), GcdI(x, y))
    /\ W4!NGcdEuclid(x4.m, y4.m) = W4!NGcd(x4.m, y4.m) /\ W!NGcdEuclid(xz.m, yz.m) = W!NGcd(xz.m, yz.m)
    /\ SameZ(W4!LcmZ(x4, y4), W!LcmZ(xz, yz), lc.v)
    /\ W4!ZFits(W4!LcmZ(x4, y4), w, s) = LcmI(x, y, w, s).ok
    /\ (y >= 0 => \A ww \in {8, 16} :
            LET pi == IPowI(x, y, ww, s) p4 == W4!IPowZ(x4, y4, ww, s) pz == W!IPowZ(xz, yz, ww, s) IN
            /\ pi.ok = p4.ok /\ pi.ok = pz.ok
            /\ (pi.ok => W4!ZToInt(p4.v) = pi.v /\ W!ZToInt(pz.v) = pi.v))

\* the limb laws are checked on every pair (ZStride = 1, thorough) or on every pair that touches a boundary
\* pattern plus one pair in ZStride (quick)
Edge8 == {0, 1, 2, 127, 128, 129, 254, 255}
ZPair(pa, pb) == ZStride = 1 \/ pa \in Edge8 \/ pb \in Edge8 \/ (pa + 5 * pb) % ZStride = 0

\* mixed signedness: comparing the exact values is what cmp_* must return
MixedLaws(pa, pb) ==
    LET u == ValOf(pa, 8, 0) i == ValOf(pb, 8, 1) IN
    /\ ExpI([op |-> "cmp", x |-> u, y |-> i, w |-> 8, s |-> 0, w2 |-> 8, s2 |-> 1]).v
         = <<u = i, u # i, u < i, u <= i, u > i, u >= i>>
    \* a 16-bit word made of the two bytes: byteswap exchanges them and is an involution
    /\ LET x == BitsOfNat(pa + 256 * pb, 16) IN
          /\ NatOfBits(Byteswap(x)) = pb + 256 * pa /\ Byteswap(Byteswap(x)) = x

\* the same through the limb integers; the limb view of a word round-trips
MixedLawsZ(pa, pb) ==
    LET u == ValOf(pa, 8, 0) i == ValOf(pb, 8, 1) IN
    /\ W!ZCmp(ZVal(u, 8, 0), ZVal(i, 8, 1)) = (IF u < i THEN -1 ELSE IF u = i THEN 0 ELSE 1)
    /\ ExpI([op |-> "cmp", x |-> u, y |-> i, w |-> 8, s |-> 0, w2 |-> 8, s2 |-> 1]).v
         = ExpZ([op |-> "cmp", x |-> u, y |-> i, w |-> 8, s |-> 0, w2 |-> 8, s2 |-> 1]).v
    /\ LET x == BitsOfNat(pa + 256 * pb, 16) IN
          /\ BitsOfLimbs(<<pa + 256 * pb, pb + 256 * pa>>, 32) = x \o Byteswap(x)
          /\ LimbsOfBits(x \o Byteswap(x)) = <<pa + 256 * pb, pb + 256 * pa>>
          /\ Byteswap(x \o Byteswap(x)) = x \o Byteswap(x)
          /\ W!NToInt(W!NOfBits(x)) = pa + 256 * pb /\ W4!NToInt(W4!NOfBits(x)) = pa + 256 * pb

\* a 16-bit value written into a 32/64-bit two's complement type (LimbsOfInt) denotes the same integer, and
\* the shortcuts IFitsW / IClampW agree with the limb definitions
EmbedLaws(pa, pb) ==
    LET v16 == pa + 256 * pb
        l2 == <<v16, pb + 256 * pa>>
        l4 == <<pb, pa * 256, v16, pb + 256 * pa>>
    IN
    \* reading a word from its 16-bit limbs (Horner) = reading it bit by bit
    /\ \A s \in {0, 1} : W!ZOfLimbs16(l2, 32, s) = W!ZOfBits(BitsOfLimbs(l2, 32), s)
    /\ W4!ZOfLimbs16(l2, 32, 1) = W4!ZOfBits(BitsOfLimbs(l2, 32), 1)
    /\ (pa \in Edge8 \/ pb \in Edge8 =>
            \A s \in {0, 1} : W!ZOfLimbs16(l4, 64, s) = W!ZOfBits(BitsOfLimbs(l4, 64), s))
    /\ \A s \in {0, 1} : \A ww \in {32, 64} :
          LET v == ValOf(v16, 16, s) z == W!ZOfInt(v) IN
          /\ LimbsOK(LimbsOfInt(v, ww), ww)
          /\ W!ZOfLimbs16(LimbsOfInt(v, ww), ww, 1) = z
          /\ (v >= 0 => W!ZOfLimbs16(LimbsOfInt(v, ww), ww, 0) = z)
          /\ IFitsW(v, ww, 0) = W!ZFits(z, ww, 0) /\ IFitsW(v, ww, 1) = W!ZFits(z, ww, 1)
          /\ W!ZOfInt(IClampW(v, ww, 0)) = W!SatCastZ(z, ww, 0)
          /\ W!ZOfInt(IClampW(v, ww, 1)) = W!SatCastZ(z, ww, 1)

Laws == IF b = Unset THEN (mode = "pair" => UnaryLaws(a))
        ELSE IF mode = "rot" THEN RotLaws(a, b)
        ELSE /\ PairLawsS(a, b, 0) /\ PairLawsS(a, b, 1) /\ MixedLaws(a, b)
             /\ (ZPair(a, b) => PairLawsZ(a, b, 0) /\ PairLawsZ(a, b, 1) /\ MixedLawsZ(a, b) /\ EmbedLaws(a, b))

\* ---- GEN: one JSON line per input --------------------------------------------------------------------
EmitInv == IF b = Unset THEN (mode = "pair" => PrintT(<<"GEN", ToJson([m |-> "un", a |-> a])>>))
           ELSE PrintT(<<"GEN", ToJson([m |-> mode, a |-> a, b |-> b])>>)
=============================================================================
