// Lock-ownership driver (extension module X01; NOT part of tetl).
// Replays the call scripts exported by TLC from spec/Lock.tla on the real wrappers
//   etl::lock_guard / etl::unique_lock   (default build)
//   std::lock_guard / std::unique_lock   (-DVH_STD: calibration build)
// over an *instrumented* mutex that logs every lock / try_lock / try_lock_for / try_lock_until / unlock it
// receives (the result of a try call is the one the script chose).  One self-contained ndjson event per call:
//   {op, w, x, pre, post, ret, calls, outcome, code, inst}
// The driver contains no oracle and no comparison: spec/LockTrace.tla judges.
//
// usage: lock_driver replay <nmutex> <nwrappers> <script.ndjson>
#include "common.hpp"

#include <new>
#include <string>
#include <system_error>
#include <utility>
#include <vector>

#ifndef VH_STD
    #include <etl/chrono.hpp>
    #include <etl/mutex.hpp>
    #include <etl/ratio.hpp>
    #include <etl/utility.hpp>
namespace lib = etl;
namespace chr = etl::chrono;
static char const* const IMPL = "etl";
#else
    #include <chrono>
    #include <mutex>
    #include <ratio>
namespace lib = std;
namespace chr = std::chrono;
static char const* const IMPL = "std";
#endif

namespace {
using vh::json;

// ---- the instrumented mutex -------------------------------------------------------------------------
struct CallLog {
    bool enabled = false;
    json calls   = json::array();
    void add(char const* k, int m, bool r, long d)
    {
        if (!enabled) { return; }
        calls.push_back(json{{"k", k}, {"m", m}, {"r", r}, {"d", d}});
    }
};
CallLog g_log;
bool g_try_result = false; // what the next try_* call of the mutex answers (chosen by the script)

struct IMutex {
    int id    = 0;
    int depth = 0; // #lock + #successful try - #unlock: an instrument, not a judgement (it may become 2 or -1)

    void lock()
    {
        g_log.add("lock", id, true, 0);
        ++depth;
    }
    bool try_lock()
    {
        bool r = g_try_result;
        g_log.add("try_lock", id, r, 0);
        if (r) { ++depth; }
        return r;
    }
    template <typename D>
    bool try_lock_for(D const& d)
    {
        bool r = g_try_result;
        g_log.add("try_lock_for", id, r, (long)d.count());
        if (r) { ++depth; }
        return r;
    }
    template <typename TP>
    bool try_lock_until(TP const& tp)
    {
        bool r = g_try_result;
        g_log.add("try_lock_until", id, r, (long)tp.time_since_epoch().count());
        if (r) { ++depth; }
        return r;
    }
    void unlock()
    {
        g_log.add("unlock", id, true, 0);
        --depth;
    }
};

using Millis = chr::duration<long, lib::milli>;
struct FakeClock {
    using rep                       = long;
    using period                    = lib::milli;
    using duration                  = Millis;
    using time_point                = chr::time_point<FakeClock, Millis>;
    static constexpr bool is_steady = true;
    static time_point now() noexcept { return time_point{}; }
};

using UL = lib::unique_lock<IMutex>;
using LG = lib::lock_guard<IMutex>;

constexpr int MAXM = 4;
constexpr int MAXW = 4;

struct Runner {
    int nm, nw;
    IMutex mx[MAXM];
    alignas(UL) unsigned char ustore[MAXW][sizeof(UL)];
    bool ulive[MAXW] = {};
    alignas(LG) unsigned char gstore[sizeof(LG)];
    bool glive = false;
    int gm     = 0; // the mutex the guard was given (lock_guard has no observers)
    long nev = 0, nskip = 0;
    bool broken = false;

    Runner(int m, int w) : nm(m), nw(w)
    {
        for (int i = 0; i < MAXM; ++i) { mx[i].id = i + 1; }
    }
    ~Runner() { reset(); }

    UL& ul(int i) { return *std::launder(reinterpret_cast<UL*>(ustore[i])); }
    LG& lg() { return *std::launder(reinterpret_cast<LG*>(gstore)); }

    static std::string wname(int i) { return std::string(1, (char)('a' + i)); }
    int widx(std::string const& s) const
    {
        int i = s.size() == 1 ? s[0] - 'a' : -1;
        return (i >= 0 && i < nw) ? i : -1;
    }
    int mid(IMutex const* p) const
    {
        if (p == nullptr) { return 0; }
        for (int i = 0; i < nm; ++i) {
            if (p == &mx[i]) { return i + 1; }
        }
        return -1;
    }

    void reset()
    {
        g_log.enabled = false;
        for (int i = 0; i < MAXW; ++i) {
            if (ulive[i]) {
                ul(i).~UL();
                ulive[i] = false;
            }
        }
        if (glive) {
            lg().~LG();
            glive = false;
            gm    = 0;
        }
        for (int i = 0; i < MAXM; ++i) { mx[i].depth = 0; }
    }

    json state()
    {
        json s;
        json d = json::array();
        for (int i = 0; i < nm; ++i) { d.push_back(mx[i].depth); }
        s["mx"] = d;
        json w  = json::object();
        for (int i = 0; i < nw; ++i) {
            json v;
            v["live"] = ulive[i];
            if (ulive[i]) {
                UL const& u = ul(i);
                v["m"]      = mid(u.mutex());
                v["owns"]   = u.owns_lock();
                v["b"]      = static_cast<bool>(u);
            } else {
                v["m"]    = 0;
                v["owns"] = false;
                v["b"]    = false;
            }
            w[wname(i)] = v;
        }
        s["w"] = w;
        s["g"] = json{{"live", glive}, {"m", gm}};
        return s;
    }

    // runs one call; false = the op name is unknown to this driver
    bool apply(std::string const& op, int wi, json const& x, long& ret)
    {
        int m        = x.value("m", 0);
        long d       = x.value("d", 0L);
        int si       = widx(x.value("src", std::string("a")));
        g_try_result = x.value("r", false);
        IMutex* pm   = (m >= 1 && m <= nm) ? &mx[m - 1] : nullptr;
        void* slot   = wi >= 0 ? (void*)ustore[wi] : nullptr;
        ret          = 0;
        // ---- unique_lock constructors (into an empty slot) ----
        if (op == "ul_ctor_default") { new (slot) UL(); ulive[wi] = true; return true; }
        if (op == "ul_ctor_lock") { new (slot) UL(*pm); ulive[wi] = true; return true; }
        if (op == "ul_ctor_defer") { new (slot) UL(*pm, lib::defer_lock); ulive[wi] = true; return true; }
        if (op == "ul_ctor_try") { new (slot) UL(*pm, lib::try_to_lock); ulive[wi] = true; return true; }
        if (op == "ul_ctor_adopt") { new (slot) UL(*pm, lib::adopt_lock); ulive[wi] = true; return true; }
        if (op == "ul_ctor_for") { new (slot) UL(*pm, Millis(d)); ulive[wi] = true; return true; }
        if (op == "ul_ctor_until") { new (slot) UL(*pm, FakeClock::time_point(Millis(d))); ulive[wi] = true; return true; }
        if (op == "move_ctor") { new (slot) UL(std::move(ul(si))); ulive[wi] = true; return true; }
        // ---- unique_lock members ----
        if (op == "lock") { ul(wi).lock(); return true; }
        if (op == "try_lock") { ret = ul(wi).try_lock() ? 1 : 0; return true; }
        if (op == "try_lock_for") { ret = ul(wi).try_lock_for(Millis(d)) ? 1 : 0; return true; }
        if (op == "try_lock_until") { ret = ul(wi).try_lock_until(FakeClock::time_point(Millis(d))) ? 1 : 0; return true; }
        if (op == "unlock") { ul(wi).unlock(); return true; }
        if (op == "release") { ret = mid(ul(wi).release()); return true; }
        if (op == "swap") { ul(wi).swap(ul(si)); return true; }
        if (op == "fswap") {
            using std::swap;
            swap(ul(wi), ul(si));
            return true;
        }
        if (op == "move_assign") { ul(wi) = std::move(ul(si)); return true; }
        if (op == "dtor") { ul(wi).~UL(); ulive[wi] = false; return true; }
        if (op == "owns_lock") { ret = static_cast<UL const&>(ul(wi)).owns_lock() ? 1 : 0; return true; }
        if (op == "op_bool") { ret = static_cast<bool>(static_cast<UL const&>(ul(wi))) ? 1 : 0; return true; }
        if (op == "mutex") { ret = mid(static_cast<UL const&>(ul(wi)).mutex()); return true; }
        // ---- lock_guard ----
        if (op == "lg_ctor") { new ((void*)gstore) LG(*pm); glive = true; gm = m; return true; }
        if (op == "lg_ctor_adopt") { new ((void*)gstore) LG(*pm, lib::adopt_lock); glive = true; gm = m; return true; }
        if (op == "lg_dtor") { lg().~LG(); glive = false; gm = 0; return true; }
        // ---- the harness itself holds / releases a mutex (adopt_lock, after release()) ----
        if (op == "h_lock") { pm->lock(); return true; }
        if (op == "h_unlock") { pm->unlock(); return true; }
        return false;
    }

    void step(json const& ln)
    {
        std::string op = ln["op"].get<std::string>();
        std::string w  = ln["w"].get<std::string>();
        json ev;
        ev["op"]    = op;
        ev["w"]     = w;
        ev["x"]     = ln["x"];
        ev["pre"]   = state();
        g_log.calls = json::array();
        long ret    = 0;
        bool known  = true;
        std::string outcome = "ok";
        int code            = 0;
        g_log.enabled       = true;
        try {
            known = apply(op, widx(w), ln["x"], ret);
        } catch (std::system_error const& e) {
            outcome = "throw";
            code    = e.code().value();
        } catch (...) {
            outcome = "throw";
            code    = -1;
        }
        g_log.enabled = false;
        if (!known) {
            std::fprintf(stderr, "UNSUPPORTED %s %s\n", IMPL, op.c_str());
            ++nskip;
            broken = true;
            return;
        }
        ev["post"]    = state();
        ev["ret"]     = ret;
        ev["calls"]   = g_log.calls;
        ev["outcome"] = outcome;
        ev["code"]    = code;
        ev["inst"]    = std::string(IMPL) + "_m" + std::to_string(nm) + "_w" + std::to_string(nw);
        vh::emit(ev);
        ++nev;
    }

    void replay(std::vector<json> const& script)
    {
        for (auto const& ln : script) {
            if (ln.contains("reset")) {
                reset();
                broken = false;
                vh::emit(json{{"op", "reset"}});
                continue;
            }
            if (broken) { continue; }
            step(ln); // path-prefix calls ("quiet") are logged too: every call is judged from its own pre-state
        }
    }
};
} // namespace

int main(int argc, char** argv)
{
    if (argc < 5 || std::string(argv[1]) != "replay") {
        std::fprintf(stderr, "usage: lock_driver replay <nmutex> <nwrappers> <script>\n");
        return 2;
    }
    int nm = std::atoi(argv[2]), nw = std::atoi(argv[3]);
    if (nm < 1 || nm > MAXM || nw < 1 || nw > MAXW) { return 2; }
    Runner r(nm, nw);
    r.replay(vh::read_ndjson(argv[4]));
    std::fprintf(stderr, "SUMMARY impl=%s events=%ld unsupported=%ld\n", IMPL, r.nev, r.nskip);
    return 0;
}
