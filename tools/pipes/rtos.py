"""Rtos pipeline (spec/Rtos.tla, RtosOps.tla, RtosTrace.tla, harness/rtos_driver.cpp, harness/rtos_fake_kernel.hpp).
Serves X14: etl::experimental::freertos::queue<T,Size> and stream_buffer.

  MC/GEN : TLC explores one wrapper object over the kernel per kind (queue: capacities 1..3, item sizes 1 and 12 bytes,
           values 0..2, ticks {0,5}; stream: capacities 1..4, writes of 0..3 bytes over {0,1}, reads of 0..4 bytes),
           proves the invariants / laws and exports every transition
  replay : one script per distinct edge (shortest call path to the pre-state + the edge) on the etl wrappers over the
           harness' executable kernel double; the driver adds seeded random sessions (capacities 7 and 16, 400 calls);
           the same scripts run on the etl wrappers over the repository's own no-op stubs ("stub" events)
  TV     : RtosTrace.tla judges every recorded event (result, out value, kernel call log, counters, live handles)
  calibration: the same scripts through a reference wrapper written directly on the kernel API (driver built with
           -DVH_STD) must give zero deviations: spec and kernel double agree
"""
import json
import os
from concurrent.futures import ThreadPoolExecutor

import vlib

KINDS = ("queue", "stream")
TAG = "rtos"
TRACE_SPEC = ("RtosTrace.tla", "RtosTrace.cfg")
SWEEP_ROUNDS = {"quick": "2", "thorough": "12"}       # random sessions per capacity and kind


def _state_key(t, which):
    return json.dumps(t[which], sort_keys=True)


def _call(t):
    c = {"op": t["op"], "plan": t["pre"]}
    c.update(t["a"])
    return c


def _dedup(gen):
    """history variables are part of the explored state: one edge is exported once per history"""
    seen = set()
    out = []
    for t in gen:
        if t["op"] == "init":
            continue
        k = json.dumps([t["pre"], t["op"], t["a"]], sort_keys=True)
        if k not in seen:
            seen.add(k)
            out.append(t)
    return out


def model(kind, tier):
    consts = {}
    if tier == "thorough":
        consts = {"queue": {"Caps": "{1, 2, 3, 4}", "MaxHist": "5"},
                  "stream": {"Caps": "{1, 2, 3, 4, 5}", "MaxRead": "5", "MaxHist": "6"}}[kind]
    return vlib.tlc_mc("Rtos.tla", "Rtos_%s.cfg" % kind, "%s_mc_%s_%s" % (TAG, kind, tier), workers=3, heap="2g",
                       constants=consts or None, timeout=900)


def build_drivers(calibrate):
    jobs = [dict(src="rtos_driver.cpp", out="rtos_etl"),
            dict(src="rtos_driver.cpp", out="rtos_stub", flags=["-DRTOS_STUBS"])]
    if calibrate:
        jobs.append(dict(src="rtos_driver.cpp", out="rtos_ref", flags=["-DVH_STD"], include_repo=False))
    p = vlib.build_many(jobs)
    return {"etl": p[0], "stub": p[1], "ref": p[2] if calibrate else None}


def _execute(bins, impl, sps, tier, sweep):
    d = vlib.workdir("traces")
    tasks = []
    for k in KINDS:
        tasks.append(([bins[impl], "replay", k, sps[k]],
                      os.path.join(d, "%s_%s_%s_replay_%s.ndjson" % (TAG, impl, tier, k))))
        if sweep:
            tasks.append(([bins[impl], "sweep", k, SWEEP_ROUNDS[tier]], os.path.join(d, "%s_%s_%s_sweep_%s.ndjson" % (TAG, impl, tier, k))))
    res = vlib.run_parallel(tasks, par=4)
    unsupported = sorted({l for _, err in res for l in err.splitlines() if l.startswith("UNSUPPORTED")})
    merged = os.path.join(d, "%s_%s_%s_all.ndjson" % (TAG, impl, tier))
    with open(merged, "wb") as f:
        for _, tp in tasks:
            with open(tp, "rb") as g:
                f.write(g.read())
            os.remove(tp)
    return merged, unsupported


def pipeline(tier, rep, calibrate=True):
    if os.environ.get("VERIF_CALIBRATE", "1") == "0":
        calibrate = False            # mutation self-tests only: the reference build does not depend on the tree under test
        rep.notes.append("calibration skipped (VERIF_CALIBRATE=0)")
    with ThreadPoolExecutor(max_workers=3) as ex:
        fb = ex.submit(build_drivers, calibrate)
        fm = {k: ex.submit(model, k, tier) for k in KINDS}
        mcs = {k: f.result() for k, f in fm.items()}
        bins = fb.result()
    sps = {}
    nscripts = 0
    for k in KINDS:
        name = "Rtos[%s]" % k
        rep.add_mc(name, mcs[k])
        gen = _dedup(mcs[k]["gen"])
        scripts, st = vlib.plan_edges(gen, _state_key, lambda n: json.loads(n)["ph"] == "none", _call)
        if st["unreachable"]:
            raise vlib.ModelFailure("planner: %d unreachable edges in Rtos[%s]" % (st["unreachable"], k))
        sps[k] = os.path.join(vlib.workdir("scripts"), "%s_%s_%s.ndjson" % (TAG, k, tier))
        vlib.write_scripts(scripts, sps[k])
        nscripts += len(scripts)
        rep.cov["modules"][name].update({"distinct_edges": len(gen), "scripts": len(scripts), "planner": st})
        rep.sample({"module": name, "script": scripts[len(scripts) // 2]})
    rep.cov["exhaustive"] = True

    def validate(impl, sweep):
        trace, uns = _execute(bins, impl, sps, tier, sweep)
        return vlib.tlc_tv(TRACE_SPEC[0], TRACE_SPEC[1], trace, "%s_tv_%s_%s" % (TAG, impl, tier), heap="2g"), uns

    with ThreadPoolExecutor(max_workers=3) as ex:
        fe = ex.submit(validate, "etl", True)
        fs = ex.submit(validate, "stub", False)
        fr = ex.submit(validate, "ref", True) if calibrate else None
        tv, uns = fe.result()
        stv, suns = fs.result()
        ctv, cuns = fr.result() if fr else (None, [])
    if calibrate:
        if ctv["deviations"]:
            dv = ctv["deviations"][0]
            raise vlib.ModelFailure("calibration: the reference wrapper over the kernel double deviates from the Rtos spec "
                                    "(spec / kernel double error): %s %s expected=%s"
                                    % (dv["kind"], json.dumps(dv.get("ev"))[:600], json.dumps(dv.get("expected"))[:400]))
        if cuns:
            raise vlib.ModelFailure("calibration build cannot drive: %s" % cuns)
    rep.add_tv("Rtos", tv, nscripts + 4 * int(SWEEP_ROUNDS[tier]),
               "every exported edge of both kinds on the etl wrappers over the kernel double + seeded random sessions")
    rep.add_tv("Rtos", stv, nscripts, "the same scripts on the etl wrappers over the repository's no-op stubs")
    m = rep.cov["modules"]["Rtos"]
    m["not_drivable"] = sorted(set(uns + suns))
    m["events_over_kernel_double"] = tv["events"]
    m["events_over_repo_stubs"] = stv["events"]
    if calibrate:
        m["calibration_events_ref"] = ctv["events"]
    return tv


def _path_to(ev):
    """calls that rebuild the recorded model pre-state `plan` through the wrapper (quiet)"""
    p = ev.get("plan")
    if not p or p["ph"] == "none":
        return []
    z = {"cap": p["cap"], "isz": p.get("isz", 0), "trig": p.get("trig", 0), "x": 0, "ticks": 0, "n": 0, "prio": 0,
         "data": [], "quiet": 1}
    path = [dict(z, op="ctor" if p["ph"] != "null" else "ctor_fail")]
    if ev["kind"] == "queue":
        path += [dict(z, op="send", x=v) for v in p["items"]]
    elif p["bytes"]:
        path.append(dict(z, op="write", data=p["bytes"], n=len(p["bytes"])))
    if p["ph"] == "dead":
        path.append(dict(z, op="dtor"))
    return path


def replay(rec):
    """tools/check.py --replay: run the recorded call again on the current tree (pre-state rebuilt through the wrapper:
    construction + sends / one write) and judge the fresh event.  Events of the random sessions carry no plan: the
    quick check is repeated for them (fallback of check.py is not reachable from here, so re-run the sweep)."""
    ev = rec["event"]
    d = vlib.workdir("replay")
    stub = ev.get("mode") == "stub"
    b = vlib.build("rtos_driver.cpp", "rtos_replay", flags=["-DRTOS_STUBS"] if stub else [])
    tp = os.path.join(d, "rtos_trace.ndjson")
    if "plan" in ev:
        call = {k: ev[k] for k in ("op", "cap", "isz", "trig", "x", "ticks", "n", "prio", "data", "plan")}
        sp = os.path.join(d, "rtos_script.ndjson")
        vlib.write_scripts([_path_to(ev) + [call]], sp)
        vlib.run([b, "replay", ev["kind"], sp], tp)
    else:
        vlib.run([b, "sweep", ev["kind"]], tp)
    tv = vlib.tlc_tv(TRACE_SPEC[0], TRACE_SPEC[1], tp, "rtos_replay", heap="1g")
    return [dv for dv in tv["deviations"] if dv["kind"] == rec.get("kind") and dv.get("ev", {}).get("op") == ev["op"]] \
        if "plan" not in ev else tv["deviations"]
