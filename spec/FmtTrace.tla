----------------------------- MODULE FmtTrace -----------------------------
(* Trace validation for the etl::format subset (extension X12): every recorded call                          *)
(* {op:"format", entry, f, args, cap, out, ok, [written, size, spill], [crash, assert]} is judged with FmtOps.  *)
(*   class "ok"  (well-formed, inside the subset): the sink holds exactly the first min(cap, length) characters *)
(*                of the specified output; format_to_n additionally reports the full length and never writes     *)
(*                behind the n permitted characters; the call neither dies nor ends in the assertion handler     *)
(*   class "bad" (ill-formed): the output is not judged; the call may return or report through the assertion      *)
(*                handler, but it must not die from a signal and format_to_n must not write behind n; in the      *)
(*                build with contract checks ("checks": true) it MUST end in the assertion handler                *)
(*   class "nc"  (replacement fields with arg-id / format-spec, or garbage after '{'): not covered, never judged  *)
(* Several deviation kinds per event are possible: one <<"DEV", line, kind, expected>> line each.                *)
EXTENDS FmtOps, Json, IOUtils, TLC

Tr == ndJsonDeserialize(IOEnv.TRACE)

VARIABLES l, nbad
MaxReported == 1500

Entries == {"fb", "direct", "vfmt", "n"}
IsArg(a) == /\ DOMAIN a = {"cat", "ty", "neg", "w", "n", "s"}
            /\ a.cat \in {"i", "c", "s"} /\ Len(a.w) = 4 /\ \A k \in 1..4 : a.w[k] \in 0..65535
WellFormed(ev) ==
    /\ {"op", "entry", "f", "args", "cap"} \subseteq DOMAIN ev
    /\ ev.op = "format" /\ ev.entry \in Entries /\ ev.cap \in 0..64
    /\ \A k \in 1..Len(ev.args) : IsArg(ev.args[k])
    /\ ("crash" \in DOMAIN ev \/ ({"out", "ok"} \subseteq DOMAIN ev
                                  /\ (ev.entry = "n" => {"written", "size", "spill"} \subseteq DOMAIN ev)))

Seq1(b, kind) == IF b THEN << >> ELSE <<kind>>

Kinds(ev) ==
    LET r == Format(ev.f, ev.args)
        full == r.out
        want == SubSeq(full, 1, Min2(ev.cap, Len(full)))
        chk == "checks" \in DOMAIN ev /\ ev.checks = TRUE      \* library built with contract checks
    IN
    IF r.cls = "nc" THEN << >>
    ELSE IF "crash" \in DOMAIN ev THEN
        (IF "assert" \in DOMAIN ev
         \* the handler is the right end for an ill-formed string and (contract build) for overflowing the sink;
         \* a well-formed call that fits must never get there
         THEN Seq1(r.cls = "bad" \/ (chk /\ Len(full) > ev.cap), "assert-spurious")
         ELSE IF r.cls = "bad" THEN <<"crash-illformed">>     \* an ill-formed string must be reported, not crash
         ELSE <<"crash">>)
    ELSE IF r.cls = "bad" THEN
        \* [format.err]: errors are REPORTED.  etl has no exceptions; its reporting channel is the contract handler:
        \* with contract checks compiled in, an ill-formed string must not be accepted silently
        Seq1(~chk, "illformed-accepted")
        \o (IF ev.entry = "n" THEN Seq1(ev.spill = 0, "spill") ELSE << >>)
    ELSE \* well-formed and covered
        Seq1(ev.ok = TRUE, "rejected")
        \o (IF Len(full) <= ev.cap THEN Seq1(ev.out = want, "out") ELSE Seq1(ev.out = want, "truncation"))
        \o (IF ev.entry = "n"
            THEN Seq1(ev.written = Len(want) /\ ev.size = Len(full), "ret-n") \o Seq1(ev.spill = 0, "spill")
            ELSE << >>)

Judge(ev) == IF ~WellFormed(ev) THEN <<"harness-malformed">> ELSE Kinds(ev)

Expected(ev) == IF ~WellFormed(ev) THEN "-"
                ELSE LET r == Format(ev.f, ev.args) IN
                     ToJson([cls |-> r.cls, out |-> SubSeq(r.out, 1, Min2(ev.cap, Len(r.out))), size |-> Len(r.out)])

Init == l = 1 /\ nbad = 0

Next ==
    /\ l <= Len(Tr)
    /\ l' = l + 1
    /\ LET v == Judge(Tr[l]) IN
       IF v = << >> THEN nbad' = nbad
       ELSE /\ nbad' = nbad + 1
            \* a badly broken implementation deviates on every event: report the first MaxReported deviating events of a
            \* trace file in full (the verdict does not need more; every event is still judged and counted)
            /\ (nbad < MaxReported => \A k \in 1..Len(v) : PrintT(<<"DEV", l, v[k], Expected(Tr[l])>>))

Spec == Init /\ [][Next]_<<l, nbad>>
Consumed == TLCGet("stats").diameter - 1 = Len(Tr)
=============================================================================
