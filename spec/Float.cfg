SPECIFICATION Spec
CONSTANTS
  Mode = "f32"
  Tier = "quick"
INVARIANTS ToyLaws Laws32 EmitInv
CHECK_DEADLOCK FALSE
