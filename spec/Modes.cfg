SPECIFICATION Spec
CONSTANTS
  Calls = {"c1", "c2"}
  Results = {0, 1}
INVARIANTS TypeOK Agreement EmitInv
CHECK_DEADLOCK FALSE
