------------------------------ MODULE TypesTrace ------------------------------
(* Trace validation for property C15: every event is one compile-time observation of a trait / concept /   *)
(* numeric_limits member / ratio operation on a type *term*; the verdict is recomputed from the term with   *)
(* TypesOps / LimitsOps / RatioOps.  Deviations are printed as DEV lines, never fatal.                      *)
(* Deviation kinds: value / value_v (::value or _v differs), type / type_t (::type or _t is another type),  *)
(* has-type (member `type` present/absent), ill-formed (the evaluation does not compile), limbs, nan,        *)
(* return-type; harness-* = the generator asked something outside the spec's domain (model failure).         *)
EXTENDS LimitsOps, RatioOps, RatioWide, Json, IOUtils, TLC

Tr == ndJsonDeserialize(IOEnv.TRACE)

VARIABLES l, nbad

Has(ev, f) == f \in DOMAIN ev
Ill(ev) == Has(ev, "ill")

JVal(ev, x) ==          \* both spellings of a value trait
    IF Ill(ev) THEN "ill-formed"
    ELSE IF ev.val # x THEN "value"
    ELSE IF Has(ev, "val_v") /\ ev.val_v # x THEN "value_v"
    ELSE "ok"
JType(ev, r) ==
    IF ev.res # r THEN "harness-res"
    ELSE IF ~ev.same THEN "type"
    ELSE IF ~ev.same_t THEN "type_t"
    ELSE "ok"

RatioNames == RatioOpsNames \cup RatioCmpNames \cup {"ratio"}
NLNames == NLIntMembers \cup NLLimbMembers \cup NLFloatLimbMembers \cup {"nl:quiet_NaN", "nl:signaling_NaN"}

JudgeBig(ev) ==      \* near-overflow ratios: events carry the descriptors a (and b)
    LET tr == ev.trait IN
    IF ~BigPre(ev.a) \/ (Has(ev, "b") /\ ~BigPre(ev.b)) THEN "harness-pre"
    ELSE IF Ill(ev) THEN "ill-formed"
    ELSE IF tr = "ratio" THEN
        LET x == BigNorm(ev.a) IN
        IF ev.neg # x.neg \/ ev.num # x.num \/ ev.den # x.den THEN "value" ELSE "ok"
    ELSE IF tr \in RatioCmpNames THEN JVal(ev, BigCmp(tr, ev.a, ev.b))
    ELSE "harness-trait"

JudgeRatio(ev) ==
    LET tr == ev.trait IN
    IF Has(ev, "a") THEN JudgeBig(ev)
    ELSE IF tr = "ratio" THEN
        (IF ~RNormPre(ev.n, ev.d) THEN "harness-pre"
         ELSE IF Ill(ev) THEN "ill-formed"
         ELSE LET x == RNorm(ev.n, ev.d) IN
              IF ev.xnum # x.num \/ ev.xden # x.den THEN "harness-res"
              ELSE IF ev.num # x.num \/ ev.den # x.den THEN "value"
              ELSE IF ~ev.same THEN "type" ELSE "ok")
    ELSE IF tr \in RatioOpsNames THEN
        (IF ~ROpPre(tr, ev.n1, ev.d1, ev.n2, ev.d2) THEN "harness-pre"
         ELSE IF Ill(ev) THEN "ill-formed"
         ELSE LET x == ROp(tr, ev.n1, ev.d1, ev.n2, ev.d2) IN
              IF ev.xnum # x.num \/ ev.xden # x.den THEN "harness-res"
              ELSE IF ev.num # x.num \/ ev.den # x.den THEN "value"
              ELSE IF ~ev.same THEN "type"
              ELSE IF ~ev.same_t THEN "type_t" ELSE "ok")
    ELSE
        (IF ev.d1 = 0 \/ ev.d2 = 0 THEN "harness-pre"
         ELSE JVal(ev, RCmp(tr, ev.n1, ev.d1, ev.n2, ev.d2)))

JudgeNL(ev) ==
    LET m == ev.trait t == ev.t IN
    IF ~Valid(t) \/ IsRef(t) \/ IsFnT(t) \/ IsVoidT(t) \/ t.k = "arr" THEN "harness-pre"
    ELSE IF Ill(ev) THEN "ill-formed"
    ELSE IF Has(ev, "limbs") THEN
        (IF IsIntegralT(t) /\ m \in NLLimbMembers THEN
            (IF ev.limbs # NLIntLimbs(m, t) THEN "limbs" ELSE IF ~ev.rt THEN "return-type" ELSE "ok")
         ELSE IF IsFloatT(t) /\ m \in NLFloatLimbMembers THEN
            (IF ev.limbs # NLFloatLimbs(m, t) THEN "limbs" ELSE IF ~ev.rt THEN "return-type" ELSE "ok")
         ELSE "harness-pre")
    ELSE IF Has(ev, "nan") THEN
        (IF ~IsFloatT(t) THEN "harness-pre" ELSE IF ~ev.nan THEN "nan" ELSE IF ~ev.rt THEN "return-type" ELSE "ok")
    ELSE IF m \in NLIntMembers THEN JVal(ev, NLVal(m, t))
    ELSE "harness-trait"

Judge(ev) ==
    LET tr == ev.trait IN
    \* the translation unit that only includes the headers and declares the zoo must be well-formed
    IF tr = "translation_unit" THEN (IF Ill(ev) THEN "ill-formed" ELSE "ok")
    ELSE IF tr \in LogicNames THEN
        (IF ~LogicPre(tr, ev.bs) THEN "harness-pre" ELSE JVal(ev, LogicVal(tr, ev.bs)))
    ELSE IF tr \in RatioNames THEN JudgeRatio(ev)
    ELSE IF tr \in NLNames THEN JudgeNL(ev)
    ELSE IF ~Valid(ev.t) THEN "harness-term"
    ELSE IF Has(ev, "u") THEN
        (IF ~Valid(ev.u) THEN "harness-term"
         ELSE IF tr \in BinaryValTraits THEN
            (IF ~BPre(tr, ev.t, ev.u) THEN "harness-pre" ELSE JVal(ev, BVal(tr, ev.t, ev.u)))
         ELSE IF tr \in BinaryTransTraits THEN
            (IF ~BTPre(tr, ev.t, ev.u) THEN "harness-pre"
             ELSE IF Ill(ev) THEN "ill-formed" ELSE JType(ev, BTRes(tr, ev.t, ev.u)))
         ELSE "harness-trait")
    ELSE IF Has(ev, "has") THEN
        (IF tr \notin HasTypeTraits THEN "harness-trait"
         ELSE IF ev.has # HasType(tr, ev.t) THEN "has-type" ELSE "ok")
    ELSE IF tr \in UnaryValTraits /\ (Has(ev, "val") \/ Ill(ev)) /\ ~Has(ev, "res") THEN
        (IF ~UPre(tr, ev.t) THEN "harness-pre" ELSE JVal(ev, UVal(tr, ev.t)))
    ELSE IF tr \in UnaryTransTraits THEN
        (IF ~TPre(tr, ev.t) THEN "harness-pre"
         ELSE IF Ill(ev) THEN "ill-formed" ELSE JType(ev, TRes(tr, ev.t)))
    ELSE "harness-trait"

Expected(ev) ==
    LET tr == ev.trait IN
    IF tr = "translation_unit" THEN "-"
    ELSE IF tr \in LogicNames THEN ToJson(LogicVal(tr, ev.bs))
    ELSE IF tr \in RatioNames /\ Has(ev, "a") THEN
        (IF tr = "ratio" THEN ToJson(BigNorm(ev.a)) ELSE ToJson(BigCmp(tr, ev.a, ev.b)))
    ELSE IF tr \in RatioNames THEN
        (IF tr = "ratio" THEN ToJson(RNorm(ev.n, ev.d))
         ELSE IF tr \in RatioOpsNames THEN ToJson(ROp(tr, ev.n1, ev.d1, ev.n2, ev.d2))
         ELSE ToJson(RCmp(tr, ev.n1, ev.d1, ev.n2, ev.d2)))
    ELSE IF tr \in NLNames THEN
        (IF Has(ev, "limbs") /\ IsIntegralT(ev.t) /\ tr \in NLLimbMembers THEN ToJson(NLIntLimbs(tr, ev.t))
         ELSE IF Has(ev, "limbs") /\ IsFloatT(ev.t) /\ tr \in NLFloatLimbMembers THEN ToJson(NLFloatLimbs(tr, ev.t))
         ELSE IF tr \in NLIntMembers THEN ToJson(NLVal(tr, ev.t)) ELSE "-")
    ELSE IF Has(ev, "u") THEN
        (IF tr \in BinaryValTraits /\ BPre(tr, ev.t, ev.u) THEN ToJson(BVal(tr, ev.t, ev.u))
         ELSE IF tr \in BinaryTransTraits /\ BTPre(tr, ev.t, ev.u) THEN ToJson(BTRes(tr, ev.t, ev.u)) ELSE "-")
    ELSE IF Has(ev, "has") /\ tr \in HasTypeTraits THEN ToJson(HasType(tr, ev.t))
    ELSE IF tr \in UnaryTransTraits /\ TPre(tr, ev.t) /\ (Has(ev, "res") \/ ~(tr \in UnaryValTraits)) THEN ToJson(TRes(tr, ev.t))
    ELSE IF tr \in UnaryValTraits /\ UPre(tr, ev.t) THEN ToJson(UVal(tr, ev.t))
    ELSE "-"

Init == l = 1 /\ nbad = 0

Next ==
    /\ l <= Len(Tr)
    /\ l' = l + 1
    /\ LET v == Judge(Tr[l]) IN
       IF v = "ok" THEN nbad' = nbad
       ELSE /\ nbad' = nbad + 1
            /\ PrintT(<<"DEV", l, v, Expected(Tr[l])>>)

Spec == Init /\ [][Next]_<<l, nbad>>
Consumed == TLCGet("stats").diameter - 1 = Len(Tr)
==========================================================================
