// Float module driver (C16, shares tables with C13): executes <cmath>-like functions of the implementation under
// test on stratified inputs and logs, per call, the input(s), the implementation's result and the result of
// glibc libm / libstdc++ for the same input (a recorded *observation*).  No oracle, no comparison here: the
// events are judged by spec/FloatTrace.tla with the operators of spec/FloatOps.tla.
//
//   float_driver table <file> <nrandom> <seed>   float unary functions on the TLC-exported boundary table + random
//   float_driver dtable <tier> <nrandom> <seed>  double unary functions on all/sampled exponents x boundary mantissas
//   float_driver ltable <tier> <nrandom> <seed> long double (x87): exact set on exponents x boundary mantissas + pairs
//   float_driver binary <tier> <nrandom> <seed>  binary / ternary functions, both precisions: boundary grid x random
//   float_driver approx <tier> <nrandom> <seed>  approximating unary functions, both precisions
//   float_driver complex <tier> <nrandom> <seed> etl::complex functions (sample)
//   float_driver args f|d <n> <hex bits>...      replay of one input through every function of that arity
//   float_driver ct                              constexpr path on the boundary table (float_ct_table.hpp)
//
// Values travel as integers TLC can hold: float = [sign, biased exponent, mantissa(23 bit)],
// double = [sign, biased exponent, mantissa hi 26 bit, mantissa lo 26 bit]; integer results of the lrint family as
// the double quad of (double)r plus a flag "the conversion was exact" (lossless for every in-range result).
// -DVH_STD: the implementation column is libm/libstdc++ itself (calibration of the TLA+ definitions).
#include <bit>
#include <csetjmp>
#include <unistd.h>
#include <csignal>
#include <cmath>
#include <complex>
#include <cstdint>
#include <cstdio>
#include <cstdlib>
#include <cstring>
#include <limits>
#include <numeric>
#include <string>
#include <type_traits>
#include <vector>

#ifndef VH_STD
    #include <etl/cmath.hpp>
    #include <etl/complex.hpp>
    #include <etl/limits.hpp>
    #include <etl/numeric.hpp>
namespace impl = etl;
    #define VH_IMPL "etl"
#else
namespace impl = std;
    #define VH_IMPL "std"
#endif

#include "float_have.hpp" // VH_HAVE_<fn> defaults (all functions in VH_STD; measured by compile probes for etl)

namespace {

// ------------------------------------------------------------------------------------------------
// output
// ------------------------------------------------------------------------------------------------
struct Out {
    std::string buf;
    size_t n = 0;
    void flush()
    {
        std::fwrite(buf.data(), 1, buf.size(), stdout);
        std::fflush(stdout);
        buf.clear();
    }
    void put(char const* s) { buf += s; }
    void num(long v)
    {
        char t[32];
        std::snprintf(t, sizeof t, "%ld", v);
        buf += t;
    }
    void endl()
    {
        buf += '\n'; // the finished event stays in the buffer until the next one begins (markers may be appended)
        ++n;
    }
} out;

template <class T>
inline T launder(T v)
{
    volatile T x = v;
    return x;
}

// A call of the implementation under test that dies with a stack overflow (unbounded recursion) must not take the
// remaining inputs with it: the call is recorded as an event with "crash":1 and the run continues.
sigjmp_buf g_jb;
volatile sig_atomic_t g_armed = 0;
bool g_crashed                = false;
void on_segv(int)
{
    if (g_armed) { siglongjmp(g_jb, 1); }
    _exit(3);
}
void install_guard()
{
    static char stk[1 << 16];
    stack_t ss {};
    ss.ss_sp   = stk;
    ss.ss_size = sizeof stk;
    sigaltstack(&ss, nullptr);
    struct sigaction sa {};
    sa.sa_handler = on_segv;
    sa.sa_flags   = SA_ONSTACK | SA_NODEFER;
    sigemptyset(&sa.sa_mask);
    sigaction(SIGSEGV, &sa, nullptr);
    sigaction(SIGBUS, &sa, nullptr);
}
template <class F>
auto guarded(F f) -> decltype(f())
{
    using R = decltype(f());
    g_armed = 1;
    if (sigsetjmp(g_jb, 1) == 0) {
        R r     = f();
        g_armed = 0;
        return r;
    }
    g_armed   = 0;
    g_crashed = true;
    return R {};
}
#define G(EXPR) guarded([&] { return EXPR; })

void put_val(float v)
{
    auto b = std::bit_cast<uint32_t>(v);
    out.put("[");
    out.num(b >> 31);
    out.put(",");
    out.num((b >> 23) & 0xFF);
    out.put(",");
    out.num(b & 0x7FFFFF);
    out.put("]");
}
void put_val(double v)
{
    auto b = std::bit_cast<uint64_t>(v);
    out.put("[");
    out.num((long)(b >> 63));
    out.put(",");
    out.num((long)((b >> 52) & 0x7FF));
    out.put(",");
    out.num((long)((b >> 26) & 0x3FFFFFF));
    out.put(",");
    out.num((long)(b & 0x3FFFFFF));
    out.put("]");
}
// x87 extended precision: [sign, biased exponent (15 bit), explicit integer bit, fraction hi/mid/lo 21 bit each]
void put_val(long double v)
{
    static_assert(std::numeric_limits<long double>::digits == 64, "x87 80-bit long double expected");
    uint64_t sig = 0;
    uint16_t se  = 0;
    std::memcpy(&sig, &v, 8);
    std::memcpy(&se, reinterpret_cast<char const*>(&v) + 8, 2);
    uint64_t fr = sig & 0x7FFFFFFFFFFFFFFFull;
    out.put("[");
    out.num(se >> 15);
    out.put(",");
    out.num(se & 0x7FFF);
    out.put(",");
    out.num((long)(sig >> 63));
    out.put(",");
    out.num((long)(fr >> 42));
    out.put(",");
    out.num((long)((fr >> 21) & 0x1FFFFF));
    out.put(",");
    out.num((long)(fr & 0x1FFFFF));
    out.put("]");
}
void put_val(bool v) { out.num(v ? 1 : 0); }
void put_val(int v) { out.num(v); }
template <class L>
void put_long(L v)
{
    double d   = (double)v;
    bool exact = d >= -9223372036854775808.0 && d < 9223372036854775808.0 && (L)d == v;
    auto b     = std::bit_cast<uint64_t>(d);
    out.put("[");
    out.num((long)(b >> 63));
    out.put(",");
    out.num((long)((b >> 52) & 0x7FF));
    out.put(",");
    out.num((long)((b >> 26) & 0x3FFFFFF));
    out.put(",");
    out.num((long)(b & 0x3FFFFFF));
    out.put(",");
    out.num(exact ? 1 : 0);
    out.put("]");
}
void put_val(long v) { put_long(v); }
void put_val(long long v) { put_long(v); }

template <class T>
constexpr char const* prec()
{
    return std::is_same_v<T, float> ? "f" : std::is_same_v<T, double> ? "d" : "l";
}

char const* g_mode = "rt";

template <class T>
void head(char const* f)
{
    if (out.buf.size() > (1u << 20)) { out.flush(); }
    out.put("{\"op\":\"");
    out.put(f);
    out.put("\",\"p\":\"");
    out.put(prec<T>());
    out.put("\",\"md\":\"");
    out.put(g_mode);
    out.put("\",\"x\":");
}

void tail()
{
    if (g_crashed) {
        out.put(",\"crash\":1");
        g_crashed = false;
    }
    out.put("}");
    out.endl();
}

template <class T, class R, class C>
void ev1(char const* f, T x, R r, C c)
{
    head<T>(f);
    put_val(x);
    out.put(",\"r\":");
    put_val(r);
    out.put(",\"c\":");
    put_val(c);
    tail();
}
template <class T, class R, class C>
void ev2(char const* f, T x, T y, R r, C c)
{
    head<T>(f);
    put_val(x);
    out.put(",\"y\":");
    put_val(y);
    out.put(",\"r\":");
    put_val(r);
    out.put(",\"c\":");
    put_val(c);
    tail();
}
template <class T, class R, class C>
void ev3(char const* f, T x, T y, T z, R r, C c)
{
    head<T>(f);
    put_val(x);
    out.put(",\"y\":");
    put_val(y);
    out.put(",\"z\":");
    put_val(z);
    out.put(",\"r\":");
    put_val(r);
    out.put(",\"c\":");
    put_val(c);
    tail();
}
// complex: result pairs
template <class T>
void evc(char const* f, T x, T y, T rr, T ri, T cr, T ci)
{
    head<T>(f);
    put_val(x);
    out.put(",\"y\":");
    put_val(y);
    out.put(",\"r\":");
    put_val(rr);
    out.put(",\"r2\":");
    put_val(ri);
    out.put(",\"c\":");
    put_val(cr);
    out.put(",\"c2\":");
    put_val(ci);
    tail();
}
template <class T>
void evc2(char const* f, T x, T y, T z, T w, T rr, T ri, T cr, T ci)
{
    head<T>(f);
    put_val(x);
    out.put(",\"y\":");
    put_val(y);
    out.put(",\"z\":");
    put_val(z);
    out.put(",\"w\":");
    put_val(w);
    out.put(",\"r\":");
    put_val(rr);
    out.put(",\"r2\":");
    put_val(ri);
    out.put(",\"c\":");
    put_val(cr);
    out.put(",\"c2\":");
    put_val(ci);
    tail();
}

// ------------------------------------------------------------------------------------------------
// inputs
// ------------------------------------------------------------------------------------------------
struct Rng {
    uint64_t s;
    explicit Rng(uint64_t seed) : s(seed * 0x9E3779B97F4A7C15ull + 0x1234567ull) { }
    uint64_t next()
    {
        uint64_t z = (s += 0x9E3779B97F4A7C15ull);
        z          = (z ^ (z >> 30)) * 0xBF58476D1CE4E5B9ull;
        z          = (z ^ (z >> 27)) * 0x94D049BB133111EBull;
        return z ^ (z >> 31);
    }
};

float mkf(unsigned s, unsigned e, uint32_t m) { return std::bit_cast<float>((uint32_t)((s << 31) | (e << 23) | (m & 0x7FFFFF))); }
double mkd(uint64_t s, uint64_t e, uint64_t m) { return std::bit_cast<double>((s << 63) | (e << 52) | (m & 0xFFFFFFFFFFFFFull)); }

template <class T>
T rnd_any(Rng& g) // uniform over bit patterns
{
    if constexpr (std::is_same_v<T, float>) {
        return std::bit_cast<float>((uint32_t)g.next());
    } else {
        return std::bit_cast<double>(g.next());
    }
}
template <class T>
T rnd_moderate(Rng& g, int span) // exponent within +-span of the bias, random mantissa with random trailing zeros
{
    uint64_t r  = g.next();
    int e       = (int)(r % (2 * span + 1)) - span;
    uint64_t s  = (r >> 20) & 1;
    uint64_t m  = g.next();
    int tz      = (int)((r >> 24) % 4) == 0 ? (int)((r >> 32) % 50) : 0; // a quarter of the values have short mantissas
    if constexpr (std::is_same_v<T, float>) {
        uint32_t mm = (uint32_t)(m & 0x7FFFFF);
        if (tz > 22) { tz = 22; }
        mm = (mm >> tz) << tz;
        return mkf((unsigned)s, (unsigned)(127 + e), mm);
    } else {
        uint64_t mm = m & 0xFFFFFFFFFFFFFull;
        mm          = (mm >> tz) << tz;
        return mkd(s, (uint64_t)(1023 + e), mm);
    }
}

std::vector<uint64_t> mant_patterns(int P)
{
    std::vector<uint64_t> v;
    uint64_t const ones = (1ull << P) - 1, half = 1ull << (P - 1);
    v.push_back(0);
    v.push_back(1);
    v.push_back(2);
    for (int k = 2; k < P; ++k) { v.push_back(1ull << k); }
    for (int k = 0; k + 1 < P; ++k) { v.push_back(3ull << k); }
    v.push_back(half - 1);
    v.push_back(half + 1);
    v.push_back(ones);
    v.push_back(ones - 1);
    return v;
}

std::vector<float> boundary_f()
{
    std::vector<float> v;
    float const base[] = {0.0f, 1.0f, 0.5f, 0.75f, 0.25f, 1.5f, 2.0f, 2.5f, 3.0f, 3.5f, 5.0f, 7.0f, 10.0f, 100.5f, 0.001f, 3.14159274f,
                          1.57079637f, 0.785398185f, 6.28318548f, 2.71828175f, 8388607.5f, 8388608.0f, 8388609.0f, 16777216.0f,
                          16777215.0f, 4194304.5f, 2147483648.0f, 2147483520.0f, 4294967296.0f, 9223372036854775808.0f,
                          9223371487098961920.0f, 18446744073709551616.0f, 1e10f, 1e20f, 1e30f, 1e-10f, 1e-20f, 1e-30f, 88.0f, 89.0f,
                          -0.0f /*placeholder, sign added below*/};
    for (float b : base) {
        v.push_back(b);
        v.push_back(-b);
    }
    uint32_t const pats[] = {0x00000001u, 0x00000002u, 0x007FFFFFu, 0x00400000u, 0x00800000u, 0x00800001u, 0x00FFFFFFu, 0x3F7FFFFFu,
                             0x3F800001u, 0x3EFFFFFFu, 0x3F000001u, 0x7F7FFFFFu, 0x7F7FFFFEu, 0x7F800000u, 0x7FC00000u, 0x7F800001u,
                             0x7FFFFFFFu, 0x4B000001u, 0x4AFFFFFFu, 0x3FC00001u, 0x3FBFFFFFu, 0x40200001u, 0x401FFFFFu};
    for (uint32_t p : pats) {
        v.push_back(std::bit_cast<float>(p));
        v.push_back(std::bit_cast<float>(p | 0x80000000u));
    }
    return v;
}
std::vector<double> boundary_d()
{
    std::vector<double> v;
    for (float f : boundary_f()) { v.push_back((double)f); } // every float boundary (NaN payload widened)
    double const base[] = {4503599627370495.5, 4503599627370496.0, 4503599627370497.0, 9007199254740992.0, 9007199254740991.0,
                           2251799813685248.5, 9223372036854775808.0, 9223372036854774784.0, 1e100, 1e300, 1e-100, 1e-300, 709.0, 710.0,
                           0.1, 0.3, 2147483647.5, 2147483648.5, 3.141592653589793, 1.5707963267948966};
    for (double b : base) {
        v.push_back(b);
        v.push_back(-b);
    }
    uint64_t const pats[] = {1ull, 2ull, 0x000FFFFFFFFFFFFFull, 0x0008000000000000ull, 0x0010000000000000ull, 0x0010000000000001ull,
                             0x3FEFFFFFFFFFFFFFull, 0x3FF0000000000001ull, 0x3FDFFFFFFFFFFFFFull, 0x3FE0000000000001ull,
                             0x7FEFFFFFFFFFFFFFull, 0x7FEFFFFFFFFFFFFEull, 0x7FF0000000000001ull, 0x7FFFFFFFFFFFFFFFull,
                             0x3FF8000000000001ull, 0x3FF7FFFFFFFFFFFFull, 0x4004000000000001ull, 0x4003FFFFFFFFFFFFull};
    for (uint64_t p : pats) {
        v.push_back(std::bit_cast<double>(p));
        v.push_back(std::bit_cast<double>(p | 0x8000000000000000ull));
    }
    return v;
}
template <class T>
std::vector<T> boundary()
{
    if constexpr (std::is_same_v<T, float>) {
        return boundary_f();
    } else {
        return boundary_d();
    }
}

// boundary grid of the binary functions (x and y both range over it)
template <class T>
std::vector<T> grid()
{
    using L = std::numeric_limits<T>;
    std::vector<T> v;
    T const big = std::is_same_v<T, float> ? (T)8388607.5 : (T)4503599627370495.5; // largest value with a fraction
    T const pos[] = {(T)0, L::denorm_min(), (T)(L::min() - L::denorm_min()), L::min(), (T)0.5, (T)0.75, (T)1,
                     (T)(1 + L::epsilon()), (T)1.5, (T)2, (T)2.5, (T)3, (T)5, (T)7, (T)100.5, big, (T)16777216.0,
                     (T)9223372036854775808.0, (T)1e30, L::max(), L::infinity(), L::quiet_NaN()};
    for (T p : pos) {
        v.push_back(p);
        v.push_back(-p);
    }
    return v;
}

int fpclass_code(int c)
{
    return c == FP_NAN ? 0 : c == FP_INFINITE ? 1 : c == FP_ZERO ? 2 : c == FP_SUBNORMAL ? 3 : c == FP_NORMAL ? 4 : -1;
}

// ------------------------------------------------------------------------------------------------
// function tables.  U(name): fp -> fp, same name in impl:: and std::
// ------------------------------------------------------------------------------------------------
#define CALL1(NAME, T, x) ev1<T>(#NAME, x, G(impl::NAME(launder(x))), std::NAME(launder(x)))
#define CALL2(NAME, T, x, y) ev2<T>(#NAME, x, y, G(impl::NAME(launder(x), launder(y))), std::NAME(launder(x), launder(y)))

template <class T>
void unary_exact(T x)
{
#if VH_HAVE_floor
    CALL1(floor, T, x);
#endif
#if VH_HAVE_ceil
    CALL1(ceil, T, x);
#endif
#if VH_HAVE_trunc
    CALL1(trunc, T, x);
#endif
#if VH_HAVE_round
    CALL1(round, T, x);
#endif
#if VH_HAVE_rint
    CALL1(rint, T, x);
#endif
#if VH_HAVE_nearbyint
    CALL1(nearbyint, T, x);
#endif
#if VH_HAVE_fabs
    CALL1(fabs, T, x);
#endif
#if VH_HAVE_abs
    CALL1(abs, T, x);
#endif
#if VH_HAVE_lrint
    CALL1(lrint, T, x);
#endif
#if VH_HAVE_llrint
    CALL1(llrint, T, x);
#endif
#if VH_HAVE_lround
    CALL1(lround, T, x);
#endif
#if VH_HAVE_llround
    CALL1(llround, T, x);
#endif
#if VH_HAVE_signbit
    CALL1(signbit, T, x);
#endif
#if VH_HAVE_isnan
    CALL1(isnan, T, x);
#endif
#if VH_HAVE_isinf
    CALL1(isinf, T, x);
#endif
#if VH_HAVE_isfinite
    CALL1(isfinite, T, x);
#endif
#if VH_HAVE_isnormal
    CALL1(isnormal, T, x);
#endif
#if VH_HAVE_fpclassify
    ev1<T>("fpclassify", x, fpclass_code(G(impl::fpclassify(launder(x)))), fpclass_code(std::fpclassify(launder(x))));
#endif
}

template <class T>
void binary_exact(T x, T y)
{
#if VH_HAVE_copysign
    CALL2(copysign, T, x, y);
#endif
#if VH_HAVE_fmin
    CALL2(fmin, T, x, y);
#endif
#if VH_HAVE_fmax
    CALL2(fmax, T, x, y);
#endif
#if VH_HAVE_fdim
    CALL2(fdim, T, x, y);
#endif
#if VH_HAVE_nextafter
    CALL2(nextafter, T, x, y);
#endif
#if VH_HAVE_fmod
    CALL2(fmod, T, x, y);
#endif
#if VH_HAVE_remainder
    CALL2(remainder, T, x, y);
    #if VH_HAVE_fmod
    // extra observation for the triage of remainder deviations: what the implementation's fmod returns
    {
        std::string saved;
        saved.swap(out.buf);
        put_val(G(impl::fmod(launder(x), launder(y))));
        std::string fm;
        fm.swap(out.buf);
        out.buf.swap(saved);
        g_crashed = false;
        out.buf.insert(out.buf.size() - 2, ",\"fm\":" + fm);
    }
    #endif
#endif
}

// long double (x87): the exact set only, run time
long double mkl(unsigned s, unsigned e, uint64_t frac)
{
    uint64_t sig = (frac & 0x7FFFFFFFFFFFFFFFull) | (e != 0 ? 0x8000000000000000ull : 0ull); // canonical integer bit
    uint16_t se  = (uint16_t)((s << 15) | (e & 0x7FFF));
    long double v = 0;
    std::memcpy(&v, &sig, 8);
    std::memcpy(reinterpret_cast<char*>(&v) + 8, &se, 2);
    return v;
}
void unary_exact_l(long double x)
{
    using T = long double;
#if VH_HAVE_floor
    CALL1(floor, T, x);
#endif
#if VH_HAVE_ceil
    CALL1(ceil, T, x);
#endif
#if VH_HAVE_trunc
    CALL1(trunc, T, x);
#endif
#if VH_HAVE_round
    CALL1(round, T, x);
#endif
#if VH_HAVE_rint
    CALL1(rint, T, x);
#endif
#if VH_HAVE_fabs
    CALL1(fabs, T, x);
#endif
#if VH_HAVE_signbit
    CALL1(signbit, T, x);
#endif
#if VH_HAVE_isnan
    CALL1(isnan, T, x);
#endif
#if VH_HAVE_isinf
    CALL1(isinf, T, x);
#endif
#if VH_HAVE_isfinite
    CALL1(isfinite, T, x);
#endif
}
void binary_exact_l(long double x, long double y)
{
    using T = long double;
#if VH_HAVE_copysign
    CALL2(copysign, T, x, y);
#endif
#if VH_HAVE_fmin
    CALL2(fmin, T, x, y);
#endif
#if VH_HAVE_fmax
    CALL2(fmax, T, x, y);
#endif
#if VH_HAVE_nextafter_l
    CALL2(nextafter, T, x, y);
#endif
}
void run_ltable(bool thorough, long nrandom, uint64_t seed)
{
    auto pats = mant_patterns(63);
    std::vector<int> exps;
    for (int e = 0; e < 32768; ++e) {
        bool near = (e >= 16383 - 3 && e <= 16383 + 66);
        if (near || e < 3 || e > 32764 || (thorough ? e % 128 == 0 : e % 4096 == 0)) { exps.push_back(e); }
    }
    long n = 0;
    for (int e : exps) {
        for (unsigned s = 0; s < 2; ++s) {
            for (size_t i = 0; i < pats.size(); ++i) {
                if (!thorough && i >= 3 && i + 4 < pats.size() && (i + (size_t)e) % 3 != 0) { continue; } // quick: a third
                unary_exact_l(mkl(s, (unsigned)e, pats[i]));
                ++n;
            }
        }
    }
    Rng g(seed + 53);
    for (long i = 0; i < nrandom; ++i) {
        uint64_t r = g.next();
        unary_exact_l(mkl((unsigned)(r & 1), (unsigned)(16383 - 2 + (r >> 8) % 70), g.next()));
    }
    // pairs: values that are NOT representable as double next to integers and limits
    std::vector<long double> G = {0.0L, 1.0L, 3.0L - 0x1p-60L, 3.0L, 3.0L + 0x1p-61L, 0.5L + 0x1p-64L, 0x1p63L - 1.0L, 0x1p63L, 0x1p63L + 2.0L,
                                  0x1p64L - 1.0L, 0x1.fffffffffffffffep+16383L, 0x1p-16382L, 0x1p-16445L, 0x1.8p-16400L,
                                  std::numeric_limits<long double>::infinity(), std::numeric_limits<long double>::quiet_NaN()};
    size_t const ng = G.size();
    for (size_t i = 0; i < ng; ++i) { G.push_back(-G[i]); }
    for (long double a : G) {
        unary_exact_l(a);
        for (long double b : G) { binary_exact_l(a, b); }
    }
    std::fprintf(stderr, "INPUTS ltable=%ld random=%ld\n", n, nrandom);
}

template <class T>
void binary_approx(T x, T y)
{
#if VH_HAVE_pow
    CALL2(pow, T, x, y);
#endif
#if VH_HAVE_atan2
    CALL2(atan2, T, x, y);
#endif
#if VH_HAVE_hypot
    CALL2(hypot, T, x, y);
#endif
#if VH_HAVE_midpoint
    CALL2(midpoint, T, x, y);
#endif
}

template <class T>
void ternary(T x, T y, T z)
{
#if VH_HAVE_lerp
    ev3<T>("lerp", x, y, z, G(impl::lerp(launder(x), launder(y), launder(z))), std::lerp(launder(x), launder(y), launder(z)));
#endif
#if VH_HAVE_hypot3
    ev3<T>("hypot3", x, y, z, G(impl::hypot(launder(x), launder(y), launder(z))), std::hypot(launder(x), launder(y), launder(z)));
#endif
}

template <class T>
void unary_approx(T x)
{
#if VH_HAVE_sqrt
    CALL1(sqrt, T, x);
#endif
#if VH_HAVE_cbrt
    CALL1(cbrt, T, x);
#endif
#if VH_HAVE_exp
    CALL1(exp, T, x);
#endif
#if VH_HAVE_exp2
    CALL1(exp2, T, x);
#endif
#if VH_HAVE_expm1
    CALL1(expm1, T, x);
#endif
#if VH_HAVE_log
    CALL1(log, T, x);
#endif
#if VH_HAVE_log2
    CALL1(log2, T, x);
#endif
#if VH_HAVE_log10
    CALL1(log10, T, x);
#endif
#if VH_HAVE_log1p
    CALL1(log1p, T, x);
#endif
#if VH_HAVE_sin
    CALL1(sin, T, x);
#endif
#if VH_HAVE_cos
    CALL1(cos, T, x);
#endif
#if VH_HAVE_tan
    CALL1(tan, T, x);
#endif
#if VH_HAVE_asin
    CALL1(asin, T, x);
#endif
#if VH_HAVE_acos
    CALL1(acos, T, x);
#endif
#if VH_HAVE_atan
    CALL1(atan, T, x);
#endif
#if VH_HAVE_sinh
    CALL1(sinh, T, x);
#endif
#if VH_HAVE_cosh
    CALL1(cosh, T, x);
#endif
#if VH_HAVE_tanh
    CALL1(tanh, T, x);
#endif
#if VH_HAVE_asinh
    CALL1(asinh, T, x);
#endif
#if VH_HAVE_acosh
    CALL1(acosh, T, x);
#endif
#if VH_HAVE_atanh
    CALL1(atanh, T, x);
#endif
#if VH_HAVE_erf
    CALL1(erf, T, x);
#endif
#if VH_HAVE_tgamma
    CALL1(tgamma, T, x);
#endif
#if VH_HAVE_lgamma
    CALL1(lgamma, T, x);
#endif
}

template <class T>
void complex_fns(T a, T b, T c, T d)
{
#if VH_HAVE_complex
    using IC = impl::complex<T>;
    using SC = std::complex<T>;
    IC z {launder(a), launder(b)};
    SC s {launder(a), launder(b)};
    IC z2 {launder(c), launder(d)};
    SC s2 {launder(c), launder(d)};
    #define CX1(NAME)                                                                                                                    \
        {                                                                                                                                \
            auto r = G(impl::NAME(z));                                                                                                     \
            auto q = std::NAME(s);                                                                                                       \
            evc<T>("c_" #NAME, a, b, r.real(), r.imag(), q.real(), q.imag());                                                           \
        }
    #define CXR(NAME) ev2<T>("c_" #NAME, a, b, G(impl::NAME(z)), std::NAME(s));
    CXR(abs)
    CXR(arg)
    CXR(norm)
    CX1(conj)
    CX1(cos)
    CX1(cosh)
    CX1(sin)
    CX1(sinh)
    CX1(tan)
    CX1(tanh)
    CX1(log)
    CX1(log10)
    {
        auto r = G(impl::polar(launder(a), launder(b)));
        auto q = std::polar(launder(a), launder(b));
        evc<T>("c_polar", a, b, r.real(), r.imag(), q.real(), q.imag());
    }
    #define CX2(NAME, OP)                                                                                                                \
        {                                                                                                                                \
            auto r = G(z OP z2);                                                                                                           \
            auto q = s OP s2;                                                                                                            \
            evc2<T>("c_" NAME, a, b, c, d, r.real(), r.imag(), q.real(), q.imag());                                                      \
        }
    CX2("add", +)
    CX2("sub", -)
    CX2("mul", *)
    CX2("div", /)
#endif
}

template <class T>
void complex_self(T a, T b)
{
#if VH_HAVE_complex
    using IC = impl::complex<T>;
    using SC = std::complex<T>;
    // aliasing: both operands are the same object (binary operators), rhs is *this (compound assignments, also through
    // a reference)
    #define CXSELF(NAME, OP)                                                                                                             \
        {                                                                                                                                \
            IC u {launder(a), launder(b)};                                                                                               \
            SC v {launder(a), launder(b)};                                                                                               \
            auto r = G(u OP u);                                                                                                          \
            auto q = v OP v;                                                                                                             \
            evc<T>("c_" NAME "_self", a, b, r.real(), r.imag(), q.real(), q.imag());                                                     \
        }                                                                                                                                \
        {                                                                                                                                \
            IC u {launder(a), launder(b)};                                                                                               \
            SC v {launder(a), launder(b)};                                                                                               \
            IC const& ur = u;                                                                                                            \
            SC const& vr = v;                                                                                                            \
            G((u OP## = ur, 0));                                                                                                         \
            v OP## = vr;                                                                                                                 \
            evc<T>("c_" NAME "eq_self", a, b, u.real(), u.imag(), v.real(), v.imag());                                                   \
        }
    CXSELF("add", +)
    CXSELF("sub", -)
    CXSELF("mul", *)
    CXSELF("div", /)
#endif
}

// ------------------------------------------------------------------------------------------------
// groups
// ------------------------------------------------------------------------------------------------
void run_table(char const* path, long nrandom, uint64_t seed)
{
    std::FILE* f = std::fopen(path, "r");
    if (!f) {
        std::fprintf(stderr, "cannot open %s\n", path);
        std::exit(2);
    }
    unsigned s, e, m;
    long n = 0;
    while (std::fscanf(f, "%u %u %u", &s, &e, &m) == 3) {
        unary_exact<float>(mkf(s, e, m));
        ++n;
    }
    std::fclose(f);
    Rng g(seed);
    for (long i = 0; i < nrandom; ++i) { unary_exact<float>(i % 2 ? rnd_any<float>(g) : rnd_moderate<float>(g, 40)); }
    std::fprintf(stderr, "INPUTS table=%ld random=%ld\n", n, nrandom);
}

std::vector<int> dexps(bool thorough)
{
    std::vector<int> v;
    for (int e = 0; e < 2048; ++e) {
        bool near = (e >= 1023 - 3 && e <= 1023 + 56) || (e >= 1023 + 61 && e <= 1023 + 65);
        if (thorough || near || e < 3 || e > 2043 || e % 256 == 0) { v.push_back(e); }
    }
    return v;
}

void run_dtable(bool thorough, long nrandom, uint64_t seed)
{
    auto pats = mant_patterns(52);
    if (thorough) { // every exponent, a third of the mantissa patterns (rotating with the exponent)
        std::vector<uint64_t> thin;
        for (size_t i = 0; i < pats.size(); ++i) {
            if (i < 3 || i + 4 >= pats.size() || i % 3 == 0) { thin.push_back(pats[i]); }
        }
        pats = thin;
    }
    long n    = 0;
    for (int e : dexps(thorough)) {
        for (uint64_t s = 0; s < 2; ++s) {
            for (uint64_t m : pats) {
                unary_exact<double>(mkd(s, (uint64_t)e, m));
                ++n;
            }
        }
    }
    Rng g(seed + 7);
    for (long i = 0; i < nrandom; ++i) { unary_exact<double>(i % 2 ? rnd_any<double>(g) : rnd_moderate<double>(g, 70)); }
    std::fprintf(stderr, "INPUTS dtable=%ld random=%ld\n", n, nrandom);
}

template <class T>
void run_binary_t(long nrandom, uint64_t seed)
{
    auto B = boundary<T>();
    auto G = grid<T>();
    Rng g(seed + 13);
    for (T x : G) {
        for (T y : G) {
            binary_exact<T>(x, y);
            binary_approx<T>(x, y);
        }
    }
    for (long i = 0; i < nrandom; ++i) {
        T b = B[g.next() % B.size()];
        T r = rnd_moderate<T>(g, 30);
        T q = rnd_moderate<T>(g, 12);
        binary_exact<T>(b, r);
        binary_exact<T>(r, b);
        binary_exact<T>(r, q);
        binary_approx<T>(b, r);
        binary_approx<T>(r, b);
        binary_approx<T>(r, q);
        // neighbours: nextafter / fmin / fmax / fdim on values one step apart and quotient-parity cases
        T nx = std::nextafter(r, (T)0);
        binary_exact<T>(r, nx);
        binary_exact<T>(nx, r);
        T k = (T)(long)(g.next() % 9 + 1);
        binary_exact<T>((T)(q * k + q / 2), q); // x/y = k + 1/2 (exact when representable): remainder ties
        binary_exact<T>((T)(q * k), q);
    }
    // ternary: lerp / hypot3 on a smaller grid
    std::vector<T> S;
    for (size_t i = 0; i < G.size(); i += 2) { S.push_back(G[i]); }
    S.push_back((T)-2.5);
    S.push_back((T)-1);
    T const ts[] = {(T)0, (T)1, (T)0.5, (T)-1, (T)2, (T)0.25, (T)1e-3, (T)(1 - 1e-3), std::numeric_limits<T>::infinity(),
                    std::numeric_limits<T>::quiet_NaN()};
    for (T a : S) {
        for (T b : S) {
            for (T t : ts) { ternary<T>(a, b, t); }
        }
    }
    for (long i = 0; i < nrandom / 2; ++i) {
        T a = rnd_moderate<T>(g, 20), b = rnd_moderate<T>(g, 20), t = rnd_moderate<T>(g, 3);
        ternary<T>(a, b, t);
        ternary<T>(a, a, t);
        ternary<T>(a, b, (T)1);
        ternary<T>(a, b, (T)0);
    }
}

template <class T>
void run_approx_t(bool thorough, long nrandom, uint64_t seed)
{
    constexpr int P    = std::is_same_v<T, float> ? 23 : 52;
    constexpr int EMAX = std::is_same_v<T, float> ? 255 : 2047;
    constexpr int BIAS = std::is_same_v<T, float> ? 127 : 1023;
    uint64_t const ones = (1ull << P) - 1, half = 1ull << (P - 1);
    uint64_t const pats[] = {0, 1, half, ones, half + 12345, ones / 3};
    for (int e = 0; e <= EMAX; ++e) {
        bool near = e >= BIAS - 40 && e <= BIAS + 40;
        if (!(thorough || near || e < 3 || e > EMAX - 3 || e % 16 == 0)) { continue; }
        for (unsigned s = 0; s < 2; ++s) {
            for (uint64_t m : pats) {
                if constexpr (std::is_same_v<T, float>) {
                    unary_approx<T>(mkf(s, (unsigned)e, (uint32_t)m));
                } else {
                    unary_approx<T>(mkd(s, (uint64_t)e, m));
                }
            }
        }
    }
    for (T b : boundary<T>()) { unary_approx<T>(b); }
    for (int k = -40; k <= 40; ++k) { // integers and half-integers: gamma poles, exact powers
        unary_approx<T>((T)k);
        unary_approx<T>((T)k + (T)0.5);
    }
    Rng g(seed + 29);
    for (long i = 0; i < nrandom; ++i) {
        unary_approx<T>(rnd_moderate<T>(g, 8));
        if (i % 4 == 0) { unary_approx<T>(rnd_moderate<T>(g, 40)); }
    }
}

template <class T>
void run_complex_t(long nrandom, uint64_t seed)
{
    T const vals[] = {(T)0, (T)1, (T)-1, (T)0.5, (T)-0.5, (T)2, (T)-2, (T)3.25, (T)-7.75, (T)0.001, (T)10};
    for (T a : vals) {
        for (T b : vals) {
            complex_fns<T>(a, b, (T)1.5, (T)-2.25);
            complex_self<T>(a, b);
        }
    }
    // aliased operands on small-integer components (exact results: 2z, 0, z*z, 1)
    T const ints[] = {(T)0, (T)1, (T)-1, (T)2, (T)3, (T)4, (T)-4, (T)5, (T)-12, (T)100, (T)1000, (T)-2047};
    for (T a : ints) {
        for (T b : ints) { complex_self<T>(a, b); }
    }
    Rng g(seed + 41);
    for (long i = 0; i < nrandom; ++i) {
        complex_fns<T>(rnd_moderate<T>(g, 3), rnd_moderate<T>(g, 3), rnd_moderate<T>(g, 3), rnd_moderate<T>(g, 3));
        complex_self<T>(rnd_moderate<T>(g, 3), rnd_moderate<T>(g, 3));
    }
}

} // namespace

#ifdef VH_CT
    #include "float_ct.hpp"
#endif

int main(int argc, char** argv)
{
    if (argc < 2) {
        std::fprintf(stderr, "usage: float_driver table|dtable|binary|approx|complex|ct ...\n");
        return 2;
    }
    install_guard();
    std::string g = argv[1];
    long nr       = argc > 3 ? std::atol(argv[3]) : 0;
    uint64_t seed = argc > 4 ? std::strtoull(argv[4], nullptr, 10) : 1;
    bool thorough = argc > 2 && std::string(argv[2]) == "thorough";
    if (g == "table") {
        run_table(argv[2], nr, seed);
    } else if (g == "dtable") {
        run_dtable(thorough, nr, seed);
    } else if (g == "binary") {
        run_binary_t<float>(nr, seed);
        run_binary_t<double>(nr, seed);
    } else if (g == "approx") {
        run_approx_t<float>(thorough, nr, seed);
        run_approx_t<double>(thorough, nr, seed);
    } else if (g == "ltable") {
        run_ltable(thorough, nr, seed);
    } else if (g == "complex") {
        run_complex_t<float>(nr, seed);
        run_complex_t<double>(nr, seed);
    } else if (g == "args") { // replay of single inputs: args f|d <n> v1 [v2 [v3 [v4]]]  (values as hex bit patterns)
        bool isf = std::string(argv[2]) == "f";
        int n    = std::atoi(argv[3]);
        if (argc < 4 + n) { return 2; }
        auto rd = [&](int i) { return std::strtoull(argv[4 + i], nullptr, 16); };
        if (isf) {
            float a[4] = {};
            for (int i = 0; i < n; ++i) { a[i] = std::bit_cast<float>((uint32_t)rd(i)); }
            if (n == 1) { unary_exact<float>(a[0]), unary_approx<float>(a[0]); }
            if (n == 2) { binary_exact<float>(a[0], a[1]), binary_approx<float>(a[0], a[1]), complex_fns<float>(a[0], a[1], 1.5f, -2.25f); }
            if (n == 3) { ternary<float>(a[0], a[1], a[2]); }
            if (n == 4) { complex_fns<float>(a[0], a[1], a[2], a[3]); }
        } else {
            double a[4] = {};
            for (int i = 0; i < n; ++i) { a[i] = std::bit_cast<double>((uint64_t)rd(i)); }
            if (n == 1) { unary_exact<double>(a[0]), unary_approx<double>(a[0]); }
            if (n == 2) { binary_exact<double>(a[0], a[1]), binary_approx<double>(a[0], a[1]), complex_fns<double>(a[0], a[1], 1.5, -2.25); }
            if (n == 3) { ternary<double>(a[0], a[1], a[2]); }
            if (n == 4) { complex_fns<double>(a[0], a[1], a[2], a[3]); }
        }
    }
#ifdef VH_CT
    else if (g == "ct") {
        g_mode = "ct";
        run_ct();
    }
#endif
    else {
        std::fprintf(stderr, "unknown group %s\n", g.c_str());
        return 2;
    }
    out.flush();
    std::fprintf(stderr, "EVENTS %zu impl=%s\n", out.n, VH_IMPL);
    return 0;
}
