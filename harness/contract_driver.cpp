// C05 (table part): executes every call exported by spec/Contract.tla - valid and violating - on the real
// etl types in a contract-checked build. Each call runs in a forked child; the user-replaceable assertion
// handler reports location + a snapshot of the object (public observers only) taken inside the handler.
// No oracle here: spec/ContractTrace.tla (ContractOps!CJudge) decides.
// Build: -DTETL_ENABLE_CONTRACT_CHECKS[_SAFE] -DTETL_ENABLE_CUSTOM_ASSERT_HANDLER [-DVH_MODE=\"safe\"]
#include "common.hpp"

#include <etl/array.hpp>
#include <etl/bit.hpp>
#include <etl/bitset.hpp>
#include <etl/chrono.hpp>
#include <etl/expected.hpp>
#include <etl/mdspan.hpp>
#include <etl/numeric.hpp>
#include <etl/optional.hpp>
#include <etl/span.hpp>
#include <etl/string.hpp>
#include <etl/string_view.hpp>
#include <etl/variant.hpp>

#include <functional>
#include <utility>
#include <sys/wait.h>
#include <unistd.h>

using vh::json;

#ifndef VH_MODE
    #define VH_MODE "checks"
#endif

namespace vhc {
inline int child_fd = -1;
inline std::function<json()> snapshot;
[[noreturn]] inline void on_assert(char const* file, int line, char const* expr)
{
    json j;
    std::string f = file ? file : "";
    auto p        = f.find("include/etl");
    j["hfile"]    = p == std::string::npos ? f : f.substr(p);
    j["hline"]    = line;
    j["hexpr"]    = expr ? expr : "";
    j["snap"]     = snapshot ? snapshot() : json::array();
    std::string s = j.dump();
    if (child_fd >= 0) { (void)!::write(child_fd, s.data(), s.size()); }
    vh_exit(42);
}
} // namespace vhc
namespace etl {
template <typename Assertion>
[[noreturn]] auto assert_handler(Assertion const& msg) -> void
{
    vhc::on_assert(msg.file, msg.line, msg.expression);
}
} // namespace etl

namespace {
constexpr long MAXTOK = 1000000;
size_t sz(long a)
{
    if (a == MAXTOK) { return static_cast<size_t>(-1); }
    if (a == MAXTOK - 1) { return static_cast<size_t>(-2); } // "max - 1": wraps naive "offset + count" checks
    return static_cast<size_t>(a);
}
volatile long sink = 0; // results are consumed so that the calls are not optimised away

template <typename C>
json chars_of(C const& c)
{
    json a = json::array();
    for (auto ch : c) { a.push_back((int)ch); }
    return a;
}

// ---- families ---------------------------------------------------------------------------------------
template <size_t Cap>
bool run_str(std::string const& site, long n, long a, long b, json& pre)
{
    using S = etl::inplace_string<Cap>;
    S s;
    for (long i = 0; i < n; ++i) { s.push_back(static_cast<char>('a' + (i % 26))); }
    S const& cs    = s;
    pre            = chars_of(s);
    vhc::snapshot  = [&s] { return chars_of(s); };
    char buf[64]   = {};
    for (size_t i = 0; i < 63; ++i) { buf[i] = 'z'; }
    if (site == "str.front") { sink = s.front(); }
    else if (site == "str.back") { sink = s.back(); }
    else if (site == "str.pop_back") { s.pop_back(); }
    else if (site == "str.push_back") { s.push_back('q'); }
    else if (site == "str.index") { sink = s[sz(a)]; }
    else if (site == "str.cindex") { sink = cs[sz(a)]; }
    else if (site == "str.ctor_fill") { S t(sz(a), 'x'); sink = (long)t.size(); }
    else if (site == "str.ctor_ptr_len") {
        if (a > 63) { S t(buf, sz(a)); sink = (long)t.size(); } // violating for every capacity used here: must stop before reading
        else { S t(buf, sz(a)); sink = (long)t.size(); }
    }
    else if (site == "str.assign_fill") { s.assign(sz(a), 'x'); }
    else if (site == "str.assign_ptr_len") { s.assign(buf, sz(a)); }
    else if (site == "str.assign_cstr") {
        if (a > 63) { return false; } // a C string of SIZE_MAX characters cannot be built
        buf[a] = 0;
        s.assign(buf);
    }
    else if (site == "str.erase_index") { s.erase(sz(a)); }
    else if (site == "str.insert_index") { s.insert(sz(a), size_t(1), 'x'); }
    else if (site == "str.substr") { auto t = s.substr(sz(a)); sink = (long)t.size(); }
    else if (site == "str.resize") { s.resize(sz(a)); }
    else if (site == "str.resize_fill") { s.resize(sz(a), 'x'); }
    else if (site == "str.erase_range") {
        if (a >= MAXTOK - 1 || b >= MAXTOK - 1) { return false; } // iterators SIZE_MAX beyond begin() cannot be formed meaningfully
        s.erase(s.cbegin() + a, s.cbegin() + b);
    }
    else if (site == "str.replace_pos") { s.replace(sz(a), sz(b), "x"); }
    else { return false; }
    return true;
}

bool run_sv(std::string const& site, long n, long a, long b, json& pre)
{
    // exact-size heap buffer without terminator
    auto* heap = new char[(size_t)n ? (size_t)n : 1];
    for (long i = 0; i < n; ++i) { heap[i] = static_cast<char>('a' + i); }
    etl::string_view v(heap, (size_t)n);
    pre           = chars_of(v);
    vhc::snapshot = [&v] { return chars_of(v); };
    char dest[16] = {};
    bool ok       = true;
    if (site == "sv.front") { sink = v.front(); }
    else if (site == "sv.back") { sink = v.back(); }
    else if (site == "sv.index") { sink = v[sz(a)]; }
    else if (site == "sv.remove_prefix") { v.remove_prefix(sz(a)); }
    else if (site == "sv.remove_suffix") { v.remove_suffix(sz(a)); }
    else if (site == "sv.substr") { auto t = v.substr(sz(a)); sink = (long)t.size(); }
    else if (site == "sv.copy") { sink = (long)v.copy(dest, std::min<size_t>(sz(a), 8), sz(b)); }
    else { ok = false; }
    delete[] heap;
    return ok;
}

bool run_span(std::string const& site, long n, long a, long b, json& pre)
{
    auto* heap = new int[(size_t)n ? (size_t)n : 1];
    for (long i = 0; i < n; ++i) { heap[i] = (int)i + 1; }
    etl::span<int> v(heap, (size_t)n);
    pre           = chars_of(v);
    vhc::snapshot = [&v] { return chars_of(v); };
    bool ok       = true;
    if (site == "span.front") { sink = v.front(); }
    else if (site == "span.back") { sink = v.back(); }
    else if (site == "span.index") { sink = v[sz(a)]; }
    else if (site == "span.first") { sink = (long)v.first(sz(a)).size(); }
    else if (site == "span.last") { sink = (long)v.last(sz(a)).size(); }
    else if (site == "span.subspan") { sink = (long)v.subspan(sz(a), b == MAXTOK ? etl::dynamic_extent : sz(b)).size(); }
    else { ok = false; }
    delete[] heap;
    return ok;
}

bool run_arr(std::string const& site, long /*n*/, long a, long /*b*/, json& pre)
{
    etl::array<int, 4> arr{1, 2, 3, 4};
    auto const& carr = arr;
    pre              = chars_of(arr);
    vhc::snapshot    = [&arr] { return chars_of(arr); };
    if (site == "arr.index") { sink = arr[sz(a)]; }
    else if (site == "arr.cindex") { sink = carr[sz(a)]; }
    else { return false; }
    return true;
}

bool run_opt(std::string const& site, long n, long /*a*/, long /*b*/, json& pre)
{
    struct P {
        int x;
    };
    etl::optional<P> o;
    if (n == 1) { o = P{7}; }
    auto proj     = [&o] { return o.has_value() ? json::array({1, (*o).x}) : json::array({0}); };
    pre           = n == 1 ? json::array({1, 7}) : json::array({0});
    vhc::snapshot = [n] { return n == 1 ? json::array({1, 7}) : json::array({0}); };
    (void)proj;
    if (site == "opt.deref") { sink = (*o).x; }
    else if (site == "opt.deref_c") { sink = (*std::as_const(o)).x; }
    else if (site == "opt.deref_rv") { sink = (*std::move(o)).x; }
    else if (site == "opt.deref_crv") { sink = (*std::move(std::as_const(o))).x; }
    else if (site == "opt.arrow") { sink = o->x; }
    else { return false; }
    return true;
}

bool run_exp(std::string const& site, long n, long /*a*/, long /*b*/, json& pre)
{
    struct P {
        int x;
    };
    using E = etl::expected<P, int>;
    E e     = n == 1 ? E{etl::in_place, P{7}} : E{etl::unexpect, 3};
    pre     = json::array({(int)e.has_value()});
    vhc::snapshot = [&e] { return json::array({(int)e.has_value()}); };
    if (site == "exp.deref") { sink = (*e).x; }
    else if (site == "exp.deref_c") { sink = (*std::as_const(e)).x; }
    else if (site == "exp.deref_rv") { sink = (*std::move(e)).x; }
    else if (site == "exp.deref_crv") { sink = (*std::move(std::as_const(e))).x; }
    else if (site == "exp.error_c") { sink = std::as_const(e).error(); }
    else if (site == "exp.error_rv") { sink = std::move(e).error(); }
    else if (site == "exp.error_crv") { sink = std::move(std::as_const(e)).error(); }
    else if (site == "exp.arrow") { sink = e->x; }
    else if (site == "exp.error") { sink = e.error(); }
    else { return false; }
    return true;
}

bool run_var(std::string const& site, long n, long a, long /*b*/, json& pre)
{
    using V = etl::variant<int, long>;
    V v     = n == 0 ? V{etl::in_place_index<0>, 5} : V{etl::in_place_index<1>, 6L};
    pre     = json::array({(int)v.index()});
    vhc::snapshot = [&v] { return json::array({(int)v.index()}); };
    if (site == "var.unchecked_get") { sink = a == 0 ? (long)etl::unchecked_get<0>(v) : etl::unchecked_get<1>(v); }
    else if (site == "var.subscript") { sink = a == 0 ? (long)v[etl::index_v<0>] : v[etl::index_v<1>]; }
    else { return false; }
    return true;
}

template <size_t N>
bool run_bs(std::string const& site, long /*n*/, long a, long /*b*/, json& pre)
{
    etl::bitset<N> s;
    s.set(0);
    auto const& cs = s;
    auto proj      = [&s] {
        json r = json::array();
        for (size_t i = 0; i < N; ++i) { r.push_back((int)s.test(i)); }
        return r;
    };
    pre           = proj();
    vhc::snapshot = proj;
    if (site == "bs.test") { sink = s.test(sz(a)); }
    else if (site == "bs.set") { s.set(sz(a)); }
    else if (site == "bs.reset") { s.reset(sz(a)); }
    else if (site == "bs.flip") { s.flip(sz(a)); }
    else if (site == "bs.cindex") { sink = cs[sz(a)]; }
    else if (site == "bs.index") { s[sz(a)] = true; }
    else { return false; }
    return true;
}

template <size_t N>
bool run_bbs(std::string const& site, long /*n*/, long a, long /*b*/, json& pre)
{
    etl::basic_bitset<N, unsigned char> s;
    s.unchecked_set(0);
    auto const& cs = s;
    auto proj      = [&s] {
        json r = json::array();
        for (size_t i = 0; i < N; ++i) { r.push_back((int)s.unchecked_test(i)); }
        return r;
    };
    pre           = proj();
    vhc::snapshot = proj;
    if (site == "bbs.cindex") { sink = cs[sz(a)]; }
    else if (site == "bbs.index") { s[sz(a)] = true; }
    else if (site == "bbs.unchecked_test") { sink = s.unchecked_test(sz(a)); }
    else if (site == "bbs.unchecked_set") { s.unchecked_set(sz(a)); }
    else if (site == "bbs.unchecked_reset") { s.unchecked_reset(sz(a)); }
    else if (site == "bbs.unchecked_flip") { s.unchecked_flip(sz(a)); }
    else { return false; }
    return true;
}

bool run_misc(std::string const& site, long /*n*/, long a, long /*b*/, json& pre)
{
    pre           = json::array();
    vhc::snapshot = [] { return json::array(); };
    if (site == "num.div_sat") { sink = etl::div_sat<int>(100, a >= MAXTOK - 1 ? (int)(2147483647 - (MAXTOK - a)) : (int)a); }
    else if (site == "bit.set_bit") { sink = etl::set_bit<unsigned char>(1, a >= MAXTOK - 1 ? (unsigned char)(255 - (MAXTOK - a)) : (unsigned char)a); }
    else if (site == "bit.set_bit_val") { sink = etl::set_bit<unsigned char>(1, a >= MAXTOK - 1 ? (unsigned char)(255 - (MAXTOK - a)) : (unsigned char)a, true); }
    else if (site == "bit.reset_bit") { sink = etl::reset_bit<unsigned char>(1, a >= MAXTOK - 1 ? (unsigned char)(255 - (MAXTOK - a)) : (unsigned char)a); }
    else if (site == "bit.flip_bit") { sink = etl::flip_bit<unsigned char>(1, a >= MAXTOK - 1 ? (unsigned char)(255 - (MAXTOK - a)) : (unsigned char)a); }
    else if (site == "bit.test_bit") { sink = etl::test_bit<unsigned char>(1, a >= MAXTOK - 1 ? (unsigned char)(255 - (MAXTOK - a)) : (unsigned char)a); }
    else if (site == "chrono.day") { sink = (long)(unsigned)etl::chrono::day(a >= MAXTOK - 1 ? (unsigned)(4294967295u - (unsigned)(MAXTOK - a)) : (unsigned)a); }
    else if (site == "chrono.month") { sink = (long)(unsigned)etl::chrono::month(a >= MAXTOK - 1 ? (unsigned)(4294967295u - (unsigned)(MAXTOK - a)) : (unsigned)a); }
    else if (site == "md.left_stride") {
        etl::layout_left::mapping<etl::extents<int, 2, 3>> m;
        sink = m.stride(sz(a));
    } else if (site == "md.right_stride") {
        etl::layout_right::mapping<etl::extents<int, 2, 3>> m;
        sink = m.stride(sz(a));
    } else { return false; }
    return true;
}

bool dispatch(std::string const& site, long cap, long n, long a, long b, json& pre)
{
    auto fam = site.substr(0, site.find('.'));
    if (fam == "str") { return cap == 4 ? run_str<4>(site, n, a, b, pre) : cap == 20 ? run_str<20>(site, n, a, b, pre) : false; }
    if (fam == "sv") { return run_sv(site, n, a, b, pre); }
    if (fam == "span") { return run_span(site, n, a, b, pre); }
    if (fam == "arr") { return run_arr(site, n, a, b, pre); }
    if (fam == "opt") { return run_opt(site, n, a, b, pre); }
    if (fam == "exp") { return run_exp(site, n, a, b, pre); }
    if (fam == "var") { return run_var(site, n, a, b, pre); }
    if (fam == "bs") { return cap == 5 ? run_bs<5>(site, n, a, b, pre) : cap == 13 ? run_bs<13>(site, n, a, b, pre) : false; }
    if (fam == "bbs") { return cap == 5 ? run_bbs<5>(site, n, a, b, pre) : cap == 13 ? run_bbs<13>(site, n, a, b, pre) : false; }
    return run_misc(site, n, a, b, pre);
}

} // namespace

// usage: contract_driver <calls.ndjson>
int main(int argc, char** argv)
{
    if (argc < 2) { return 2; }
    auto calls = vh::read_ndjson(argv[1]);
    long skipped = 0;
    for (auto const& c : calls) {
        std::string site = c["site"];
        long cap = c["cap"], n = c["n"], a = c["a"], b = c["b"];
        int fds[2];
        if (::pipe(fds) != 0) { return 2; }
        std::cout.flush();
        pid_t pid = ::fork();
        if (pid == 0) {
            ::close(fds[0]);
            vhc::child_fd = fds[1];
            json pre;
            bool ok = dispatch(site, cap, n, a, b, pre);
            json j;
            j["outcome"] = ok ? "returned" : "unsupported";
            j["pre"]     = pre;
            j["snap"]    = pre;
            std::string s = j.dump();
            (void)!::write(fds[1], s.data(), s.size());
            vh_exit(0);
        }
        ::close(fds[1]);
        std::string buf;
        char tmp[4096];
        ssize_t k;
        while ((k = ::read(fds[0], tmp, sizeof tmp)) > 0) { buf.append(tmp, (size_t)k); }
        ::close(fds[0]);
        int status = 0;
        ::waitpid(pid, &status, 0);
        json j = buf.empty() ? json() : json::parse(buf, nullptr, false);
        json ev;
        ev["site"] = site;
        ev["cap"]  = cap;
        ev["n"]    = n;
        ev["a"]    = a;
        ev["b"]    = b;
        ev["mode"] = VH_MODE;
        ev["inst"] = site;
        ev["op"]   = site;
        if (WIFEXITED(status) && WEXITSTATUS(status) == 42 && j.is_object()) {
            ev["outcome"] = "handler";
            ev["hline"]   = j["hline"];
            ev["hfile"]   = j["hfile"];
            ev["hexpr"]   = j["hexpr"];
            ev["snap"]    = j["snap"];
            // the pre-state is recomputed in the parent exactly as the child built it
            json pre;
            (void)pre;
            ev["pre"] = nullptr;
        } else if (WIFEXITED(status) && WEXITSTATUS(status) == 0 && j.is_object()) {
            if (j["outcome"] == "unsupported") {
                ++skipped;
                std::fprintf(stderr, "UNSUPPORTED %s cap=%ld n=%ld a=%ld b=%ld\n", site.c_str(), cap, n, a, b);
                continue;
            }
            ev["outcome"] = "returned";
            ev["hline"]   = 0;
            ev["snap"]    = j["snap"];
            ev["pre"]     = j["pre"];
        } else {
            ev["outcome"] = "trap";
            ev["hline"]   = 0;
            ev["snap"]    = json::array();
            ev["pre"]     = json::array();
            ev["status"]  = status;
        }
        if (ev["pre"].is_null()) {
            // handler case: obtain the pre-state by building the same object in a second child that stops
            // right after construction (site "<family>.noop" is unknown to dispatch -> returns false after setup)
            int f2[2];
            if (::pipe(f2) != 0) { return 2; }
            pid_t p2 = ::fork();
            if (p2 == 0) {
                ::close(f2[0]);
                json pre;
                std::string fam = site.substr(0, site.find('.'));
                (void)dispatch(fam + ".noop", cap, n, a, b, pre);
                std::string s = pre.dump();
                (void)!::write(f2[1], s.data(), s.size());
                vh_exit(0);
            }
            ::close(f2[1]);
            std::string b2;
            while ((k = ::read(f2[0], tmp, sizeof tmp)) > 0) { b2.append(tmp, (size_t)k); }
            ::close(f2[0]);
            ::waitpid(p2, &status, 0);
            json pj   = b2.empty() ? json() : json::parse(b2, nullptr, false);
            ev["pre"] = pj.is_array() ? pj : json::array();
        }
        vh::emit(ev);
    }
    std::fprintf(stderr, "SUMMARY contract calls=%zu skipped=%ld\n", calls.size(), skipped);
    return 0;
}
