SPECIFICATION Spec
CONSTANTS
  Kind = "expected"
  A1 = "int"
  A2 = "int"
  A3 = ""
  A4 = ""
  SrcTypes = {"int", "shrt"}
  MixTypes = {}
VIEW View
ACTION_CONSTRAINT Emit
INVARIANTS TypeOK Canonical OrderLaws SelectLaws
PROPERTIES CopyIndependence CopyMakesEqual MoveKeepsIndex SwapExchanges PureIsPure
CHECK_DEADLOCK FALSE
