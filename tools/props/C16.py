"""C16 - cmath: exact functions equal libm bit for bit, approximating functions stay within tolerance."""
from pipes import float as floatpipe


def run(tier, rep):
    floatpipe.pipeline(tier, rep)
    rep.assumptions += [
        "glibc libm / libstdc++ of this machine is the reference observation for the approximating functions; the TLA+ "
        "definitions of the exact functions are calibrated against it on the same inputs (zero deviations required)",
        "the 2^32 sweep of the property text is out of reach of a TLC-judged trace (10-40 k events/s): every sign and "
        "exponent x boundary mantissas (about 25 k values per unary float function) + seeded random values are judged instead",
        "fmod/remainder are computed exactly for exponent differences up to 64 (long division, one quotient bit per step); "
        "beyond that only sign, finiteness and |r| < |y| are required",
        "fdim is judged exactly where x - y needs no rounding; NaN results are compared as 'is a NaN' only",
        "a constant evaluation that is rejected by the compiler counts only where libm's result is finite",
    ]

