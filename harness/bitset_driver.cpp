// Conformance driver for etl::bitset<N> and etl::basic_bitset<N, Word> (property C17).
// Executes scripts exported from spec/Bitset.tla (widths 1..5) or its own seeded random histories (widths
// below, at and above a machine word) on the real templates and records one self-contained event per public
// call: {op,o,x,n,kind,pre,post,self,obs,inst}.  The events are judged by spec/BitsetTrace.tla; this file
// contains no oracle and no comparison.  Built with -DVH_STD the same calls run on std::bitset (calibration).
//
// Compile-time switches: -DBH_WORD=0 etl::bitset | 8|16|32|64 etl::basic_bitset<N, uintXX_t>
//                        -DBH_WIDTHS=1,2,3     widths compiled in
#include "common.hpp"
#include <sys/time.h>
#include "contain.hpp"

#include <bitset>
#include <string>
#include <vector>

#ifndef VH_STD
    #include <etl/bitset.hpp>
    #include <etl/string_view.hpp>
#endif

using vh::json;

#ifndef BH_WORD
    #define BH_WORD 0
#endif
#ifndef BH_WIDTHS
    #define BH_WIDTHS 1, 2, 3, 4, 5
#endif

namespace {

// ---- plain data between the (templated) calls on the library and the (non-templated) JSON side --------------
struct Call {
    std::string op, o, src = "a", src2 = "a";
    long p = 0, q = 0, v = 0, pos = 0, cnt = -1;
    uint64_t val = 0;
    std::string str;
    char zero = '0', one = '1';
};
struct Obs {
    long size = 0, count = 0;
    std::vector<int> test, idx, ref, rnot;
    bool has_test = false, all = false, any = false, none = false, has_conv = false, has_str = false;
    uint64_t ul = 0, ull = 0;
    std::string str, strz, strc;
};

#ifdef VH_STD
template <size_t N>
using bits_t = std::bitset<N>;
using sv_t   = std::string; // libstdc++ 12: the string constructor takes basic_string
constexpr bool is_basic = false;
#else
    #if BH_WORD == 0
template <size_t N>
using bits_t = etl::bitset<N>;
constexpr bool is_basic = false;
    #else
        #if BH_WORD == 8
using word_t = std::uint8_t;
        #elif BH_WORD == 16
using word_t = std::uint16_t;
        #elif BH_WORD == 32
using word_t = std::uint32_t;
        #else
using word_t = std::uint64_t;
        #endif
template <size_t N>
using bits_t = etl::basic_bitset<N, word_t>;
constexpr bool is_basic = true;
    #endif
using sv_t = etl::string_view;
#endif

template <size_t N>
struct Lib {
    using B = bits_t<N>;

    static std::vector<int> project(B const& b)
    {
        std::vector<int> r(N);
        for (size_t i = 0; i < N; ++i) { r[i] = b[i] ? 1 : 0; }
        return r;
    }

    static Obs observe(B& b)
    {
        B const& cb = b;
        Obs o;
        o.size = (long)cb.size();
        for (size_t i = 0; i < N; ++i) {
            if constexpr (requires { cb.test(i); }) {
                o.has_test = true;
                o.test.push_back(cb.test(i) ? 1 : 0);
            } else if constexpr (requires { cb.unchecked_test(i); }) {
                o.has_test = true;
                o.test.push_back(cb.unchecked_test(i) ? 1 : 0);
            }
            o.idx.push_back(cb[i] ? 1 : 0);
            o.ref.push_back(static_cast<bool>(b[i]) ? 1 : 0);
            o.rnot.push_back((~b[i]) ? 1 : 0);
        }
        o.count = (long)cb.count();
        o.all   = cb.all();
        o.any   = cb.any();
        o.none  = cb.none();
        if constexpr (N <= 64) {
            if constexpr (requires { cb.to_ulong(); cb.to_ullong(); }) {
                o.has_conv = true;
                o.ul       = (uint64_t)cb.to_ulong();
                o.ull      = (uint64_t)cb.to_ullong();
            }
        }
#ifdef VH_STD
        o.has_str = true;
        o.str     = cb.to_string();
        o.strz    = cb.to_string('*');
        o.strc    = cb.to_string('O', 'X');
#else
        if constexpr (requires { cb.template to_string<N>(); }) {
            o.has_str = true;
            auto s1   = cb.template to_string<N>();
            auto s2   = cb.template to_string<N>('*');
            auto s3   = cb.template to_string<N>('O', 'X');
            o.str.assign(s1.begin(), s1.end());
            o.strz.assign(s2.begin(), s2.end());
            o.strc.assign(s3.begin(), s3.end());
        }
#endif
        return o;
    }

    // returns false when the operation is not provided by this instantiation; self: the member returned *this
    static bool apply(B* ob, Call const& c, int& self)
    {
        B& b           = ob[c.o == "a" ? 0 : 1];
        B const& src   = ob[c.src == "a" ? 0 : 1];
        B const& src2  = ob[c.src2 == "a" ? 0 : 1];
        size_t const p = (size_t)c.p, q = (size_t)c.q;
        bool const v   = c.v != 0;
        self           = -1;
        auto same      = [&](B& r) { self = (&r == &b) ? 1 : 0; };
        std::string const& op = c.op;
        if (op == "set_all") { same(b.set()); }
        else if (op == "reset_all") { same(b.reset()); }
        else if (op == "flip_all") { same(b.flip()); }
        else if (op == "set_one") {
            if constexpr (requires { b.unchecked_set(p, v); }) { same(b.unchecked_set(p, v)); } else { same(b.set(p, v)); }
        } else if (op == "set_one1") {
            if constexpr (requires { b.unchecked_set(p); }) { same(b.unchecked_set(p)); } else { same(b.set(p)); }
        } else if (op == "reset_one") {
            if constexpr (requires { b.unchecked_reset(p); }) { same(b.unchecked_reset(p)); } else { same(b.reset(p)); }
        } else if (op == "flip_one") {
            if constexpr (requires { b.unchecked_flip(p); }) { same(b.unchecked_flip(p)); } else { same(b.flip(p)); }
        } else if (op == "ref_assign") { b[p] = v; }
        else if (op == "ref_flip") { b[p].flip(); }
        else if (op == "ref_copy") {
            B& s = ob[c.src == "a" ? 0 : 1];
            b[p] = s[q];
        } else if (op == "and_assign") { same(b &= src); }
        else if (op == "or_assign") { same(b |= src); }
        else if (op == "xor_assign") { same(b ^= src); }
        else if (op == "copy_assign") { b = src; }
        else if (op == "assign_not") {
            if constexpr (requires { ~src; }) { b = ~src; } else { return false; }
        } else if (op == "bin_and") { b = src & src2; }
        else if (op == "bin_or") { b = src | src2; }
        else if (op == "bin_xor") { b = src ^ src2; }
        else if (op == "ctor_default") { b = B(); }
        else if (op == "ctor_ull") { b = B((unsigned long long)c.val); }
        else if (op.rfind("ctor_sv", 0) == 0 || op.rfind("ctor_cstr", 0) == 0) {
            if constexpr (is_basic) {
                return false;
            } else {
                sv_t sv(c.str.data(), c.str.size());
                auto const npos = sv_t::npos;
                auto const n    = c.cnt < 0 ? npos : (decltype(npos))c.cnt;
                auto const pos  = (decltype(npos))c.pos;
                char const* cs  = c.str.c_str();
                if (op == "ctor_sv1") { b = B(sv); }
                else if (op == "ctor_sv2") { b = B(sv, pos); }
                else if (op == "ctor_sv3") { b = B(sv, pos, n); }
                else if (op == "ctor_sv5") { b = B(sv, pos, n, c.zero, c.one); }
                else if (op == "ctor_cstr1") { b = B(cs); }
                else if (op == "ctor_cstr2") { b = B(cs, n); }
                else if (op == "ctor_cstr4") { b = B(cs, n, c.zero, c.one); }
                else { return false; }
            }
        } else {
            return false;
        }
        return true;
    }

    static bool eq(B const& a, B const& b) { return a == b; }
    static bool ne(B const& a, B const& b) { return a != b; }
};

// ---- JSON side (not templated on the library types) ------------------------------------------------------------
json limbs(uint64_t v) { return json::array({(long)(v & 0xFFFF), (long)((v >> 16) & 0xFFFF), (long)((v >> 32) & 0xFFFF), (long)((v >> 48) & 0xFFFF)}); }
json codes(std::string const& s)
{
    json a = json::array();
    for (unsigned char ch : s) { a.push_back((int)ch); }
    return a;
}
json xjson(Call const& c)
{
    return json{{"p", c.p}, {"q", c.q}, {"v", c.v}, {"src", c.src}, {"src2", c.src2}, {"val", limbs(c.val)}, {"str", codes(c.str)},
        {"pos", c.pos}, {"cnt", c.cnt}, {"zero", (int)(unsigned char)c.zero}, {"one", (int)(unsigned char)c.one}};
}
Call call_of(json const& ln)
{
    Call c;
    c.op          = ln["op"].get<std::string>();
    c.o           = ln["o"].get<std::string>();
    json const& x = ln["x"];
    c.p           = x.value("p", 0L);
    c.q           = x.value("q", 0L);
    c.v           = x.value("v", 0L);
    c.src         = x.value("src", std::string("a"));
    c.src2        = x.value("src2", std::string("a"));
    c.pos         = x.value("pos", 0L);
    c.cnt         = x.value("cnt", -1L);
    c.zero        = (char)x.value("zero", 48);
    c.one         = (char)x.value("one", 49);
    if (x.contains("val")) {
        uint64_t v = 0;
        for (size_t k = 0; k < 4 && k < x["val"].size(); ++k) { v |= (uint64_t)x["val"][k].get<long>() << (16 * k); }
        c.val = v;
    }
    if (x.contains("str")) {
        for (auto const& ch : x["str"]) { c.str.push_back((char)ch.get<int>()); }
    }
    return c;
}
json obs_json(Obs const& o)
{
    json j{{"size", o.size}, {"idx", o.idx}, {"ref", o.ref}, {"rnot", o.rnot}, {"count", o.count}, {"all", o.all}, {"any", o.any},
        {"none", o.none}};
    if (o.has_test) { j["test"] = o.test; }
    if (o.has_conv) {
        j["ul"]  = limbs(o.ul);
        j["ull"] = limbs(o.ull);
    }
    if (o.has_str) {
        j["str"]  = codes(o.str);
        j["strz"] = codes(o.strz);
        j["strc"] = codes(o.strc);
    }
    return j;
}

struct Args {
    std::string mode, script;
    std::vector<json> const* lines = nullptr;
    long n = 0, steps = 0, start = 0;
    uint64_t seed = 1;
};

template <size_t N>
struct Runner {
    using L = Lib<N>;
    typename L::B ob[2];
    std::string inst;
    long nev = 0, nrun = 0, nskip = 0, ndesync = 0;
    std::vector<std::string> unsupported;

    json state() { return json{{"a", L::project(ob[0])}, {"b", L::project(ob[1])}}; }
    void reset() { ob[0] = ob[1] = typename L::B(); }

    bool step(Call const& c, bool emit)
    {
        json ev{{"op", c.op}, {"o", c.o}, {"x", xjson(c)}, {"n", (long)N}, {"kind", is_basic ? "basic" : "bitset"}, {"pre", state()},
            {"inst", inst}};
        vhc::set_pending(ev);
        ++nrun;
        int self = -1;
        if (!L::apply(ob, c, self)) {
            ++nskip;
            if (std::find(unsupported.begin(), unsupported.end(), c.op) == unsupported.end()) {
                unsupported.push_back(c.op);
                std::fprintf(stderr, "UNSUPPORTED %s %s\n", inst.c_str(), c.op.c_str());
            }
            return false;
        }
        if (!emit) { return true; }
        ev["post"] = state();
        if (self >= 0) { ev["self"] = self == 1; }
        ev["obs"] = json{{"a", obs_json(L::observe(ob[0]))}, {"b", obs_json(L::observe(ob[1]))}, {"eq", L::eq(ob[0], ob[1])},
            {"ne", L::ne(ob[0], ob[1])}};
        vh::emit(ev);
        ++nev;
        return true;
    }

    // lines {reset} | {op,o,x,post,last}: only the planned edge (`last`) is recorded, its prefix is the complete
    // script of another edge; a prefix call that misses the planned state ends the script (counted)
    void replay(std::vector<json> const& lines, long start)
    {
        long si     = -1;
        bool broken = false;
        for (auto const& ln : lines) {
            if (ln.contains("reset")) {
                ++si;
                if (si < start) { continue; }
                vhc::begin_script(si);
                reset();
                broken = false;
                continue;
            }
            if (si < start || broken) { continue; }
            bool last = ln.value("last", 0) != 0;
            if (!step(call_of(ln), last)) {
                broken = true;
                continue;
            }
            if (!last && ln.contains("post") && state() != ln["post"]) {
                broken = true;
                ++ndesync;
            }
        }
    }

    // seeded random history mixing whole-set and single-bit operations; every observer after every call
    void random_history(vh::Rng& rng, long steps)
    {
        static char const* const ops[] = {"set_all", "reset_all", "flip_all", "flip_all", "set_one", "set_one", "set_one1", "reset_one",
            "flip_one", "flip_one", "ref_assign", "ref_assign", "ref_flip", "ref_copy", "ref_copy", "and_assign", "or_assign",
            "xor_assign", "copy_assign", "assign_not", "bin_and", "bin_or", "bin_xor", "ctor_default", "ctor_ull", "ctor_ull", "ctor_sv1",
            "ctor_sv2", "ctor_sv3", "ctor_sv5", "ctor_cstr1", "ctor_cstr2", "ctor_cstr4"};
        constexpr long nops = (long)(sizeof(ops) / sizeof(ops[0]));
        reset();
        { struct itimerval tv{{0, 0}, {120, 0}}; setitimer(ITIMER_VIRTUAL, &tv, nullptr); } // CPU time, not wall-clock
        for (long i = 0; i < steps; ++i) {
            Call c;
            c.op = ops[rng.range(0, nops - 1)];
            if (is_basic && (c.op == "assign_not" || c.op.rfind("ctor_sv", 0) == 0 || c.op.rfind("ctor_cstr", 0) == 0)) { continue; }
            c.o    = rng.coin() ? "a" : "b";
            c.src  = rng.coin() ? "a" : "b";
            c.src2 = rng.coin() ? "a" : "b";
            // positions: biased towards the word boundaries and the last bit
            auto posn = [&]() -> long {
                long const cand[] = {0, (long)N - 1, 7, 8, 15, 16, 31, 32, 63, 64, 127, 128, (long)N - 2};
                if (rng.coin(50)) {
                    long k = cand[rng.range(0, 12)];
                    if (k >= 0 && k < (long)N) { return k; }
                }
                return rng.range(0, (long)N - 1);
            };
            c.p = posn();
            c.q = posn();
            c.v = rng.range(0, 1);
            switch (rng.range(0, 3)) {
            case 0: c.val = ~0ull; break;
            case 1: c.val = 1ull << rng.range(0, 63); break;
            default: c.val = rng.next(); break;
            }
            if (c.op.rfind("ctor_sv", 0) == 0 || c.op.rfind("ctor_cstr", 0) == 0) {
                bool custom = c.op == "ctor_sv5" || c.op == "ctor_cstr4";
                c.zero      = custom ? 'a' : '0';
                c.one       = custom ? 'b' : '1';
                bool cstr   = c.op.rfind("ctor_cstr", 0) == 0;
                long rlen   = rng.coin(30) ? (long)N : rng.range(0, (long)N);
                long pre    = (c.op == "ctor_sv2" || c.op == "ctor_sv3" || c.op == "ctor_sv5") ? rng.range(0, 3) : 0;
                bool hascnt = c.op == "ctor_sv3" || c.op == "ctor_sv5" || c.op == "ctor_cstr2" || c.op == "ctor_cstr4";
                long post   = hascnt ? rng.range(0, 3) : 0;
                for (long k = 0; k < pre; ++k) { c.str.push_back('x'); }
                for (long k = 0; k < rlen; ++k) { c.str.push_back(rng.coin() ? c.one : c.zero); }
                for (long k = 0; k < post; ++k) { c.str.push_back('x'); }
                c.pos = pre;
                c.cnt = hascnt ? (post == 0 && rng.coin() ? -1 : rlen) : -1;
                (void)cstr;
            }
            step(c, true);
        }
    }
};

template <size_t N>
int run_n(Args const& a)
{
#ifdef VH_STD
    std::string inst = "std_" + std::to_string(N);
#else
    std::string inst = (BH_WORD == 0 ? std::string("bitset") : "basic" + std::to_string(BH_WORD)) + "_" + std::to_string(N);
#endif
    Runner<N> r;
    r.inst = inst;
    if (a.mode == "replay") {
        r.replay(*a.lines, a.start);
    } else {
        vh::Rng rng(a.seed * 1000003ull + N * 7919ull + (uint64_t)BH_WORD * 31ull);
        r.random_history(rng, a.steps);
    }
    std::fprintf(stderr, "SUMMARY inst=%s events=%ld calls=%ld unsupported=%ld desync=%ld\n", inst.c_str(), r.nev, r.nrun, r.nskip,
        r.ndesync);
    return 0;
}

template <size_t... Ns>
int dispatch(Args const& a, std::index_sequence<Ns...>)
{
    int rc     = 2;
    bool found = false;
    auto one   = [&](auto nc) {
        constexpr size_t N = decltype(nc)::value;
        if ((long)N != a.n) { return; }
        found = true;
        rc    = run_n<N>(a);
    };
    (one(std::integral_constant<size_t, Ns>{}), ...);
    if (!found) { std::fprintf(stderr, "width %ld not compiled in\n", a.n); }
    return rc;
}

} // namespace

// usage: bitset_driver replay <n> <script>
//        bitset_driver random <n> <steps> <seed>
int main(int argc, char** argv)
{
    if (argc < 4) {
        std::fprintf(stderr, "usage\n");
        return 2;
    }
    Args a;
    a.mode = argv[1];
    a.n    = std::atol(argv[2]);
    std::vector<json> lines;
    if (a.mode == "replay") {
        a.script = argv[3];
        lines    = vh::read_ndjson(a.script);
        a.lines  = &lines;
    } else {
        a.steps = std::atol(argv[3]);
        a.seed  = argc > 4 ? std::strtoull(argv[4], nullptr, 10) : vh::env_seed();
    }
    return vhc::run_contained(a.mode == "replay", [&](long start) {
        a.start = start;
        return dispatch(a, std::index_sequence<BH_WIDTHS>{});
    });
}
