------------------------------ MODULE Array ------------------------------
(* Two arrays a, b of fixed length Len over Vals.  TLC proves (MC role) that the length never changes, that    *)
(* an operation on one object leaves the other alone unless it is the swap partner, that the declarative        *)
(* lexicographic order equals the operational one of [alg.lex.comparison] and is a strict total order           *)
(* consistent with ==, that reverse iteration is an involution - and exports every transition (GEN role).       *)
EXTENDS ArrayOps, TLC, Json

CONSTANTS NLen, Vals

VARIABLES st, last
vars == <<st, last>>
View == st

Objs == {"a", "b"}
Zero == Fill(NLen, 0)
SeqsOf(k) == [1..k -> Vals]
X0 == [i |-> 0, v |-> 0, xs |-> <<>>]
Call(op, o, x) == [op |-> op, o |-> o, x |-> x]

\* the state space is spanned by assignments into a still all-zero object; writes through the individual access
\* paths are offered while the other object is all-zero (they do not depend on it)
Calls ==
    {Call(op, o, [X0 EXCEPT !.xs = xs]) : op \in {"assign", "to_array", "to_array_rv"}, o \in {p \in Objs : st[p] = Zero}, xs \in SeqsOf(NLen)}
    \cup {Call("assign_partial", o, [X0 EXCEPT !.xs = xs]) : o \in {p \in Objs : st[p] = Zero}, xs \in UNION {SeqsOf(k) : k \in 0..(NLen - 1)}}
    \cup {Call("fill", o, [X0 EXCEPT !.v = v]) : o \in Objs, v \in Vals}
    \cup {Call(op, o, X0) : op \in TwoObjOps, o \in Objs}
    \cup {Call(op, o, [X0 EXCEPT !.i = i, !.v = v]) :
              op \in IndexSetOps \cup {"set_riter"}, o \in {p \in Objs : st[Other(p)] = Zero}, i \in 0..(NLen - 1), v \in Vals}
    \cup {Call(op, o, [X0 EXCEPT !.v = v]) : op \in {"set_front", "set_back"}, o \in {p \in Objs : st[Other(p)] = Zero}, v \in Vals}
    \cup {Call("get_rv", o, [X0 EXCEPT !.i = i]) : o \in {p \in Objs : st[Other(p)] = Zero}, i \in 0..(NLen - 1)}

St0 == [a |-> Zero, b |-> Zero]
Init == st = St0 /\ last = [op |-> "init", o |-> "a", x |-> X0, pre |-> St0, post |-> St0, ret |-> 0]

\* the model's element type is int (get_rv leaves the element alone); the Tracked flavour is judged on traces
Step(c) ==
    /\ Pre(c.op, c.o, c.x, st)
    /\ LET ef == Eff(c.op, c.o, c.x, st, "int") IN
       /\ st' = ef.st
       /\ last' = [op |-> c.op, o |-> c.o, x |-> c.x, pre |-> st, post |-> ef.st, ret |-> ef.ret]

Next == \E c \in Calls : Step(c)
Spec == Init /\ [][Next]_vars
Emit == PrintT(<<"GEN", ToJson(last')>>)

\* ---- what TLC proves ------------------------------------------------------------------------------------
TypeOK == st.a \in SeqsOf(NLen) /\ st.b \in SeqsOf(NLen)
FixedLength == Len(st.a) = NLen /\ Len(st.b) = NLen

\* [alg.lex.comparison] operationally: walk both ranges, the first difference decides, the shorter range is less
RECURSIVE LexLoop(_, _, _)
LexLoop(s, t, i) ==
    IF i > Len(t) THEN FALSE
    ELSE IF i > Len(s) THEN TRUE
    ELSE IF s[i] < t[i] THEN TRUE
    ELSE IF t[i] < s[i] THEN FALSE
    ELSE LexLoop(s, t, i + 1)
LexDefsAgree == LexLess(st.a, st.b) = LexLoop(st.a, st.b, 1) /\ LexLess(st.b, st.a) = LexLoop(st.b, st.a, 1)

OrderLaws ==
    LET a == st.a b == st.b IN
    /\ (LexLess(a, b) \/ LexLess(b, a) \/ a = b)
    /\ ~(LexLess(a, b) /\ LexLess(b, a))
    /\ (a = b => ~LexLess(a, b))
    /\ ~LexLess(a, a)

RevInvolution == Rev(Rev(st.a)) = st.a /\ Rev(Rev(st.b)) = st.b

Independence ==
    [][\A o \in Objs : (last'.o # o /\ last'.op \notin {"swap", "fswap"}) => st'[o] = st[o]]_vars
SwapLaw ==
    [][last'.op \in {"swap", "fswap"} => (st'.a = st.b /\ st'.b = st.a)]_vars
\* a write through any access path changes exactly one element
SingleWrite ==
    [][last'.op \in SetOps =>
          LET o == last'.o IN Cardinality({i \in 1..NLen : st'[o][i] # st[o][i]}) <= 1 /\ st'[o][Target(last'.op, last'.x, NLen)] = last'.x.v]_vars
==========================================================================
