-------------------------------- MODULE Float --------------------------------
(* Model checking of the oracle itself + export of the binary32 boundary table (pure input-domain enumerator). *)
(*                                                                                                              *)
(* Mode "toy1"/"toy2": two 9-bit minifloat formats (4 exponent bits, 4 mantissa bits; mantissa in one limb /    *)
(*   in two limbs, so both limb code paths of FloatOps are exercised).  ALL 512 values and ALL 262 144 pairs    *)
(*   (Tier "quick": every value x 7/16 of the second operands) are enumerated and every exact operator is        *)
(*   compared with an independent DECLARATIVE definition on the                                                  *)
(*   exact value  (the value scaled by 2^(bias+P-1) is an integer < 2^18):  floor/ceil/trunc/round/rint by       *)
(*   integer division, fmod/remainder by  %  on the scaled integers, nextafter by "no value in between",         *)
(*   UlpLE by the integer key, fdim by subtraction.                                                              *)
(* Mode "toy3": a 1+4+6 bit format whose fraction is carried in THREE limbs (the structure used for the x87      *)
(*   80-bit format): all 2048 values, rounding to integer / nextafter / order against the exact values.           *)
(* Mode "f32": the real binary32 format on the boundary domain (every sign and exponent x boundary mantissas):   *)
(*   algebraic laws of the exact operators, and export of the table (one GEN line per value) that                *)
(*   harness/float_driver.cpp replays through the implementation.                                               *)
EXTENDS FloatOps, TLC, Json, FiniteSets

CONSTANTS Mode, Tier      \* Mode: "toy1" | "toy2" | "f32";  Tier: "quick" | "thorough"

VARIABLES k, x, y
vars == <<k, x, y>>

F == IF Mode = "f32" THEN F32 ELSE IF Mode = "toy2" THEN Toy ELSE [Toy EXCEPT !.W = 4]

(* ----------------------------------------------- domains ----------------------------------------------- *)
ToyValues == {V(s, e, h, l) : s \in {0, 1}, e \in 0..F.emax, h \in 0..(Pow2(HW(F)) - 1), l \in 0..(Pow2(F.W) - 1)}

\* binary32 boundary mantissas: 0, 1, 2, every power of two, every pair of adjacent bits (k + 1/2 with odd k),
\* half -+ 1, all ones, all ones - 1
Mants32 == {0, 1, 2} \cup {Pow2(i) : i \in 2..22} \cup {3 * Pow2(i) : i \in 0..21}
           \cup {Pow2(22) - 1, Pow2(22) + 1, Pow2(23) - 1, Pow2(23) - 2}
Dom32 == {V(s, e, 0, m) : s \in {0, 1}, e \in 0..255, m \in Mants32}
Small32 == {V(s, e, 0, m) : s \in {0, 1}, e \in {0, 1, 2, 104, 126, 127, 128, 149, 150, 151, 253, 254, 255},
                             m \in {0, 1, Pow2(22), Pow2(23) - 1}}

\* Three levels so that the work is done by TLC's worker threads (initial states are evaluated by one thread only):
\*   "i" one seed per (sign, exponent)  ->  "u" every value of the domain (unary laws, export)
\*   ->  "b" every pair over the pair domain (binary laws)
Seeds == {V(s, e, 0, 0) : s \in {0, 1}, e \in 0..F.emax}
Mants == IF Mode = "f32" THEN {[h |-> 0, l |-> m] : m \in Mants32}
         ELSE {[h |-> h, l |-> l] : h \in 0..(Pow2(HW(F)) - 1), l \in 0..(Pow2(F.W) - 1)}
\* pair domain: first operand / second operand (quick tier: the second operand of the toy formats is thinned out)
XDom == IF Mode = "f32" THEN Small32 ELSE ToyValues
YDom == IF Mode = "f32" THEN Small32
        ELSE IF Tier = "quick" THEN {v \in ToyValues : (v.h * Pow2(F.W) + v.l) \in {0, 1, 2, 5, 8, 11, 15}}
        ELSE ToyValues

\* Mode "toy3": the three-limb format (x87 structure) - values are [s, e, m = <<m1, m2, m3>>]
Toy3Values == {NV(s, e, <<a, b, c>>) : s \in {0, 1}, e \in 0..Toy3.emax, a \in 0..3, b \in 0..3, c \in 0..3}
Toy3Y == {v \in Toy3Values : v.m \in {<<0, 0, 0>>, <<0, 0, 1>>, <<2, 0, 0>>, <<1, 3, 3>>, <<3, 3, 3>>}}
Init3 == k = "i" /\ x \in {NV(s, e, <<0, 0, 0>>) : s \in {0, 1}, e \in 0..Toy3.emax} /\ y = x
Next3 ==
    \/ /\ k = "i" /\ k' = "u"
       /\ \E a \in 0..3, b \in 0..3, c \in 0..3 : x' = NV(x.s, x.e, <<a, b, c>>)
       /\ y' = x'
    \/ /\ k = "u" /\ k' = "b" /\ x' = x /\ y' \in Toy3Y

Init == IF Mode = "toy3" THEN Init3 ELSE k = "i" /\ x \in Seeds /\ y = x
Next == IF Mode = "toy3" THEN Next3 ELSE
    \/ /\ k = "i" /\ k' = "u"
       /\ \E m \in Mants : x' = V(x.s, x.e, m.h, m.l)
       /\ y' = x'
    \/ /\ k = "u" /\ x \in XDom /\ k' = "b"
       /\ x' = x /\ y' \in YDom
Spec == Init /\ [][Next]_vars

(* ------------------------------------ exact values in the toy formats ------------------------------------ *)
SigInt(v) == LET sg == Sig(F, v) IN sg.h * Pow2(F.W) + sg.l
MagVal(v) == SigInt(v) * Pow2(EffExp(v) - 1)             \* |v| * 2^(bias + P - 1), finite v
SVal(v) == IF v.s = 1 THEN -MagVal(v) ELSE MagVal(v)
Unit == Pow2(F.bias + F.P - 1)                           \* the scaled value of 1.0
AbsI(n) == IF n < 0 THEN -n ELSE n
SgnI(n) == IF n < 0 THEN -1 ELSE 1

DeclInt(mode, v) ==      \* the integer the value v/Unit rounds to
    LET a == AbsI(v) q == a \div Unit r == a % Unit IN
    CASE mode = "down" -> v \div Unit                    \* \div is floor division
      [] mode = "up" -> -((-v) \div Unit)
      [] mode = "zero" -> SgnI(v) * q
      [] mode = "away" -> SgnI(v) * (IF 2 * r >= Unit THEN q + 1 ELSE q)
      [] mode = "even" -> SgnI(v) * (IF 2 * r > Unit \/ (2 * r = Unit /\ q % 2 = 1) THEN q + 1 ELSE q)

Modes == {"down", "up", "zero", "away", "even"}
\* RoundInt agrees with integer arithmetic on the exact value; a zero result keeps the sign of the argument
ToyRoundOK ==
    \A mode \in Modes :
        LET r == RoundInt(F, x, mode) IN
        IF IsNaN(F, x) THEN IsNaN(F, r)
        ELSE IF IsInf(F, x) THEN r = x
        ELSE /\ WellFormed(F, r) /\ IsFinite(F, r)
             /\ SVal(r) = DeclInt(mode, SVal(x)) * Unit
             /\ (IsZero(r) => r.s = x.s)

ToyFModOK ==
    LET r == FMod(F, x, y) IN
    IF IsNaN(F, x) \/ IsNaN(F, y) \/ IsInf(F, x) \/ IsZero(y) THEN IsNaN(F, r)
    ELSE IF IsInf(F, y) THEN r = x
    ELSE /\ WellFormed(F, r) /\ IsFinite(F, r)
         /\ SVal(r) = SgnI(SVal(x)) * (AbsI(SVal(x)) % AbsI(SVal(y)))
         /\ (IsZero(r) => r.s = x.s)

ToyRemainderOK ==
    LET r == Remainder(F, x, y) IN
    IF IsNaN(F, x) \/ IsNaN(F, y) \/ IsInf(F, x) \/ IsZero(y) THEN IsNaN(F, r)
    ELSE IF IsInf(F, y) THEN r = x
    ELSE LET a == AbsI(SVal(x)) b == AbsI(SVal(y)) q == a \div b m == a % b
             rr == IF 2 * m > b \/ (2 * m = b /\ q % 2 = 1) THEN m - b ELSE m     \* x - n*y for |x|, |y|
         IN /\ WellFormed(F, r) /\ IsFinite(F, r)
            /\ SVal(r) = (IF x.s = 1 THEN -rr ELSE rr)
            /\ (IsZero(r) => r.s = x.s)

NonNaN == {v \in ToyValues : ~IsNaN(F, v)}
\* nextafter: towards +-infinity the result is strictly beyond x and no representable value lies strictly in
\* between (checked once per value); for every pair nextafter(x, y) is that neighbour on the side of y
Up(v) == NextAfter(F, v, Inf(F, 0))
Dn(v) == NextAfter(F, v, Inf(F, 1))
ToyNeighbourOK ==
    ~IsNaN(F, x) =>
        /\ WellFormed(F, Up(x)) /\ WellFormed(F, Dn(x)) /\ ~IsNaN(F, Up(x)) /\ ~IsNaN(F, Dn(x))
        /\ (x # Inf(F, 0)) => (Lt(x, Up(x)) /\ \A z \in NonNaN : ~(Lt(x, z) /\ Lt(z, Up(x))))
        /\ (x # Inf(F, 1)) => (Lt(Dn(x), x) /\ \A z \in NonNaN : ~(Lt(Dn(x), z) /\ Lt(z, x)))
        /\ (IsZero(Up(x)) => Up(x).s = x.s) /\ (IsZero(Dn(x)) => Dn(x).s = x.s)   \* stepping onto zero keeps the sign
ToyNextAfterOK ==
    LET r == NextAfter(F, x, y) IN
    IF IsNaN(F, x) \/ IsNaN(F, y) THEN IsNaN(F, r)
    ELSE IF NumEq(x, y) THEN r = y
    ELSE IF Lt(x, y) THEN r = Up(x) /\ Le(r, y) ELSE r = Dn(x) /\ Le(y, r)

ToyFDimOK ==
    LET r == FDim(F, x, y) IN
    IF IsNaN(F, x) \/ IsNaN(F, y) THEN IsNaN(F, r)
    ELSE IF Le(x, y) THEN r = Zero(0)
    ELSE IF IsInf(F, x) \/ IsInf(F, y) THEN r = Inf(F, 0)
    ELSE FDimExact(F, x, y) => (WellFormed(F, r) /\ IsFinite(F, r) /\ r.s = 0 /\ SVal(r) = SVal(x) - SVal(y))

\* the total order / numeric order against the exact values; UlpLE against the integer key
Key(v) == LET m == (v.e * Pow2(HW(F)) + v.h) * Pow2(F.W) + v.l IN IF v.s = 1 THEN -m ELSE m
ToyOrderOK ==
    (~IsNaN(F, x) /\ ~IsNaN(F, y)) =>
        /\ (IsFinite(F, x) /\ IsFinite(F, y)) => (Lt(x, y) <=> SVal(x) < SVal(y))
        /\ Lt(x, y) <=> Key(x) < Key(y)
        /\ TotLt(x, y) <=> (Key(x) < Key(y) \/ (Key(x) = Key(y) /\ x.s = 1 /\ y.s = 0))
        /\ \A tol \in {0, 1, 5, 12} : UlpLE(F, x, y, tol) <=> AbsI(Key(x) - Key(y)) <= tol
ToyMinMaxOK ==
    (IsFinite(F, x) /\ IsFinite(F, y) /\ ~(IsZero(x) /\ IsZero(y))) =>
        /\ FMaxOK(F, x, y, IF SVal(x) < SVal(y) THEN y ELSE x)
        /\ FMinOK(F, x, y, IF SVal(y) < SVal(x) THEN y ELSE x)
        /\ \A r \in {x, y} : (FMaxOK(F, x, y, r) => Le(x, r) /\ Le(y, r)) /\ (FMinOK(F, x, y, r) => Le(r, x) /\ Le(r, y))

ToyLaws == Mode \in {"toy1", "toy2"} =>
    /\ (k = "u" => ToyRoundOK /\ ToyNeighbourOK)
    /\ k = "b" => ToyFModOK /\ ToyRemainderOK /\ ToyNextAfterOK /\ ToyFDimOK /\ ToyOrderOK /\ ToyMinMaxOK

(* ------------------------------------- the three-limb toy format ------------------------------------- *)
N3 == Toy3
NMantInt(v) == v.m[1] * 16 + v.m[2] * 4 + v.m[3]
NMagVal(v) == (IF v.e = 0 THEN NMantInt(v) ELSE NMantInt(v) + 64) * Pow2((IF v.e = 0 THEN 1 ELSE v.e) - 1)
NSVal(v) == IF v.s = 1 THEN -NMagVal(v) ELSE NMagVal(v)
NUnit == Pow2(N3.bias + N3.P - 1)
NDeclInt(mode, v) ==
    LET a == AbsI(v) q == a \div NUnit r == a % NUnit IN
    CASE mode = "down" -> v \div NUnit
      [] mode = "up" -> -((-v) \div NUnit)
      [] mode = "zero" -> SgnI(v) * q
      [] mode = "away" -> SgnI(v) * (IF 2 * r >= NUnit THEN q + 1 ELSE q)
      [] mode = "even" -> SgnI(v) * (IF 2 * r > NUnit \/ (2 * r = NUnit /\ q % 2 = 1) THEN q + 1 ELSE q)
Toy3RoundOK ==
    \A mode \in Modes :
        LET r == NRoundInt(N3, x, mode) IN
        IF NIsNaN(N3, x) THEN NIsNaN(N3, r)
        ELSE IF NIsInf(N3, x) THEN r = x
        ELSE /\ NWellFormed(N3, r) /\ NIsFinite(N3, r)
             /\ NSVal(r) = NDeclInt(mode, NSVal(x)) * NUnit
             /\ (NIsZero(r) => r.s = x.s)
N3NonNaN == {v \in Toy3Values : ~NIsNaN(N3, v)}
NUp(v) == NNextAfter(N3, v, NInf(N3, 0))
NDn(v) == NNextAfter(N3, v, NInf(N3, 1))
Toy3NeighbourOK ==
    ~NIsNaN(N3, x) =>
        /\ NWellFormed(N3, NUp(x)) /\ NWellFormed(N3, NDn(x)) /\ ~NIsNaN(N3, NUp(x)) /\ ~NIsNaN(N3, NDn(x))
        /\ (x # NInf(N3, 0)) => (NLt(x, NUp(x)) /\ \A z \in N3NonNaN : ~(NLt(x, z) /\ NLt(z, NUp(x))))
        /\ (x # NInf(N3, 1)) => (NLt(NDn(x), x) /\ \A z \in N3NonNaN : ~(NLt(NDn(x), z) /\ NLt(z, x)))
        /\ (NIsZero(NUp(x)) => NUp(x).s = x.s) /\ (NIsZero(NDn(x)) => NDn(x).s = x.s)
Toy3PairOK ==
    (~NIsNaN(N3, x) /\ ~NIsNaN(N3, y)) =>
        /\ (NIsFinite(N3, x) /\ NIsFinite(N3, y)) => (NLt(x, y) <=> NSVal(x) < NSVal(y))
        /\ LET r == NNextAfter(N3, x, y) IN
           IF NNumEq(x, y) THEN r = y ELSE IF NLt(x, y) THEN r = NUp(x) /\ NLe(r, y) ELSE r = NDn(x) /\ NLe(y, r)
        /\ (~(NIsZero(x) /\ NIsZero(y))) => (NFMaxOK(N3, x, y, IF NLt(x, y) THEN y ELSE x) /\ NFMinOK(N3, x, y, IF NLt(y, x) THEN y ELSE x))
Toy3Laws == Mode = "toy3" => CASE k = "u" -> Toy3RoundOK /\ Toy3NeighbourOK [] k = "b" -> Toy3PairOK [] OTHER -> TRUE

(* ----------------------------------------- laws on binary32 ----------------------------------------- *)
Neg(v) == [v EXCEPT !.s = 1 - v.s]
UnaryLaws32 ==
    LET fl == Floor(F, x) ce == Ceil(F, x) tr == Trunc(F, x) ro == Round(F, x) ri == Rint(F, x) IN
    IF IsNaN(F, x) THEN IsNaN(F, fl) /\ IsNaN(F, ce) /\ IsNaN(F, tr) /\ IsNaN(F, ro) /\ IsNaN(F, ri)
    ELSE
    /\ \A r \in {fl, ce, tr, ro, ri} : WellFormed(F, r) /\ (IsFinite(F, x) => IsInteger(F, r)) /\ (IsZero(r) => r.s = x.s)
    /\ Le(fl, x) /\ Le(x, ce)                                         \* floor <= x <= ceil
    /\ (IsFinite(F, x) /\ IsInteger(F, x)) <=> (fl = x /\ IsFinite(F, x))
    /\ (fl = x) <=> (ce = x)
    /\ tr = CopySign(Floor(F, FAbs(x)), x)                             \* trunc = sign * floor|x|
    /\ ce = Neg(Floor(F, Neg(x)))                                      \* ceil(x) = -floor(-x)
    /\ tr = (IF x.s = 0 THEN fl ELSE ce)
    /\ ro \in {fl, ce} /\ ri \in {fl, ce}
    /\ \A m \in Modes : RoundInt(F, RoundInt(F, x, m), m) = RoundInt(F, x, m)       \* idempotent
    \* tie rules: on an exact tie round goes away from zero, rint to the even neighbour; otherwise they agree
    /\ (IsFinite(F, x) /\ ~IsInteger(F, x) /\ x.e >= F.bias) =>
          LET fb == FracBits(F, x) IN
          IF CmpHalf(F, x, fb) = 0
          THEN /\ ro = (IF x.s = 0 THEN ce ELSE fl)
               /\ ~IsOddInteger(F, ri) /\ (IsOddInteger(F, fl) \/ IsOddInteger(F, ce))
          ELSE ro = ri
    \* fl and ce are neighbouring integers: nothing integral strictly between (their ulp-free difference is one)
    /\ (IsFinite(F, x) /\ ~IsInteger(F, x)) => (Lt(fl, ce) /\ (FDimExact(F, ce, fl) => FDim(F, ce, fl) = One(F, 0)))
    \* lrint range guard and widening
    /\ (IsFinite(F, x) /\ LongInRange(F, ri)) => LET w == AsLong(F, ri) IN w.e <= 1023 + 63 /\ w.s \in {0, 1}
    \* nextafter towards +-infinity is strictly monotone in the total order and invertible
    /\ LET up == NextAfter(F, x, Inf(F, 0)) dn == NextAfter(F, x, Inf(F, 1)) IN
       /\ (x # Inf(F, 0)) => (Lt(x, up) /\ NumEq(NextAfter(F, up, Inf(F, 1)), x))
       /\ (x # Inf(F, 1)) => (Lt(dn, x) /\ NumEq(NextAfter(F, dn, Inf(F, 0)), x))
       /\ (x # Inf(F, 0) /\ ~IsZero(x)) => UlpLE(F, x, up, 1) /\ ~UlpLE(F, x, up, 0)

BinaryLaws32 ==
    (~IsNaN(F, x) /\ ~IsNaN(F, y)) =>
    /\ LET ux == NextAfter(F, x, Inf(F, 0)) uy == NextAfter(F, y, Inf(F, 0)) IN
       Lt(x, y) => Le(ux, uy) /\ Lt(x, uy)                            \* successor is monotone
    /\ LET r == NextAfter(F, x, y) IN (Lt(x, y) => Lt(x, r) /\ Le(r, y)) /\ (Lt(y, x) => Lt(r, x) /\ Le(y, r))
    /\ (IsFinite(F, x) /\ IsFinite(F, y) /\ ~IsZero(y)) =>
          LET r == FMod(F, x, y) q == Remainder(F, x, y) IN
          /\ WellFormed(F, r) /\ IsFinite(F, r) /\ r.s = x.s /\ MagLt(r, FAbs(y))          \* sign of x, |r| < |y|
          /\ WellFormed(F, q) /\ IsFinite(F, q) /\ MagLt(q, FAbs(y))
          /\ (IsZero(q) => q.s = x.s)
          /\ FMod(F, r, y) = r                                                              \* idempotent
          /\ (MagLt(x, y) => r = x)
          \* remainder is fmod or fmod -+ |y| : |q| <= |y|/2  <=>  2|q| <= |y|
          /\ (q = r \/ (q.s # x.s /\ ~IsZero(q)))
    /\ FMaxOK(F, x, y, IF Lt(x, y) THEN y ELSE x) /\ FMinOK(F, x, y, IF Lt(y, x) THEN y ELSE x)
    /\ Same(F, FDim(F, x, x), Zero(0))

Laws32 == Mode = "f32" => CASE k = "u" -> UnaryLaws32 [] k = "b" -> BinaryLaws32 [] OTHER -> TRUE

EmitInv == (Mode = "f32" /\ k = "u") => PrintT(<<"GEN", ToJson([s |-> x.s, e |-> x.e, m |-> x.l])>>)
==============================================================================
