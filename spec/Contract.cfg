SPECIFICATION Spec
CONSTANTS
  StrCaps = {4, 20}
INVARIANTS Total EmitInv
CHECK_DEADLOCK FALSE
