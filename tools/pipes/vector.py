"""Vector family pipeline (spec/Vector.tla, VectorOps.tla, VectorTrace.tla, harness/vector_driver.cpp).
Serves C01 (behaviour), C03 (life events), C02 (same histories under sanitizers)."""
import json
import os
import re
import vlib

KINDS = ("sv", "ipv", "stack")
ELEMS = ("int", "trk")


def _state_key(t, which):
    return json.dumps([t["cap"], t[which], t["premv" if which == "pre" else "postmv"]], sort_keys=True)


def _call(t):
    c = {"op": t["op"], "o": t["o"], "x": t["x"], "cap": t["cap"]}
    if t.get("bad"):
        c["bad"] = True
    return c


def model(tier, rep, name="Vector", mode="valid"):
    """MC + GEN for the three API surfaces. Returns {kind: {cap: script_path}} and stats."""
    consts = {"quick": {"Caps": "{0, 1, 2, 3}", "Vals": "{0, 1}", "MaxXs": "3"},
              "thorough": {"Caps": "{0, 1, 2, 3}", "Vals": "{0, 1, 2}", "MaxXs": "3"}}[tier]
    consts["Mode"] = '"%s"' % mode
    if mode == "contract":
        consts["Vals"] = "{0, 1}"
    from concurrent.futures import ThreadPoolExecutor
    out = {}

    def one(kind):
        c = dict(consts)
        if tier == "thorough" and kind != "sv":
            c["Caps"] = "{0, 1, 2, 3, 4}"
        return kind, vlib.tlc_mc("Vector.tla", "Vector_%s.cfg" % kind, "vector_%s_%s_%s" % (kind, tier, mode),
                                 workers=6 if kind == "sv" else 3, constants=c, heap="6g")
    with ThreadPoolExecutor(max_workers=3) as ex:
        res = dict(ex.map(one, KINDS))
    scripts = {}
    for kind, r in res.items():
        rep.add_mc("Vector[%s]" % kind, r)
        gen = [t for t in r["gen"] if t["op"] != "init"]
        empty = json.dumps({"a": [], "b": []}, sort_keys=True)
        sc, st = vlib.plan_edges(gen, _state_key, lambda n: json.loads(n)[1] == {"a": [], "b": []} and json.loads(n)[2] == [], _call,
                                 follow=lambda t: not t.get("bad"))
        st["bad_edges"] = sum(1 for t in gen if t.get("bad"))
        if st["unreachable"]:
            raise vlib.ModelFailure("planner: %d unreachable edges in Vector[%s]" % (st["unreachable"], kind))
        bycap = {}
        for s in sc:
            bycap.setdefault(s[-1]["cap"], []).append(s)
        scripts[kind] = {}
        d = vlib.workdir("scripts")
        for cap, ss in bycap.items():
            p = os.path.join(d, "vector_%s_%s_%s_cap%d.ndjson" % (kind, tier, mode, cap))
            vlib.write_scripts(ss, p)
            scripts[kind][cap] = (p, len(ss), ss)
        rep.cov["modules"]["Vector[%s]" % kind].update({"scripts": len(sc), "planner": st})
        pick = [x for x in sc if x[-1].get("bad")] if mode == "contract" else sc
        if pick:
            rep.sample({"module": "Vector[%s]" % kind, "script": pick[len(pick) // 2]})
    rep.cov["exhaustive"] = True
    return scripts


SMALL_CAPS = "0,1,2,3,4"
BIG_CAPS_Q = "7,8,255,256"
BIG_CAPS_T = "5,7,8,15,16,254,255,256"


# -fsanitize=unreachable,return (cheap UBSan subset): a violating call that runs into etl::unreachable() or off the end
# of a function must stop deterministically (-> outcome "trap" = contract-missed) instead of falling through by luck
_UB = ["-fsanitize=unreachable,return", "-fno-sanitize-recover=all"]
CONTRACT_FLAGS = {"checks": ["-DVH_CONTRACT", "-DTETL_ENABLE_CONTRACT_CHECKS", "-DTETL_ENABLE_CUSTOM_ASSERT_HANDLER"] + _UB,
                  "safe": ["-DVH_CONTRACT", "-DTETL_ENABLE_CONTRACT_CHECKS_SAFE", "-DTETL_ENABLE_CUSTOM_ASSERT_HANDLER"] + _UB}


def build_drivers(tier, sanitize=False, std=True, contract=None):
    san = ["-fsanitize=address,undefined", "-fno-sanitize-recover=all", "-g"] if sanitize else []
    sfx = ("_san" if sanitize else "") + (("_" + contract) if contract else "")
    if contract:
        san = san + CONTRACT_FLAGS[contract]
    big = BIG_CAPS_Q if tier == "quick" else BIG_CAPS_T
    jobs = [dict(src="vector_driver.cpp", out="vector_etl_small" + sfx, flags=["-DVH_CAPS=" + SMALL_CAPS] + san),
            dict(src="vector_driver.cpp", out="vector_etl_big" + sfx, flags=["-DVH_CAPS=" + big] + san)]
    if std:
        jobs.append(dict(src="vector_driver.cpp", out="vector_std_small" + sfx, flags=["-DVH_CAPS=" + SMALL_CAPS, "-DVH_STD"] + san,
                         include_repo=False))
        jobs.append(dict(src="vector_driver.cpp", out="vector_std_big" + sfx, flags=["-DVH_CAPS=" + big, "-DVH_STD"] + san,
                         include_repo=False))
    paths = vlib.build_many(jobs)
    return {"etl_small": paths[0], "etl_big": paths[1], "std_small": paths[2] if std else None,
            "std_big": paths[3] if std else None, "bigcaps": [int(c) for c in big.split(",")]}


RANDOM_ELEMS = ("int", "trk", "mo", "co")


def execute(tier, scripts, bins, impl="etl", tag="", random=True):
    """Replay all scripts + seeded random histories. Returns list of trace paths and counts."""
    d = vlib.workdir("traces")
    tasks = []
    outs = []
    nscripts = 0
    for kind in KINDS:
        if impl == "std" and kind == "ipv":
            continue
        for elem in ELEMS:
            for cap, (sp, n, _ss) in sorted(scripts[kind].items()):
                if kind == "stack" and cap == 0:
                    continue
                tp = os.path.join(d, "vector_%s_%s_%s_%d%s.ndjson" % (impl, kind, elem, cap, tag))
                tasks.append(([bins[impl + "_small"], "replay", kind, elem, str(cap), sp], tp))
                outs.append(tp)
                nscripts += n
    steps = 400 if tier == "quick" else 3000
    nhist = 0
    for kind in (KINDS if random else ()):
        if impl == "std" and kind == "ipv":
            continue
        for elem in RANDOM_ELEMS:
            if kind == "stack" and elem in ("mo", "co"):
                continue
            for cap in bins["bigcaps"]:
                tp = os.path.join(d, "vector_%s_%s_%s_r%d%s.ndjson" % (impl, kind, elem, cap, tag))
                tasks.append(([bins[impl + "_big"], "random", kind, elem, str(cap), str(steps), str(vlib.seed())], tp))
                outs.append(tp)
                nhist += 1
    res = vlib.run_parallel(tasks)
    unsupported = sorted({re.sub(r"_\d+ ", " ", l) for _, err in res for l in err.splitlines() if l.startswith("UNSUPPORTED")})
    leaks = [l for _, err in res for l in err.splitlines() if l.startswith("SUMMARY") and not l.endswith("live_delta=0")]
    return outs, {"scripts": nscripts, "histories": nhist, "unsupported": unsupported, "leaks": leaks}


def concat(paths, out, groups=8):
    """Merge trace files into `groups` files of similar size (one TLC each)."""
    sized = sorted(((os.path.getsize(p), p) for p in paths if os.path.exists(p) and os.path.getsize(p) > 0), reverse=True)
    bins = [[0, []] for _ in range(groups)]
    for sz, p in sized:
        b = min(bins, key=lambda b: b[0])
        b[0] += sz
        b[1].append(p)
    outs = []
    for i, (_, ps) in enumerate(bins):
        if not ps:
            continue
        op = "%s_%d.ndjson" % (out, i)
        with open(op, "wb") as f:
            for p in ps:
                with open(p, "rb") as g:
                    while True:
                        chunk = g.read(1 << 20)
                        if not chunk:
                            break
                        f.write(chunk)
        outs.append(op)
    return outs


def pipeline(tier, rep, calibrate=True):
    scripts = model(tier, rep)
    bins = build_drivers(tier)
    traces, st = execute(tier, scripts, bins, "etl")
    merged = concat(traces, os.path.join(vlib.workdir("traces"), "vector_etl_merged"), 8 if tier == "quick" else 14)
    tv = vlib.tv_parallel("VectorTrace.tla", "VectorTrace.cfg", merged, "vector_tv_etl")
    rep.add_tv("Vector", tv, st["scripts"] + st["histories"])
    rep.cov["modules"]["Vector"].update({"not_drivable": st["unsupported"]})
    if st["leaks"]:
        rep.notes.append({"live_count_imbalance": st["leaks"]})
    if calibrate:
        ctr, cst = execute(tier, scripts, bins, "std")
        cm = concat(ctr, os.path.join(vlib.workdir("traces"), "vector_std_merged"), 8 if tier == "quick" else 14)
        ctv = vlib.tv_parallel("VectorTrace.tla", "VectorTrace.cfg", cm, "vector_tv_std")
        if ctv["deviations"]:
            d = ctv["deviations"][0]
            raise vlib.ModelFailure("calibration: libstdc++ deviates from Vector spec (spec/projection error): %s %s"
                                    % (d["kind"], json.dumps(d.get("ev"))[:500]))
        rep.cov["modules"]["Vector"]["calibration_events_std"] = ctv["events"]
    return tv, st


def contract_pipeline(tier, rep):
    """C05 for the vector family: violating calls exported by the contract-mode model, run in forked
    children of the contract-checked build; plus every valid script in that build (no spurious firing)."""
    scripts = model(tier, rep, mode="contract")
    variants = ["checks"] if tier == "quick" else ["checks", "safe"]
    total = {"events": 0, "deviations": []}
    nscr = 0
    for var in variants:
        bins = build_drivers(tier, std=False, contract=var, sanitize=(tier == "thorough"))
        traces, st = execute(tier, scripts, bins, "etl", tag="_c" + var, random=True)
        merged = concat(traces, os.path.join(vlib.workdir("traces"), "vector_contract_%s" % var), 8)
        tv = vlib.tv_parallel("VectorTrace.tla", "VectorTrace.cfg", merged, "vector_tv_contract_" + var)
        rep.add_tv("Vector[contract:%s]" % var, tv, st["scripts"] + st["histories"])
        rep.cov["modules"]["Vector[contract:%s]" % var]["not_drivable"] = st["unsupported"]
        nscr += st["scripts"]
    return nscr


def memory_pipeline(tier, rep):
    """C02 for the vector family: the model's histories (incl. default-initialisation into dirty storage)
    are executed in an ASan+UBSan build with the allocation monitor; a sanitizer stop becomes a `trap`
    event (kind mem-trap), an allocation inside a library call mem-alloc."""
    scripts = model(tier, rep)
    bins = build_drivers(tier, sanitize=True, std=False)
    d = vlib.workdir("traces")
    outs = []
    traps = 0
    nscr = 0
    env_note = []
    from concurrent.futures import ThreadPoolExecutor
    jobs = []
    for kind in KINDS:
        for elem in ELEMS:
            for cap, (sp, n, ss) in sorted(scripts[kind].items()):
                if kind == "stack" and cap == 0:
                    continue
                jobs.append((kind, elem, cap, ss))

    def one(j):
        kind, elem, cap, ss = j
        tp = os.path.join(d, "vector_san_%s_%s_%d.ndjson" % (kind, elem, cap))
        r = vlib.run_scripts_resilient(lambda sp: [bins["etl_small"], "replay", kind, elem, str(cap), sp], ss, tp,
                                       "vecsan_%s_%s_%d" % (kind, elem, cap), chunk=4000, par=2)
        return tp, len(r["traps"]), len(ss)
    with ThreadPoolExecutor(max_workers=8) as ex:
        for tp, t, n in ex.map(one, jobs):
            outs.append(tp)
            traps += t
            nscr += n
    steps = 300 if tier == "quick" else 3000
    nh = 0
    for kind in KINDS:
        for elem in RANDOM_ELEMS:
            if kind == "stack" and elem in ("mo", "co"):
                continue
            for cap in bins["bigcaps"]:
                tp = os.path.join(d, "vector_san_%s_%s_r%d.ndjson" % (kind, elem, cap))
                rc, err = vlib.run([bins["etl_big"], "random", kind, elem, str(cap), str(steps), str(vlib.seed())], tp, ok_codes=None)
                if rc != 0:
                    rp = [l for l in err.splitlines() if "ERROR" in l or "runtime error" in l]
                    with open(tp, "a") as f:
                        f.write(json.dumps({"op": "trap", "rc": rc, "inst": "%s_%s_%d" % (kind, elem, cap),
                                            "report": (rp[0] if rp else err[-300:])[:400], "script": [], "events_in_script": 0}) + "\n")
                outs.append(tp)
                nh += 1
    merged = concat(outs, os.path.join(d, "vector_san_merged"), 8)
    tv = vlib.tv_parallel("VectorTrace.tla", "VectorTrace.cfg", merged, "vector_tv_san")
    rep.add_tv("Vector[asan+ubsan]", tv, nscr + nh)
    rep.cov["modules"]["Vector[asan+ubsan]"]["sanitizer_stops"] = traps
    rep.cov["evaluations"] = rep.cov.get("evaluations", 0) + tv["events"]
    rep.cov["distinct_nontrivial"] = rep.cov.get("distinct_nontrivial", 0) + nscr + nh
    rep.cov["rule"] = (rep.cov.get("rule", "") + " Vector: one case per transition (state, operation, arguments) exported by TLC from spec/Vector.tla "
                       "(distinct by construction, each executed from a state reached by a real call history) plus one per seeded random history; "
                       "every executed call is an evaluation.").strip()
    return tv


def replay(rec):
    """Re-run one recorded vector event: rebuild pre-state with ctor_range on both objects, run the call."""
    ev = rec["event"]
    inst = ev.get("inst", "sv_int_3")
    kind, elem, cap = inst.rsplit("_", 2)
    x0 = {"v": 0, "p": 0, "q": 0, "n": 0, "xs": [], "src": "a"}
    script = []
    if kind == "ipv":
        for o in ("a", "b"):
            for v in ev["pre"][o]:
                script.append({"op": "unchecked_push_back", "o": o, "x": dict(x0, v=v), "cap": int(cap)})
    else:
        for o in ("a", "b"):
            script.append({"op": "ctor_range", "o": o, "x": dict(x0, xs=ev["pre"][o]), "cap": int(cap)})
    call = {"op": ev["op"], "o": ev["o"], "x": ev["x"], "cap": int(cap)}
    contract = "outcome" in ev
    if contract and ev.get("outcome") != "returned":
        call["bad"] = True
    script.append(call)
    d = vlib.workdir("replay")
    sp = os.path.join(d, "script.ndjson")
    vlib.write_scripts([script], sp)
    flags = ["-DVH_CAPS=" + cap] + (CONTRACT_FLAGS["checks"] if contract else [])
    b = vlib.build("vector_driver.cpp", "vector_replay", flags=flags)
    tp = os.path.join(d, "trace.ndjson")
    rc, err = vlib.run([b, "replay", kind, elem, cap, sp], tp, ok_codes=None)
    if rc != 0:
        with open(tp, "a") as f:
            f.write(json.dumps({"op": "trap", "rc": rc, "inst": inst, "report": err[-300:], "script": script, "events_in_script": 0}) + "\n")
    tv = vlib.tlc_tv("VectorTrace.tla", "VectorTrace.cfg", tp, "vector_replay")
    return tv["deviations"]
