"""Integer <-> text pipeline (spec/Wide.tla, IntConvOps.tla, IntConv.tla, IntConvTrace.tla,
harness/intconv_driver.cpp).  Serves C10.

MC+GEN: TLC proves the laws of IntConv.tla (positional notation round trip, parse(format(v)) = v, C parser =
charconv parser on plain inputs, Wide arithmetic) on every 8-bit value x base and every short text, and exports
them.  The driver replays them and adds its own sweeps (16-bit exhaustive in the thorough tier, 32/64-bit
boundary values, an input grammar).  TV: IntConvTrace.tla judges every event.  The same jobs run on
libstdc++/glibc first-class (calibration, zero deviations required)."""
import json
import os
import random
import vlib

CONSTS = {"quick": {"MaxText": "3", "ParseBases": "{0, 2, 8, 10, 16, 36}"},
          "thorough": {"MaxText": "4", "ParseBases": "{0, 2, 8, 10, 16, 36}"}}
# Wide.tla recurses once per digit (64 levels for base 2): give every TLC thread a deep stack.  Inherited by the
# JVMs started through vlib (MC and TV); "Picked up JAVA_TOOL_OPTIONS" lines in tlc.out are harmless.
os.environ.setdefault("JAVA_TOOL_OPTIONS", "-Xss64m")

ALL_BASES = list(range(2, 37))
CORE_BASES = [2, 8, 10, 16, 36]


def _bases(tier):
    if tier == "thorough":
        return ALL_BASES, ALL_BASES
    rnd = random.Random(vlib.seed())
    rest = [b for b in ALL_BASES if b not in CORE_BASES]
    wide = sorted(CORE_BASES + [3, 7, 35] + rnd.sample([b for b in rest if b not in (3, 7, 35)], 4))
    gram = sorted(CORE_BASES + rnd.sample(rest, 2))
    return wide, gram


def model(tier, rep):
    r = vlib.tlc_mc("IntConv.tla", "IntConv.cfg", "intconv_mc_" + tier, workers=8 if tier == "quick" else 12,
                    constants=CONSTS[tier], heap="2g", timeout=2400)
    rep.add_mc("IntConv", r)
    gen = r["gen"]
    if not gen:
        raise vlib.ModelFailure("IntConv.tla exported no vectors")
    gen.sort(key=lambda g: (g["k"], json.dumps(g, sort_keys=True)))
    d = vlib.workdir("intconv")
    k = 6 if tier == "quick" else 40
    paths = []
    for i in range(k):
        p = os.path.join(d, "gen_%s_%d.ndjson" % (tier, i))
        with open(p, "w") as f:
            for g in gen[i::k]:
                f.write(json.dumps(g) + "\n")
        paths.append(p)
    kinds = {}
    for g in gen:
        kinds[g["k"]] = kinds.get(g["k"], 0) + 1
    rep.cov["modules"]["IntConv"].update({"vectors": kinds, "constants": CONSTS[tier]})
    rep.sample({"module": "IntConv", "vector": next(g for g in gen if g["k"] == "val" and g["v"] < -100 and g["base"] == 16)})
    rep.sample({"module": "IntConv", "vector": next(g for g in gen if g["k"] == "parse" and len(g["text"]) == 3)})
    rep.cov["exhaustive"] = True
    return paths, len(gen)


def build_drivers():
    paths = vlib.build_many([
        dict(src="intconv_driver.cpp", out="intconv_etl"),
        dict(src="intconv_driver.cpp", out="intconv_std", flags=["-DVH_STD", "-fno-builtin"], include_repo=False)])
    return {"etl": paths[0], "std": paths[1]}


def jobs(tier, gens):
    """list of (name, argv-after-binary)"""
    wide, gram = _bases(tier)
    sd = str(vlib.seed())
    js = [("gen%d" % i, ["replay", gp]) for i, gp in enumerate(gens)]
    nr = "4" if tier == "quick" else "40"
    step = 4 if tier == "quick" else 3
    for i in range(0, len(wide), step):
        js.append(("wide%d" % i, ["wide", sd, nr] + [str(b) for b in wide[i:i + step]]))
    gb = gram + [0]
    step = 1 if tier == "quick" else 2
    for i in range(0, len(gb), step):
        js.append(("gram%d" % i, ["grammar", sd] + [str(b) for b in gb[i:i + step]]))
    if tier == "thorough":
        # exhaustive 16-bit sweep: every value x every base, buffers exact-1 / exact / exact+2, with round trip
        for lo in range(-32768, 32768, 2048):
            js.append(("s16_%d" % lo, ["sweep", "i16", str(lo), str(lo + 2047), "0"]))
        for lo in range(0, 65536, 2048):
            js.append(("u16_%d" % lo, ["sweep", "u16", str(lo), str(lo + 2047), "0"]))
    return js, {"wide_bases": wide, "grammar_bases": gb}


def execute_and_validate(tier, js, binary, impl, wave=16):
    """Run the jobs in waves (driver -> trace -> TLC) and delete the traces of a wave once TLC has judged them, so
    that the thorough tier never holds more than one wave of traces on disk."""
    d = vlib.workdir("intconv")
    total = {"events": 0, "deviations": [], "wall": 0.0}
    stderr_lines = []
    for w in range(0, len(js), wave):
        part = js[w:w + wave]
        tasks = [([binary] + argv, os.path.join(d, "trace_%s_%s_%s.ndjson" % (impl, tier, name))) for name, argv in part]
        res = vlib.run_parallel(tasks, par=8)
        for _, err in res:
            stderr_lines += [l for l in err.splitlines() if l.startswith(("UNSUPPORTED", "CRASH"))]
        paths = [t[1] for t in tasks]
        tv = vlib.tv_parallel("IntConvTrace.tla", "IntConvTrace.cfg", paths, "intconv_tv_%s_%s_%d" % (impl, tier, w),
                              par=6 if tier == "quick" else 8, heap="1500m")
        total["events"] += tv["events"]
        total["deviations"] += tv["deviations"]
        total["wall"] += tv["wall"]
        for p in paths:     # every deviation carries its event; the traces themselves are not needed any more
            os.remove(p)
    return total, sorted(set(stderr_lines))


def pipeline(tier, rep, calibrate=True):
    from concurrent.futures import ThreadPoolExecutor
    with ThreadPoolExecutor(max_workers=2) as ex:
        fb = ex.submit(build_drivers)
        gens, nvec = model(tier, rep)
        bins = fb.result()
    js, info = jobs(tier, gens)
    if calibrate:
        ctv, _ = execute_and_validate(tier, js, bins["std"], "std")
        if ctv["deviations"]:
            d = ctv["deviations"][0]
            raise vlib.ModelFailure("calibration: libstdc++/glibc deviates from IntConvOps (spec/projection error): %s %s"
                                    % (d["kind"], json.dumps(d.get("ev"))[:700]))
        rep.cov["modules"]["IntConv"]["calibration_events_std"] = ctv["events"]
    tv, notes = execute_and_validate(tier, js, bins["etl"], "etl")
    rep.add_tv("IntConv", tv, len(js))
    rep.cov["modules"]["IntConv"].update(info)
    rep.cov["modules"]["IntConv"]["not_drivable"] = [l for l in notes if l.startswith("UNSUPPORTED")]
    if any(l.startswith("CRASH") for l in notes):
        rep.notes.append({"calls_that_do_not_return": [l for l in notes if l.startswith("CRASH")]})
    return tv


def replay(path, pid):
    """Re-execute the call of a recorded deviation on the current tree and judge it again."""
    rec = json.load(open(path))
    ev = rec["event"]
    d = vlib.workdir("intconv")
    ip = os.path.join(d, "replay_in.ndjson")
    with open(ip, "w") as f:
        f.write(json.dumps(ev) + "\n")
    binp = vlib.build("intconv_driver.cpp", "intconv_etl_rp")
    tp = os.path.join(d, "replay_all.ndjson")
    vlib.run([binp, "event", ip], tp)
    keys = ("op", "t", "ct", "base", "text", "v", "ws", "chk", "term")
    sel = [l for l in open(tp) if all(json.loads(l).get(k) == ev.get(k) for k in keys)]
    if not sel:
        raise vlib.ModelFailure("replay: the call %s is no longer executable" % ev.get("op"))
    one = os.path.join(d, "replay_one.ndjson")
    with open(one, "w") as f:
        f.write(sel[0])
    r = vlib.tlc_tv("IntConvTrace.tla", "IntConvTrace.cfg", one, "intconv_tv_replay", heap="1g")
    if r["deviations"]:
        print("VIOLATION property=%s replay=%s" % (pid, path))
        return 1
    return 0
