#!/usr/bin/env python3
"""Rebuild DESIGN.md section 12.5 (per-property 'as built' paragraphs) from pending/DESIGN-C*.md and
section 12.3's fix table from known_findings.json, and 12.4's table from seeded/INDEX.md."""
import glob, json, re
D = '/verif/DESIGN.md'
s = open(D).read()
BEGIN, END = '<!-- BEGIN AS-BUILT -->', '<!-- END AS-BUILT -->'
parts = []
for f in sorted(glob.glob('/verif/pending/DESIGN-C*.md')):
    parts.append(open(f).read().strip())
k = json.load(open('/verif/known_findings.json'))['findings']
fixed = [f for f in k if f['status'] == 'fixed']
openf = [f for f in k if f['status'] == 'open']
tbl = ["| property | commit | what failed |", "|---|---|---|"] + ["| %s | %s | %s |" % (f['property'], f['commit'], f['what'].replace('|', '/')) for f in sorted(fixed, key=lambda f: (f['property'], f['commit']))]
otbl = ["| id | property | what fails (recorded, not repaired) |", "|---|---|---|"] + ["| %s | %s | %s |" % (f['id'], f['property'], f['what'].replace('|', '/')[:400]) for f in sorted(openf, key=lambda f: f['id'])]
seeded = open('/verif/seeded/INDEX.md').read().split('\n', 2)[2] if glob.glob('/verif/seeded/INDEX.md') else ''
block = "\n".join([BEGIN, "", "#### Repaired defects (%d `fix:` commits in /repo)" % len(fixed), "", *tbl, "",
                   "#### Open known findings (%d)" % len(openf), "", *otbl, "",
                   "#### Seeded changes and the checks that catch them", "", seeded.strip(), "",
                   "### 12.5 Per-property: as built", "", "\n\n".join(parts), "", END])
if BEGIN in s:
    s = re.sub(re.escape(BEGIN) + r".*?" + re.escape(END), lambda m: block, s, flags=re.S)
else:
    s = s.replace("---------------------------------------------------------------------------------------------\n\n## Appendix A", block + "\n\n---------------------------------------------------------------------------------------------\n\n## Appendix A", 1)
open(D, 'w').write(s)
print("assembled: %d paragraphs, %d fixed, %d open" % (len(parts), len(fixed), len(openf)))
