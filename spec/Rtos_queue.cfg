SPECIFICATION Spec
CONSTANTS
  Kind = "queue"
  Caps = {1, 2, 3}
  ItemSizes = {1, 12}
  Vals = {0, 1, 2}
  Ticks = {0, 5}
  MaxWrite = 0
  MaxRead = 0
  MaxHist = 4
VIEW View0
ACTION_CONSTRAINT Emit
INVARIANTS TypeOK Bounded Fifo Laws
CHECK_DEADLOCK FALSE
