"""X04 (extension) - memory helpers with exact semantics (align, identity laws, pointer_int_pair, small_ptr,
uninitialized_* / destroy*, monotonic_allocator)."""
from pipes import mem


def run(tier, rep):
    mem.pipeline(tier, rep)
    rep.assumptions += ["addresses are offsets from 128-aligned harness buffers (the validator checks the base), sizes beyond 2^31 travel "
                        "as SIZE_MAX - k; alignments are powers of two <= 64",
                        "pointer_int_pair / small_ptr have no standard counterpart: their calibration run uses a two-field struct / a plain "
                        "pointer behind the same interface (it calibrates spec and projection only); align, assume_aligned, to_address, "
                        "addressof, uninitialized_*, destroy*, construct_at are calibrated against libstdc++, monotonic_allocator against "
                        "std::pmr::monotonic_buffer_resource with a null upstream",
                        "monotonic_allocator has no documentation: it is judged by the relation every allocator must satisfy (aligned, inside "
                        "the buffer, disjoint from everything handed out) plus progress behind the high-water mark",
                        "exceptions thrown by element constructors (the roll-back paths of uninitialized_*) are not driven"]
