SPECIFICATION Spec
CONSTANTS
  Ns = {1, 2, 3, 4}
  Kind = "bitset"
VIEW View
ACTION_CONSTRAINT Emit
INVARIANTS TypeOK Laws
PROPERTIES Independence WidthConst
CHECK_DEADLOCK FALSE
