SPECIFICATION Spec
CONSTANTS
  Thorough = FALSE
ACTION_CONSTRAINT Emit
INVARIANTS Laws
CHECK_DEADLOCK FALSE
