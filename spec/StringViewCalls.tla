--------------------------- MODULE StringViewCalls ---------------------------
(* Binding vocabulary shared by StringView.tla (domain enumerator / exporter) and                   *)
(* StringViewTrace.tla (judge): how a recorded call  [op, ov, d, h, n, pos, cnt, pos2, cnt2]         *)
(* of harness/stringview_driver.cpp maps onto the operators of StringViewOps.                        *)
(*                                                                                                   *)
(*   h     the viewed characters                        n    the argument buffer (needle / other)     *)
(*   ov    overload: "sv" view, "ch" single character (n[1]), "p" null-terminated pointer,            *)
(*         "pn" pointer + count (first cnt characters of n); compare also "3sv" "3p" "5sv" "4pn"      *)
(*   d     number of trailing arguments left to their default (searches: 1 = pos defaulted)           *)
(* An input record  [h, n, P, C, P1, C1, P2, C2, K, u, c5]  lists the argument values to combine:      *)
(*   P search positions, C counts for pointer+count, (P1, C1) / (P2, C2) substring arguments on h / n,  *)
(*   K arguments of remove_prefix/remove_suffix, u = 1: also the unary members of h, c5 = 1: also the   *)
(*   5-argument compare families.  NCalls(rec) is the number of calls the driver has to make for it.    *)
EXTENDS StringViewOps

PosOrNpos(x) == x = NPOS \/ x >= 0
HasNul(s) == \E i \in 1..Len(s) : s[i] = 0

\* the character sequence the argument denotes
Needle(ov, n, cnt) ==
    CASE ov = "ch" -> <<n[1]>>
      [] ov = "pn" -> SubSeq(n, 1, cnt)
      [] OTHER -> n

WholeOvs == {"sv", "ch", "p"}
NeedleOK(ov, n, cnt) ==
    CASE ov = "sv" -> TRUE
      [] ov = "ch" -> Len(n) = 1
      [] ov = "p" -> ~HasNul(n)
      [] ov = "pn" -> cnt \in 0..Len(n)
      [] OTHER -> FALSE

\* the call lies inside the domain the standard gives meaning to
ArgsOK(ev) ==
    LET L == Len(ev.h) M == Len(ev.n) IN
    CASE ev.op \in SearchOps ->
            /\ NeedleOK(ev.ov, ev.n, ev.cnt) /\ PosOrNpos(ev.pos) /\ ev.d \in {0, 1} /\ (ev.ov = "pn" => ev.d = 0)
      [] ev.op = "compare" ->
            CASE ev.ov \in {"sv", "p"} -> NeedleOK(ev.ov, ev.n, 0)
              [] ev.ov \in {"3sv", "3p"} -> ev.pos \in 0..L /\ PosOrNpos(ev.cnt) /\ (ev.ov = "3p" => ~HasNul(ev.n))
              [] ev.ov = "5sv" -> ev.pos \in 0..L /\ PosOrNpos(ev.cnt) /\ ev.pos2 \in 0..M /\ PosOrNpos(ev.cnt2)
              [] ev.ov = "4pn" -> ev.pos \in 0..L /\ PosOrNpos(ev.cnt) /\ ev.cnt2 \in 0..M
              [] OTHER -> FALSE
      [] ev.op \in {"starts_with", "ends_with", "contains"} -> ev.ov \in WholeOvs /\ NeedleOK(ev.ov, ev.n, 0)
      [] ev.op = "relops" -> TRUE
      [] ev.op = "substr" -> ev.d \in {0, 1, 2} /\ ev.pos \in 0..L /\ PosOrNpos(ev.cnt)
      [] ev.op = "copy" -> ev.d \in {0, 1} /\ ev.pos \in 0..L /\ PosOrNpos(ev.cnt)
      [] ev.op \in {"remove_prefix", "remove_suffix"} -> ev.pos \in 0..L
      [] OTHER -> FALSE

\* what the standard says the call returns (only the fields that the operation produces)
Expected(ev) ==
    LET h == ev.h n == ev.n IN
    CASE ev.op \in SearchOps ->
            [ret |-> Search(ev.op, h, Needle(ev.ov, n, ev.cnt), IF ev.d = 1 THEN StdDefaultPos(ev.op) ELSE ev.pos)]
      [] ev.op = "compare" ->
            [ret |-> CASE ev.ov \in {"sv", "p"} -> Compare(h, n)
                       [] ev.ov \in {"3sv", "3p"} -> Compare3(h, ev.pos, ev.cnt, n)
                       [] ev.ov = "5sv" -> Compare5(h, ev.pos, ev.cnt, n, ev.pos2, ev.cnt2)
                       [] ev.ov = "4pn" -> Compare3(h, ev.pos, ev.cnt, SubSeq(n, 1, ev.cnt2))]
      [] ev.op = "starts_with" -> [ret |-> B2I(StartsWith(h, Needle(ev.ov, n, 0)))]
      [] ev.op = "ends_with" -> [ret |-> B2I(EndsWith(h, Needle(ev.ov, n, 0)))]
      [] ev.op = "contains" -> [ret |-> B2I(Contains(h, Needle(ev.ov, n, 0)))]
      [] ev.op = "relops" -> [rel |-> RelOps(h, n)]
      [] ev.op = "substr" ->
            LET p == IF ev.d = 2 THEN 0 ELSE ev.pos
                c == IF ev.d >= 1 THEN NPOS ELSE ev.cnt
            IN [out |-> Substr(h, p, c), off |-> p]
      [] ev.op = "copy" ->
            LET p == IF ev.d = 1 THEN 0 ELSE ev.pos IN
            [ret |-> Copy(h, ev.cnt, p).ret, out |-> Copy(h, ev.cnt, p).chars]
      [] ev.op = "remove_prefix" -> [out |-> RemovePrefix(h, ev.pos), off |-> ev.pos]
      [] ev.op = "remove_suffix" -> [out |-> RemoveSuffix(h, ev.pos), off |-> 0]

IsFill(s, from, fill) == \A i \in from..Len(s) : s[i] = fill

\* the recorded results are the expected ones.  ret2 is the result of the same call with different
\* characters *around* the views (must not matter: only characters inside the views are read).
Conforms(ev) ==
    LET e == Expected(ev) IN
    CASE ev.op \in SearchOps \cup {"compare", "starts_with", "ends_with", "contains"} ->
            ev.ret = e.ret /\ ("ret2" \in DOMAIN ev => ev.ret2 = e.ret)
      [] ev.op = "relops" -> ev.rel = e.rel /\ ("rel2" \in DOMAIN ev => ev.rel2 = e.rel)
      [] ev.op \in {"substr", "remove_prefix", "remove_suffix"} -> ev.out = e.out /\ ev.off = e.off
      [] ev.op = "copy" ->      \* destination: the copied characters, everything behind them untouched
            /\ ev.ret = e.ret
            /\ Len(ev.out) >= Len(e.out)
            /\ SubSeq(ev.out, 1, Len(e.out)) = e.out
            /\ IsFill(ev.out, Len(e.out) + 1, ev.fill)

\* ---- number of calls per input record --------------------------------------------------------
NCalls(r) ==
    LET nz == B2I(~HasNul(r.n))
        nv == 1 + B2I(Len(r.n) = 1) + nz
        p == Len(r.P) c == Len(r.C) s1 == Len(r.P1) * Len(r.C1)
    IN  6 * (nv * (p + 1) + p * c)                                  \* searches: sv/ch/p with and without pos, pn
      + (1 + nz) + (1 + nz) * s1                                     \* compare sv, p, 3sv, 3p
      + (IF r.c5 = 1 THEN s1 * Len(r.P2) * Len(r.C2) + s1 * c ELSE 0)  \* compare 5sv, 4pn
      + 3 * nv                                                       \* starts_with, ends_with, contains
      + 1                                                            \* relops
      + (IF r.u = 1 THEN (s1 + Len(r.P1) + 1) + (s1 + Len(r.C1)) + 2 * Len(r.K) ELSE 0)
=============================================================================
