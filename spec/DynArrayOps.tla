-------------------------- MODULE DynArrayOps --------------------------
(* etl::dynamic_array<T, Allocator> has no documentation; it is judged as what its interface says it is: an     *)
(* owning, move-only, fixed-length heap array (constructed with n copies of a value / n value-initialised        *)
(* elements through the allocator, destroyed element by element, storage returned to the allocator).             *)
(* State  s = [a |-> obj, b |-> obj],  obj = [live, els]  (els = the element values seen through begin()/end()).  *)
(* What a moved-from object looks like is NOT specified here: the post-state of the source is taken from the      *)
(* observation and only has to be *accounted for* - the resource law below is implementation-neutral:             *)
(*    the live elements are exactly the elements of the live objects, the outstanding allocations are exactly      *)
(*    their storage, the allocator never sees a block it did not hand out (or a wrong size).                       *)
EXTENDS Naturals, Integers, Sequences, FiniteSets

DeadObj == [live |-> FALSE, els |-> <<>>]
Obj(e) == [live |-> TRUE, els |-> e]
Other(o) == IF o = "a" THEN "b" ELSE "a"
Fill(n, v) == [i \in 1..n |-> v]

CtorOps == {"ctor_default", "ctor_n", "ctor_fill", "move_ctor"}
AllOps == CtorOps \cup {"move_assign", "dtor"}

\* x = [n, v]; the source of a move is always the other object
Pre(op, o, x, s) ==
    /\ op \in AllOps /\ o \in {"a", "b"}
    /\ (op \in CtorOps => ~s[o].live)
    /\ (op \in {"move_assign", "dtor"} => s[o].live)
    /\ (op \in {"move_ctor", "move_assign"} => s[Other(o)].live)
    /\ (op \in {"ctor_n", "ctor_fill"} => x.n >= 0)

\* contents of the target object after the call
Tgt(op, o, x, s) ==
    CASE op = "ctor_default" -> Obj(<<>>)
      [] op = "ctor_n" -> Obj(Fill(x.n, 0))              \* T() of the harness element types
      [] op = "ctor_fill" -> Obj(Fill(x.n, x.v))
      [] op \in {"move_ctor", "move_assign"} -> Obj(s[Other(o)].els)
      [] op = "dtor" -> DeadObj

PostOK(op, o, x, s, t) ==
    /\ t[o] = Tgt(op, o, x, s)
    /\ IF op \in {"move_ctor", "move_assign"} THEN t[Other(o)].live       \* valid, contents unspecified
       ELSE t[Other(o)] = s[Other(o)]

\* ---- the resource law on an observed state t ----
LiveElems(t) == (IF t.a.live THEN Len(t.a.els) ELSE 0) + (IF t.b.live THEN Len(t.b.els) ELSE 0)
\* sizes (in elements) of the storage blocks the live objects need, ascending; empty objects need none
Blocks(t) ==
    LET na == IF t.a.live THEN Len(t.a.els) ELSE 0
        nb == IF t.b.live THEN Len(t.b.els) ELSE 0 IN
    IF na = 0 /\ nb = 0 THEN <<>>
    ELSE IF na = 0 THEN <<nb>> ELSE IF nb = 0 THEN <<na>>
    ELSE IF na <= nb THEN <<na, nb>> ELSE <<nb, na>>
=========================================================================
