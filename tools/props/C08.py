"""C08 - string_view searches, comparisons and slices equal std::basic_string_view for all arguments; only
characters inside the views are read."""
from pipes import stringview


def run(tier, rep):
    stringview.pipeline(tier, rep)
    rep.assumptions += [
        "characters are the codes {0, 97, 98, 200}: embedded null, ordinary letters and one code >= 128 stand for all characters; wide instantiations map the model codes onto characters with colliding low bytes (wchar_t: 200->0x161, 98->0x100; char16_t: 200->0x100; char32_t: 200->0x10061, 98->0x100; order preserved), 1-byte types use the codes themselves",
        "exhaustive only inside the exported domain (haystack/needle length <= 4 quick, <= 5 thorough; every pos in 0..len+2 and npos; every count); longer strings (<= 64) are seeded random samples",
        "the TLA+ reading of [string.view] (declarative clauses, proven equal to operational scans by TLC) is calibrated against libstdc++ on the identical calls (zero deviations required)",
        "out-of-view reads are detected by result differences under two different surroundings of the buffers (every tier) and by ASan/UBSan on exact-size heap buffers (thorough tier); a read that neither changes a result nor leaves the heap block would go unnoticed in the quick tier",
        "char, wchar_t and char16_t stand for all character types; only etl::char_traits is used as Traits",
    ]
