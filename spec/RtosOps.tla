------------------------------ MODULE RtosOps ------------------------------
(* Meaning of etl::experimental::freertos::queue<T,Size> and stream_buffer (extension X14).               *)
(* Two layers, both constant-free:                                                                        *)
(*  1. the KERNEL: the non-blocking reading of the FreeRTOS API documentation (queue.h: xQueueCreate,     *)
(*     vQueueDelete, xQueueSend, xQueueReceive, xQueueReset, uxQueueMessagesWaiting; stream_buffer.h:      *)
(*     xStreamBufferCreate ... xStreamBufferIsFull).  A call that would block gets the "timed out" answer;  *)
(*     the tick argument has no effect on the result.                                                       *)
(*  2. the WRAPPER contract taken from the doc comments of the wrappers: every member forwards to the one   *)
(*     kernel function its comment names, with the object's own handle and the caller's arguments, and      *)
(*     converts the kernel's answer to the declared return type.                                            *)
(* Written from the FreeRTOS documentation and the wrappers' doc comments, not from the etl code.           *)
(*                                                                                                          *)
(* Abstract values.  A queued item is a small integer v; the harness stores it in an object of isz bytes    *)
(* whose observable fields are Enc(isz, v).  A stream byte is a small integer.                              *)
(*   queue  state: [ph, cap, isz, items]      stream state: [ph, cap, trig, bytes]                           *)
(*   ph: "none" no object yet | "live" | "null" creation failed (kernel out of heap: handle == NULL) | "dead" *)
EXTENDS Integers, Sequences

Min2(a, b) == IF a < b THEN a ELSE b
B2I(b) == IF b THEN 1 ELSE 0

\* projdefs.h
pdFALSE == 0
pdTRUE == 1
pdPASS == pdTRUE
pdFAIL == pdFALSE
errQUEUE_EMPTY == 0
errQUEUE_FULL == 0

\* static_cast<bool>(BaseType_t), logged as 0 / 1
Bool(r) == B2I(r # 0)

\* one entry of the kernel call log: function, handle id (0 = no handle argument / NULL), numeric arguments, result
KC(f, h, a, r) == [f |-> f, h |-> h, a |-> a, r |-> r]
\* the kernel numbers the handles of one session 1, 2, ...; every session creates exactly one object
H == 1

\* result of one wrapper call: post-state, return value, out-value, kernel calls made
R(post, ret, out, kc) == [post |-> post, ret |-> ret, out |-> out, kc |-> kc]

\* ---- harness conventions (how abstract values appear in the trace) --------------------------------------------
Enc(isz, v) == IF isz = 1 THEN <<v>> ELSE <<v, v + 100, v + 200>>       \* observable fields of a T holding v
Zero(isz) == IF isz = 1 THEN <<0>> ELSE <<0, 0, 0>>                     \* T{}
Sentinel == 7                      \* value of the caller's object handed to receive(T&, ticks)
Fill == 9                          \* the caller's destination bytes before a read
Slack == 2                         \* destination bytes logged beyond the requested size
Pad(n) == [i \in 1..n |-> Fill]

QNone == [ph |-> "none", cap |-> 0, isz |-> 0, items |-> << >>]
SNone == [ph |-> "none", cap |-> 0, trig |-> 0, bytes |-> << >>]
NoneOf(kind) == IF kind = "queue" THEN QNone ELSE SNone

\* ================= KERNEL: queue.h =================================================================================
\* xQueueSend: "pdTRUE if the item was successfully posted, otherwise errQUEUE_FULL"; the item is copied to the back
KSend(q, x) == IF Len(q.items) < q.cap THEN [k |-> [q EXCEPT !.items = Append(@, x)], r |-> pdTRUE]
               ELSE [k |-> q, r |-> errQUEUE_FULL]
\* xQueueReceive: "pdTRUE if an item was successfully received from the queue, otherwise pdFALSE"; the item is
\* copied into the caller's buffer and removed from the front; the buffer is not written when nothing is received
KReceive(q) == IF Len(q.items) > 0 THEN [k |-> [q EXCEPT !.items = Tail(@)], r |-> pdTRUE, v |-> Head(q.items)]
               ELSE [k |-> q, r |-> errQUEUE_EMPTY, v |-> 0]
\* xQueueReset: "Resets a queue to its original empty state ... always returns pdPASS"
KReset(q) == [k |-> [q EXCEPT !.items = << >>], r |-> pdPASS]
\* uxQueueMessagesWaiting: "the number of messages stored in a queue"
KWaiting(q) == Len(q.items)

\* ================= WRAPPER: queue<T, Size> ==========================================================================
\* a = [cap, isz, trig, x, ticks, n, prio, data]: the arguments of the call (unused ones are 0 / <<>>)
QOps == {"ctor", "ctor_fail", "dtor", "capacity", "send", "receive_ref", "receive", "reset", "messages_waiting"}

QCall(op, q, a) ==
    CASE op = "ctor" ->            \* "Creates a new queue": xQueueCreate(uxQueueLength = Size, uxItemSize = sizeof(T))
           R([ph |-> "live", cap |-> a.cap, isz |-> a.isz, items |-> << >>], 0, << >>,
             <<KC("xQueueCreate", 0, <<a.cap, a.isz>>, H)>>)
      [] op = "ctor_fail" ->       \* the same call while the kernel is out of heap: xQueueCreate returns NULL
           R([ph |-> "null", cap |-> a.cap, isz |-> a.isz, items |-> << >>], 0, << >>,
             <<KC("xQueueCreate", 0, <<a.cap, a.isz>>, 0)>>)
      [] op = "dtor" ->            \* "Delete a queue": vQueueDelete on the handle created; NULL is not a queue handle
           R([q EXCEPT !.ph = "dead", !.items = << >>], 0, << >>,
             IF q.ph = "live" THEN <<KC("vQueueDelete", H, << >>, 0)>> ELSE << >>)
      [] op = "capacity" -> R(q, q.cap, << >>, << >>)                        \* "Returns the capacity": Size
      [] op = "send" ->            \* "Push an element on to the queue."
           LET k == KSend(q, a.x) IN R(k.k, Bool(k.r), << >>, <<KC("xQueueSend", H, <<a.ticks>>, k.r)>>)
      [] op = "receive_ref" ->     \* "Pop an element of the queue." bool + the caller's object
           LET k == KReceive(q) IN
           R(k.k, Bool(k.r), IF k.r = pdTRUE THEN Enc(q.isz, k.v) ELSE Enc(q.isz, Sentinel),
             <<KC("xQueueReceive", H, <<a.ticks>>, k.r)>>)
      [] op = "receive" ->         \* pair<bool, T>: the kernel fills a value-initialised T
           LET k == KReceive(q) IN
           R(k.k, Bool(k.r), IF k.r = pdTRUE THEN Enc(q.isz, k.v) ELSE Zero(q.isz),
             <<KC("xQueueReceive", H, <<a.ticks>>, k.r)>>)
      [] op = "reset" -> LET k == KReset(q) IN R(k.k, Bool(k.r), << >>, <<KC("xQueueReset", H, << >>, k.r)>>)
      [] op = "messages_waiting" ->
           R(q, KWaiting(q), << >>, <<KC("uxQueueMessagesWaiting", H, << >>, KWaiting(q))>>)

\* ================= KERNEL: stream_buffer.h =========================================================================
Avail(s) == Len(s.bytes)
Space(s) == s.cap - Len(s.bytes)
\* xStreamBufferSend[FromISR]: "The number of bytes written to the stream buffer" - as many as fit, appended in order
KSbSend(s, data) == LET n == Min2(Len(data), Space(s)) IN
                    [k |-> [s EXCEPT !.bytes = @ \o SubSeq(data, 1, n)], r |-> n]
\* xStreamBufferReceive[FromISR]: "The number of bytes read from the stream buffer" - the oldest min(available, n)
KSbReceive(s, n) == LET m == Min2(n, Avail(s)) IN
                    [k |-> [s EXCEPT !.bytes = SubSeq(@, m + 1, Len(@))], r |-> m, got |-> SubSeq(s.bytes, 1, m)]
\* xStreamBufferSetTriggerLevel: 0 means 1; pdTRUE (and stored) iff the level does not exceed the buffer size
KSbTrig(s, lvl) == LET t == IF lvl = 0 THEN 1 ELSE lvl IN
                   IF t <= s.cap THEN [k |-> [s EXCEPT !.trig = t], r |-> pdTRUE] ELSE [k |-> s, r |-> pdFALSE]
\* xStreamBufferReset: "Resets a stream buffer to its initial, empty, state"; pdPASS (no task is blocked on it)
KSbReset(s) == [k |-> [s EXCEPT !.bytes = << >>], r |-> pdPASS]

\* ================= WRAPPER: stream_buffer ===========================================================================
SOps == {"ctor", "ctor_fail", "dtor", "write", "write_from_isr", "read", "read_from_isr", "empty", "full",
         "bytes_available", "space_available", "reset", "trigger_level", "native_handle"}

\* pointer arguments are logged as the offset from the start of the caller's range (the harness passes its start: 0),
\* the priority pointer as 0 = nullptr / 1 = the caller's variable
SCall(op, s, a) ==
    CASE op = "ctor" ->
           R([ph |-> "live", cap |-> a.cap, trig |-> IF a.trig = 0 THEN 1 ELSE a.trig, bytes |-> << >>], 0, << >>,
             <<KC("xStreamBufferCreate", 0, <<a.cap, a.trig>>, H)>>)
      [] op = "ctor_fail" ->
           R([ph |-> "null", cap |-> a.cap, trig |-> IF a.trig = 0 THEN 1 ELSE a.trig, bytes |-> << >>], 0, << >>,
             <<KC("xStreamBufferCreate", 0, <<a.cap, a.trig>>, 0)>>)
      [] op = "dtor" ->            \* "Deletes a stream buffer": a handle "previously created"; NULL is none
           R([s EXCEPT !.ph = "dead", !.bytes = << >>], 0, << >>,
             IF s.ph = "live" THEN <<KC("vStreamBufferDelete", H, << >>, 0)>> ELSE << >>)
      [] op = "write" ->
           LET k == KSbSend(s, a.data) IN
           R(k.k, k.r, << >>, <<KC("xStreamBufferSend", H, <<0, Len(a.data), a.ticks>>, k.r)>>)
      [] op = "write_from_isr" ->
           LET k == KSbSend(s, a.data) IN
           R(k.k, k.r, << >>, <<KC("xStreamBufferSendFromISR", H, <<0, Len(a.data), a.prio>>, k.r)>>)
      [] op = "read" ->
           LET k == KSbReceive(s, a.n) IN
           R(k.k, k.r, k.got \o Pad(a.n + Slack - k.r), <<KC("xStreamBufferReceive", H, <<0, a.n, a.ticks>>, k.r)>>)
      [] op = "read_from_isr" ->
           LET k == KSbReceive(s, a.n) IN
           R(k.k, k.r, k.got \o Pad(a.n + Slack - k.r), <<KC("xStreamBufferReceiveFromISR", H, <<0, a.n, a.prio>>, k.r)>>)
      [] op = "empty" -> LET r == B2I(Avail(s) = 0) IN R(s, Bool(r), << >>, <<KC("xStreamBufferIsEmpty", H, << >>, r)>>)
      [] op = "full" -> LET r == B2I(Space(s) = 0) IN R(s, Bool(r), << >>, <<KC("xStreamBufferIsFull", H, << >>, r)>>)
      [] op = "bytes_available" -> R(s, Avail(s), << >>, <<KC("xStreamBufferBytesAvailable", H, << >>, Avail(s))>>)
      [] op = "space_available" -> R(s, Space(s), << >>, <<KC("xStreamBufferSpacesAvailable", H, << >>, Space(s))>>)
      [] op = "reset" -> LET k == KSbReset(s) IN R(k.k, 0, << >>, <<KC("xStreamBufferReset", H, << >>, k.r)>>)
      [] op = "trigger_level" ->
           LET k == KSbTrig(s, a.n) IN R(k.k, 0, << >>, <<KC("xStreamBufferSetTriggerLevel", H, <<a.n>>, k.r)>>)
      [] op = "native_handle" -> R(s, IF s.ph = "live" THEN H ELSE 0, << >>, << >>)

\* ================= both kinds ======================================================================================
OpsOf(kind) == IF kind = "queue" THEN QOps ELSE SOps
Call(kind, op, s, a) == IF kind = "queue" THEN QCall(op, s, a) ELSE SCall(op, s, a)

\* which members may be called in which phase (a NULL handle must not reach the kernel: only what needs no handle)
Enabled(kind, op, ph) ==
    CASE ph = "none" -> op \in {"ctor", "ctor_fail"}
      [] ph = "live" -> op \in OpsOf(kind) \ {"ctor", "ctor_fail"}
      [] ph = "null" -> op \in (IF kind = "queue" THEN {"dtor", "capacity"} ELSE {"dtor", "native_handle"})
      [] OTHER -> FALSE

Content(kind, s) == IF kind = "queue" THEN s.items ELSE s.bytes
\* what the harness can see of a state through the wrapper itself: messages_waiting() / bytes_available(),
\* space_available(); -1 = no usable object
Obs(kind, s) == IF s.ph # "live" THEN [n |-> -1, sp |-> -1]
                ELSE [n |-> Len(Content(kind, s)), sp |-> IF kind = "queue" THEN -1 ELSE Space(s)]
Live(s) == IF s.ph = "live" THEN 1 ELSE 0

\* ================= the repository's own stub kernel (TETL_FREERTOS_USE_STUBS) ======================================
\* stubs.hpp: every kernel function is a no-op answering pdFALSE / 0 / NULL, except xQueueReset (pdPASS).
\* P is the state the model is in (only cap / isz are used: the stub kernel has no state)
StubRet(kind, op, P) == IF kind = "queue" /\ op = "capacity" THEN P.cap
                        ELSE IF kind = "queue" /\ op = "reset" THEN 1 ELSE 0
StubOut(kind, op, P, a) ==
    IF kind = "queue" /\ op = "receive_ref" THEN Enc(P.isz, Sentinel)
    ELSE IF kind = "queue" /\ op = "receive" THEN Zero(P.isz)
    ELSE IF kind = "stream" /\ op \in {"read", "read_from_isr"} THEN Pad(a.n + Slack)
    ELSE << >>
=============================================================================
