#!/usr/bin/env python3
"""debug helper: summarise DEV lines of a TLC trace-validation run: devsum.py <tlc.out> <trace>"""
import sys, re, json, collections
out, trace = sys.argv[1], sys.argv[2]
devs = {}
for line in open(out, errors='replace'):
    m = re.match(r'^<<"DEV", (\d+), "([^"]*)", (.*)>>$', line.rstrip())
    if m: devs[int(m.group(1))] = (m.group(2), m.group(3))
c = collections.Counter(); ex = {}
for i, line in enumerate(open(trace), 1):
    if i in devs:
        ev = json.loads(line)
        k = (ev.get('inst', '?').rsplit('_', 1)[0], ev['op'], devs[i][0])
        c[k] += 1
        ex.setdefault(k, (ev, devs[i][1]))
for k, n in sorted(c.items()):
    print(n, k)
if len(sys.argv) > 3:
    for k, (ev, exp) in ex.items():
        if sys.argv[3] in ('all', k[1]):
            ev2 = {x: ev[x] for x in ev if x not in ('obs',)}
            print(k, json.dumps(ev2)[:1500], '\n   EXPECTED', exp[:400])
