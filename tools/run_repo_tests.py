#!/usr/bin/env python3
"""Helper for module builders (not part of any check): compile and run the repository's own unit tests of the given
test sub-directories against a (patched) copy of the headers, the way tests/CMakeLists.txt builds them.
usage: run_repo_tests.py <dir-containing-include/> <tests-subdir> [<tests-subdir> ...]"""
import glob, os, subprocess, sys
from concurrent.futures import ThreadPoolExecutor
inc = os.path.join(sys.argv[1], "include")
out = os.path.join(os.path.dirname(os.path.dirname(os.path.abspath(__file__))), "build", "t", "repotests_" + str(os.getpid()))
os.makedirs(out, exist_ok=True)
srcs = [f for d in sys.argv[2:] for f in sorted(glob.glob("/repo/tests/%s/*.t.cpp" % d))]
def one(src):
    exe = os.path.join(out, os.path.basename(src)[:-4].replace(".", "_"))
    c = subprocess.run(["g++", "-std=c++20", "-O0", "-w", "-I" + inc, "-I/repo/tests", "-DTETL_DEBUG=1",
                        "-DTETL_ENABLE_USER_CONFIG_HEADER_INCLUDE=1", "-DTETL_ENABLE_CONTRACT_CHECKS=1", src, "-o", exe],
                       capture_output=True, text=True)
    if c.returncode != 0:
        return src, "COMPILE-FAIL", c.stderr[-1500:]
    r = subprocess.run([exe], capture_output=True, text=True, timeout=600)
    return src, "ok" if r.returncode == 0 else "FAIL rc=%d" % r.returncode, (r.stdout + r.stderr)[-800:]
bad = 0
with ThreadPoolExecutor(max_workers=6) as ex:
    for src, st, msg in ex.map(one, srcs):
        print(st, src)
        if st != "ok":
            bad += 1
            print(msg)
import shutil
shutil.rmtree(out, ignore_errors=True)
sys.exit(1 if bad else 0)
