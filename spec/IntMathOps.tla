---------------------------- MODULE IntMathOps ----------------------------
(* Meaning of the bit and integer utilities (property C14), transcribed from the C++ standard        *)
(* ([bit], [numeric.ops.gcd/lcm/midpoint], [numeric.sat], [utility.intcmp], [c.math.abs]) and, for     *)
(* the etl-only helpers (set/reset/flip/test_bit, idiv, ipow, ilog2, hton/ntoh), from exact integer     *)
(* arithmetic.  Constant-free.                                                                          *)
(*                                                                                                     *)
(* An integer type is a descriptor (w, s): w bits, s = 1 signed / 0 unsigned.  Values of 8/16-bit       *)
(* types are logged as their mathematical value (a TLC integer); values of 32/64-bit types as the       *)
(* little-endian array of the 16-bit limbs of their two's complement pattern (TLC integers are 32-bit). *)
(*   * bit functions are judged on the 0/1 sequence (BitsIM), for every width;                          *)
(*   * arithmetic is judged with TLC integers when every type involved is at most 16 bits wide          *)
(*     (operators ...I below) and with the limb integers of WideIM otherwise (operators W!...Z);        *)
(*     IntMath.tla proves the two families equal on all 8-bit pairs.                                    *)
(* An event is judged only inside the documented domain of the function (Exp(ev).dom); the driver       *)
(* deliberately calls on a whole grid and leaves the domain decision to this module.                    *)
EXTENDS Integers, Sequences, FiniteSets, TLC, BitsIM

W == INSTANCE WideIM WITH WB <- 32768, LB <- 15

\* ---- arithmetic on TLC integers (types of at most 16 bits: no intermediate exceeds 2^17) ----------
IMin(w, s) == IF s = 1 THEN 0 - 2^(w - 1) ELSE 0
IMax(w, s) == IF s = 1 THEN 2^(w - 1) - 1 ELSE 2^w - 1
IFits(x, w, s) == IMin(w, s) <= x /\ x <= IMax(w, s)
IClamp(x, w, s) == IF x < IMin(w, s) THEN IMin(w, s) ELSE IF x > IMax(w, s) THEN IMax(w, s) ELSE x
IAbs(x) == IF x < 0 THEN 0 - x ELSE x
\* the same for a value |x| < 2^31 against a type that may be 32/64 bits wide (whose limits TLC cannot hold)
IFitsW(x, w, s) == IF w <= 16 THEN IFits(x, w, s) ELSE (s = 1 \/ x >= 0)
IClampW(x, w, s) == IF w <= 16 THEN IClamp(x, w, s) ELSE IF s = 0 /\ x < 0 THEN 0 ELSE x
\* two's complement limbs (16 bits each, little-endian) of an integer |v| < 2^31 in a type of w >= 32 bits
LimbsOfInt(v, w) == [k \in 1..(w \div 16) |-> IF k = 1 THEN v % 65536
                                              ELSE IF k = 2 THEN (v \div 65536) % 65536
                                              ELSE IF v < 0 THEN 65535 ELSE 0]
\* the C++ operators / and %
IQuot(x, y) == LET q == IAbs(x) \div IAbs(y) IN IF (x < 0) # (y < 0) THEN 0 - q ELSE q
IRem(x, y) == LET r == IAbs(x) % IAbs(y) IN IF x < 0 THEN 0 - r ELSE r

AddSatI(x, y, w, s) == IClamp(x + y, w, s)
SubSatI(x, y, w, s) == IClamp(x - y, w, s)
DivSatI(x, y, w, s) == IClamp(IQuot(x, y), w, s)
SatCastI(x, w, s) == IClamp(x, w, s)
MidpointI(a, b) == a + IQuot(b - a, 2)

RECURSIVE GcdN(_, _)
GcdN(a, b) == IF b = 0 THEN a ELSE GcdN(b, a % b)
GcdI(a, b) == GcdN(IAbs(a), IAbs(b))
\* declarative: the greatest common divisor is the greatest of the common divisors
GcdDecl(a, b) == IF a = 0 /\ b = 0 THEN 0
                 ELSE LET m == IF IAbs(a) > IAbs(b) THEN IAbs(a) ELSE IAbs(b)
                          D == {d \in 1..m : IAbs(a) % d = 0 /\ IAbs(b) % d = 0}
                      IN CHOOSE d \in D : \A e \in D : e <= d

\* [ok, v]: ok iff lcm(|a|,|b|) is representable in (w, s)
LcmI(a, b, w, s) ==
    IF a = 0 \/ b = 0 THEN [ok |-> TRUE, v |-> 0]
    ELSE LET q == IAbs(a) \div GcdI(a, b) IN
         IF q <= IMax(w, s) \div IAbs(b) THEN [ok |-> TRUE, v |-> q * IAbs(b)] ELSE [ok |-> FALSE, v |-> 0]

RECURSIVE PowCapI(_, _, _, _)
PowCapI(acc, m, e, lim) == IF e = 0 THEN acc
                           ELSE IF acc > lim \div m THEN -1 ELSE PowCapI(acc * m, m, e - 1, lim)
IPowI(b, e, w, s) ==
    IF e = 0 THEN [ok |-> TRUE, v |-> 1]
    ELSE IF b = 0 THEN [ok |-> TRUE, v |-> 0]
    ELSE IF IAbs(b) = 1 THEN [ok |-> TRUE, v |-> IF b < 0 /\ e % 2 = 1 THEN -1 ELSE 1]
    ELSE LET r == PowCapI(1, IAbs(b), e, 2^w)
             z == IF b < 0 /\ e % 2 = 1 THEN 0 - r ELSE r
         IN IF r >= 0 /\ IFits(z, w, s) THEN [ok |-> TRUE, v |-> z] ELSE [ok |-> FALSE, v |-> 0]

\* ---- decoding logged values -----------------------------------------------------------------------
Small(w) == w <= 16
ValOK(x, w, s) == IF Small(w) THEN IFits(x, w, s) ELSE LimbsOK(x, w)
Word(x, w) == IF Small(w) THEN BitsOfNat(PatOf(x, w), w) ELSE BitsOfLimbs(x, w)
Unword(b, s) == IF Small(Len(b)) THEN ValOf(NatOfBits(b), Len(b), s) ELSE LimbsOfBits(b)
ZVal(x, w, s) == IF Small(w) THEN W!ZOfInt(x) ELSE W!ZOfLimbs16(x, w, s)

Has(ev, f) == f \in DOMAIN ev
Widths(ev) == {ev.w} \cup (IF Has(ev, "w2") THEN {ev.w2} ELSE {}) \cup (IF Has(ev, "rw") THEN {ev.rw} ELSE {})
\* type of the result: same as the argument unless the event names one
RW(ev) == IF Has(ev, "rw") THEN ev.rw ELSE ev.w
RS(ev) == IF Has(ev, "rs") THEN ev.rs ELSE ev.s
\* TLC integers suffice when every argument type is at most 16 bits wide (a wider result type only receives a
\* value below 2^31) - except lcm of 16-bit arguments in a wider type, whose value may exceed 2^31
SmallEv(ev) == /\ Small(ev.w) /\ (Has(ev, "w2") => Small(ev.w2))
               /\ (ev.op = "lcm" /\ ~Small(RW(ev)) => ev.w = 8 /\ ev.w2 = 8)

BitOps == {"bits", "bswap", "rot", "bitpos", "hton", "ilog2"}
ArithOps == {"add_sat", "div_sat", "midpoint", "gcd", "lcm", "abs", "idiv", "ipow", "sat_cast", "in_range", "cmp"}
\* grouped events: every single-type binary function on one pair ("bin"), the mixed-type ones ("mix")
\* and saturate_cast / in_range of one value to every target type ("casts": to = <<rw, rs, cast result, in_range>>...)
GroupOps == {"bin", "mix", "casts"}
\* "crash": under VH_DOMAIN_ONLY (sanitizer runs) the driver makes in-domain calls only; a call group that was stopped
\* by a sanitizer, a signal or the watchdog is logged as one crash event - always a deviation
AllOps == BitOps \cup ArithOps \cup GroupOps \cup {"crash"}

\* the logged arguments are well-formed values of their types (anything else is a harness error)
WellFormed(ev) ==
    /\ ev.op \in AllOps
    /\ ev.w \in {8, 16, 32, 64} /\ ev.s \in {0, 1} /\ ValOK(ev.x, ev.w, ev.s)
    /\ (Has(ev, "w2") => ev.w2 \in {8, 16, 32, 64} /\ ev.s2 \in {0, 1})
    /\ (Has(ev, "rw") => ev.rw \in {8, 16, 32, 64} /\ ev.rs \in {0, 1})
    /\ (Has(ev, "y") => IF Has(ev, "w2") THEN ValOK(ev.y, ev.w2, ev.s2) ELSE ValOK(ev.y, ev.w, ev.s))
    /\ (ev.op \in ArithOps \ {"in_range", "cmp", "idiv"} => ValOK(ev.ret, RW(ev), RS(ev)))
    /\ (ev.op = "casts" => \A k \in DOMAIN ev.to : /\ Len(ev.to[k]) = 4 /\ ev.to[k][1] \in {8, 16, 32, 64} /\ ev.to[k][2] \in {0, 1}
                                                    /\ ValOK(ev.to[k][3], ev.to[k][1], ev.to[k][2]))
    /\ (ev.op \in {"bin", "mix"} => ValOK(ev.gcd, RW(ev), RS(ev)) /\ ValOK(ev.lcm, RW(ev), RS(ev)) /\ Len(ev.cmp) = 6)
    /\ (ev.op = "bin" => /\ ValOK(ev.add_sat, ev.w, ev.s) /\ ValOK(ev.div_sat, ev.w, ev.s) /\ ValOK(ev.midpoint, ev.w, ev.s)
                         /\ Len(ev.idiv) = 2 /\ (Has(ev, "ipow") => ValOK(ev.ipow, ev.w, ev.s)))
    /\ (ev.op \in {"bits", "rot", "bitpos"} => ev.s = 0)
    /\ (ev.op = "rot" => ev.n \in -100000..100000)
    /\ (ev.op = "bitpos" => ev.p \in 0..(ev.w - 1))

\* ---- expected results: [dom |-> inside the documented domain, v |-> value] -------------------------------
Out == [dom |-> FALSE, v |-> 0]
In(v) == [dom |-> TRUE, v |-> v]

\* all types at most 16 bits: TLC integers
ExpI(ev) ==
    LET x == ev.x w == ev.w s == ev.s rw == RW(ev) rs == RS(ev) IN
    CASE ev.op = "add_sat" -> In(AddSatI(x, ev.y, w, s))
      [] ev.op = "div_sat" -> IF ev.y = 0 THEN Out ELSE In(DivSatI(x, ev.y, w, s))
      [] ev.op = "midpoint" -> In(MidpointI(x, ev.y))
      [] ev.op = "gcd" -> IF IFitsW(IAbs(x), rw, rs) /\ IFitsW(IAbs(ev.y), rw, rs) THEN In(GcdI(x, ev.y)) ELSE Out
      [] ev.op = "lcm" -> IF ~Small(rw) THEN In(LcmI(x, ev.y, 16, 0).v)         \* 8-bit arguments: at most 255 * 255
                          ELSE IF IFits(IAbs(x), rw, rs) /\ IFits(IAbs(ev.y), rw, rs) /\ LcmI(x, ev.y, rw, rs).ok
                          THEN In(LcmI(x, ev.y, rw, rs).v) ELSE Out
      [] ev.op = "abs" -> IF IFits(IAbs(x), w, s) THEN In(IAbs(x)) ELSE Out
      [] ev.op = "idiv" -> IF ev.y # 0 /\ IFits(IQuot(x, ev.y), w, s) THEN In(<<IQuot(x, ev.y), IRem(x, ev.y)>>) ELSE Out
      [] ev.op = "ipow" -> IF ev.y >= 0 /\ IPowI(x, ev.y, w, s).ok THEN In(IPowI(x, ev.y, w, s).v) ELSE Out
      [] ev.op = "sat_cast" -> In(IClampW(x, rw, rs))
      [] ev.op = "in_range" -> In(IFitsW(x, rw, rs))
      [] ev.op = "cmp" -> LET y == ev.y IN In(<<x = y, x # y, x < y, x <= y, x > y, x >= y>>)

\* some type wider than 16 bits: limb integers
ExpZ(ev) ==
    LET w == ev.w s == ev.s rw == RW(ev) rs == RS(ev)
        x == ZVal(ev.x, w, s)
        y == IF Has(ev, "w2") THEN ZVal(ev.y, ev.w2, ev.s2) ELSE ZVal(ev.y, w, s)
    IN
    CASE ev.op = "add_sat" -> In(W!AddSatZ(x, y, w, s))
      [] ev.op = "div_sat" -> IF y = W!Z0 THEN Out ELSE In(W!DivSatZ(x, y, w, s))
      [] ev.op = "midpoint" -> In(W!MidpointZ(x, y))
      [] ev.op = "gcd" -> IF W!ZFits(W!ZAbs(x), rw, rs) /\ W!ZFits(W!ZAbs(y), rw, rs) THEN In(W!GcdZ(x, y)) ELSE Out
      [] ev.op = "lcm" -> IF W!ZFits(W!ZAbs(x), rw, rs) /\ W!ZFits(W!ZAbs(y), rw, rs) /\ W!ZFits(W!LcmZ(x, y), rw, rs)
                          THEN In(W!LcmZ(x, y)) ELSE Out
      [] ev.op = "abs" -> IF W!ZFits(W!ZAbs(x), w, s) THEN In(W!ZAbs(x)) ELSE Out
      [] ev.op = "idiv" -> IF y # W!Z0 /\ W!ZFits(W!ZQuot(x, y), w, s) THEN In(<<W!ZQuot(x, y), W!ZRem(x, y)>>) ELSE Out
      [] ev.op = "ipow" -> IF ~y.neg /\ W!IPowZ(x, y, w, s).ok THEN In(W!IPowZ(x, y, w, s).v) ELSE Out
      [] ev.op = "sat_cast" -> In(W!SatCastZ(x, rw, rs))
      [] ev.op = "in_range" -> In(W!ZFits(x, rw, rs))
      [] ev.op = "cmp" -> LET c == W!ZCmp(x, y) IN In(<<c = 0, c # 0, c < 0, c <= 0, c > 0, c >= 0>>)

\* the logged result in the same representation
RetI(ev) == ev.ret
\* the expected value of the TLC-integer route in the representation of the result type
ReprI(ev, v) == IF ev.op \in {"in_range", "cmp", "idiv"} \/ Small(RW(ev)) THEN v ELSE LimbsOfInt(v, RW(ev))
RetZ(ev) == CASE ev.op \in {"in_range", "cmp"} -> ev.ret
              [] ev.op = "idiv" -> <<ZVal(ev.ret[1], ev.w, ev.s), ZVal(ev.ret[2], ev.w, ev.s)>>
              [] OTHER -> ZVal(ev.ret, RW(ev), RS(ev))

ArithBad(ev) ==
    LET e == IF SmallEv(ev) THEN ExpI(ev) ELSE ExpZ(ev) IN
    IF ~e.dom THEN ""
    ELSE IF Has(ev, "trap") THEN "+trap_" \o ev.op
    ELSE IF (IF SmallEv(ev) THEN RetI(ev) = ReprI(ev, e.v) ELSE RetZ(ev) = e.v) THEN "" ELSE "+" \o ev.op

\* ---- bit functions ---------------------------------------------------------------------------------
Chk(name, ok) == IF ok THEN "" ELSE "+" \o name
\* a logged word-valued result r of the w-bit type (w, s) has the expected bit pattern
Same(r, w, s, b) == ValOK(r, w, s) /\ Word(r, w) = b

BitsBad(ev) ==
    LET w == ev.w b == Word(ev.x, w) IN
    Chk("popcount", ev.popcount = Popcount(b))
    \o Chk("countl_zero", ev.clz = Countl(b, 0)) \o Chk("countl_one", ev.clo = Countl(b, 1))
    \o Chk("countr_zero", ev.ctz = Countr(b, 0)) \o Chk("countr_one", ev.cto = Countr(b, 1))
    \o Chk("bit_width", ev.width = BitWidth(b))
    \o Chk("has_single_bit", ev.single = HasSingleBit(b))
    \o Chk("bit_floor", Same(ev.floor, w, ev.s, BitFloor(b)))
    \o (IF BitCeilDefined(b) THEN Chk("bit_ceil", Has(ev, "ceil") /\ Same(ev.ceil, w, ev.s, BitCeil(b))) ELSE "")

RotBad(ev) ==
    LET w == ev.w b == Word(ev.x, w) IN
    Chk("rotl", Same(ev.rotl, w, ev.s, Rotl(b, ev.n))) \o Chk("rotr", Same(ev.rotr, w, ev.s, Rotr(b, ev.n)))

BitposBad(ev) ==
    LET w == ev.w b == Word(ev.x, w) p == ev.p IN
    Chk("set_bit", Same(ev.set, w, ev.s, SetBit(b, p))) \o Chk("reset_bit", Same(ev.reset, w, ev.s, ResetBit(b, p)))
    \o Chk("flip_bit", Same(ev.flip, w, ev.s, FlipBit(b, p))) \o Chk("test_bit", ev.test = TestBit(b, p))
    \o Chk("set_bit_value", Same(ev.setv0, w, ev.s, SetBitTo(b, p, 0)) /\ Same(ev.setv1, w, ev.s, SetBitTo(b, p, 1)))

\* network byte order is big-endian; le = the host is little-endian (logged by the driver from std::endian)
HtonBad(ev) ==
    LET w == ev.w b == Word(ev.x, w) e == IF ev.le THEN Byteswap(b) ELSE b IN
    Chk("hton", Same(ev.hton, w, ev.s, e)) \o Chk("ntoh", Same(ev.ntoh, w, ev.s, e))

\* byteswap is defined for every integer type: judged on the pattern
BswapBad(ev) ==
    LET w == ev.w b == Word(ev.x, w) IN
    Chk("byteswap", ValOK(ev.ret, w, ev.s) /\ Word(ev.ret, w) = Byteswap(b))

\* ilog2(x) for x >= 1: floor(log2 x) = bit_width - 1, returned in the argument's type
ILog2Bad(ev) ==
    LET w == ev.w b == Word(ev.x, w) pos == ~(ev.s = 1 /\ b[w] = 1) /\ b # Zeros(w) IN
    IF ~pos THEN ""
    ELSE Chk("ilog2", ValOK(ev.ret, w, ev.s) /\ ev.ret = (IF Small(w) THEN BitWidth(b) - 1 ELSE LimbsOfInt(BitWidth(b) - 1, w)))

\* a grouped event is judged function by function through the single-call events it stands for
Trapped(ev, name) == Has(ev, "traps") /\ \E i \in DOMAIN ev.traps : ev.traps[i] = name
Sub(ev, op, ret) ==
    LET base == [op |-> op, w |-> ev.w, s |-> ev.s, x |-> ev.x, y |-> ev.y, ret |-> ret]
        typed == IF ev.op = "mix" THEN [w2 |-> ev.w2, s2 |-> ev.s2, rw |-> ev.rw, rs |-> ev.rs] @@ base ELSE base
    IN IF Trapped(ev, op) THEN [trap |-> TRUE] @@ typed ELSE typed
BinSubs(ev) == <<Sub(ev, "add_sat", ev.add_sat), Sub(ev, "div_sat", ev.div_sat), Sub(ev, "midpoint", ev.midpoint),
                 Sub(ev, "gcd", ev.gcd), Sub(ev, "lcm", ev.lcm), Sub(ev, "idiv", ev.idiv), Sub(ev, "cmp", ev.cmp)>>
               \o (IF Has(ev, "ipow") THEN <<Sub(ev, "ipow", ev.ipow)>> ELSE <<>>)
MixSubs(ev) == <<Sub(ev, "cmp", ev.cmp), Sub(ev, "gcd", ev.gcd), Sub(ev, "lcm", ev.lcm)>>
CastSub(ev, op, t, ret) == [op |-> op, w |-> ev.w, s |-> ev.s, x |-> ev.x, rw |-> t[1], rs |-> t[2], ret |-> ret]
RECURSIVE CastSubsR(_, _)
CastSubsR(ev, k) == IF k > Len(ev.to) THEN <<>>
                    ELSE <<CastSub(ev, "sat_cast", ev.to[k], ev.to[k][3]), CastSub(ev, "in_range", ev.to[k], ev.to[k][4])>>
                         \o CastSubsR(ev, k + 1)
Subs(ev) == IF ev.op = "bin" THEN BinSubs(ev) ELSE IF ev.op = "mix" THEN MixSubs(ev) ELSE CastSubsR(ev, 1)
RECURSIVE GroupBadR(_, _)
GroupBadR(subs, i) == IF i > Len(subs) THEN "" ELSE ArithBad(subs[i]) \o GroupBadR(subs, i + 1)

Bad(ev) ==
    CASE ev.op = "crash" -> "+trap_crash_" \o ev.of
      [] ev.op = "bits" -> BitsBad(ev)
      [] ev.op = "rot" -> RotBad(ev)
      [] ev.op = "bitpos" -> BitposBad(ev)
      [] ev.op = "hton" -> HtonBad(ev)
      [] ev.op = "bswap" -> BswapBad(ev)
      [] ev.op = "ilog2" -> ILog2Bad(ev)
      [] ev.op \in GroupOps -> GroupBadR(Subs(ev), 1)
      [] OTHER -> ArithBad(ev)

\* expected values for the deviation report (a record of JSON-able values)
ExpectedRec(ev) ==
    LET w == ev.w b == Word(ev.x, w) IN
    CASE ev.op = "crash" -> [ret |-> "the call returns"]
      [] ev.op = "bits" -> [popcount |-> Popcount(b), clz |-> Countl(b, 0), clo |-> Countl(b, 1), ctz |-> Countr(b, 0),
                            cto |-> Countr(b, 1), width |-> BitWidth(b), single |-> HasSingleBit(b),
                            floor |-> Unword(BitFloor(b), 0),
                            ceil |-> IF BitCeilDefined(b) THEN Unword(BitCeil(b), 0) ELSE Unword(Zeros(w), 0)]
      [] ev.op = "rot" -> [rotl |-> Unword(Rotl(b, ev.n), 0), rotr |-> Unword(Rotr(b, ev.n), 0)]
      [] ev.op = "bitpos" -> [set |-> Unword(SetBit(b, ev.p), 0), reset |-> Unword(ResetBit(b, ev.p), 0),
                              flip |-> Unword(FlipBit(b, ev.p), 0), test |-> TestBit(b, ev.p)]
      [] ev.op = "hton" -> [hton |-> Unword(IF ev.le THEN Byteswap(b) ELSE b, ev.s)]
      [] ev.op = "bswap" -> [ret |-> Unword(Byteswap(b), ev.s)]
      [] ev.op = "ilog2" -> [ret |-> BitWidth(b) - 1]
      [] ev.op \in GroupOps -> [k \in 1..Len(Subs(ev)) |->
                                  LET e == IF SmallEv(Subs(ev)[k]) THEN ExpI(Subs(ev)[k]) ELSE ExpZ(Subs(ev)[k]) IN
                                  [f |-> Subs(ev)[k].op, rw |-> RW(Subs(ev)[k]), rs |-> RS(Subs(ev)[k]), defined |-> e.dom, v |-> e.v]]
      [] OTHER -> [ret |-> (IF SmallEv(ev) THEN ExpI(ev) ELSE ExpZ(ev)).v]
=============================================================================
