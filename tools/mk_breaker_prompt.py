#!/usr/bin/env python3
"""print a breaker prompt: mk_breaker_prompt.py <prop id> <worktree> <outdir> <n> [focus text]"""
import json, sys
pid, wt, out, n = sys.argv[1:5]
focus = sys.argv[5] if len(sys.argv) > 5 else ""
p = [json.loads(l) for l in open('/verif/properties.jsonl') if json.loads(l)['id'] == pid][0]
t = open('/verif/tools/breaker_prompt.txt').read()
print(t.format(WT=wt, OUT=out, TITLE=p['title'], STATEMENT=p['statement'], QUANT=p['quantifier']['text'], N=n,
               FOCUS=("\nFocus for this assignment: " + focus + "\n") if focus else ""))
