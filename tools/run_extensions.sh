#!/bin/bash
# Runs the extension modules (specification growth beyond the 20 listed properties; not in MANIFEST.json).
cd "$(dirname "$0")/.." || exit 2
rc=0
for p in X01 X02 X03 X04 X11 X12 X13 X14; do
  python3 tools/check.py $p --tier "${1:-quick}" > build/ext_$p.log 2>&1; r=$?
  echo "$p exit=$r $(grep -c VIOLATION build/ext_$p.log) violation line(s)"
  [ $r -ne 0 ] && rc=1
done
exit $rc
