--------------------------- MODULE DurationOps ---------------------------
(* Constant-free meaning of std::chrono::duration / time_point arithmetic ([time.duration],          *)
(* [time.duration.cast], [time.duration.alg], [time.duration.nonmember], [time.traits.specializations]) *)
(* as EXACT RATIONAL ARITHMETIC over wide integers (WideDur.tla).  Written from the standard, not     *)
(* from the etl sources.                                                                              *)
(*                                                                                                    *)
(* A duration is (rep, period index, count).  Periods[i] = <<num, den>> (reduced).  For an ordered    *)
(* pair (i, j) the conversion factor Periods[i] / Periods[j] = N / D (reduced) is kept as two         *)
(* sequences of chunks < 2^15 whose products are N and D, so that multiplying and dividing a wide     *)
(* count is short arithmetic.  The exact value of converting count c from i to j is c N / D.          *)
(*                                                                                                    *)
(* Representations: "i64", "i32" (two's complement), "f64" (IEEE double).  A floating result is only  *)
(* judged where it is exact: every intermediate integer below 2^53 and the quotient a dyadic rational *)
(* (then IEEE multiplication/division are exact, so the standard's formula yields exactly c N / D).   *)
(* A value is [w |-> wide, e |-> k] = w / 2^k  (k = 0 for integers; k minimal).                       *)
(*                                                                                                    *)
(* Pre(...) = the input lies in the domain where (a) the exact result is representable and (b) the    *)
(* arithmetic the standard prescribes (duration_cast: CR(count) * CF::num / CF::den in                *)
(* CR = common_type<To::rep, Rep, intmax_t>; operators: via the common type) has no signed overflow.  *)
EXTENDS WideDur, Integers, Sequences, FiniteSets

Periods == << <<1, 1000000000>>, <<1, 1000000>>, <<1, 1000>>, <<1, 1>>, <<60, 1>>, <<3600, 1>>, <<86400, 1>>,
              <<1, 3>>, <<5, 7>>, <<1001, 30000>> >>
NP == Len(Periods)

RECURSIVE Gcd(_, _)
Gcd(a, b) == IF b = 0 THEN a ELSE Gcd(b, a % b)

\* n >= 1 as chunks < Base (trial division by the small primes; the cofactor must itself be < Base)
Primes == <<2, 3, 5, 7, 11, 13>>
RECURSIVE ChunksFrom(_, _, _)
ChunksFrom(n, k, cur) ==
    IF n = 1 THEN (IF cur = 1 THEN <<>> ELSE <<cur>>)
    ELSE IF k > Len(Primes) THEN (IF cur = 1 THEN <<n>> ELSE <<cur, n>>)
    ELSE LET p == Primes[k] IN
         IF n % p = 0 THEN (IF cur * p < Base THEN ChunksFrom(n \div p, k, cur * p)
                            ELSE <<cur>> \o ChunksFrom(n \div p, k, p))
         ELSE ChunksFrom(n, k + 1, cur)
Chunks(n) == ChunksFrom(n, 1, 1)

RECURSIVE Prod(_)
Prod(s) == IF s = <<>> THEN 1 ELSE Head(s) * Prod(Tail(s))
ChunksOK(n) == LET c == Chunks(n) IN Prod(c) = n /\ \A i \in 1..Len(c) : c[i] >= 1 /\ c[i] < Base

\* ratio_divide<Periods[i], Periods[j]> reduced:  n = chunks of the numerator, d = of the denominator,
\* g = gcd of the two numerators, l = lcm of the two denominators as a wide integer
CFRec(p, q) ==
    LET g1 == Gcd(p[1], q[1])
        g2 == Gcd(p[2], q[2])
    IN [n |-> Chunks(p[1] \div g1) \o Chunks(q[2] \div g2),
        d |-> Chunks(p[2] \div g2) \o Chunks(q[1] \div g1),
        g |-> g1,
        l |-> WMul(W(p[2]), W(q[2] \div g2))]
CFTab == [i \in 1..NP |-> [j \in 1..NP |-> CFRec(Periods[i], Periods[j])]]
CF(i, j) == CFTab[i][j]
WProd(ch) == WMulChunks(WOne, ch)

\* ---- representations -----------------------------------------------------------------------------
Reps == {"i64", "i32", "f64"}
IsInt(r) == r # "f64"
P53 == WPow2(53)
P31 == WPow2(31)
P63 == WPow2(63)
N31 == WNeg(P31)
N63 == WNeg(P63)
RepFits(r, x) == IF r = "i64" THEN WLe(N63, x) /\ WLt(x, P63)
                 ELSE IF r = "i32" THEN WLe(N31, x) /\ WLt(x, P31)
                 ELSE WAbsLe(x, P53)
CommonRep(a, b) == IF a = "f64" \/ b = "f64" THEN "f64" ELSE IF a = "i64" \/ b = "i64" THEN "i64" ELSE "i32"
CastCR(rt, rf) == IF rt = "f64" \/ rf = "f64" THEN "f64" ELSE "i64"     \* common_type<To::rep, Rep, intmax_t>

\* ---- values ----------------------------------------------------------------------------------------
V(w) == [w |-> w, e |-> 0]
\* x / prod(ch) as a value, provided it is a dyadic rational (exponent searched up to 40)
RECURSIVE DyFrom(_, _, _)
DyFrom(x, ch, k) == IF k > 40 THEN [w |-> WZero, e |-> -1]
                    ELSE IF WExact(x, ch) THEN [w |-> WTrunc(x, ch), e |-> k]
                    ELSE DyFrom(WMulSmall(x, 2), ch, k + 1)
Dyadic(x, ch) == DyFrom(x, ch, 0)
IsDyadic(x, ch) == WExact(WMul(x, WPow2(40)), ch)

\* ---- duration_cast and the rounding casts [time.duration.cast] [time.duration.alg] ---------------
\* exact numerator A = c * N; the exact result is A / D
Num(i, j, c) == WMulChunks(c, CF(i, j).n)
Den(i, j) == CF(i, j).d
\* A floating-point source may hold a fractional count  c / 2^ce  (ce in 0..2): the exact result is then
\* c N / (D 2^ce) - the same formulas with the chunk 2^ce appended to the denominator.
DenE(i, j, ce) == IF ce = 0 THEN Den(i, j) ELSE Den(i, j) \o <<2 ^ ce>>

\* everything the preconditions need about one input, computed once
UCtx(i, j, c, ce) ==
    LET a == Num(i, j, c) d == DenE(i, j, ce) dw == WProd(d) IN
    [a |-> a, dw |-> dw, t |-> WTrunc(a, d), f |-> WFloor(a, d), ce |-> WCeil(a, d), dy |-> IsDyadic(a, d),
     apd |-> WAdd(a, dw), amd |-> WSub(a, dw), d1 |-> (Den(i, j) = <<>>)]

CastPreC(rf, rt, c, x) ==
    LET cr == CastCR(rt, rf) IN
    /\ RepFits(rf, c)
    /\ RepFits(cr, x.a)
    /\ (cr = "f64" => RepFits("f64", x.dw))
    /\ IF rt = "f64" THEN x.dy ELSE RepFits(rt, x.t)
CastPre(i, j, rf, rt, c, ce) == CastPreC(rf, rt, c, UCtx(i, j, c, ce))
CastVal(i, j, rt, c, ce) ==
    LET a == Num(i, j, c) d == DenE(i, j, ce) IN IF rt = "f64" THEN Dyadic(a, d) ELSE V(WTrunc(a, d))

\* floor / ceil / round: greatest t <= d / least t >= d / nearest, ties to even.  The reference algorithm
\* compares through common_type<To, From>, where t and d have the counts t * D and c * N: both, and the
\* neighbours one tick of To away, must be representable there.
RoundPathPreC(rf, rt, c, x) ==
    LET ct == CommonRep(rf, rt) IN
    /\ CastPreC(rf, rt, c, x)
    /\ RepFits(ct, x.apd) /\ RepFits(ct, x.amd)
FloorPreC(rf, rt, c, x) == RoundPathPreC(rf, rt, c, x) /\ (IsInt(rt) => RepFits(rt, x.f))
CeilPreC(rf, rt, c, x) == RoundPathPreC(rf, rt, c, x) /\ (IsInt(rt) => RepFits(rt, x.ce))
FloorPre(i, j, rf, rt, c, ce) == FloorPreC(rf, rt, c, UCtx(i, j, c, ce))
CeilPre(i, j, rf, rt, c, ce) == CeilPreC(rf, rt, c, UCtx(i, j, c, ce))
FloorVal(i, j, rt, c, ce) == IF rt = "f64" THEN Dyadic(Num(i, j, c), DenE(i, j, ce)) ELSE V(WFloor(Num(i, j, c), DenE(i, j, ce)))
CeilVal(i, j, rt, c, ce) == IF rt = "f64" THEN Dyadic(Num(i, j, c), DenE(i, j, ce)) ELSE V(WCeil(Num(i, j, c), DenE(i, j, ce)))

\* round: To::rep must not be floating ([time.duration.alg])
RoundW(a, d) ==
    LET f  == WFloor(a, d)
        dw == WProd(d)
        lo == WSub(a, WMul(f, dw))                   \* a - f D   in [0, D)
        hi == WSub(dw, lo)                           \* (f+1) D - a
        c  == WCmp(lo, hi)
    IN IF c < 0 THEN f ELSE IF c > 0 THEN WSucc(f) ELSE IF WIsOdd(f) THEN WSucc(f) ELSE f
RoundPreC(rf, rt, c, x) ==
    /\ IsInt(rt) /\ RoundPathPreC(rf, rt, c, x)
    /\ RepFits(rt, x.f) /\ RepFits(rt, WSucc(x.f))
RoundPre(i, j, rf, rt, c, ce) == RoundPreC(rf, rt, c, UCtx(i, j, c, ce))
RoundVal(i, j, rt, c, ce) == V(RoundW(Num(i, j, c), DenE(i, j, ce)))

\* converting constructor [time.duration.cons]: participates iff the target is floating, or the factor
\* is integral and the source is not floating; value = duration_cast
ConvAllowedC(rf, rt, d1) == rt = "f64" \/ (d1 /\ rf # "f64")
ConvAllowed(i, j, rf, rt) == ConvAllowedC(rf, rt, Den(i, j) = <<>>)
UPreC(op, rf, rt, c, x) ==
    CASE op = "cast" -> CastPreC(rf, rt, c, x)
      [] op = "floor" -> FloorPreC(rf, rt, c, x)
      [] op = "ceil" -> CeilPreC(rf, rt, c, x)
      [] op = "round" -> RoundPreC(rf, rt, c, x)
      [] op = "conv" -> ConvAllowedC(rf, rt, x.d1) /\ CastPreC(rf, rt, c, x)
\* the same context, computing only the fields the precondition of (op, rt) reads (the judge evaluates one
\* combination per event; Duration.tla shares one full context among all combinations of an input)
UCtxFor(op, rt, i, j, c, ce) ==
    LET a == Num(i, j, c) d == DenE(i, j, ce) dw == WProd(d) rnd == op \in {"floor", "ceil", "round"} IN
    [a |-> a, dw |-> dw,
     t |-> IF rt = "f64" THEN WZero ELSE WTrunc(a, d),
     f |-> IF op \in {"floor", "round"} /\ rt # "f64" THEN WFloor(a, d) ELSE WZero,
     ce |-> IF op = "ceil" /\ rt # "f64" THEN WCeil(a, d) ELSE WZero,
     dy |-> IF rt = "f64" THEN IsDyadic(a, d) ELSE FALSE,
     apd |-> IF rnd THEN WAdd(a, dw) ELSE WZero, amd |-> IF rnd THEN WSub(a, dw) ELSE WZero, d1 |-> (Den(i, j) = <<>>)]
\* a fractional count needs a floating-point source
FracOK(rf, ce) == ce \in 0..2 /\ (ce > 0 => rf = "f64")
UPre(op, i, j, rf, rt, c, ce) == FracOK(rf, ce) /\ UPreC(op, rf, rt, c, UCtxFor(op, rt, i, j, c, ce))

\* declarative readings used as laws (Duration.tla) ------------------------------------------------
\* t is the truncated / floor / ceiling quotient of a by D (D > 0 wide)
IsTruncOf(t, a, dw) ==
    LET p == WMul(WAbs(t), dw) IN
    /\ WLe(p, WAbs(a)) /\ WLt(WAbs(a), WAdd(p, dw))
    /\ (t.s = 0 \/ t.s = a.s)
IsFloorOf(t, a, dw) == LET p == WMul(t, dw) IN WLe(p, a) /\ WLt(a, WAdd(p, dw))
IsCeilOf(t, a, dw) == LET p == WMul(t, dw) IN WLe(a, p) /\ WLt(WSub(p, dw), a)
IsRoundOf(t, a, dw) ==
    LET diff == WAbs(WSub(a, WMul(t, dw)))
        twice == WAdd(diff, diff)
    IN WLt(twice, dw) \/ (twice = dw /\ ~WIsOdd(t))

\* ---- two durations: everything goes through the common type -----------------------------------------
\* common_type<duration<R1, P_i>, duration<R2, P_j>> = duration<common(R1, R2), ratio<gcd(nums), lcm(dens)>>;
\* in it the operands have the counts X = c1 * N and Y = c2 * D  (N / D = P_i / P_j reduced).
CvX(i, j, c1) == WMulChunks(c1, CF(i, j).n)
CvY(i, j, c2) == WMulChunks(c2, CF(i, j).d)
CommonPeriod(i, j) == <<W(CF(i, j).g), CF(i, j).l>>

\* q is the C++ quotient x / y (truncation toward zero), y # 0
IsQuotOf(q, x, y) ==
    LET p == WMul(WAbs(q), WAbs(y)) IN
    /\ WLe(p, WAbs(x)) /\ WLt(WAbs(x), WAdd(p, WAbs(y)))
    /\ (q.s = 0 \/ q.s = x.s * y.s)

BinOps == {"plus", "minus", "mod", "div", "cmp", "common"}
BinPreC(s, r1, r2, c1, c2, x, y) ==
    LET ct == CommonRep(r1, r2) IN
    /\ RepFits(r1, c1) /\ RepFits(r2, c2) /\ RepFits(ct, x) /\ RepFits(ct, y)
    /\ CASE s = "plus" -> RepFits(ct, WAdd(x, y))
         [] s = "minus" -> RepFits(ct, WSub(x, y))
         [] s = "mod" -> IsInt(ct) /\ y.s # 0 /\ ~(y = W(-1) /\ ~RepFits(ct, WNeg(x)))
         [] s = "div" -> /\ y.s # 0 /\ ~(y = W(-1) /\ ~RepFits(ct, WNeg(x)))
                         /\ (ct = "f64" => (WIsSmall(x) /\ WIsSmall(y) /\ WToInt(x) % WToInt(WAbs(y)) = 0))
         [] OTHER -> TRUE
BinPre(s, i, j, r1, r2, c1, c2) == BinPreC(s, r1, r2, c1, c2, CvX(i, j, c1), CvY(i, j, c2))
B(b) == IF b THEN 1 ELSE 0
CmpVec(x, y) == LET c == WCmp(x, y) IN <<B(c = 0), B(c # 0), B(c < 0), B(c <= 0), B(c > 0), B(c >= 0)>>

\* ---- one duration and a scalar / itself -----------------------------------------------------------
\* k is a native scalar, 1 <= |k| < Base
DivK(c, k) == LET t == WTrunc(c, <<IF k < 0 THEN -k ELSE k>>) IN IF k < 0 THEN WNeg(t) ELSE t
ModK(c, k) == WSub(c, WMul(DivK(c, k), W(k)))

MemberOps == {"neg", "pos", "preinc", "postinc", "predec", "postdec", "pluseq", "minuseq", "muleq", "diveq",
              "modeq", "modeq_d", "mul", "rmul", "divs", "mods", "abs", "zero", "count"}
\* new count of the object (for non-mutating spellings: the value of the result)
MemberNew(s, c, k) ==
    CASE s \in {"neg"} -> WNeg(c)
      [] s \in {"pos", "count"} -> c
      [] s \in {"preinc", "postinc"} -> WSucc(c)
      [] s \in {"predec", "postdec"} -> WPred(c)
      [] s = "pluseq" -> WAdd(c, W(k))
      [] s = "minuseq" -> WSub(c, W(k))
      [] s \in {"muleq", "mul", "rmul"} -> WMul(c, W(k))
      [] s \in {"diveq", "divs"} -> DivK(c, k)
      [] s \in {"modeq", "modeq_d", "mods"} -> ModK(c, k)
      [] s = "abs" -> WAbs(c)
      [] s = "zero" -> WZero
MemberRet(s, c, k) == IF s \in {"postinc", "postdec"} THEN c ELSE MemberNew(s, c, k)
Mutating == {"preinc", "postinc", "predec", "postdec", "pluseq", "minuseq", "muleq", "diveq", "modeq", "modeq_d"}
MemberPre(s, r, c, k) ==
    /\ (s \in {"diveq", "divs", "modeq", "modeq_d", "mods"} => (k # 0 /\ k > -Base /\ k < Base /\ IsInt(r)))
    /\ (s \in {"modeq", "modeq_d", "mods", "diveq", "divs"} => ~(k = -1 /\ ~RepFits(r, WNeg(c))))
    /\ (s \in {"neg", "abs"} => RepFits(r, WNeg(c)))
    /\ RepFits(r, c) /\ RepFits(r, W(k)) /\ RepFits(r, MemberNew(s, c, k))

\* ---- special values [time.duration.special], [time.traits.duration.values], [time.point.special] -------------
\* zero() = Rep(0), min() = numeric_limits<Rep>::lowest(), max() = numeric_limits<Rep>::max(); time_point::min()/max()
\* wrap duration::min()/max().  A limit travels as [m |-> wide, x |-> k] = m * 2^k (integers: k = 0; double: m odd).
\* The largest finite double is (2^53 - 1) * 2^971 and the lowest is its negation.
Lim(m, x) == [m |-> m, x |-> x]
LimVal(r, which) ==
    CASE which = "zero" -> Lim(WZero, 0)
      [] which = "max" -> IF r = "i64" THEN Lim(WPred(P63), 0) ELSE IF r = "i32" THEN Lim(WPred(P31), 0) ELSE Lim(WPred(P53), 971)
      [] which = "min" -> IF r = "i64" THEN Lim(N63, 0) ELSE IF r = "i32" THEN Lim(N31, 0) ELSE Lim(WNeg(WPred(P53)), 971)
LimitsOK(ev) ==
    /\ ev.zero = LimVal(ev.r, "zero") /\ ev.min = LimVal(ev.r, "min") /\ ev.max = LimVal(ev.r, "max")
    /\ ev.rel = <<1, 1, 1>>                      \* min() <= zero(), zero() <= max(), min() < max()  (by the library's operators)
    /\ (ev.r = "f64") = ("nm" \in DOMAIN ev)     \* double: -max() == min()
    /\ ("nm" \in DOMAIN ev => ev.nm = TRUE)

\* ---- the named typedefs [time.syn]: period and minimum width of the signed integer rep ----------------
Typedefs == [nanoseconds |-> <<1, 1000000000, 64>>, microseconds |-> <<1, 1000000, 55>>, milliseconds |-> <<1, 1000, 45>>,
             seconds |-> <<1, 1, 35>>, minutes |-> <<60, 1, 29>>, hours |-> <<3600, 1, 23>>, days |-> <<86400, 1, 25>>,
             weeks |-> <<604800, 1, 22>>, months |-> <<2629746, 1, 20>>, years |-> <<31556952, 1, 17>>]
==========================================================================
