"""Shared machinery of the tetl verification checks (python3, stdlib only).

Roles (see DESIGN.md section 2):
  tlc_mc()   - run TLC on a state-machine spec: invariants/properties + export of every transition
  plan_*()   - turn exported transitions into scripts (BFS path to the pre-state + the edge)
  build()    - compile a C++ driver against $VERIF_REPO/include (default /repo)
  run()      - run a driver, capture its trace
  tlc_tv()   - validate recorded traces with a *Trace.tla spec; returns deviations
  Report     - known-findings matching, VIOLATION / KNOWN-FINDING lines, evidence file
Exit codes: 0 held, 1 violation, 2 model/harness failure (never a VIOLATION line).
"""
import json
import os
import re
import shutil
import subprocess
import sys
import time
import hashlib
from collections import deque

VERIF = os.path.dirname(os.path.dirname(os.path.abspath(__file__)))
REPO = os.environ.get("VERIF_REPO", "/repo")
SPEC = os.path.join(VERIF, "spec")
HARNESS = os.path.join(VERIF, "harness")
BUILD = os.environ.get("VERIF_BUILD", os.path.join(VERIF, "build"))
EVID = os.environ.get("VERIF_EVID", os.path.join(VERIF, "evidence"))
TLA_CP = "/opt/veriftools/tla/tla2tools.jar:/opt/veriftools/tla/CommunityModules-deps.jar"
NCPU = os.cpu_count() or 4


class ModelFailure(Exception):
    """Build failure, TLC crash, malformed trace, timeout: exit 2, never a VIOLATION."""


def log(*a):
    print(*a, file=sys.stderr, flush=True)


def seed():
    try:
        return int(os.environ.get("VERIF_SEED", "1"))
    except ValueError:
        return 1


def workdir(*parts):
    d = os.path.join(BUILD, *parts)
    os.makedirs(d, exist_ok=True)
    return d


# ------------------------------------------------------------------------------------------
# C++ drivers
# ------------------------------------------------------------------------------------------
def build(src, out, flags=(), std="c++20", opt="-O1", timeout=900, include_repo=True):
    """Compile harness/<src> into build/<out>. Always rebuilds (header-only library: this *is*
    the rebuild from the current working tree)."""
    if os.environ.get("VERIF_SANITIZE") and include_repo and "-fsyntax-only" not in flags and not any("-fsanitize" in f for f in flags):
        # C02: the same drivers, built with ASan + UBSan (a stop inside a valid call is a trap/crash deviation)
        flags = list(flags) + ["-fsanitize=address,undefined", "-fno-sanitize-recover=all", "-g"]
        out = out + "_san"
    if os.environ.get("VERIF_COVERAGE") and include_repo and "-fsyntax-only" not in flags:
        # binding coverage (tools/bindcov.py): which lines of the anchored headers do the drivers execute?
        flags = list(flags) + ["--coverage", "-fprofile-update=atomic", "-DVH_COVERAGE"]
        opt = "-O0"
    outp = os.path.join(workdir("bin"), out)
    cmd = ["g++", "-std=" + std, opt, "-w", "-I" + HARNESS]
    if include_repo:
        cmd += ["-I" + os.path.join(REPO, "include")]
    cmd += list(flags) + [os.path.join(HARNESS, src), "-o", outp]
    t0 = time.time()
    try:
        p = subprocess.run(cmd, capture_output=True, text=True, timeout=timeout)
    except subprocess.TimeoutExpired:
        raise ModelFailure("compile timeout: " + " ".join(cmd))
    if p.returncode != 0:
        raise ModelFailure("compile failed: %s\n%s" % (" ".join(cmd), p.stderr[-4000:]))
    log("[build] %s %.1fs" % (out, time.time() - t0))
    return outp


def build_many(jobs, par=None):
    """jobs: list of kwargs for build(); compiled in parallel; returns list of paths."""
    from concurrent.futures import ThreadPoolExecutor
    with ThreadPoolExecutor(max_workers=par or min(NCPU, 8)) as ex:
        futs = [ex.submit(build, **j) for j in jobs]
        return [f.result() for f in futs]


def run(cmd, stdout_path=None, timeout=900, env=None, ok_codes=(0,), stdin_path=None):
    """Run a driver. Returns (returncode, stderr text)."""
    e = dict(os.environ)
    e.setdefault("VERIF_SEED", str(seed()))
    if env:
        e.update(env)
    out = open(stdout_path, "wb") if stdout_path else subprocess.DEVNULL
    inp = open(stdin_path, "rb") if stdin_path else None
    try:
        p = subprocess.run(cmd, stdout=out, stderr=subprocess.PIPE, timeout=timeout, env=e, stdin=inp)
    except subprocess.TimeoutExpired:
        raise ModelFailure("driver timeout: " + " ".join(map(str, cmd)))
    finally:
        if stdout_path:
            out.close()
        if inp:
            inp.close()
    err = p.stderr.decode("utf-8", "replace")
    if ok_codes is not None and p.returncode not in ok_codes:
        raise ModelFailure("driver failed rc=%d: %s\n%s" % (p.returncode, " ".join(map(str, cmd)), err[-3000:]))
    return p.returncode, err


def run_parallel(tasks, par=None):
    """tasks: list of (cmd, stdout_path) ; runs concurrently; returns list of (rc, err)."""
    from concurrent.futures import ThreadPoolExecutor
    with ThreadPoolExecutor(max_workers=par or NCPU) as ex:
        futs = [ex.submit(run, *t[:2], **(t[2] if len(t) > 2 else {})) for t in tasks]
        return [f.result() for f in futs]


def run_scripts_resilient(cmd_of, scripts, out_path, tag, chunk=3000, par=None, timeout=900):
    """Replay `scripts` (list of lists of call dicts) through a driver that may die (sanitizer abort, signal).
    cmd_of(script_file) -> argv. The driver must emit {"op":"reset"} per script (env VH_MARK=1).
    A death is turned into one event {"op":"trap", ...} for the script in flight and the replay resumes
    with the next script. Returns dict(traps=[...], runs=n)."""
    from concurrent.futures import ThreadPoolExecutor
    d = workdir("resilient", tag)
    shutil.rmtree(d, ignore_errors=True)
    os.makedirs(d)
    chunks = [scripts[i:i + chunk] for i in range(0, len(scripts), chunk)]

    def one(ci):
        todo = chunks[ci]
        outp = os.path.join(d, "out_%d.ndjson" % ci)
        traps = []
        runs = 0
        with open(outp, "wb") as outf:
            while todo:
                sp = os.path.join(d, "script_%d_%d.ndjson" % (ci, runs))
                write_scripts(todo, sp)
                part = os.path.join(d, "part_%d_%d.ndjson" % (ci, runs))
                rc, err = run(cmd_of(sp), part, timeout=timeout, env={"VH_MARK": "1"}, ok_codes=None)
                runs += 1
                nreset = 0
                good_upto = 0   # byte offset of the start of the last (possibly incomplete) script
                data = open(part, "rb").read()
                lines = data.split(b"\n")
                keep = []
                cur = []
                for ln in lines:
                    if not ln:
                        continue
                    if ln.startswith(b'{"op":"reset"}'):
                        nreset += 1
                        keep += cur
                        cur = [ln]
                    else:
                        cur.append(ln)
                if rc == 0:
                    keep += cur
                    outf.write(b"\n".join(keep) + (b"\n" if keep else b""))
                    break
                # died inside script number nreset (1-based); events of that script are kept too (they were judged valid calls)
                keep += [l for l in cur if _is_json(l)]
                outf.write(b"\n".join(keep) + (b"\n" if keep else b""))
                if nreset == 0:
                    raise ModelFailure("driver died before the first script: rc=%s %s" % (rc, err[-800:]))
                crashed = todo[nreset - 1]
                rep = [l for l in err.splitlines() if "ERROR" in l or "runtime error" in l or "SUMMARY" in l]
                trap = {"op": "trap", "rc": rc, "script": crashed, "events_in_script": max(0, len(cur) - 1),
                        "report": (rep[0] if rep else err[-300:])[:400], "inst": tag}
                outf.write(json.dumps(trap).encode() + b"\n")
                traps.append(trap)
                todo = todo[nreset:]
                if runs > 200:
                    raise ModelFailure("more than 200 driver deaths in one chunk (%s)" % tag)
        return outp, traps, runs
    with ThreadPoolExecutor(max_workers=par or NCPU) as ex:
        res = list(ex.map(one, range(len(chunks))))
    with open(out_path, "wb") as f:
        for outp, _, _ in res:
            f.write(open(outp, "rb").read())
    shutil.rmtree(d, ignore_errors=True)
    return {"traps": [t for _, ts, _ in res for t in ts], "runs": sum(r for _, _, r in res)}


def _is_json(b):
    try:
        json.loads(b)
        return True
    except Exception:
        return False


# ------------------------------------------------------------------------------------------
# TLC
# ------------------------------------------------------------------------------------------
def _tlc_cmd(spec, cfg, workers, metadir, heap, extra):
    # -Xss: recursive operators (life-event folds, limb arithmetic) over long sequences need a deep Java stack;
    # without it a long random history can end in a (schedule-dependent) StackOverflowError = model failure
    return ["java", "-Xmx" + heap, "-Xss256m", "-XX:+UseParallelGC", "-cp", TLA_CP, "tlc2.TLC", "-workers", str(workers),
            "-metadir", metadir, "-noGenerateSpecTE", "-config", cfg] + list(extra) + [spec]


_RE_STATES = re.compile(r"(\d+) states generated, (\d+) distinct states found")
_RE_GEN = re.compile(r'^<<"GEN", (".*")>>$')


def tlc_mc(spec, cfg, tag, workers=8, heap="6g", timeout=1800, want_gen=True, extra=(), env=None, constants=None):
    """Model-check spec/<spec> with spec/<cfg>. Returns dict(states, transitions, gen=[...], out).
    `constants`: dict of textual substitutions applied to a copy of the cfg ("Caps = {0,1}")."""
    md = workdir("tlc", tag)
    shutil.rmtree(md, ignore_errors=True)
    os.makedirs(md)
    cfgp = os.path.join(SPEC, cfg)
    if constants:
        txt = open(cfgp).read()
        for k, v in constants.items():
            txt, n = re.subn(r"(?m)^(\s*)%s\s*=.*$" % re.escape(k), r"\g<1>%s = %s" % (k, v), txt)
            if n != 1:
                raise ModelFailure("constant %s not found in %s" % (k, cfg))
        cfgp = os.path.join(md, "gen_" + os.path.basename(cfg))
        # TLC wants the cfg next to a module of the same directory only by name; absolute is fine
        open(cfgp, "w").write(txt)
    cmd = _tlc_cmd(os.path.join(SPEC, spec), cfgp, workers, os.path.join(md, "meta"), heap, extra)
    outp = os.path.join(md, "tlc.out")
    t0 = time.time()
    e = dict(os.environ)
    if env:
        e.update(env)
    with open(outp, "wb") as f:
        try:
            p = subprocess.run(cmd, stdout=f, stderr=subprocess.STDOUT, timeout=timeout, cwd=md, env=e)
        except subprocess.TimeoutExpired:
            raise ModelFailure("TLC timeout (%ds) on %s" % (timeout, spec))
    gen = []
    states = trans = None
    ok = False
    tail = deque(maxlen=40)
    with open(outp, "r", errors="replace") as f:
        for line in f:
            line = line.rstrip("\n")
            m = _RE_GEN.match(line)
            if m:
                if want_gen:
                    gen.append(json.loads(json.loads(m.group(1))))
                continue
            tail.append(line)
            m = _RE_STATES.search(line)
            if m:
                trans, states = int(m.group(1)), int(m.group(2))
            if "Model checking completed. No error has been found." in line:
                ok = True
    if p.returncode != 0 or not ok:
        raise ModelFailure("TLC failed on %s/%s (rc=%d):\n%s" % (spec, cfg, p.returncode, "\n".join(tail)))
    log("[tlc-mc] %s %s: %d states, %d transitions, %d exported, %.1fs" % (spec, tag, states, trans, len(gen), time.time() - t0))
    return {"states": states, "transitions": trans, "gen": gen, "out": outp, "wall": time.time() - t0}


_RE_DEV = re.compile(r'^<<"DEV", (\d+), "([^"]*)", (.*)>>$')


def tlc_tv(tracespec, cfg, trace_path, tag, heap="8g", timeout=3600, extra_env=None):
    """Validate an ndjson trace. Returns dict(events, deviations=[{line, kind, expected, ev}])."""
    md = workdir("tlc", tag)
    shutil.rmtree(md, ignore_errors=True)
    os.makedirs(md)
    n_events = 0
    with open(trace_path, "rb") as f:
        for _ in f:
            n_events += 1
    if n_events == 0:
        raise ModelFailure("empty trace " + trace_path)
    lint_trace(trace_path)
    cmd = _tlc_cmd(os.path.join(SPEC, tracespec), os.path.join(SPEC, cfg), 1, os.path.join(md, "meta"), heap, [])
    outp = os.path.join(md, "tlc.out")
    e = dict(os.environ)
    e["TRACE"] = trace_path
    if extra_env:
        e.update(extra_env)
    t0 = time.time()
    with open(outp, "wb") as f:
        try:
            p = subprocess.run(cmd, stdout=f, stderr=subprocess.STDOUT, timeout=timeout, cwd=md, env=e)
        except subprocess.TimeoutExpired:
            raise ModelFailure("TLC (trace validation) timeout on " + trace_path)
    devs = []
    ok = False
    states = None
    tail = deque(maxlen=40)
    with open(outp, "r", errors="replace") as f:
        for line in f:
            line = line.rstrip("\n")
            m = _RE_DEV.match(line)
            if m:
                exp = m.group(3)
                try:
                    exp = json.loads(json.loads(exp)) if exp.startswith('"{') or exp.startswith('"[') else json.loads(exp)
                except Exception:
                    pass
                devs.append({"line": int(m.group(1)), "kind": m.group(2), "expected": exp})
                continue
            tail.append(line)
            m = _RE_STATES.search(line)
            if m:
                states = int(m.group(2))
            if "Model checking completed. No error has been found." in line:
                ok = True
    if p.returncode != 0 or not ok:
        raise ModelFailure("TLC failed validating %s with %s (rc=%d):\n%s" % (trace_path, tracespec, p.returncode, "\n".join(tail)))
    if states != n_events + 1:
        raise ModelFailure("trace not consumed: %s states for %d events (%s)" % (states, n_events, trace_path))
    if devs:
        byline = {}
        for d in devs:
            byline.setdefault(d["line"], []).append(d)
        with open(trace_path, "r") as f:
            for i, line in enumerate(f, 1):
                if i in byline:
                    ev = json.loads(line)
                    for d in byline[i]:
                        d["ev"] = ev
    log("[tlc-tv] %s %s: %d events, %d deviations, %.1fs" % (tracespec, tag, n_events, len(devs), time.time() - t0))
    return {"events": n_events, "deviations": devs, "wall": time.time() - t0}


def tv_parallel(tracespec, cfg, trace_paths, tag, par=None, heap="4g"):
    """Validate several trace files concurrently (one TLC each, one worker each)."""
    from concurrent.futures import ThreadPoolExecutor
    with ThreadPoolExecutor(max_workers=par or min(NCPU, 8)) as ex:
        futs = [ex.submit(tlc_tv, tracespec, cfg, tp, "%s_%d" % (tag, i), heap) for i, tp in enumerate(trace_paths)]
        res = [f.result() for f in futs]
    return {"events": sum(r["events"] for r in res), "deviations": [d for r in res for d in r["deviations"]],
            "wall": max(r["wall"] for r in res)}


_RE_BIGINT = re.compile(rb"(?<![\w.])-?\d{10,}(?![\w.])")


def lint_trace(path):
    """TLC integers are 32-bit and ndJsonDeserialize wraps silently: refuse wider literals."""
    with open(path, "rb") as f:
        for i, line in enumerate(f, 1):
            for m in _RE_BIGINT.finditer(line):
                v = int(m.group(0))
                if v > 2147483647 or v < -2147483648:
                    raise ModelFailure("trace %s line %d carries integer %d outside 32 bits" % (path, i, v))


# ------------------------------------------------------------------------------------------
# Planner: exported transitions -> scripts
# ------------------------------------------------------------------------------------------
def plan_edges(gen, state_key, init_pred, call_of, follow=lambda t: True):
    """gen: list of exported transitions. state_key(t, 'pre'|'post') -> hashable node id.
    init_pred(node) marks initial nodes. call_of(t) -> script line (dict).
    Returns (scripts, stats): one script per edge = shortest call path from an initial node to the
    edge's pre-state (only through edges with follow(t)) + the edge itself."""
    adj = {}
    nodes = set()
    for t in gen:
        a, b = state_key(t, "pre"), state_key(t, "post")
        nodes.add(a)
        nodes.add(b)
        adj.setdefault(a, []).append((b, t))
    parent = {}
    q = deque()
    for n in sorted(nodes, key=repr):
        if init_pred(n):
            parent[n] = None
            q.append(n)
    while q:
        a = q.popleft()
        for b, t in adj.get(a, ()):
            if b not in parent and follow(t):
                parent[b] = (a, t)
                q.append(b)
    pathcache = {}

    def path(n):
        if n in pathcache:
            return pathcache[n]
        p = parent[n]
        r = [] if p is None else path(p[0]) + [dict(call_of(p[1]), quiet=1)]
        pathcache[n] = r
        return r
    scripts = []
    unreachable = 0
    for t in gen:
        a = state_key(t, "pre")
        if a not in parent:
            unreachable += 1
            continue
        scripts.append(path(a) + [call_of(t)])
    return scripts, {"nodes": len(nodes), "edges": len(gen), "unreachable": unreachable,
                     "maxdepth": max((len(s) for s in scripts), default=0)}


def write_scripts(scripts, path, reset=None):
    with open(path, "w") as f:
        for s in scripts:
            f.write(json.dumps(reset or {"reset": 1}) + "\n")
            for c in s:
                f.write(json.dumps(c) + "\n")


# ------------------------------------------------------------------------------------------
# Findings / reporting / evidence
# ------------------------------------------------------------------------------------------
def load_known():
    p = os.path.join(VERIF, "known_findings.json")
    if not os.path.exists(p):
        return []
    return json.load(open(p))["findings"]


class Report:
    def __init__(self, pid, tier, level="model_checking"):
        self.pid = pid
        self.tier = tier
        self.level = level
        self.t0 = time.time()
        self.cov = {"states": 0, "transitions": 0, "traces_validated_against_impl": 0, "samples": [],
                    "events_validated": 0, "modules": {}, "exhaustive": False}
        self.devs = []
        if "#" not in pid:
            shutil.rmtree(os.path.join(EVID, "replays", pid), ignore_errors=True)   # replays belong to one run
        self.assumptions = []
        self.notes = []

    def add_mc(self, name, r):
        self.cov["states"] += r["states"]
        self.cov["transitions"] += r["transitions"]
        self.cov["modules"].setdefault(name, {}).update({"mc_states": r["states"], "mc_transitions": r["transitions"],
                                                         "exported_transitions": len(r.get("gen", []))})

    def add_tv(self, name, r, traces, what=""):
        self.cov["traces_validated_against_impl"] += traces
        self.cov["events_validated"] += r["events"]
        m = self.cov["modules"].setdefault(name, {})
        m["tv_events"] = m.get("tv_events", 0) + r["events"]
        m["tv_traces"] = m.get("tv_traces", 0) + traces
        for d in r["deviations"]:
            d["module"] = name
            self.devs.append(d)

    def merge(self, other):
        """Fold another report (a sub-pipeline run concurrently) into this one."""
        for k in ("states", "transitions", "traces_validated_against_impl", "events_validated"):
            self.cov[k] += other.cov.get(k, 0)
        for k in ("evaluations", "distinct_nontrivial"):
            if k in other.cov:
                self.cov[k] = self.cov.get(k, 0) + other.cov[k]
        if other.cov.get("rule"):
            self.cov["rule"] = (self.cov.get("rule", "") + " " + other.cov["rule"]).strip()
        self.cov["modules"].update(other.cov["modules"])
        for s in other.cov["samples"]:
            self.sample(s)
        self.devs += other.devs
        self.notes += other.notes
        self.assumptions += [a for a in other.assumptions if a not in self.assumptions]

    def sample(self, s):
        if len(self.cov["samples"]) < 6:
            self.cov["samples"].append(s)

    def finish(self):
        """Match deviations against known findings, print, write evidence, return exit code."""
        known = [k for k in load_known() if k.get("property") == self.pid and k.get("status") == "open"]
        harness = [d for d in self.devs if d["kind"].startswith("harness")]
        if harness:
            d = harness[0]
            raise ModelFailure("harness drove a call outside the model's domain: %s" % json.dumps(d.get("ev"))[:600])
        unknown = []
        hit = {}
        for d in self.devs:
            ev = d.get("ev", {})
            m = None
            for k in known:
                try:
                    if eval(k["match"], {"__builtins__": {}}, {"ev": ev, "kind": d["kind"], "len": len, "d": d, "abs": abs,
                                                                "min": min, "max": max, "any": any, "all": all, "str": str,
                                                                "int": int, "set": set, "sorted": sorted}):
                        m = k
                        break
                except Exception:
                    continue
            if m is None:
                unknown.append(d)
            else:
                hit.setdefault(m["id"], [m, 0])[1] += 1
        for kid, (k, n) in sorted(hit.items()):
            print("KNOWN-FINDING: property=%s %s [%s, %d occurrence(s)]" % (self.pid, k["what"], kid, n))
        rc = 0
        if unknown:
            rc = 1
            rdir = os.path.join(EVID, "replays", self.pid)
            os.makedirs(rdir, exist_ok=True)
            seen = set()
            for d in unknown:
                ev = d.get("ev", {})
                sig = (d["module"], d["kind"], ev.get("op"), ev.get("inst", ""))
                if sig in seen:
                    continue
                seen.add(sig)
                h = hashlib.sha1(json.dumps(ev, sort_keys=True).encode()).hexdigest()[:10]
                rp = os.path.join(rdir, "%s_%s_%s.json" % (d["module"], ev.get("op", "x"), h))
                json.dump({"property": self.pid, "module": d["module"], "kind": d["kind"], "event": ev,
                           "expected": d.get("expected")}, open(rp, "w"), indent=1)
                print("VIOLATION property=%s replay=%s" % (self.pid, rp))
                if len(seen) >= 25:
                    break
            log("[report] %d unexplained deviation(s), %d distinct signatures" % (len(unknown), len(seen)))
        ev = {"property_id": self.pid, "tier": self.tier, "seed": seed(), "level": self.level,
              "coverage": self.cov, "assumptions": self.assumptions, "wall_s": round(time.time() - self.t0, 2),
              "violations": len(unknown)}
        self.cov["known_findings_hit"] = {k: v[1] for k, v in hit.items()}
        self.cov["deviations_total"] = len(self.devs)
        if self.notes:
            self.cov["notes"] = self.notes
        if self.level in ("exploration", "fault_enumeration"):
            self.cov.setdefault("evaluations", self.cov["events_validated"])
        os.makedirs(EVID, exist_ok=True)
        json.dump(ev, open(os.path.join(EVID, self.pid + ".json"), "w"), indent=1)
        return rc


def run_pipelines(rep, pipelines, tier, par=None):
    """Run several module pipelines concurrently (each is subprocess-bound) and merge their reports.
    pipelines: list of (name, callable(tier, subreport))."""
    from concurrent.futures import ThreadPoolExecutor
    subs = []

    def one(p):
        name, fn = p
        sub = Report(rep.pid + "#" + name, tier, rep.level)
        fn(tier, sub)
        return sub
    with ThreadPoolExecutor(max_workers=par or len(pipelines)) as ex:
        futs = [ex.submit(one, p) for p in pipelines]
        for f in futs:
            subs.append(f.result())
    for s in subs:
        rep.merge(s)


def main_wrapper(pid, fn):
    """Common entry: fn(tier, report) does the work."""
    import argparse
    ap = argparse.ArgumentParser()
    ap.add_argument("--tier", default=os.environ.get("VERIF_TIER", "quick"), choices=["quick", "thorough"])
    ap.add_argument("--replay", default=None)
    a = ap.parse_args()
    try:
        if a.replay:
            return fn.replay(a.replay)
        rep = fn.report(a.tier)
        fn.run(a.tier, rep)
        return rep.finish()
    except ModelFailure as e:
        print("MODEL-FAILURE property=%s: %s" % (pid, e), file=sys.stderr)
        return 2
