"""Ordered-set family pipeline (spec/Set.tla, SetOps.tla, SetTrace.tla, harness/set_driver.cpp).
Serves C09 (behaviour) and C03 (life events of static_set/flat_set<Tracked>)."""
import json
import os
from math import comb

import vlib
from pipes.vector import concat

KINDS = ("sset", "fset", "fmset")
KIND_ID = {"sset": 0, "fset": 1, "fmset": 2, "fsetipv": 3}
ELEMS = ("int", "trk")

TIERS = {
    # universe / capacity of the exhaustive model; capacities / universe of the seeded random histories
    "quick": {"univ": 5, "cap": 3, "MaxXs": 2, "MaxCt": 3, "rcaps": (8,), "runiv": 12, "rsteps": 400},
    "thorough": {"univ": 6, "cap": 4, "MaxXs": 2, "MaxCt": 4, "rcaps": (1, 2, 8, 16), "runiv": 20, "rsteps": 2000},
}

SURFACE = {
    "sset": ["insert_copy", "insert_move", "emplace", "insert_range", "erase_key", "erase_pos", "erase_range", "clear", "swap", "fswap",
             "ctor_default", "ctor_range", "copy_assign", "move_assign", "ctor_copy", "ctor_move"],
    "fset": ["insert_copy", "insert_move", "emplace", "insert_hint_copy", "insert_hint_move", "emplace_hint", "insert_range",
             "insert_su_range", "erase_key", "erase_pos", "erase_cpos", "erase_range", "clear", "swap", "fswap", "extract", "replace",
             "ctor_default", "ctor_range", "ctor_cont", "ctor_su_cont", "ctor_su_range", "copy_assign", "move_assign", "ctor_copy",
             "ctor_move", "erase_if_odd", "erase_if_eq"],
    "fmset": ["ms_ctor_default", "ms_ctor_cont", "ms_ctor_sorted", "copy_assign", "move_assign", "ctor_copy", "ctor_move"],
}

PROBES = {1: "static_set::equal_range(key_type const&)",
          2: "static_set::equal_range(K const&) [transparent comparator]",
          3: "flat_set::insert(sorted_unique, first, last)",
          4: "flat_set<Key, inplace_vector<Key, N>> (emplace/erase/reverse iteration need members inplace_vector lacks)"}


def _state_key(t, which):
    return json.dumps([t["cap"], t["cmp"], t[which], sorted(t["premv" if which == "pre" else "postmv"])], sort_keys=True)


def _call(t):
    return {"op": t["op"], "o": t["o"], "x": t["x"], "post": t["post"], "postmv": sorted(t["postmv"])}


def probes():
    """Compile probes (DESIGN 9.1): which questionable members can be instantiated/linked on this tree."""
    from concurrent.futures import ThreadPoolExecutor

    def one(n):
        try:
            vlib.build("set_probe.cpp", "set_probe_%d" % n, flags=["-DPROBE=%d" % n], timeout=120)
            return n, True
        except vlib.ModelFailure:
            return n, False
    with ThreadPoolExecutor(max_workers=4) as ex:
        return dict(ex.map(one, sorted(PROBES)))


def model(tier, rep, have):
    """MC + GEN for the three API surfaces. Returns {kind: {cmp: (script_path, n)}}."""
    T = TIERS[tier]
    univ = list(range(1, T["univ"] + 1))
    consts = {"Caps": "{%d}" % T["cap"], "Univ": "{%s}" % ", ".join(map(str, univ)), "MaxXs": str(T["MaxXs"]),
              "MaxCt": str(T["MaxCt"])}
    from concurrent.futures import ThreadPoolExecutor

    def one(kind):
        return kind, vlib.tlc_mc("Set.tla", "Set_%s.cfg" % kind, "set_%s_%s" % (kind, tier), workers=6 if kind != "fmset" else 2,
                                 constants=consts, heap="3g")
    with ThreadPoolExecutor(max_workers=3) as ex:
        res = dict(ex.map(one, KINDS))
    nsets = sum(comb(T["univ"], k) for k in range(T["cap"] + 1))
    scripts = {}
    d = vlib.workdir("scripts")
    for kind, r in res.items():
        name = "Set[%s]" % kind
        rep.add_mc(name, r)
        # every key set within capacity (every pair of them) must have been reached, for both comparators:
        # this is what makes "SortedUnique holds in every reachable state" the inductive step
        want = 2 * (nsets * nsets + 2 * nsets)      # + (value, moved-from) and (moved-from, value)
        if kind != "fmset" and r["states"] != want:
            raise vlib.ModelFailure("Set[%s]: %d states, expected %d (not every pair of key sets reached)" % (kind, r["states"], want))
        gen = [t for t in r["gen"] if t["op"] != "init"]
        from collections import Counter
        per_op = Counter(t["op"] for t in gen)
        missing = [op for op in SURFACE[kind] if not per_op.get(op)]
        if missing:                                    # vacuity guard: every action of the surface was exported
            raise vlib.ModelFailure("%s: no transition exported for %s" % (name, missing))
        rep.cov["modules"][name]["exported_per_op"] = dict(per_op)
        dropped = 0
        if kind == "fset" and not have[3]:
            dropped = sum(1 for t in gen if t["op"] == "insert_su_range")
            gen = [t for t in gen if t["op"] != "insert_su_range"]
        sc, st = vlib.plan_edges(gen, _state_key, lambda n: json.loads(n)[2] == {"a": [], "b": []} and not json.loads(n)[3], _call,
                                 follow=lambda t: t["kind"] == "fmset" or (t["op"] == "insert_copy" and t["ret"]["n"] == 1 and not t["premv"])
                                 or t["op"] in ("ctor_range", "move_assign", "ms_ctor_sorted"))
        if st["unreachable"]:
            raise vlib.ModelFailure("planner: %d unreachable edges in %s" % (st["unreachable"], name))
        sc = [s[:-1] + [dict(s[-1], last=1)] for s in sc]
        scripts[kind] = {}
        bycmp = {"less": [], "greater": []}
        for t, s in zip(gen, sc):
            bycmp[t["cmp"]].append(s)
        for cmp_, ss in bycmp.items():
            p = os.path.join(d, "set_%s_%s_%s.ndjson" % (kind, tier, cmp_))
            vlib.write_scripts(ss, p, reset={"reset": 1, "univ": univ})
            scripts[kind][cmp_] = (p, len(ss))
        rep.cov["modules"][name].update({"scripts": len(sc), "planner": st, "edges_not_drivable": dropped})
        if sc:
            rep.sample({"module": name, "script": sc[len(sc) // 2]})
    rep.cov["exhaustive"] = True
    return scripts


def build_drivers(tier, have, std=True):
    T = TIERS[tier]
    caps = ",".join(str(c) for c in sorted({T["cap"]} | set(T["rcaps"])))
    flags = ["-DSH_CAPS=" + caps, "-DSH_SSET_ER=%d" % have[1], "-DSH_SSET_HER=%d" % have[2], "-DSH_FSET_INS_SU=%d" % have[3]]
    jobs, keys = [], []
    kinds = list(KINDS) + (["fsetipv"] if have[4] else [])
    for impl in ("etl", "std") if std else ("etl",):
        for kind in kinds:
            if impl == "std" and kind == "fsetipv":
                continue
            for elem in ELEMS:
                f = flags + ["-DSH_KIND=%d" % KIND_ID[kind]] + (["-DSH_ELEM_TRK"] if elem == "trk" else []) + (["-DVH_STD"] if impl == "std" else [])
                jobs.append(dict(src="set_driver.cpp", out="set_%s_%s_%s" % (impl, kind, elem), flags=f, include_repo=impl == "etl"))
                keys.append((impl, kind, elem))
    paths = vlib.build_many(jobs, par=min(vlib.NCPU, 14))
    return dict(zip(keys, paths)), kinds


def _insts(tier, kind):
    """(element type, comparator) instantiations driven per API surface."""
    cmps = ("less", "greater") if kind == "fmset" else ("less", "greater", "transparent")
    if tier == "quick" and kind != "sset":      # non-trivial elements: every comparator on static_set, less<> elsewhere
        return [("int", c) for c in cmps] + [("trk", "less")]
    return [(e, c) for e in ELEMS for c in cmps]


def execute(tier, scripts, bins, kinds, impl="etl"):
    """Replay all scripts + seeded random histories on every instantiation."""
    T = TIERS[tier]
    d = vlib.workdir("traces")
    tasks, outs, meta, replays = [], [], [], []
    nscripts = nhist = 0
    for kind in kinds:
        if (impl, kind, "int") not in bins:
            continue
        skind = "fset" if kind == "fsetipv" else kind
        for elem, cmp_ in _insts(tier, kind):
            if True:
                sp, n = scripts[skind]["less" if cmp_ == "transparent" else cmp_]
                tp = os.path.join(d, "set_%s_%s_%s_%s_%s.ndjson" % (impl, kind, elem, cmp_, tier))
                tasks.append(([bins[(impl, kind, elem)], "replay", kind, elem, cmp_, str(T["cap"]), sp], tp))
                outs.append(tp)
                replays.append(tp)
                meta.append("%s_%s_%s_%d replay" % (kind, elem, cmp_, T["cap"]))
                nscripts += n
                for cap in T["rcaps"]:
                    tp = os.path.join(d, "set_%s_%s_%s_%s_r%d_%s.ndjson" % (impl, kind, elem, cmp_, cap, tier))
                    u = min(T["runiv"], cap + 4)
                    tasks.append(([bins[(impl, kind, elem)], "random", kind, elem, cmp_, str(cap), str(T["rsteps"]), str(vlib.seed()), str(u)],
                                  tp))
                    outs.append(tp)
                    meta.append("%s_%s_%s_%d random" % (kind, elem, cmp_, cap))
                    nhist += 1
    res = vlib.run_parallel(tasks)
    errs = [l for _, err in res for l in err.splitlines()]
    unsupported = sorted({l for l in errs if l.startswith("UNSUPPORTED")})
    summ = [l for l in errs if l.startswith("SUMMARY")]
    desync = sum(int(l.split("desync=")[1].split()[0]) for l in summ)
    leaks = [l for l in summ if not l.endswith("live_delta=0")]
    crashes = len([l for l in errs if l.startswith("CRASH")])
    skipped = sum(int(l.split("unsupported=")[1].split()[0]) for l in summ)
    _accounting(impl, replays, nscripts, desync, skipped, crashes)
    return outs, {"scripts": nscripts, "histories": nhist, "unsupported": unsupported, "desync": desync, "leaks": leaks,
                  "crashes": crashes}


def _accounting(impl, replays, nscripts, desync, skipped, crashes):
    """Vacuity guard: every script must have produced exactly one event (or be accounted for as desynchronised / not
    provided); a driver that silently drops scripts is a harness failure, never a pass."""
    got = 0
    for p in replays:
        with open(p, "rb") as f:
            got += sum(1 for _ in f)
    if crashes == 0 and got + desync + skipped != nscripts:
        raise vlib.ModelFailure("set driver (%s): %d scripts but %d events + %d desynchronised + %d not provided"
                                % (impl, nscripts, got, desync, skipped))


def _side(tier, scripts, bins, kinds, impl):
    traces, st = execute(tier, scripts, bins, kinds, impl)
    # thorough: twice as many (half as large) trace files, same number of concurrent TLC processes (memory)
    merged = concat(traces, os.path.join(vlib.workdir("traces"), "set_%s_merged_%s" % (impl, tier)), 8 if tier == "quick" else 16)
    tv = vlib.tv_parallel("SetTrace.tla", "SetTrace.cfg", merged, "set_tv_%s_%s" % (impl, tier), par=8, heap="2g")
    return tv, st


def pipeline(tier, rep, calibrate=True):
    from concurrent.futures import ThreadPoolExecutor
    have = probes()
    scripts = model(tier, rep, have)
    bins, kinds = build_drivers(tier, have, std=calibrate)
    with ThreadPoolExecutor(max_workers=2) as ex:      # implementation and calibration side by side
        fe = ex.submit(_side, tier, scripts, bins, kinds, "etl")
        fs = ex.submit(_side, tier, scripts, bins, kinds, "std") if calibrate else None
        tv, st = fe.result()
        ctv, cst = fs.result() if fs else (None, None)
    if calibrate:
        if ctv["deviations"] or cst["desync"] or cst["crashes"]:
            d = ctv["deviations"][0] if ctv["deviations"] else {"kind": "desync", "ev": cst["desync"]}
            raise vlib.ModelFailure("calibration: libstdc++ deviates from Set spec (spec/projection error): %s %s"
                                    % (d["kind"], json.dumps(d.get("ev"))[:700]))
        if cst["unsupported"]:
            raise vlib.ModelFailure("calibration build lacks operations: %s" % cst["unsupported"])
    rep.add_tv("Set", tv, st["scripts"] + st["histories"])
    not_drivable = ["%s: does not instantiate/link" % PROBES[n] for n in sorted(PROBES) if not have[n]]
    rep.cov["modules"]["Set"].update({"not_drivable": not_drivable + st["unsupported"], "replay_desync": st["desync"],
                                      "crashes_contained": st["crashes"], "probes": {PROBES[n]: have[n] for n in PROBES}})
    if st["desync"] and not tv["deviations"]:
        raise vlib.ModelFailure("set replay: %d scripts left the planned path but no event deviates" % st["desync"])
    if st["leaks"]:
        rep.notes.append({"live_count_imbalance": st["leaks"]})
    if calibrate:
        rep.cov["modules"]["Set"]["calibration_events_std"] = ctv["events"]
    return tv, st


def replay(rec):
    """check.py --replay: re-execute one saved deviation on the current tree. The event's pre-state is rebuilt by real calls
    (insert), the recorded call runs on the recorded instantiation, SetTrace.tla judges it. Returns the deviations."""
    ev = rec["event"]
    kind, elem, cmp_, cap = ev["inst"].split("_")
    x0 = {"v": 0, "p": 0, "q": 0, "xs": [], "src": "a"}
    lines = [{"reset": 1, "univ": ev["univ"]}]
    if kind != "fmset":
        for o in ("a", "b"):
            for k in ev["pre"][o]:
                lines.append({"op": "insert_copy", "o": o, "x": dict(x0, v=k)})
    lines.append({"op": ev["op"], "o": ev["o"], "x": ev["x"], "last": 1})
    d = vlib.workdir("set", "replay")
    sp, tp = os.path.join(d, "script.ndjson"), os.path.join(d, "trace.ndjson")
    with open(sp, "w") as f:
        for ln in lines:
            f.write(json.dumps(ln) + "\n")
    have = probes()
    flags = ["-DSH_CAPS=" + cap, "-DSH_KIND=%d" % KIND_ID[kind], "-DSH_SSET_ER=%d" % have[1], "-DSH_SSET_HER=%d" % have[2],
             "-DSH_FSET_INS_SU=%d" % have[3]] + (["-DSH_ELEM_TRK"] if elem == "trk" else [])
    exe = vlib.build("set_driver.cpp", "set_replay", flags=flags)
    vlib.run([exe, "replay", kind, elem, cmp_, cap, sp], tp)
    tv = vlib.tlc_tv("SetTrace.tla", "SetTrace.cfg", tp, "set_tv_replay", heap="2g")
    return [x for x in tv["deviations"] if not x["kind"].startswith("life")]
