--------------------------- MODULE CalendarOps ---------------------------
(* Constant-free meaning of the civil calendar of [time.cal] (C++20), written from the clauses of   *)
(* the standard, not from the etl sources.                                                          *)
(*                                                                                                  *)
(*  * The DEFINITION of the proleptic Gregorian calendar is operational: the civil successor        *)
(*    SuccDate with the leap rule IsLeap, anchored at day 0 = 1970-01-01, a Thursday                *)
(*    ([time.clock.system], [time.cal.wd.members]).  spec/Calendar.tla walks it day by day.         *)
(*  * The closed forms DaysFromCivil / CivilFromDays / Weekday below are LEMMAS: Calendar.tla       *)
(*    proves them equal to the walker on every day of the year range.  DaysFromCivil is a direct    *)
(*    count (whole years + leap days + whole months + days), CivilFromDays is the era/yoe/doy       *)
(*    inversion; neither is used as a definition anywhere.                                          *)
(*  * Modular arithmetic of month / weekday, year_month +- months with carry, ok() predicates.      *)
(* TLC: a \div b is floor division and a % b is in 0..b-1 for b > 0 (checked in Calendar.tla).      *)
EXTENDS Integers, Sequences

YearMin == -32767
YearMax == 32767

IsLeap(y) == y % 4 = 0 /\ (y % 100 # 0 \/ y % 400 = 0)

LastDay(y, m) ==
    IF m = 2 THEN (IF IsLeap(y) THEN 29 ELSE 28)
    ELSE IF m \in {4, 6, 9, 11} THEN 30 ELSE 31

\* largest day a month can ever have ([time.cal.md.members]: February has 29)
MaxDay(m) == IF m = 2 THEN 29 ELSE IF m \in {4, 6, 9, 11} THEN 30 ELSE 31

ValidDate(y, m, d) == m \in 1..12 /\ d >= 1 /\ d <= LastDay(y, m)

SuccDate(dt) ==
    LET y == dt[1] m == dt[2] d == dt[3] IN
    IF d < LastDay(y, m) THEN <<y, m, d + 1>>
    ELSE IF m < 12 THEN <<y, m + 1, 1>>
    ELSE <<y + 1, 1, 1>>

\* ---- closed forms (lemmas, proved against the walker by TLC) -----------------------------------
\* days before January 1st of year y, counted from 0001-01-01
DaysBeforeYear(y) ==
    LET p == y - 1 IN 365 * p + (p \div 4) - (p \div 100) + (p \div 400)

CumDays == <<0, 31, 59, 90, 120, 151, 181, 212, 243, 273, 304, 334>>
DaysBeforeMonth(y, m) == CumDays[m] + (IF m > 2 /\ IsLeap(y) THEN 1 ELSE 0)

Epoch0 == 719162      \* days from 0001-01-01 to 1970-01-01 (proved: DaysFromCivil(1970,1,1) = 0)

DaysFromCivil(y, m, d) == DaysBeforeYear(y) + DaysBeforeMonth(y, m) + (d - 1) - Epoch0

CivilFromDays(n) ==
    LET z   == n + 719468
        era == z \div 146097
        doe == z - era * 146097
        yoe == (doe - (doe \div 1460) + (doe \div 36524) - (doe \div 146096)) \div 365
        y   == yoe + era * 400
        doy == doe - (365 * yoe + (yoe \div 4) - (yoe \div 100))
        mp  == (5 * doy + 2) \div 153
        d   == doy - ((153 * mp + 2) \div 5) + 1
        m   == IF mp < 10 THEN mp + 3 ELSE mp - 9
    IN <<IF m <= 2 THEN y + 1 ELSE y, m, d>>

Weekday(n) == (n + 4) % 7          \* C encoding: 0 = Sunday ... 6 = Saturday

EraStart(e) == 146097 * e - 719468  \* day count of 0000-03-01 + 400*e years

\* ---- month / weekday / year arithmetic ----------------------------------------------------------
\* [time.cal.month.nonmembers] month{modulo(unsigned{x} + (y.count() - 1), 12) + 1}
MonthAdd(m, dm) == ((m - 1 + dm) % 12) + 1
\* x - y : the m in [0, 11] with y + m == x   (both ok)
MonthDiff(a, b) == (a - b) % 12

\* [time.cal.wd.members] weekday(unsigned wd): wd == 7 ? 0 : wd
WdCtor(x) == IF x = 7 THEN 0 ELSE x
WdOk(c) == c \in 0..6
WdIso(c) == IF c = 0 THEN 7 ELSE c
\* [time.cal.wd.nonmembers] weekday{modulo(c_encoding + y.count(), 7)}
WdAdd(w, dd) == (w + dd) % 7
WdDiff(a, b) == (a - b) % 7

YearOk(y) == y >= YearMin /\ y <= YearMax
MonthOk(m) == m \in 1..12
DayOk(d) == d \in 1..31

\* [time.cal.ym.nonmembers]: ym + dm is THE z with z.ok() and z - ym == dm, where
\* x - y == (x.year() - y.year()) * 12 months + (unsigned{x.month()} - unsigned{y.month()}) months
YmDiff(a, b) == (a[1] - b[1]) * 12 + (a[2] - b[2])
AddMonths(y, m, dm) ==
    LET t == (m - 1) + dm
        q == t \div 12
    IN <<y + q, t - 12 * q + 1>>

\* ---- ok() predicates -----------------------------------------------------------------------------
YmOk(y, m) == YearOk(y) /\ MonthOk(m)
YmdOk(y, m, d) == YearOk(y) /\ ValidDate(y, m, d)
MdOk(m, d) == MonthOk(m) /\ d >= 1 /\ d <= MaxDay(m)
WdiOk(w, i) == WdOk(w) /\ i \in 1..5
\* [time.cal.ymwd.members] ok(): the index-th weekday w exists in month y/m
YmwOk(y, m, w, i) ==
    /\ YearOk(y) /\ MonthOk(m) /\ WdOk(w) /\ i \in 1..5
    /\ LET first == Weekday(DaysFromCivil(y, m, 1))
           d     == WdDiff(w, first) + (i - 1) * 7 + 1
       IN d <= LastDay(y, m)

\* intervals of a predicate over lo..hi as a sequence of <<a, b>> (maximal runs, ascending)
RECURSIVE RunsFrom(_, _, _, _, _)
RunsFrom(P(_), k, hi, start, acc) ==
    IF k > hi THEN (IF start = -1000000 THEN acc ELSE Append(acc, <<start, hi>>))
    ELSE IF P(k) THEN RunsFrom(P, k + 1, hi, IF start = -1000000 THEN k ELSE start, acc)
    ELSE RunsFrom(P, k + 1, hi, -1000000, IF start = -1000000 THEN acc ELSE Append(acc, <<start, k - 1>>))
Runs(P(_), lo, hi) == RunsFrom(P, lo, hi, -1000000, <<>>)
==========================================================================
