SPECIFICATION Spec
CONSTANTS
  MaxLen = 5
  MaxLen2 = 3
  MaxPair = 3
  MaxA2 = 4
POSTCONDITION Consumed
CHECK_DEADLOCK FALSE
