"""C12 - duration arithmetic and rounding casts are exact rational arithmetic."""
import os

from pipes import duration


def run(tier, rep):
    selftest = os.environ.get("VERIF_SELFTEST") == "1"     # mutation self-test: etl side only
    duration.pipeline(tier, rep, calibrate=not selftest)
    if selftest:
        rep.notes.append("VERIF_SELFTEST=1: calibration skipped")
    # (no judgement currently produces a note-... kind: implicit conversions are judged as kind `conv`, all with an exactly
    # representable result; the filter stays for kinds a later revision may want to report apart)
    notes = [d for d in rep.devs if d["kind"].startswith("note-")]
    rep.devs = [d for d in rep.devs if not d["kind"].startswith("note-")]
    if notes:
        rep.notes.append({"outside_statement": notes[0]["kind"], "occurrences": len(notes),
                          "example": {"event": notes[0].get("ev"), "expected": notes[0].get("expected")}})
        import vlib
        vlib.log("[C12] note: %d deviation(s) outside the property statement: implicit conversion to a floating-point "
                 "duration that is not the common type ignores the denominator of the period ratio (see evidence notes)" % len(notes))
    rep.assumptions += [
        "inputs are selected by TLC: the exact result is representable AND the arithmetic the standard prescribes "
        "(duration_cast through common_type<To::rep, Rep, intmax_t>, operators through the common type) has no signed overflow",
        "floating-point results are judged only where they are exact (all intermediates below 2^53, dyadic quotient)",
        "integer representations are int64_t and int32_t, the floating one is double; counts are integral, plus k/2 and k/4 (odd k) for double sources of the casts",
        "the TLA+ reading of std::chrono is calibrated against libstdc++ on the identical inputs (zero deviations required)",
    ]


def replay(path):
    """Re-execute the recorded deviation: the inputs are enumerated by TLC (no randomness), so the whole etl side of
    the tier is re-run on the current tree and the recorded event is looked up among the deviations.
    Exit 1 (VIOLATION line) if it deviates again, 0 if the current tree no longer shows it."""
    import json
    import vlib
    rec = json.load(open(path))
    tier = os.environ.get("VERIF_TIER", "quick")
    rep = vlib.Report("C12", tier)
    duration.pipeline(tier, rep, calibrate=False)
    same = [d for d in rep.devs if d.get("ev") == rec.get("event")]
    if same:
        print("VIOLATION property=C12 replay=%s" % path)
        print("  kind=%s expected=%s" % (same[0]["kind"], json.dumps(same[0].get("expected"))[:300]))
        return 1
    print("not reproduced on this tree in tier %s (%d events validated, %d other deviation(s))"
          % (tier, rep.cov["events_validated"], len(rep.devs)))
    return 0
