SPECIFICATION Spec
POSTCONDITION Consumed
CHECK_DEADLOCK FALSE
