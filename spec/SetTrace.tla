----------------------------- MODULE SetTrace -----------------------------
(* Trace validation for the ordered-set family: every event recorded from the real templates          *)
(* ([op, o, x, kind, cmp, cap, univ, pre, post, ret, out, obs] + optional life events) is judged by    *)
(* the operators of SetOps / LifeOps.  Deviations are collected (printed as DEV lines), not fatal, so   *)
(* the whole trace is always examined; tools/vlib.py turns them into KNOWN-FINDING / VIOLATION.         *)
(* An event whose logged pre-state is itself not sorted/unique cannot be judged (the operators are      *)
(* defined on sets); it is passed over: the event that produced that state has already been reported.   *)
EXTENDS SetOps, LifeOps, Json, IOUtils, TLC

Tr == ndJsonDeserialize(IOEnv.TRACE)

VARIABLES l, nbad

LifeVerdict(ev) ==
    LET owners0 == <<[r |-> 1, els |-> ev.pre.a], [r |-> 2, els |-> ev.pre.b]>>
        owners1 == <<[r |-> 1, els |-> ev.post.a], [r |-> 2, els |-> ev.post.b]>>
        f0 == InitCells(owners0, ev.life.ext)
        run == LRun(f0, ev.life.evs, 1)
    IN IF run.bad # 0 THEN "life-protocol"
       ELSE IF ~FinalOK(run.f, owners1, {ev.life.extend[j] : j \in 1..Len(ev.life.extend)}) THEN "life-final"
       ELSE "ok"

MV(ev) == IF "mv" \in DOMAIN ev THEN {ev.mv[j] : j \in 1..Len(ev.mv)} ELSE {}

\* sequence of deviation kinds of one event (empty = conforms)
Judge(ev) ==
    IF ev.op = "reset" THEN <<>>
    ELSE IF ~StateOKmv(ev.kind, ev.cmp, ev.cap, ev.pre, MV(ev)) THEN <<>>      \* unjudgeable, see header
    ELSE IF ~Pre(ev.op, ev.o, ev.x, ev.pre, ev.cap, ev.cmp, ev.kind, MV(ev)) THEN <<"harness-pre">>
    ELSE IF "crash" \in DOMAIN ev THEN <<"crash">>      \* a call inside the domain killed the process (no post-state)
    ELSE IF ~PostState(ev.op, ev.o, ev.x, ev.pre, ev.cap, ev.cmp, ev.post, MV(ev)) THEN <<"post">>
    ELSE LET mv2 == MvAfter(ev.op, ev.o, ev.x, MV(ev)) IN
         IF ~StateOKmv(ev.kind, ev.cmp, ev.cap, ev.post, mv2) THEN <<"sorted">>
         ELSE (IF PostRet(ev.op, ev.o, ev.x, ev.pre, ev.cap, ev.cmp, ev.ret, ev.out, MV(ev)) THEN <<>> ELSE <<"ret">>)
              \o ObsBad(ev.obs, ev.post, ev.cmp, ev.cap, ev.univ, mv2)
              \o (IF "life" \in DOMAIN ev /\ LifeVerdict(ev) # "ok" THEN <<LifeVerdict(ev)>> ELSE <<>>)

Expected(ev, v) ==
    IF v \in {"post", "ret", "crash"} THEN ToJson(Eff(ev.op, ev.o, ev.x, ev.pre, ev.cap, ev.cmp))
    ELSE IF v \in {"obs-find", "obs-bound", "obs-hfind", "obs-hbound"}
         THEN ToJson([a |-> [j \in 1..Len(ev.univ) |-> LkExp(ev.post.a, ev.cmp, ev.univ[j])],
                      b |-> [j \in 1..Len(ev.univ) |-> LkExp(ev.post.b, ev.cmp, ev.univ[j])]])
    ELSE "-"

Init == l = 1 /\ nbad = 0

Next ==
    /\ l <= Len(Tr)
    /\ l' = l + 1
    /\ LET vs == Judge(Tr[l]) IN
       /\ nbad' = nbad + Len(vs)
       /\ \A j \in 1..Len(vs) : PrintT(<<"DEV", l, vs[j], Expected(Tr[l], vs[j])>>)

Spec == Init /\ [][Next]_<<l, nbad>>
Consumed == TLCGet("stats").diameter - 1 = Len(Tr)
===========================================================================
