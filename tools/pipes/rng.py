"""Rng pipeline (spec/Rng.tla, RngOps.tla, RngTrace.tla, harness/rng_driver.cpp).  Serves X11.

  MC/GEN : TLC proves the laws of the engine model (full period of the 16-bit xorshift at its true width, explicit
           inverses, linearity over GF(2), limb = bit arithmetic, Marsaglia's worked examples) and exports the 65535
           states of the 16-bit orbit, the boundary / pre-image seeds of the wide engines and the small closed ranges of
           uniform_int_distribution
  replay : the driver steps xorshift16 from every exported state, runs a history (construction, N calls, discard, seed,
           operator==, min/max) per exported + seeded random seed on every engine, and drives the distributions
  TV     : RngTrace.tla recomputes every step / judges every relation
  calibration: reference engines (published C code) + libstdc++ <random> distributions must give zero deviations
"""
import json
import os
from concurrent.futures import ThreadPoolExecutor

import vlib

TAG = "rng"
JENV = {"JAVA_TOOL_OPTIONS": "-Xss64m"}      # DiscardE recurses once per discarded value


def model(tier):
    consts = {"quick": {"Full": "FALSE"}, "thorough": {"Full": "TRUE"}}[tier]
    return vlib.tlc_mc("Rng.tla", "Rng.cfg", "%s_mc_%s" % (TAG, tier), workers=4, heap="2g", constants=consts,
                       timeout=1800, env=JENV)


def build_drivers(calibrate):
    jobs = [dict(src="rng_driver.cpp", out="rng_etl")]
    if calibrate:
        jobs.append(dict(src="rng_driver.cpp", out="rng_std", flags=["-DVH_STD"], include_repo=False))
    p = vlib.build_many(jobs)
    return {"etl": p[0], "std": p[1] if calibrate else None}


def _split(path, n, prefix):
    with open(path, "rb") as f:
        lines = f.readlines()
    os.remove(path)
    if not lines:
        raise vlib.ModelFailure("driver produced no events: " + path)
    n = max(1, min(n, (len(lines) + 1999) // 2000))
    per = (len(lines) + n - 1) // n
    outs = []
    for i in range(n):
        chunk = lines[i * per:(i + 1) * per]
        if not chunk:
            break
        op = "%s_%d.ndjson" % (prefix, i)
        with open(op, "wb") as g:
            g.writelines(chunk)
        outs.append(op)
    return outs


def _tv(chunks, tag, par):
    with ThreadPoolExecutor(max_workers=par) as ex:
        futs = [ex.submit(vlib.tlc_tv, "RngTrace.tla", "RngTrace.cfg", tp, "%s_%d" % (tag, i), "2g", 3600, JENV)
                for i, tp in enumerate(chunks)]
        res = [f.result() for f in futs]
    out = {"events": sum(r["events"] for r in res), "deviations": [d for r in res for d in r["deviations"]],
           "wall": max(r["wall"] for r in res)}
    if not out["deviations"]:
        for tp in chunks:
            os.remove(tp)
    return out


def _run(bins, impl, genfile, orbitfile, steps, tier, par):
    """orbit + engine histories + distributions; returns (tv result, crashes)."""
    d = vlib.workdir("traces")
    pre = os.path.join(d, "%s_%s_%s" % (TAG, impl, tier))
    nslices = 4
    tasks = [([bins[impl], "orbit", orbitfile], pre + "_orbit.ndjson"),
             ([bins[impl], "dists", genfile], pre + "_dists.ndjson")]
    for k in range(nslices):
        tasks.append(([bins[impl], "engines", genfile, str(steps), "%d/%d" % (k, nslices)], pre + "_eng%d.ndjson" % k))
    res = vlib.run_parallel(tasks, par=4)
    crashes = sum(1 for _, err in res for l in err.splitlines() if l.startswith("CRASH"))
    merged = pre + "_all.ndjson"
    with open(merged, "wb") as f:
        for _, tp in tasks:
            with open(tp, "rb") as g:
                f.write(g.read())
            os.remove(tp)
    chunks = _split(merged, par, pre + "_c")
    return _tv(chunks, "%s_tv_%s_%s" % (TAG, impl, tier), par), crashes


def pipeline(tier, rep, calibrate=True):
    if os.environ.get("VERIF_CALIBRATE", "1") == "0":
        calibrate = False            # mutation self-tests only: the std build does not depend on the tree under test
        rep.notes.append("calibration skipped (VERIF_CALIBRATE=0)")
    par = 6
    with ThreadPoolExecutor(max_workers=1) as ex:
        fb = ex.submit(build_drivers, calibrate)
        reuse = os.path.join(vlib.VERIF, "build", "scripts", "%s_gen_%s.ndjson" % (TAG, tier))
        if os.environ.get("VERIF_REUSE_GEN", "0") == "1" and os.path.exists(reuse):
            # mutation self-tests only: the model run does not depend on the tree under test
            if "VERIF_EVID" not in os.environ:
                vlib.EVID = os.path.join(vlib.BUILD, "mutation_evidence")
            mc = {"states": 0, "transitions": 0, "gen": [json.loads(l) for l in open(reuse)], "wall": 0.0, "reused": True}
            rep.notes.append("model run skipped, exported inputs reused (VERIF_REUSE_GEN=1)")
        else:
            mc = model(tier)
        bins = fb.result()
    rep.add_mc("Rng", mc)
    rep.cov["exhaustive"] = True
    gen = mc["gen"]
    orbit = [g for g in gen if g["m"] == "xs16"]
    wide = [g for g in gen if g["m"] != "xs16"]
    if len(orbit) != 65535 or len(wide) < 40:
        raise vlib.ModelFailure("Rng.tla exported %d orbit states / %d other inputs" % (len(orbit), len(wide)))
    sd = vlib.workdir("scripts")
    genfile = os.path.join(sd, "%s_gen_%s.ndjson" % (TAG, tier))
    with open(genfile, "w") as f:
        for g in gen:
            f.write(json.dumps(g) + "\n")
    widefile = os.path.join(sd, "%s_wide_%s.ndjson" % (TAG, tier))
    with open(widefile, "w") as f:
        for g in wide:
            f.write(json.dumps(g) + "\n")
    steps = 1000 if tier == "quick" else 5000
    tv, crashes = _run(bins, "etl", widefile, genfile, steps, tier, par)
    rep.add_tv("Rng", tv, len(gen), "16-bit orbit, engine histories of %d calls per seed, distributions" % steps)
    m = rep.cov["modules"]["Rng"]
    m["calls_ended_by_a_signal"] = crashes
    m["steps_per_history"] = steps
    rep.sample({"module": "Rng", "input": wide[len(wide) // 3]})
    if calibrate:
        # the reference run needs less volume: it validates the specification, not the library
        cgen = os.path.join(sd, "%s_orbit_cal_%s.ndjson" % (TAG, tier))
        with open(cgen, "w") as f:
            for g in orbit[::8 if tier == "quick" else 1]:
                f.write(json.dumps(g) + "\n")
        ctv, ccr = _run(bins, "std", widefile, cgen, 250 if tier == "quick" else steps, tier, par)
        if ctv["deviations"] or ccr:
            dv = (ctv["deviations"] or [{"kind": "crash"}])[0]
            raise vlib.ModelFailure("calibration: the reference engines / libstdc++ distributions deviate from the Rng spec "
                                    "(spec/projection error): %s %s" % (dv["kind"], json.dumps(dv.get("ev"))[:500]))
        m["calibration_events_std"] = ctv["events"]
    return tv
