// Conformance driver for the ordered-set family (property C09, life events for C03).
// Executes scripts exported from spec/Set.tla (or its own seeded random histories) on the real
// templates and records one self-contained event per public call:
//   {op,o,x,kind,cmp,cap,univ,pre,post,ret,out,obs,inst} (+ life events for the Tracked element type).
// The events are judged by spec/SetTrace.tla; this file contains no oracle and no comparison.
// The same source is built against libstdc++ (-DVH_STD, std::set / std::multiset behind a thin adapter
// that adds the fixed capacity) as the calibration run.
//
// Compile-time switches:  -DSH_CAPS=3,8      capacities compiled in
//                         -DSH_KIND=0|1|2    only static_set | flat_set | flat_multiset (default: all three)
//                         -DSH_KIND=3        flat_set over inplace_vector (only when the compile probe builds)
//                         -DSH_SSET_ER=1 / -DSH_SSET_HER=1   static_set::equal_range(key) / (K const&) instantiate
//                         -DSH_FSET_INS_SU=1 flat_set::insert(sorted_unique, first, last) links
#include "common.hpp"
#include <sys/time.h>
#include "contain.hpp"

#include <algorithm>
#include <functional>
#include <iterator>
#include <optional>
#include <set>
#include <vector>

#ifndef VH_STD
    #include <etl/flat_set.hpp>
    #include <etl/functional.hpp>
    #include <etl/inplace_vector.hpp>
    #include <etl/set.hpp>
    #include <etl/vector.hpp>
#endif

using vh::json;
using vh::Tracked;

#ifndef SH_CAPS
    #define SH_CAPS 3
#endif
#ifndef SH_SSET_ER
    #define SH_SSET_ER 0
#endif
#ifndef SH_SSET_HER
    #define SH_SSET_HER 0
#endif
#ifndef SH_FSET_INS_SU
    #define SH_FSET_INS_SU 0
#endif

// heterogeneous probe for the transparent comparator (compares with keys, is not a key)
struct HK {
    int k;
};
inline bool operator<(int a, HK b) { return a < b.k; }
inline bool operator<(HK a, int b) { return a.k < b; }
inline bool operator<(Tracked const& a, HK b) { return a.v < b.k; }
inline bool operator<(HK a, Tracked const& b) { return a.k < b.v; }

namespace {

enum { K_SSET = 0, K_FSET = 1, K_FMSET = 2, K_FSETIPV = 3 }; // 3: flat_set over inplace_vector (same surface as 1)
enum { C_LESS = 0, C_GREATER = 1, C_TRANSPARENT = 2 };
char const* const kind_names[] = {"sset", "fset", "fmset", "fset"};
char const* const cmp_names[]  = {"less", "greater", "transparent"};

#ifdef VH_STD
// ---- std adapters (calibration): std::set / std::multiset with the fixed capacity of the etl types ----
struct sorted_unique_tag { };
struct sorted_equivalent_tag { };
inline constexpr sorted_unique_tag su_tag{};
inline constexpr sorted_equivalent_tag se_tag{};

template <typename T, size_t N, typename C>
struct StdSet : std::set<T, C> {
    using base           = std::set<T, C>;
    using container_type = std::vector<T>;
    using iterator       = typename base::iterator;
    using const_iterator = typename base::const_iterator;
    StdSet()             = default;
    template <typename It>
    StdSet(It f, It l) : base(f, l) { }
    explicit StdSet(container_type const& c) : base(c.begin(), c.end()) { }
    StdSet(sorted_unique_tag, container_type c) : base(c.begin(), c.end()) { }
    template <typename It>
    StdSet(sorted_unique_tag, It f, It l) : base(f, l) { }

    bool full() const { return this->size() >= N; }
    // the one rule std::set does not have: a new key does not fit into a full set
    bool refuses(T const& v) const { return this->size() >= N && base::count(v) == 0; }
    using base::insert;
    auto insert(T const& v) -> std::pair<iterator, bool>
    {
        if (refuses(v)) { return {this->end(), false}; }
        return base::insert(v);
    }
    auto insert(T&& v) -> std::pair<iterator, bool>
    {
        if (refuses(v)) { return {this->end(), false}; }
        return base::insert(std::move(v));
    }
    template <typename It>
    void insert(sorted_unique_tag, It f, It l) { base::insert(f, l); }
    template <typename... A>
    auto emplace(A&&... a) -> std::pair<iterator, bool>
    {
        return insert(T(std::forward<A>(a)...));
    }
    auto extract() && -> container_type
    {
        container_type c(this->begin(), this->end());
        this->clear();
        return c;
    }
    void replace(container_type&& c) { static_cast<base&>(*this) = base(c.begin(), c.end()); }
    void swap(StdSet& o) { base::swap(o); }
    friend void swap(StdSet& a, StdSet& b) { a.swap(b); }
};

template <typename T, size_t N, typename C>
struct StdMSet : std::multiset<T, C> {
    using base           = std::multiset<T, C>;
    using container_type = std::vector<T>;
    StdMSet()            = default;
    explicit StdMSet(container_type c) : base(c.begin(), c.end()) { }
    StdMSet(sorted_equivalent_tag, container_type c) : base(c.begin(), c.end()) { }
};

template <typename T, int CK>
using cmp_t = std::conditional_t<CK == C_LESS, std::less<T>, std::conditional_t<CK == C_GREATER, std::greater<T>, std::less<>>>;
template <typename T, size_t N, int CK, int KIND>
using set_t = std::conditional_t<KIND == K_FMSET, StdMSet<T, N, cmp_t<T, CK>>, StdSet<T, N, cmp_t<T, CK>>>;
template <typename V>
inline constexpr bool is_static_set = false;
#else
inline constexpr auto su_tag = etl::sorted_unique;
inline constexpr auto se_tag = etl::sorted_equivalent;
template <typename T, int CK>
using cmp_t = std::conditional_t<CK == C_LESS, etl::less<T>, std::conditional_t<CK == C_GREATER, etl::greater<T>, etl::less<>>>;
template <typename T, size_t N, int CK, int KIND>
using set_t = std::conditional_t<KIND == K_SSET, etl::static_set<T, N, cmp_t<T, CK>>,
    std::conditional_t<KIND == K_FSET, etl::flat_set<T, etl::static_vector<T, N>, cmp_t<T, CK>>,
        std::conditional_t<KIND == K_FSETIPV, etl::flat_set<T, etl::inplace_vector<T, N>, cmp_t<T, CK>>,
            etl::flat_multiset<T, etl::static_vector<T, N>, cmp_t<T, CK>>>>>;
template <typename V>
inline constexpr bool is_static_set = false;
template <typename T, size_t N, typename C>
inline constexpr bool is_static_set<etl::static_set<T, N, C>> = true;
#endif

template <typename V, typename Fallback>
struct ct_of {
    using type = Fallback;
};
template <typename V, typename Fallback>
    requires requires { typename V::container_type; }
struct ct_of<V, Fallback> {
    using type = typename V::container_type;
};

template <typename T, size_t N, int CK, int KIND>
struct Runner {
    using V                       = set_t<T, N, CK, KIND>;
    static constexpr bool tracked = vh::is_tracked<T>;
    static constexpr bool multi   = KIND == K_FMSET;
#ifdef VH_STD
    static constexpr bool lifelog = false; // node based: no cells to name
#else
    static constexpr bool lifelog = tracked;
#endif
    static constexpr bool have_er  = !is_static_set<V> || SH_SSET_ER;
    static constexpr bool have_her = !is_static_set<V> || SH_SSET_HER;

    alignas(V) unsigned char store[2][sizeof(V)];
    V* ob[2];
    std::string inst;
    std::vector<int> univ;
    long nev = 0, nskip = 0, ndesync = 0, nrun = 0;
    std::set<std::string> unsupported_seen;
    bool broken = false;

    explicit Runner(std::string name) : inst(std::move(name))
    {
        for (int i = 0; i < 2; ++i) { ob[i] = new (store[i]) V(); }
    }
    ~Runner()
    {
        for (int i = 0; i < 2; ++i) { ob[i]->~V(); }
    }
    static int oi(std::string const& o) { return o == "a" ? 0 : 1; }

    // ---- projection (public observers only) ----
    static json elems(V const& v)
    {
        json a = json::array();
        for (auto it = v.begin(); it != v.end(); ++it) { a.push_back(vh::val_of(*it)); }
        return a;
    }
    json state() const { return json{{"a", elems(*ob[0])}, {"b", elems(*ob[1])}}; }

    template <typename C, typename It>
    static long idx(C& c, It it)
    {
        if constexpr (std::is_pointer_v<It>) {
            if (it == nullptr) { return -1; }
            return (long)(it - c.begin());
        } else {
            using CI = typename V::const_iterator;
            return (long)std::distance(CI(c.begin()), CI(it));
        }
    }

    template <typename P, bool ER>
    json lookups(V& v, std::function<P(int)> const& mk)
    {
        V const& cv = v;
        json all    = json::array();
        for (int k : univ) {
            P key = mk(k);
            json r;
            r["k"] = k;
            if constexpr (requires { v.find(key); }) { r["f"] = idx(v, v.find(key)); }
            if constexpr (requires { cv.find(key); }) { r["cf"] = idx(cv, cv.find(key)); }
            if constexpr (requires { cv.contains(key); }) { r["has"] = (bool)cv.contains(key); }
            if constexpr (requires { cv.count(key); }) { r["cnt"] = (long)cv.count(key); }
            if constexpr (requires { v.lower_bound(key); }) { r["lb"] = idx(v, v.lower_bound(key)); }
            if constexpr (requires { cv.lower_bound(key); }) { r["clb"] = idx(cv, cv.lower_bound(key)); }
            if constexpr (requires { v.upper_bound(key); }) { r["ub"] = idx(v, v.upper_bound(key)); }
            if constexpr (requires { cv.upper_bound(key); }) { r["cub"] = idx(cv, cv.upper_bound(key)); }
            if constexpr (ER) {
                if constexpr (requires { v.equal_range(key).first; }) {
                    auto p  = v.equal_range(key);
                    r["er"] = json::array({idx(v, p.first), idx(v, p.second)});
                }
                if constexpr (requires { cv.equal_range(key).first; }) {
                    auto p   = cv.equal_range(key);
                    r["cer"] = json::array({idx(cv, p.first), idx(cv, p.second)});
                }
            }
            all.push_back(std::move(r));
        }
        return all;
    }

    json observe(V& v)
    {
        V const& cv = v;
        json o;
        o["size"]  = (long)cv.size();
        o["empty"] = (bool)cv.empty();
        if constexpr (requires { cv.full(); }) { o["full"] = (bool)cv.full(); }
#ifndef VH_STD
        o["maxsize"] = (long)cv.max_size();
#endif
        json fwd = json::array(), cfwd = json::array(), rev = json::array(), crev = json::array();
        for (auto it = v.begin(); it != v.end(); ++it) { fwd.push_back(vh::val_of(*it)); }
        for (auto it = cv.cbegin(); it != cv.cend(); ++it) { cfwd.push_back(vh::val_of(*it)); }
        for (auto it = v.rbegin(); it != v.rend(); ++it) { rev.push_back(vh::val_of(*it)); }
        for (auto it = cv.crbegin(); it != cv.crend(); ++it) { crev.push_back(vh::val_of(*it)); }
        o["fwd"]  = fwd;
        o["cfwd"] = cfwd;
        o["rev"]  = rev;
        o["crev"] = crev;
        if constexpr (!multi) {
            o["lk"] = lookups<T, have_er>(v, [](int k) { return T(k); });
            if constexpr (CK == C_TRANSPARENT) { o["hlk"] = lookups<HK, have_her>(v, [](int k) { return HK{k}; }); }
        }
        return o;
    }
    json observe_all()
    {
        json o{{"a", observe(*ob[0])}, {"b", observe(*ob[1])}};
        // the relational operators the type declares, between the two objects
        V const& a = *ob[0];
        V const& b = *ob[1];
        json rel   = json::array();
        if constexpr (requires { { a == b } -> std::convertible_to<bool>; }) { rel.push_back({{"op", "eq"}, {"v", (bool)(a == b)}}); }
        if constexpr (requires { { a != b } -> std::convertible_to<bool>; }) { rel.push_back({{"op", "ne"}, {"v", (bool)(a != b)}}); }
        if constexpr (requires { { a < b } -> std::convertible_to<bool>; }) { rel.push_back({{"op", "lt"}, {"v", (bool)(a < b)}}); }
        if constexpr (requires { { a <= b } -> std::convertible_to<bool>; }) { rel.push_back({{"op", "le"}, {"v", (bool)(a <= b)}}); }
        if constexpr (requires { { a > b } -> std::convertible_to<bool>; }) { rel.push_back({{"op", "gt"}, {"v", (bool)(a > b)}}); }
        if constexpr (requires { { a >= b } -> std::convertible_to<bool>; }) { rel.push_back({{"op", "ge"}, {"v", (bool)(a >= b)}}); }
        if (!rel.empty()) { o["rel"] = rel; }
        nrel = (long)rel.size();
        return o;
    }
    long nrel = -1;
    // which objects are in moved-from state ("valid but unspecified"): bookkeeping of the calls made, the
    // trace specification applies the same rule (MvAfter) and judges such objects by capacity only
    bool mvd[2] = {false, false};
    json mv_json() const
    {
        json a = json::array();
        if (mvd[0]) { a.push_back("a"); }
        if (mvd[1]) { a.push_back("b"); }
        return a;
    }
    void mv_update(std::string const& op, int o, json const& x)
    {
        static std::set<std::string> const reviving = {"clear", "replace", "copy_assign", "ctor_copy", "move_assign", "ctor_move",
            "ctor_default", "ctor_range", "ctor_cont", "ctor_su_cont", "ctor_su_range", "ms_ctor_default", "ms_ctor_cont", "ms_ctor_sorted"};
        if (op == "move_assign" || op == "ctor_move") {
            mvd[o]                                       = false;
            mvd[oi(x.value("src", std::string("a")))] = true;
        } else if (reviving.count(op) != 0) {
            mvd[o] = false;
        }
    }

    std::vector<vh::Region> regions()
    {
        std::vector<vh::Region> r;
        for (int i = 0; i < 2; ++i) {
            r.push_back({reinterpret_cast<char const*>(std::to_address(ob[i]->begin())), sizeof(T), N, i + 1});
        }
        return r;
    }

    json ext_vals = json::array(), ext_end = json::array();

    // Runs one op. Returns false when the operation is not provided by this instantiation.
    bool apply(std::string const& op, int o, json const& x, long& ri, long& rn, json& out)
    {
        V& v   = *ob[o];
        int vi = x.value("v", 0);
        long p = x.value("p", 0L), q = x.value("q", 0L);
        V& src = *ob[oi(x.value("src", std::string("a")))];
        std::vector<T> xs;
        if (x.contains("xs")) {
            xs.reserve(x["xs"].size());
            for (auto const& e : x["xs"]) { xs.emplace_back(e.get<int>()); }
        }
        T val(vi);
        static constexpr bool has_ct = requires { typename V::container_type; };
        using CT                     = typename ct_of<V, std::vector<T>>::type;
        bool const wants_ct = op == "replace" || op == "ctor_cont" || op == "ctor_su_cont" || op == "ms_ctor_cont"
                           || op == "ms_ctor_sorted";
        CT c;
        if (wants_ct) {
            for (auto const& e : xs) { c.push_back(e); }
        }
        std::optional<CT> outc;

        auto& L = vh::life();
        if constexpr (lifelog) {
            L.begin_window(regions());
            ext_vals = json::array();
            ext_vals.push_back({{"c", L.cell(&val)}, {"v", vi}});
            for (auto& e : xs) { ext_vals.push_back({{"c", L.cell(&e)}, {"v", e.v}}); }
            for (auto& e : c) { ext_vals.push_back({{"c", L.cell(&e)}, {"v", e.v}}); }
        }
        ri      = 0;
        rn      = 0;
        bool ok = true;
        T* xb   = xs.data();
        T* xe   = xs.data() + xs.size();

        if (op == "insert_copy") {
            if constexpr (requires { v.insert(val).second; }) { auto r = v.insert(val); ri = idx(v, r.first); rn = r.second ? 1 : 0; } else { ok = false; }
        } else if (op == "insert_move") {
            if constexpr (requires { v.insert(std::move(val)).second; }) { auto r = v.insert(std::move(val)); ri = idx(v, r.first); rn = r.second ? 1 : 0; } else { ok = false; }
        } else if (op == "emplace") {
            if constexpr (requires { v.emplace(vi).second; }) { auto r = v.emplace(vi); ri = idx(v, r.first); rn = r.second ? 1 : 0; } else { ok = false; }
        } else if (op == "insert_hint_copy") {
            if constexpr (requires { v.insert(v.cbegin(), val); }) { auto r = v.insert(std::next(v.cbegin(), p), val); ri = idx(v, r); } else { ok = false; }
        } else if (op == "insert_hint_move") {
            if constexpr (requires { v.insert(v.cbegin(), std::move(val)); }) { auto r = v.insert(std::next(v.cbegin(), p), std::move(val)); ri = idx(v, r); } else { ok = false; }
        } else if (op == "emplace_hint") {
            if constexpr (requires { v.emplace_hint(v.cbegin(), vi); }) { auto r = v.emplace_hint(std::next(v.cbegin(), p), vi); ri = idx(v, r); } else { ok = false; }
        } else if (op == "insert_range") {
            if constexpr (requires { v.insert(xb, xe); }) { v.insert(xb, xe); } else { ok = false; }
        } else if (op == "insert_su_range") {
#if defined(VH_STD) || SH_FSET_INS_SU
            if constexpr (requires { v.insert(su_tag, xb, xe); }) { v.insert(su_tag, xb, xe); } else { ok = false; }
#else
            ok = false;
#endif
        } else if (op == "erase_key") {
            if constexpr (requires { v.erase(val); }) { rn = (long)v.erase(val); } else { ok = false; }
        } else if (op == "erase_pos") {
            if constexpr (requires { v.erase(v.begin()); }) { auto r = v.erase(std::next(v.begin(), p)); ri = idx(v, r); } else { ok = false; }
        } else if (op == "erase_cpos") {
            if constexpr (requires { v.erase(v.cbegin()); }) { auto r = v.erase(std::next(v.cbegin(), p)); ri = idx(v, r); } else { ok = false; }
        } else if (op == "erase_range") {
            if constexpr (requires { v.erase(v.begin(), v.begin()); }) { auto r = v.erase(std::next(v.begin(), p), std::next(v.begin(), q)); ri = idx(v, r); } else { ok = false; }
        } else if (op == "clear") {
            if constexpr (requires { v.clear(); }) { v.clear(); } else { ok = false; }
        } else if (op == "swap") {
            if constexpr (requires { v.swap(src); }) { v.swap(src); } else { ok = false; }
        } else if (op == "fswap") {
            if constexpr (requires { swap(v, src); }) { swap(v, src); } else { ok = false; }
        } else if (op == "copy_assign") {
            if constexpr (std::is_copy_assignable_v<V>) { v = std::as_const(src); } else { ok = false; }
        } else if (op == "move_assign") {
            if constexpr (std::is_move_assignable_v<V>) { v = std::move(src); } else { ok = false; }
        } else if (op == "ctor_copy") {
            if constexpr (std::is_copy_constructible_v<V>) { v.~V(); new (&v) V(std::as_const(src)); } else { ok = false; }
        } else if (op == "ctor_move") {
            if constexpr (std::is_move_constructible_v<V>) { v.~V(); new (&v) V(std::move(src)); } else { ok = false; }
        } else if (op == "erase_if_odd") {
            if constexpr (requires { erase_if(v, [](T const&) { return true; }); }) {
                rn = (long)erase_if(v, [](T const& e) { return vh::val_of(e) % 2 != 0; });
            } else { ok = false; }
        } else if (op == "erase_if_eq") {
            if constexpr (requires { erase_if(v, [](T const&) { return true; }); }) {
                rn = (long)erase_if(v, [vi](T const& e) { return vh::val_of(e) == vi; });
            } else { ok = false; }
        } else if (op == "extract") {
            if constexpr (requires { outc.emplace(std::move(v).extract()); }) { outc.emplace(std::move(v).extract()); } else { ok = false; }
        } else if (op == "replace") {
            if constexpr (requires { v.replace(std::move(c)); }) { v.replace(std::move(c)); } else { ok = false; }
        } else if (op == "ctor_default" || op == "ms_ctor_default") {
            v.~V();
            new (&v) V();
        } else if (op == "ctor_range") {
            if constexpr (requires { V(xb, xe); }) { v.~V(); new (&v) V(xb, xe); } else { ok = false; }
        } else if (op == "ctor_cont" || op == "ms_ctor_cont") {
            if constexpr (has_ct && requires { V(c); }) { v.~V(); new (&v) V(c); } else { ok = false; }
        } else if (op == "ctor_su_cont") {
            if constexpr (has_ct && requires { V(su_tag, c); }) { v.~V(); new (&v) V(su_tag, c); } else { ok = false; }
        } else if (op == "ctor_su_range") {
            if constexpr (requires { V(su_tag, xb, xe); }) { v.~V(); new (&v) V(su_tag, xb, xe); } else { ok = false; }
        } else if (op == "ms_ctor_sorted") {
            if constexpr (has_ct && requires { V(se_tag, c); }) { v.~V(); new (&v) V(se_tag, c); } else { ok = false; }
        } else {
            ok = false;
        }
        if constexpr (lifelog) {
            // harness-owned element objects that are alive after the call (moved-from ones included)
            ext_end = json::array();
            ext_end.push_back(L.cell(&val));
            for (auto& e : xs) { ext_end.push_back(L.cell(&e)); }
            for (auto& e : c) { ext_end.push_back(L.cell(&e)); }
            if (outc) {
                for (auto& e : *outc) { ext_end.push_back(L.cell(&e)); }
            }
            L.end_window();
        }
        out = json::array();
        if (outc) {
            for (auto const& e : *outc) { out.push_back(vh::val_of(e)); }
        }
        return ok;
    }

    // returns false when the op is not provided
    bool step(std::string const& op, std::string const& o, json const& x, bool emit)
    {
        json ev;
        ev["op"]   = op;
        ev["o"]    = o;
        ev["x"]    = x;
        ev["kind"] = kind_names[KIND];
        ev["cmp"]  = cmp_names[CK];
        ev["cap"]  = (long)N;
        ev["univ"] = univ;
        ev["pre"]  = state();
        ev["mv"]   = mv_json();
        ev["inst"] = inst;
        vhc::set_pending(ev);
        long ri = 0, rn = 0;
        json out;
        ++nrun;
        bool ok = apply(op, oi(o), x, ri, rn, out);
        if (!ok) {
            ++nskip;
            if (unsupported_seen.insert(op).second) { std::fprintf(stderr, "UNSUPPORTED %s %s\n", inst.c_str(), op.c_str()); }
            return false;
        }
        mv_update(op, oi(o), x);
        if (!emit) { return true; }
        ev["post"] = state();
        ev["ret"]  = json{{"i", ri}, {"n", rn}};
        ev["out"]  = out;
        ev["obs"]  = observe_all();
        if constexpr (lifelog) {
            json l;
            l["evs"]    = vh::life().events;
            l["ext"]    = ext_vals;
            l["extend"] = ext_end;
            ev["life"]  = l;
        }
        vh::emit(ev);
        ++nev;
        return true;
    }

    void reset()
    {
        for (int i = 0; i < 2; ++i) {
            ob[i]->~V();
            ob[i] = new (store[i]) V();
        }
        mvd[0] = mvd[1] = false;
    }

    // ---- script replay: lines {reset,univ} | {op,o,x,post,last}.  Only the line marked `last` (the edge the
    // script was planned for) is recorded: its prefix is, call for call, the complete script of another edge.
    // A prefix call that does not reach the planned state ends the script (the planned edge would be executed
    // from a different state than the model asked for); it is counted and the pipeline cross-checks the count.
    void replay(std::vector<json> const& script, long start)
    {
        long si = -1; // index of the current script (= number of reset lines seen - 1)
        for (auto const& ln : script) {
            if (ln.contains("reset")) {
                ++si;
                if (si < start) { continue; }
                vhc::begin_script(si); // a script that does not return within 20 s is reported as a crash (SIGALRM)
                reset();
                broken = false;
                if (ln.contains("univ")) { univ = ln["univ"].get<std::vector<int>>(); }
                continue;
            }
            if (si < start) { continue; }
            if (broken) { continue; }
            bool last = ln.value("last", 0) != 0;
            if (!step(ln["op"].get<std::string>(), ln["o"].get<std::string>(), ln["x"], last)) {
                broken = true; // not provided by this instantiation
                continue;
            }
            if (!last && ln.contains("post")) {
                // objects the plan leaves moved-from have unspecified contents: not compared
                json st        = state();
                json const& pm = ln.contains("postmv") ? ln["postmv"] : json::array();
                for (auto const* nm : {"a", "b"}) {
                    if (std::find(pm.begin(), pm.end(), json(nm)) != pm.end()) { continue; }
                    if (st[nm] != ln["post"][nm]) {
                        broken = true;
                        ++ndesync;
                        break;
                    }
                }
            }
        }
    }

    // ---- seeded random histories (record direction) ----
    static json X0() { return json{{"v", 0}, {"p", 0}, {"q", 0}, {"xs", json::array()}, {"src", "a"}}; }
    std::vector<int> current(int o) const
    {
        std::vector<int> r;
        for (auto it = ob[o]->begin(); it != ob[o]->end(); ++it) { r.push_back(vh::val_of(*it)); }
        return r;
    }
    void random_history(vh::Rng& rng, long steps)
    {
        std::vector<std::string> ops;
        if constexpr (KIND == K_FMSET) {
            ops = {"ms_ctor_default", "ms_ctor_cont", "ms_ctor_cont", "ms_ctor_cont", "ms_ctor_sorted", "copy_assign", "move_assign",
                "ctor_copy", "ctor_move"};
        } else {
            ops = {"insert_copy", "insert_copy", "insert_move", "emplace", "insert_range", "erase_key", "erase_key",
                "erase_pos", "erase_range", "clear", "swap", "fswap", "ctor_range", "copy_assign", "move_assign", "ctor_copy",
                "ctor_move"};
            if constexpr (KIND == K_FSET || KIND == K_FSETIPV) {
                for (auto s : {"insert_hint_copy", "insert_hint_move", "emplace_hint", "erase_cpos", "extract", "replace",
                         "ctor_cont", "ctor_su_cont", "ctor_su_range", "erase_if_odd", "erase_if_eq"}) {
                    ops.emplace_back(s);
                }
            }
        }
        int const U = (int)univ.size();
        auto key    = [&] { return univ[(size_t)rng.range(0, U - 1)]; };
        auto lt     = [&](int a, int b) { return CK == C_GREATER ? a > b : a < b; };
        reset();
        bool grow = true;
        for (long i = 0; i < steps; ++i) {
            if (i % 60 == 59) { reset(); }
            int o          = (int)rng.range(0, 1);
            auto cur       = current(o);
            long sz        = (long)cur.size();
            long room      = (long)N - sz;
            std::string op = ops[(size_t)rng.range(0, (long)ops.size() - 1)];
            json x         = X0();
            x["v"]         = key();
            x["src"]       = rng.coin() ? "a" : "b";
            if (sz == 0) { grow = true; }
            if (room == 0) { grow = false; }
            bool const twoobj = op == "copy_assign" || op == "move_assign" || op == "ctor_copy" || op == "ctor_move";
            if (twoobj) { x["src"] = o == 0 ? "b" : "a"; }
            // moved-from objects: only operations whose meaning does not depend on the old contents (plus insert into a
            // moved-from static_set); nothing that reads a moved-from partner
            auto revive_only = [&] {
                bool const two = op == "copy_assign" || op == "move_assign" || op == "ctor_copy" || op == "ctor_move";
                if (mvd[o] && !(two || op == "clear" || op == "ctor_range" || op.rfind("ms_ctor", 0) == 0 || (KIND == K_SSET && op == "insert_copy"))) {
                    op = KIND == K_FMSET ? "ms_ctor_default" : "clear";
                }
            };
            revive_only();
            if (mvd[1 - o] && (twoobj || op == "swap" || op == "fswap")) { continue; }
            if (KIND == K_FMSET && !twoobj && o == 1) { o = 0; if (mvd[0]) { continue; } }
            if (twoobj && rng.coin(50)) { continue; }
            bool shrinks = op == "clear" || op == "extract" || op.rfind("ctor", 0) == 0 || op == "replace";
            if (grow && shrinks && rng.coin(85)) { continue; }
            if (!mvd[o] && !grow && op.find("insert") != std::string::npos && rng.coin(60)) { op = "erase_key"; }
            auto has = [&](int k) { return std::find(cur.begin(), cur.end(), k) != cur.end(); };
            // keep the call inside the domain the property quantifies over (capacity is not exceeded)
            if ((KIND == K_FSET || KIND == K_FSETIPV) && room == 0 && !has(x["v"].get<int>())
                && (op == "insert_copy" || op == "insert_move" || op == "emplace" || op.find("hint") != std::string::npos)) {
                if (sz == 0) { continue; }
                x["v"] = cur[(size_t)rng.range(0, sz - 1)];
            }
            if (op.find("hint") != std::string::npos) { x["p"] = rng.range(0, sz); }
            if ((op == "erase_pos" || op == "erase_cpos")) {
                if (sz == 0) { continue; }
                x["p"] = rng.range(0, sz - 1);
            }
            if (op == "erase_key" && sz > 0 && rng.coin(60)) { x["v"] = cur[(size_t)rng.range(0, sz - 1)]; }
            if (op == "erase_range") {
                long a = rng.range(0, sz);
                x["p"] = a;
                x["q"] = rng.range(a, std::min<long>(sz, a + 3));
            }
            if (op == "insert_range") {
                std::vector<int> add;
                std::set<int> fresh;
                long k = rng.range(0, 4);
                for (long j = 0; j < k; ++j) {
                    int c = key();
                    if (!has(c) && !fresh.count(c) && (long)fresh.size() >= room) { continue; }
                    if (!has(c)) { fresh.insert(c); }
                    add.push_back(c);
                }
                x["xs"] = add;
            }
            if (op == "ctor_range" || op == "ctor_cont" || op == "ms_ctor_cont") {
                std::vector<int> a;
                long k = rng.range(0, (long)N);
                for (long j = 0; j < k; ++j) { a.push_back(key()); }
                x["xs"] = a;
            }
            if (op == "replace" || op == "ctor_su_cont" || op == "ctor_su_range" || op == "ms_ctor_sorted") {
                std::vector<int> a;
                long k = rng.range(0, (long)N);
                for (long j = 0; j < k; ++j) { a.push_back(key()); }
                std::sort(a.begin(), a.end(), lt);
                if (op != "ms_ctor_sorted") { a.erase(std::unique(a.begin(), a.end()), a.end()); }
                x["xs"] = a;
            }
            revive_only(); // whatever was decided above: a moved-from object only gets the operations Pre() admits for it
            step(op, o == 0 ? "a" : "b", x, true);
        }
    }
};

struct Args {
    std::string mode, kind, elem, cmp, script;
    std::vector<json> const* lines = nullptr;
    long cap = 0, steps = 0, nuniv = 5, start = 0;
    uint64_t seed = 1;
};

template <typename T, size_t N, int CK, int KIND>
int run_one(Args const& a)
{
    Runner<T, N, CK, KIND> r(a.kind + "_" + a.elem + "_" + a.cmp + "_" + std::to_string(N));
    long before = vh::live_count();
    if (a.mode == "replay") {
        r.replay(*a.lines, a.start);
        { struct itimerval tv{{0, 0}, {0, 0}}; setitimer(ITIMER_VIRTUAL, &tv, nullptr); }
    } else {
        for (int k = 1; k <= a.nuniv; ++k) { r.univ.push_back(k); }
        vh::Rng rng(a.seed * 1000003ull + N * 7919ull + (uint64_t)KIND * 31ull + (uint64_t)CK * 131ull + (vh::is_tracked<T> ? 17 : 0));
        r.random_history(rng, a.steps);
    }
    r.reset();
    std::fprintf(stderr, "SUMMARY inst=%s events=%ld calls=%ld unsupported=%ld desync=%ld live_delta=%ld\n", r.inst.c_str(),
        r.nev, r.nrun, r.nskip, r.ndesync, vh::live_count() - before);
    return 0;
}

template <typename T, size_t N, int KIND>
int run_cmp(Args const& a)
{
    if (a.cmp == "less") { return run_one<T, N, C_LESS, KIND>(a); }
    if (a.cmp == "greater") { return run_one<T, N, C_GREATER, KIND>(a); }
    if constexpr (KIND != K_FMSET) {
        if (a.cmp == "transparent") { return run_one<T, N, C_TRANSPARENT, KIND>(a); }
    }
    std::fprintf(stderr, "unknown comparator %s\n", a.cmp.c_str());
    return 2;
}

template <typename T, size_t N>
int run_kind(Args const& a)
{
#if !defined(SH_KIND) || SH_KIND == 0
    if (a.kind == "sset") { return run_cmp<T, N, K_SSET>(a); }
#endif
#if !defined(SH_KIND) || SH_KIND == 1
    if (a.kind == "fset") { return run_cmp<T, N, K_FSET>(a); }
#endif
#if !defined(SH_KIND) || SH_KIND == 2
    if (a.kind == "fmset") { return run_cmp<T, N, K_FMSET>(a); }
#endif
#if !defined(VH_STD) && defined(SH_KIND) && SH_KIND == 3 // only built when the compile probe succeeded
    if (a.kind == "fsetipv") { return run_cmp<T, N, K_FSETIPV>(a); }
#endif
    std::fprintf(stderr, "kind %s not compiled in\n", a.kind.c_str());
    return 2;
}

template <size_t... Ns>
int dispatch(Args const& a, std::index_sequence<Ns...>)
{
    int rc     = 2;
    bool found = false;
    auto one   = [&](auto nc) {
        constexpr size_t N = decltype(nc)::value;
        if ((long)N != a.cap) { return; }
        found = true;
#ifdef SH_ELEM_TRK
        rc = run_kind<Tracked, N>(a);
#else
        rc = run_kind<int, N>(a);
#endif
    };
    (one(std::integral_constant<size_t, Ns>{}), ...);
    if (!found) { std::fprintf(stderr, "capacity %ld not compiled in\n", a.cap); }
    return rc;
}

} // namespace

// usage: set_driver replay <kind> <elem> <cmp> <cap> <script>
//        set_driver random <kind> <elem> <cmp> <cap> <steps> <seed> <universe size>
int main(int argc, char** argv)
{
    if (argc < 7) {
        std::fprintf(stderr, "usage\n");
        return 2;
    }
    Args a;
    a.mode = argv[1];
    a.kind = argv[2];
    a.elem = argv[3];
    a.cmp  = argv[4];
    a.cap  = std::atol(argv[5]);
#ifdef SH_ELEM_TRK
    if (a.elem != "trk") { return 2; }
#else
    if (a.elem != "int") { return 2; }
#endif
    if (a.mode == "replay") {
        a.script = argv[6];
    } else {
        a.steps = std::atol(argv[6]);
        a.seed  = argc > 7 ? std::strtoull(argv[7], nullptr, 10) : vh::env_seed();
        a.nuniv = argc > 8 ? std::atol(argv[8]) : 5;
    }
    std::vector<json> lines;
    if (a.mode == "replay") {
        lines   = vh::read_ndjson(a.script);
        a.lines = &lines;
    }
    return vhc::run_contained(a.mode == "replay", [&](long start) {
        a.start = start;
        return dispatch(a, std::index_sequence<SH_CAPS>{});
    });
}
