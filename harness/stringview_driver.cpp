// Conformance driver for basic_string_view (property C08, memory part feeds C02).
// Expands the input records exported from spec/StringView.tla (or its own seeded random records)
// into calls of EVERY searching / comparing / slicing overload of the real template and records one
// self-contained event per call:
//   {op, ov, d, h, n, pos, cnt, pos2, cnt2, <results>, inst}
// The events are judged by spec/StringViewTrace.tla.  There is no oracle and no comparison here.
//
// * Views are laid over buffers WITHOUT terminator.  Sanitizer build (-fsanitize=address): every
//   buffer is an exact-size heap block, so any read outside a view traps.  Plain build: buffers sit in
//   an arena between guard characters and every call is executed twice with different guard contents
//   ("ret" / "ret2"): characters outside the views must not influence the result.
// * Calls run in a forked child; a child that dies (sanitizer abort, SIGSEGV) is reported as an event
//   carrying "trap":1 for exactly the call it was executing, and a new child resumes behind it.
// * -DVH_STD: the identical calls on std::basic_string_view (calibration).
#include "common.hpp"

#include <fcntl.h>
#include <sys/mman.h>
#include <sys/wait.h>
#include <unistd.h>

#include <string>
#include <vector>

#ifdef VH_STD
    #include <string_view>
namespace lib = std;
#else
    #include <etl/string_view.hpp>
namespace lib = etl;
#endif

#if defined(__SANITIZE_ADDRESS__)
    #define VH_ASAN 1
#else
    #define VH_ASAN 0
#endif

using vh::json;

namespace {

constexpr long NPOS_TOKEN = -1;
constexpr long FILL       = 126; // guard / destination fill character (outside every alphabet used)
constexpr size_t PRE      = 4;
constexpr size_t POST     = 8;

// ---- output through shared memory (survives the death of the child) -----------------------------
struct Shm {
    long rec;
    long call;
    long busy; // 1 while a library call is open
    size_t desc_len;
    char desc[8192];
    size_t out_len;
    char out[1 << 22];
};
Shm* shm = nullptr;

void flush_out()
{
    size_t off = 0;
    while (off < shm->out_len) {
        ssize_t w = ::write(1, shm->out + off, shm->out_len - off);
        if (w <= 0) { vh_exit(3); }
        off += (size_t)w;
    }
    shm->out_len = 0;
}

struct Line {
    char* b;
    size_t n = 0;
    explicit Line(char* buf) : b(buf) { }
    void s(char const* t)
    {
        while (*t) { b[n++] = *t++; }
    }
    void i(long v) { n += (size_t)std::snprintf(b + n, 24, "%ld", v); }
    void key(char const* k)
    {
        b[n++] = '"';
        s(k);
        b[n++] = '"';
        b[n++] = ':';
    }
    void kv(char const* k, long v)
    {
        key(k);
        i(v);
        b[n++] = ',';
    }
    void ks(char const* k, char const* v)
    {
        key(k);
        b[n++] = '"';
        s(v);
        b[n++] = '"';
        b[n++] = ',';
    }
    void ka(char const* k, std::vector<long> const& a)
    {
        key(k);
        b[n++] = '[';
        for (size_t j = 0; j < a.size(); ++j) {
            if (j) { b[n++] = ','; }
            i(a[j]);
        }
        b[n++] = ']';
        b[n++] = ',';
    }
    void kb(char const* k, bool const (&a)[6])
    {
        key(k);
        b[n++] = '[';
        for (int j = 0; j < 6; ++j) {
            if (j) { b[n++] = ','; }
            s(a[j] ? "true" : "false");
        }
        b[n++] = ']';
        b[n++] = ',';
    }
};

// ---- buffers ------------------------------------------------------------------------------------
// The model's small character codes {0, 97, 98, 200} (+ the filler 126) are mapped per instantiation onto real
// characters.  1-byte types: identity (200 has the high bit set).  Wide types: order-preserving images that contain pairs with
// EQUAL LOW BYTE but different value ('a' = 0x61 vs 0x161 / 0x10061; 0x100 whose low byte collides with the embedded null),
// so an implementation that looks only at the low byte of a wide character is exposed.  The TLA+ side sees model codes only.
template <typename C>
constexpr unsigned long real_of_model(long v)
{
    if constexpr (sizeof(C) == 1) { return (unsigned long)(unsigned char)v; }
    else if constexpr (std::is_same_v<C, wchar_t>) { return v == 98 ? 0x100ul : (v == 200 ? 0x161ul : (unsigned long)v); }
    else if constexpr (std::is_same_v<C, char16_t>) { return v == 98 ? 0xA1ul : (v == 200 ? 0x100ul : (unsigned long)v); }
    else { return v == 98 ? 0x100ul : (v == 200 ? 0x10061ul : (unsigned long)v); }
}
template <typename C>
long code_of(C c)
{
    if constexpr (sizeof(C) == 1) { return (long)(unsigned char)c; }
    else {
        unsigned long raw = (unsigned long)(std::make_unsigned_t<C>)c;
        for (long m : {0L, 97L, 98L, 200L, 126L}) {
            if (real_of_model<C>(m) == raw) { return m; }
        }
        // a character nobody passed in (garbage read through a broken view / size): distinct from every model code and
        // still inside the 32-bit integers of the judge
        return 1000000 + (long)(raw > (1ul << 29) ? (1ul << 29) : raw);
    }
}
template <typename C>
C char_of(long v)
{
    return (C)real_of_model<C>(v);
}

template <typename C>
struct Buf {
    C* base = nullptr;
    C* p    = nullptr;
    size_t n = 0;
    Buf() = default;
    Buf(Buf const&) = delete;
    auto operator=(Buf const&) -> Buf& = delete;
    ~Buf() { release(); }
    void release()
    {
        std::free(base);
        base = p = nullptr;
    }
    // exact content, no terminator
    void set(std::vector<long> const& s, bool terminate = false)
    {
        release();
        n = s.size() + (terminate ? 1 : 0);
#if VH_ASAN
        base = p = static_cast<C*>(std::malloc(n * sizeof(C)));
#else
        base = static_cast<C*>(std::malloc((PRE + n + POST) * sizeof(C)));
        p    = base + PRE;
#endif
        for (size_t j = 0; j < s.size(); ++j) { p[j] = char_of<C>(s[j]); }
        if (terminate) { p[s.size()] = C(0); }
        guards(std::vector<long>{}, std::vector<long>{});
    }
    void alloc_fill(size_t count)
    {
        release();
        n = count;
#if VH_ASAN
        base = p = static_cast<C*>(std::malloc(n * sizeof(C)));
#else
        base = static_cast<C*>(std::malloc((PRE + n + POST) * sizeof(C)));
        p    = base + PRE;
#endif
        for (size_t j = 0; j < n; ++j) { p[j] = char_of<C>(FILL); }
        guards(std::vector<long>{}, std::vector<long>{});
    }
    // characters in front of / behind the buffer (plain build only): cyclic patterns, FILL when empty
    void guards(std::vector<long> const& before, std::vector<long> const& after)
    {
#if !VH_ASAN
        for (size_t j = 0; j < PRE; ++j) {
            base[PRE - 1 - j] = char_of<C>(before.empty() ? FILL : before[j % before.size()]);
        }
        for (size_t j = 0; j < POST; ++j) { p[n + j] = char_of<C>(after.empty() ? FILL : after[j % after.size()]); }
#else
        (void)before;
        (void)after;
#endif
    }
};

inline size_t to_sz(long v) { return v == NPOS_TOKEN ? static_cast<size_t>(-1) : static_cast<size_t>(v); }
inline long from_sz(size_t v)
{
    if (v == static_cast<size_t>(-1)) { return NPOS_TOKEN; }
    return v > (size_t(1) << 30) ? (long(1) << 30) : (long)v;
}

struct Rec {
    std::vector<long> h, n, P, C, P1, C1, P2, C2, K;
    long u = 0, c5 = 0;
};

std::vector<long> vec_of(json const& j)
{
    std::vector<long> v;
    for (auto const& e : j) { v.push_back(e.get<long>()); }
    return v;
}

Rec rec_of(json const& j)
{
    Rec r;
    r.h  = vec_of(j["h"]);
    r.n  = vec_of(j["n"]);
    r.P  = vec_of(j["P"]);
    r.C  = vec_of(j["C"]);
    r.P1 = vec_of(j["P1"]);
    r.C1 = vec_of(j["C1"]);
    r.P2 = vec_of(j["P2"]);
    r.C2 = vec_of(j["C2"]);
    r.K  = vec_of(j["K"]);
    r.u  = j["u"].get<long>();
    r.c5 = j["c5"].get<long>();
    return r;
}

bool has_nul(std::vector<long> const& s)
{
    for (auto c : s) {
        if (c == 0) { return true; }
    }
    return false;
}

// ---- seeded random records (longer strings) -----------------------------------------------------
Rec random_rec(uint64_t seed, long idx, long maxlen)
{
    vh::Rng rng(seed * 1000003ull + (uint64_t)idx * 7919ull + 11);
    static long const alpha[] = {0, 97, 98, 200};
    Rec r;
    long L = rng.coin(20) ? rng.range(0, 6) : rng.range(0, maxlen);
    // low-entropy strings so that partial and repeated matches are frequent
    long nalpha = rng.coin(50) ? 2 : 4;
    long a0     = rng.range(0, 4 - nalpha);
    for (long j = 0; j < L; ++j) { r.h.push_back(alpha[a0 + rng.range(0, nalpha - 1)]); }
    if (L > 0 && rng.coin(70)) {
        long st = rng.range(0, L - 1);
        long ln = rng.range(0, std::min<long>(L - st, 8));
        for (long j = 0; j < ln; ++j) { r.n.push_back(r.h[(size_t)(st + j)]); }
        if (!r.n.empty() && rng.coin(30)) { r.n[(size_t)rng.range(0, (long)r.n.size() - 1)] = alpha[rng.range(0, 3)]; }
        if (rng.coin(15)) { r.n.push_back(alpha[rng.range(0, 3)]); }
    } else {
        long ln = rng.range(0, 6);
        for (long j = 0; j < ln; ++j) { r.n.push_back(alpha[rng.range(0, 3)]); }
    }
    long M  = (long)r.n.size();
    auto pick = [&](std::vector<long>& dst, std::vector<long> fixed, long lo, long hi, int extra) {
        for (auto v : fixed) {
            if (v == NPOS_TOKEN || (v >= lo && v <= hi)) { dst.push_back(v); }
        }
        for (int j = 0; j < extra && hi >= lo; ++j) { dst.push_back(rng.range(lo, hi)); }
    };
    pick(r.P, {0, L - 1, L, L + 1, NPOS_TOKEN}, 0, L + 2, 3);
    pick(r.C, {0, M}, 0, M, 1);
    pick(r.P1, {0, L}, 0, L, 2);
    pick(r.C1, {0, 1, L, L + 1, NPOS_TOKEN}, 0, L + 1, 2);
    pick(r.P2, {0, M}, 0, M, 1);
    pick(r.C2, {0, M, NPOS_TOKEN}, 0, M + 1, 1);
    pick(r.K, {0, L}, 0, L, 2);
    r.u  = idx % 3 == 0 ? 1 : 0;
    r.c5 = 1;
    return r;
}

// ---- the call table -----------------------------------------------------------------------------
template <typename C>
struct Runner {
    using V = lib::basic_string_view<C>;
    std::string inst;
    long rec0, call0; // resume point
    long rec_idx = 0, call_idx = 0;
    long nev     = 0;
    Buf<C> hb, nb, zb, db;
    Rec const* r = nullptr;
    bool nz      = false; // zb (n + terminator) is valid


    void set_env(int env)
    {
#if !VH_ASAN
        if (env == 0) {
            hb.guards({}, {});
            nb.guards({}, {});
            if (nz) { zb.guards({}, {}); }
        } else {
            // adversarial surroundings: the needle continues behind the haystack and vice versa
            std::vector<long> after_h, before_h, around_n;
            auto const& n = r->n;
            auto const& h = r->h;
            for (size_t j = 0; j < n.size(); ++j) { after_h.push_back(n[(j + 1) % n.size()]); }
            for (size_t j = 0; j < n.size(); ++j) { before_h.push_back(n[n.size() - 1 - j]); }
            if (n.empty() && !h.empty()) {
                after_h.push_back(h[0]);
                before_h.push_back(h[0]);
            }
            for (size_t j = 0; j < h.size(); ++j) { around_n.push_back(h[j]); }
            hb.guards(before_h, after_h);
            nb.guards(around_n, around_n);
            if (nz) { zb.guards(around_n, {}); }
        }
#else
        (void)env;
#endif
    }

    // f(env) -> long; executed once per environment
    template <typename F>
    void call(char const* op, char const* ov, long d, long pos, long cnt, long pos2, long cnt2, F f)
    {
        long my = call_idx++;
        if (rec_idx == rec0 && my < call0) { return; } // already executed by an earlier child
        Line ln(shm->desc);
        ln.s("{");
        ln.ks("op", op);
        ln.ks("ov", ov);
        ln.kv("d", d);
        ln.ka("h", r->h);
        ln.ka("n", r->n);
        ln.kv("pos", pos);
        ln.kv("cnt", cnt);
        ln.kv("pos2", pos2);
        ln.kv("cnt2", cnt2);
        ln.ks("inst", inst.c_str());
        shm->desc_len = ln.n;
        shm->rec      = rec_idx;
        shm->call     = my;
        shm->busy     = 1;
        if (shm->out_len + 2 * sizeof(shm->desc) > sizeof(shm->out)) { flush_out(); }
        Line o(shm->out + shm->out_len);
        std::memcpy(o.b, shm->desc, shm->desc_len);
        o.n = shm->desc_len;
        f(o);
        shm->busy = 0;
        o.n -= 1; // trailing comma
        o.s("}\n");
        shm->out_len += o.n;
        ++nev;
    }

    template <typename F>
    void call_int(char const* op, char const* ov, long d, long pos, long cnt, long pos2, long cnt2, F f)
    {
        call(op, ov, d, pos, cnt, pos2, cnt2, [&](Line& o) {
            set_env(0);
            long r0 = f();
            o.kv("ret", r0);
#if !VH_ASAN
            set_env(1);
            long r1 = f();
            o.kv("ret2", r1);
#endif
        });
    }

    void run_record(Rec const& rec)
    {
        r        = &rec;
        call_idx = 0;
        size_t const L = rec.h.size();
        size_t const M = rec.n.size();
        hb.set(rec.h);
        nb.set(rec.n);
        nz = !has_nul(rec.n);
        if (nz) { zb.set(rec.n, true); }
        bool const one = M == 1;
        auto H  = [&] { return V(hb.p, L); };
        auto N  = [&] { return V(nb.p, M); };
        auto ch = [&] { return nb.p[0]; };
        C const* np = nb.p;
        C const* zp = zb.p;

#define VH_SEARCH(NAME)                                                                                            \
    for (long pos : rec.P) {                                                                                       \
        call_int(#NAME, "sv", 0, pos, 0, 0, 0, [&] { return from_sz(H().NAME(N(), to_sz(pos))); });                \
    }                                                                                                              \
    call_int(#NAME, "sv", 1, 0, 0, 0, 0, [&] { return from_sz(H().NAME(N())); });                                  \
    if (one) {                                                                                                     \
        for (long pos : rec.P) {                                                                                   \
            call_int(#NAME, "ch", 0, pos, 0, 0, 0, [&] { return from_sz(H().NAME(ch(), to_sz(pos))); });           \
        }                                                                                                          \
        call_int(#NAME, "ch", 1, 0, 0, 0, 0, [&] { return from_sz(H().NAME(ch())); });                             \
    }                                                                                                              \
    if (nz) {                                                                                                      \
        for (long pos : rec.P) {                                                                                   \
            call_int(#NAME, "p", 0, pos, 0, 0, 0, [&] { return from_sz(H().NAME(zp, to_sz(pos))); });              \
        }                                                                                                          \
        call_int(#NAME, "p", 1, 0, 0, 0, 0, [&] { return from_sz(H().NAME(zp)); });                                \
    }                                                                                                              \
    for (long pos : rec.P) {                                                                                       \
        for (long cnt : rec.C) {                                                                                   \
            call_int(#NAME, "pn", 0, pos, cnt, 0, 0, [&] { return from_sz(H().NAME(np, to_sz(pos), to_sz(cnt))); }); \
        }                                                                                                          \
    }
        VH_SEARCH(find)
        VH_SEARCH(rfind)
        VH_SEARCH(find_first_of)
        VH_SEARCH(find_last_of)
        VH_SEARCH(find_first_not_of)
        VH_SEARCH(find_last_not_of)
#undef VH_SEARCH

        auto sgn = [](int v) -> long { return v < 0 ? -1 : (v > 0 ? 1 : 0); };
        call_int("compare", "sv", 0, 0, 0, 0, 0, [&] { return sgn(H().compare(N())); });
        if (nz) { call_int("compare", "p", 0, 0, 0, 0, 0, [&] { return sgn(H().compare(zp)); }); }
        for (long p1 : rec.P1) {
            for (long c1 : rec.C1) {
                call_int("compare", "3sv", 0, p1, c1, 0, 0, [&] { return sgn(H().compare(to_sz(p1), to_sz(c1), N())); });
                if (nz) {
                    call_int("compare", "3p", 0, p1, c1, 0, 0, [&] { return sgn(H().compare(to_sz(p1), to_sz(c1), zp)); });
                }
            }
        }
        if (rec.c5 == 1) {
            for (long p1 : rec.P1) {
                for (long c1 : rec.C1) {
                    for (long p2 : rec.P2) {
                        for (long c2 : rec.C2) {
                            call_int("compare", "5sv", 0, p1, c1, p2, c2,
                                [&] { return sgn(H().compare(to_sz(p1), to_sz(c1), N(), to_sz(p2), to_sz(c2))); });
                        }
                    }
                    for (long c2 : rec.C) {
                        call_int("compare", "4pn", 0, p1, c1, 0, c2,
                            [&] { return sgn(H().compare(to_sz(p1), to_sz(c1), np, to_sz(c2))); });
                    }
                }
            }
        }

#define VH_BOOL(NAME)                                                                                              \
    call_int(#NAME, "sv", 0, 0, 0, 0, 0, [&] { return (long)H().NAME(N()); });                                     \
    if (one) { call_int(#NAME, "ch", 0, 0, 0, 0, 0, [&] { return (long)H().NAME(ch()); }); }                       \
    if (nz) { call_int(#NAME, "p", 0, 0, 0, 0, 0, [&] { return (long)H().NAME(zp); }); }
        VH_BOOL(starts_with)
        VH_BOOL(ends_with)
        VH_BOOL(contains)
#undef VH_BOOL

        call("relops", "sv", 0, 0, 0, 0, 0, [&](Line& o) {
            auto six = [&](bool(&b)[6]) {
                auto a = H();
                auto c = N();
                b[0]   = a == c;
                b[1]   = a != c;
                b[2]   = a < c;
                b[3]   = a <= c;
                b[4]   = a > c;
                b[5]   = a >= c;
            };
            bool b[6];
            set_env(0);
            six(b);
            o.kb("rel", b);
#if !VH_ASAN
            set_env(1);
            six(b);
            o.kb("rel2", b);
#endif
        });

        if (rec.u == 1) {
            set_env(0);
            auto view_out = [&](Line& o, V v) {
                std::vector<long> out;
                size_t sz = v.size() > 100 ? 100 : v.size();
                for (size_t j = 0; j < sz; ++j) { out.push_back(code_of<C>(v.data()[j])); }
                o.ka("out", out);
                long off = (long)(v.data() - hb.p);
                o.kv("off", off > (1l << 30) ? (1l << 30) : (off < -(1l << 30) ? -(1l << 30) : off));
            };
            for (long p1 : rec.P1) {
                for (long c1 : rec.C1) {
                    call("substr", "-", 0, p1, c1, 0, 0, [&](Line& o) { view_out(o, H().substr(to_sz(p1), to_sz(c1))); });
                }
                call("substr", "-", 1, p1, 0, 0, 0, [&](Line& o) { view_out(o, H().substr(to_sz(p1))); });
            }
            call("substr", "-", 2, 0, 0, 0, 0, [&](Line& o) { view_out(o, H().substr()); });

            auto do_copy = [&](Line& o, long c1, long p1, bool dflt) {
                // destination: the standard requires [dest, dest + rlen) to be valid, rlen = min(count, size() - pos)
                size_t rlen = std::min(to_sz(c1), L - (size_t)p1);
#if VH_ASAN
                db.alloc_fill(rlen);
#else
                (void)rlen;
                db.alloc_fill(L + 2);
#endif
                size_t ret = dflt ? H().copy(db.p, to_sz(c1)) : H().copy(db.p, to_sz(c1), to_sz(p1));
                std::vector<long> out;
                for (size_t j = 0; j < db.n; ++j) { out.push_back(code_of<C>(db.p[j])); }
                o.kv("ret", from_sz(ret));
                o.ka("out", out);
                o.kv("fill", FILL);
            };
            for (long p1 : rec.P1) {
                for (long c1 : rec.C1) {
                    call("copy", "-", 0, p1, c1, 0, 0, [&](Line& o) { do_copy(o, c1, p1, false); });
                }
            }
            for (long c1 : rec.C1) {
                call("copy", "-", 1, 0, c1, 0, 0, [&](Line& o) { do_copy(o, c1, 0, true); });
            }
            for (long k : rec.K) {
                call("remove_prefix", "-", 0, k, 0, 0, 0, [&](Line& o) {
                    auto v = H();
                    v.remove_prefix(to_sz(k));
                    view_out(o, v);
                });
            }
            for (long k : rec.K) {
                call("remove_suffix", "-", 0, k, 0, 0, 0, [&](Line& o) {
                    auto v = H();
                    v.remove_suffix(to_sz(k));
                    view_out(o, v);
                });
            }
        }
    }
};

struct Job {
    std::string mode, type, script;
    long nrec = 0, maxlen = 64;
    long shard = 0, nshards = 1; // this process handles the records i with i % nshards == shard
    uint64_t seed = 1;
    std::vector<json> recs;
};

template <typename C>
void child_main(Job const& job, long rec0, long call0)
{
    Runner<C> rn;
    rn.inst  = job.type;
    rn.rec0  = rec0;
    rn.call0 = call0;
    long total = job.mode == "replay" ? (long)job.recs.size() : job.nrec;
    for (long i = rec0; i < total; ++i) {
        if (i % job.nshards != job.shard) { continue; }
        rn.rec_idx = i;
        Rec r      = job.mode == "replay" ? rec_of(job.recs[(size_t)i]) : random_rec(job.seed, i, job.maxlen);
        rn.run_record(r);
    }
    flush_out();
}

void child_dispatch(Job const& job, long rec0, long call0)
{
    if (job.type == "char") { child_main<char>(job, rec0, call0); }
    else if (job.type == "wchar_t") { child_main<wchar_t>(job, rec0, call0); }
    else if (job.type == "char16_t") { child_main<char16_t>(job, rec0, call0); }
    else {
        std::fprintf(stderr, "unknown char type %s\n", job.type.c_str());
        vh_exit(2);
    }
}

} // namespace

// usage: stringview_driver replay <chartype> <records.ndjson> [shard nshards]
//        stringview_driver random <chartype> <nrecords> <seed> <maxlen> [shard nshards]
int main(int argc, char** argv)
{
    if (argc < 4) {
        std::fprintf(stderr, "usage: replay <chartype> <records.ndjson> | random <chartype> <n> <seed> [maxlen]\n");
        return 2;
    }
    Job job;
    job.mode = argv[1];
    job.type = argv[2];
    if (job.mode == "replay") {
        job.script = argv[3];
        job.recs   = vh::read_ndjson(job.script);
        if (argc > 5) {
            job.shard   = std::atol(argv[4]);
            job.nshards = std::atol(argv[5]);
        }
    } else {
        job.nrec   = std::atol(argv[3]);
        job.seed   = argc > 4 ? std::strtoull(argv[4], nullptr, 10) : vh::env_seed();
        job.maxlen = argc > 5 ? std::atol(argv[5]) : 64;
        if (argc > 7) {
            job.shard   = std::atol(argv[6]);
            job.nshards = std::atol(argv[7]);
        }
    }
    if (job.nshards < 1 || job.shard < 0 || job.shard >= job.nshards) {
        std::fprintf(stderr, "bad shard\n");
        return 2;
    }
    shm = static_cast<Shm*>(mmap(nullptr, sizeof(Shm), PROT_READ | PROT_WRITE, MAP_SHARED | MAP_ANONYMOUS, -1, 0));
    if (shm == MAP_FAILED) {
        std::perror("mmap");
        return 2;
    }
    std::memset(shm, 0, sizeof(Shm));
    long rec0 = 0, call0 = 0, traps = 0;
    for (;;) {
        shm->out_len = 0;
        shm->busy    = 0;
        pid_t pid    = fork();
        if (pid < 0) {
            std::perror("fork");
            return 2;
        }
        if (pid == 0) {
            if (traps >= 3) { // keep the first sanitizer reports, drop the rest
                int fd = open("/dev/null", 1);
                if (fd >= 0) { dup2(fd, 2); }
            }
            child_dispatch(job, rec0, call0);
            vh_exit(0);
        }
        int st = 0;
        if (waitpid(pid, &st, 0) < 0) {
            std::perror("waitpid");
            return 2;
        }
        if (WIFEXITED(st) && WEXITSTATUS(st) == 0) { break; }
        if (WIFEXITED(st) && (WEXITSTATUS(st) == 2 || WEXITSTATUS(st) == 3)) { return 2; }
        flush_out(); // events completed before the death
        if (shm->busy != 1) {
            std::fprintf(stderr, "child died outside a library call (rec %ld call %ld status %d)\n", shm->rec, shm->call, st);
            return 2;
        }
        std::string ev(shm->desc, shm->desc_len);
        ev += "\"trap\":1}\n";
        if (::write(1, ev.data(), ev.size()) != (ssize_t)ev.size()) { return 2; }
        ++traps;
        rec0  = shm->rec;
        call0 = shm->call + 1;
    }
    std::fprintf(stderr, "SUMMARY inst=%s traps=%ld\n", job.type.c_str(), traps);
    return 0;
}
