---------------------------- MODULE Callable ----------------------------
(* Two models in one module (selected by the SPECIFICATION line of the configuration):                 *)
(*  SpecIpf   : state machine of two inplace_function<int(int)> objects f, g.  TLC checks the          *)
(*              properties below and exports every transition (ACTION_CONSTRAINT EmitIpf).             *)
(*  SpecCases : pure input domains - every (form, c, a, b, d) of the one-call monitor and every          *)
(*              (configuration, operation, p, q, i, mode) of pair / tuple - enumerated as initial          *)
(*              states and exported by INVARIANT EmitCase; TLC also checks the laws of the oracle           *)
(*              (lexicographic order is a strict total order consistent with ==, swap is an involution,     *)
(*              a copy leaves its source, exactly one target call per form ...).                            *)
EXTENDS CallableOps, TLC, Json

\* ------------------------------------------------------------------------------ SpecIpf
VARIABLES obj, last, cs
vars == <<obj, last, cs>>
View == obj
Objs == {"f", "g"}
X0 == [t |-> 0, c |-> 0, a |-> 0, src |-> "f", m |-> 0]
C(op, x) == [op |-> op, x |-> x]

Calls(o) ==
    {C(op, X0) : op \in IpfClearOps}
    \cup UNION {{C(op, [X0 EXCEPT !.t = t, !.c = c, !.m = m]) : op \in IpfTargetOps, c \in CapDom(t), m \in 0..1} : t \in Targets}
    \cup {C(op, X0) : op \in IpfSmallOps}
    \cup {C(op, [X0 EXCEPT !.src = Other(o)]) : op \in {"ctor_copy", "ctor_move", "assign_move"}}
    \cup {C(op, [X0 EXCEPT !.src = s]) : op \in {"assign_copy", "swap", "fswap"}, s \in Objs}
    \cup {C("call", [X0 EXCEPT !.a = a]) : a \in 0..2}

\* the small wrapper h is (re)built by set_small; to keep the state space small, while h holds a target only the
\* cross-capacity operations, calls and set_small are offered (everything else is explored with h empty)
SmallCalls ==
    UNION {{C("set_small", [X0 EXCEPT !.t = t, !.c = c]) : c \in CapDom(t)} : t \in SmallTargets} \cup {C("set_small", X0)}
CallsAt(o) ==
    IF obj.h = EmptyW THEN Calls(o) \cup SmallCalls
    ELSE {c \in Calls(o) : c.op \in IpfSmallOps \cup {"call"}} \cup SmallCalls

S0 == [f |-> EmptyW, g |-> EmptyW, h |-> EmptyW]
InitIpf ==
    /\ cs = 0
    /\ obj = S0
    /\ last = [op |-> "init", o |-> "f", x |-> X0, pre |-> S0, post |-> S0, ret |-> <<>>, calls |-> <<>>, handler |-> 0]

Step(o, c) ==
    /\ IpfPre(c.op, o, c.x, obj)
    /\ LET ef == IpfEff(c.op, o, c.x, obj) IN
          /\ obj' = ef.st
          /\ last' = [op |-> c.op, o |-> o, x |-> c.x, pre |-> obj, post |-> ef.st, ret |-> ef.ret, calls |-> ef.calls,
                      handler |-> ef.handler]
    /\ UNCHANGED cs
NextIpf == \E o \in Objs : \E c \in CallsAt(o) : (c.op = "set_small" => o = "f") /\ Step(o, c)
SpecIpf == InitIpf /\ [][NextIpf]_vars
EmitIpf == PrintT(<<"GEN", ToJson(last')>>)

TypeOK == LegalW(obj.f) /\ LegalW(obj.g) /\ (obj.h = EmptyW \/ (LegalW(obj.h) /\ obj.h.t \in SmallTargets))
\* a call never changes a wrapper; it reaches exactly one target iff the wrapper is not empty; an empty one fires the handler
CallLaws ==
    [][last'.op = "call" =>
          /\ obj' = obj
          /\ Len(last'.calls) = obj[last'.o].e
          /\ last'.handler = 1 - obj[last'.o].e
          /\ (obj[last'.o].e = 1 => last'.ret = <<last'.calls[1].r>> /\ last'.calls[1].a = <<last'.x.a>>)]_vars
\* only "call" reaches a target
OnlyCallCalls == [][last'.op # "call" => last'.calls = <<>> /\ last'.handler = 0]_vars
\* copies are equivalent and independent; swap exchanges; a wrapper not named by the call is untouched
CopyEquivalent == [][last'.op \in IpfCopyOps => obj'[last'.o] = obj[last'.x.src] /\ obj'[last'.x.src] = obj[last'.x.src]]_vars
SwapExchanges == [][last'.op \in IpfSwapOps => obj'[last'.o] = obj[last'.x.src] /\ obj'[last'.x.src] = obj[last'.o]]_vars
Independence ==
    [][/\ \A o \in Objs : ((last'.o # o \/ last'.op = "set_small") /\ ~(last'.op \in IpfSwapOps \cup IpfMoveOps /\ last'.x.src = o)) => obj'[o] = obj[o]
       /\ (last'.op \notin IpfSmallMoveOps \cup {"set_small"}) => obj'.h = obj.h]_vars
\* the cross-capacity copy yields an equivalent target and leaves the small source untouched
SmallCopyEquivalent == [][last'.op \in IpfSmallCopyOps => obj'[last'.o] = obj.h /\ obj'.h = obj.h]_vars

\* ------------------------------------------------------------------------------ SpecCases
Vals == 0..2
SeqsOf(n) == [1..n -> Vals]

FormCase(fm, c, a, b, d) == [fam |-> "form", form |-> fm, x |-> [c |-> c, a |-> a, b |-> b, d |-> d]]

\* pair / tuple configurations the harness instantiates: name, kind, element types, operations offered
PairCmp == {"cmp"}
Whole == {"ctor_copy", "ctor_move", "assign_copy", "assign_move", "swap", "fswap"}
Cfgs == {
    [n |-> "p_ii", k |-> "pair", ty |-> <<"int", "int">>],
    [n |-> "p_ti", k |-> "pair", ty |-> <<"trk", "int">>],
    [n |-> "p_tt", k |-> "pair", ty |-> <<"trk", "trk">>],
    [n |-> "p_mi", k |-> "pair", ty |-> <<"mo", "int">>],
    [n |-> "p_ic", k |-> "pair", ty |-> <<"int", "co">>],
    [n |-> "p_ri", k |-> "pair", ty |-> <<"lref", "int">>],
    [n |-> "p_ki", k |-> "pair", ty |-> <<"cint", "int">>],
    [n |-> "t_0", k |-> "tuple", ty |-> <<>>],
    [n |-> "t_i", k |-> "tuple", ty |-> <<"int">>],
    [n |-> "t_ii", k |-> "tuple", ty |-> <<"int", "int">>],
    [n |-> "t_iii", k |-> "tuple", ty |-> <<"int", "int", "int">>],
    [n |-> "t_ttt", k |-> "tuple", ty |-> <<"trk", "trk", "trk">>],
    [n |-> "t_mic", k |-> "tuple", ty |-> <<"mo", "int", "co">>],
    [n |-> "t_rk", k |-> "tuple", ty |-> <<"lref", "cint">>]}
XT0 == [p |-> <<>>, q |-> <<>>, i |-> 0, mode |-> 1, mode2 |-> 1]
TC(cf, op, ty2, x) == [fam |-> "tup", cfg |-> cf.n, k |-> cf.k, ty |-> cf.ty, ty2 |-> ty2, op |-> op, x |-> x]

\* which operations make sense for an element type list (the C++ side additionally probes with requires)
Copyable(ty) == \A i \in 1..Len(ty) : ty[i] # "mo"
Assignable(ty) == \A i \in 1..Len(ty) : ty[i] # "cint"
Unique(ty) == \A i, j \in 1..Len(ty) : ty[i] = ty[j] => i = j        \* get<T> needs T to occur once
TwoSeqOps(cf) ==
    {"cmp", "ctor_move"} \cup (IF Copyable(cf.ty) THEN {"ctor_copy"} ELSE {})
    \cup (IF Assignable(cf.ty) THEN {"assign_move", "swap", "fswap"} ELSE {})
    \cup (IF Assignable(cf.ty) /\ Copyable(cf.ty) THEN {"assign_copy"} ELSE {})

\* The domains are enumerated by nested quantifiers in the initial predicate (nothing is materialised as one big set)
InitTup(cf) ==
    LET n == Len(cf.ty) IN
    \/ \E op \in TwoSeqOps(cf), p \in SeqsOf(n), q \in SeqsOf(n) : cs = TC(cf, op, cf.ty, [XT0 EXCEPT !.p = p, !.q = q])
    \/ \E op \in {"get"} \cup (IF Unique(cf.ty) THEN {"get_t"} ELSE {}), p \in SeqsOf(n), i \in 0..(n - 1), m \in 1..4 :
          cs = TC(cf, op, cf.ty, [XT0 EXCEPT !.p = p, !.i = i, !.mode = m])
    \/ \E op \in {"apply", "mft"}, p \in SeqsOf(n), m \in 1..3 : cs = TC(cf, op, cf.ty, [XT0 EXCEPT !.p = p, !.mode = m])
    \/ \E p \in SeqsOf(n) : cs = TC(cf, "make", cf.ty, [XT0 EXCEPT !.p = p])
    \/ cf.ty = <<"int", "int">> /\ \E p \in SeqsOf(2), m \in 1..3 : cs = TC(cf, "mft_il", cf.ty, [XT0 EXCEPT !.p = p, !.mode = m])
    \/ n = 2 /\ \E p \in SeqsOf(2), q \in SeqsOf(1) : cs = TC(cf, "sb", cf.ty, [XT0 EXCEPT !.p = p, !.q = q])

\* converting construction / assignment pair<U1,U2> -> pair<T1,T2>
ConvOpsT == {"ctor_conv_copy", "ctor_conv_move", "assign_conv_copy", "assign_conv_move"}
ConvSrcs(n) == IF n = "p_tt" THEN {<<"trk", "int">>}
               ELSE IF n = "p_ti" THEN {<<"int", "int">>, <<"tref", "int">>, <<"ctref", "int">>}
               ELSE {<<"int", "int">>}
InitConv ==
    \E cf \in {c \in Cfgs : c.n \in {"p_ii", "p_ti", "p_tt"}}, op \in ConvOpsT, p \in SeqsOf(2), q \in SeqsOf(2) :
        \E src \in ConvSrcs(cf.n) : cs = TC(cf, op, src, [XT0 EXCEPT !.p = p, !.q = q])

\* tuple_cat over several shapes (first operand configuration, second operand configuration)
CatShapes == {<<"t_ii", "t_i">>, <<"t_ttt", "t_ii">>, <<"p_ti", "t_ttt">>, <<"t_0", "t_ii">>, <<"t_i", "t_0">>, <<"t_mic", "p_tt">>}
CfgOf(n) == CHOOSE c \in Cfgs : c.n = n
InitCat ==
    \E sh \in CatShapes :
        LET a == CfgOf(sh[1]) b == CfgOf(sh[2]) IN
        \E p \in SeqsOf(Len(a.ty)), q \in SeqsOf(Len(b.ty)), m1 \in {1, 3}, m2 \in {1, 3} :
            /\ (m1 = 1 => Copyable(a.ty)) /\ (m2 = 1 => Copyable(b.ty))
            /\ cs = TC(a, "cat", b.ty, [XT0 EXCEPT !.p = p, !.q = q, !.mode = m1, !.mode2 = m2])

InitCases ==
    /\ obj = S0 /\ last = 0
    /\ \/ \E fm \in FormNames, c \in Vals, a \in Vals, b \in Vals, d \in Vals : cs = FormCase(fm, c, a, b, d)
       \/ \E cf \in Cfgs : InitTup(cf)
       \/ InitConv
       \/ InitCat
NextCases == UNCHANGED vars
SpecCases == InitCases /\ [][NextCases]_vars

Expect(c) == IF c.fam = "form" THEN FormExpect(c.form, c.x) ELSE TupExpect(c.k, c.ty, c.ty2, c.op, c.x)
EmitCase == PrintT(<<"GEN", ToJson(cs)>>)

\* laws of the oracle on every enumerated case
CaseLaws ==
    LET e == Expect(cs) IN
    IF cs.fam = "form"
    THEN /\ FormPre(cs.form, cs.x)
         \* at most one target call; when there is one the result is the target's (not_fn: its negation)
         /\ Len(e.calls) <= 1
         /\ (Len(e.calls) = 1 /\ cs.form \notin {"nf_l", "nf_c", "nf_r", "nf_fn"}) => e.ret[1] = e.calls[1].r
         /\ (cs.form \in {"nf_l", "nf_c", "nf_r", "nf_fn"}) => e.ret = <<1 - e.calls[1].r>>
    ELSE /\ TupPre(cs.k, cs.ty, cs.ty2, cs.op, cs.x)
         /\ LET p == cs.x.p q == cs.x.q n == Len(cs.ty) IN
            /\ (cs.op = "cmp" /\ cs.k = "pair") =>
                  LET f == Flags6(p, q) g == Flags6(q, p) IN
                  /\ f[1] + f[2] = 1 /\ f[3] + f[6] = 1 /\ f[4] + f[5] = 1
                  /\ f[3] = g[5] /\ f[4] = g[6] /\ f[1] = g[1]
                  /\ f[1] + f[3] + f[5] = 1                                   \* trichotomy
                  /\ (p[1] < q[1] => f[3] = 1) /\ (p[1] = q[1] => f[3] = B(p[2] < q[2]))   \* first element decides, ties go to the second
            /\ (cs.op = "cmp" /\ cs.k = "tuple") => (e.ret[1] = 1 <=> \A i \in 1..n : p[i] = q[i])
            /\ (cs.op \in {"swap", "fswap"}) => e.ret = q \o p
            /\ (cs.op \in {"ctor_copy", "assign_copy"}) => SubSeq(e.ret, n + 1, 2 * n) = q
            /\ (cs.op = "cat") => SubSeq(e.ret, 1, n + Len(cs.ty2)) = p \o q
\* transitivity of the lexicographic order (all triples of pairs and of triples; evaluated once)
ASSUME PairOrderTransitive ==
    \A n \in 2..3 : \A p, q, w \in SeqsOf(n) : (LexLess(p, q) /\ LexLess(q, w)) => LexLess(p, w)
=========================================================================
