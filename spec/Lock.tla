------------------------------ MODULE Lock ------------------------------
(* Lock-ownership protocol: NM instrumented mutexes, the unique_lock slots Names, one lock_guard slot,  *)
(* and the harness itself as a possible holder (adopt_lock / release()).  TLC                           *)
(*   - proves the protocol invariants of the model (MC role): a mutex is locked iff exactly one party   *)
(*     is responsible for it, unlock only by the owner, the mutex' own call log is always legal and     *)
(*     accounts exactly for the depth change, a non-owner is silent in its destructor, move transfers,   *)
(*     erroneous calls are inert, nothing stays locked when everybody is gone; and                      *)
(*   - exports every transition (GEN role) for replay on etl:: / std:: wrappers.                        *)
EXTENDS LockOps, TLC, Json

CONSTANTS NM, Names, Durs

VARIABLES st, hh, last
\* hh: ghost - the set of mutexes the harness is responsible for (locked by h_lock, or handed over by release())
vars == <<st, hh, last>>
View == <<st, hh>>

MxIds == 1..NM
X0 == [m |-> 0, r |-> FALSE, d |-> 0, src |-> "a"]
Call(op, w, x) == [op |-> op, w |-> w, x |-> x]

Calls ==
    {Call("ul_ctor_default", w, X0) : w \in Names}
    \cup {Call(op, w, [X0 EXCEPT !.m = m]) : op \in {"ul_ctor_lock", "ul_ctor_defer", "ul_ctor_adopt"}, w \in Names, m \in MxIds}
    \cup {Call("ul_ctor_try", w, [X0 EXCEPT !.m = m, !.r = r]) : w \in Names, m \in MxIds, r \in BOOLEAN}
    \cup {Call(op, w, [X0 EXCEPT !.m = m, !.r = r, !.d = d]) :
              op \in {"ul_ctor_for", "ul_ctor_until"}, w \in Names, m \in MxIds, r \in BOOLEAN, d \in Durs}
    \cup {Call(op, w, [X0 EXCEPT !.src = s]) : op \in {"move_ctor", "move_assign", "swap", "fswap"}, w \in Names, s \in Names}
    \cup {Call(op, w, X0) : op \in {"lock", "unlock", "release", "dtor"} \cup ObsOps, w \in Names}
    \cup {Call("try_lock", w, [X0 EXCEPT !.r = r]) : w \in Names, r \in BOOLEAN}
    \cup {Call(op, w, [X0 EXCEPT !.r = r, !.d = d]) : op \in {"try_lock_for", "try_lock_until"}, w \in Names, r \in BOOLEAN, d \in Durs}
    \cup {Call(op, "g", [X0 EXCEPT !.m = m]) : op \in {"lg_ctor", "lg_ctor_adopt"}, m \in MxIds}
    \cup {Call("lg_dtor", "g", X0)}
    \cup {Call(op, "h", [X0 EXCEPT !.m = m]) : op \in HarnessOps, m \in MxIds}

St0 == [mx |-> [m \in MxIds |-> 0], w |-> [n \in Names |-> Dead], g |-> NoGuard]

Init ==
    /\ st = St0
    /\ hh = {}
    /\ last = [op |-> "init", w |-> "a", x |-> X0, pre |-> St0, post |-> St0, ret |-> 0, calls |-> <<>>, err |-> FALSE]

\* who hands a mutex to the harness / takes it from the harness
HH(c, s, h) ==
    CASE c.op = "h_lock" -> h \cup {c.x.m}
      [] c.op = "h_unlock" -> h \ {c.x.m}
      [] c.op \in {"ul_ctor_adopt", "lg_ctor_adopt"} -> h \ {c.x.m}
      [] c.op = "release" /\ s.w[c.w].owns -> h \cup {s.w[c.w].m}
      [] OTHER -> h

Step(c) ==
    /\ Pre(c.op, c.w, c.x, st)
    /\ LET ef == Eff(c.op, c.w, c.x, st) IN
       /\ st' = ef.st
       /\ hh' = HH(c, st, hh)
       /\ last' = [op |-> c.op, w |-> c.w, x |-> c.x, pre |-> st, post |-> ef.st, ret |-> ef.ret, calls |-> ef.calls,
                   err |-> IsError(c.op, c.w, c.x, st)]

Next == \E c \in Calls : Step(c)
Spec == Init /\ [][Next]_vars

Emit == PrintT(<<"GEN", ToJson(last')>>)

\* ---- what TLC proves about the model ---------------------------------------------------------------
TypeOK ==
    /\ st.mx \in [MxIds -> {0, 1}]
    /\ \A n \in Names : st.w[n].live \in BOOLEAN /\ st.w[n].owns \in BOOLEAN /\ st.w[n].m \in {0} \cup MxIds
    /\ hh \subseteq MxIds

WellFormed == StateOK(st)

\* a mutex is locked iff exactly one party is responsible for unlocking it
Parties(m) == Cardinality(Owners(st, m)) + (IF m \in hh THEN 1 ELSE 0)
Ownership == \A m \in MxIds : Parties(m) <= 1 /\ (st.mx[m] = 1 <=> Parties(m) = 1)

\* the ghost is a function of the observable state: the trace validator may derive it
HeldDerivable == hh = {m \in MxIds : HeldByHarness(st, m)}

\* nothing stays locked when every wrapper is gone and the harness holds nothing
NothingLeftLocked ==
    ((\A n \in Names : ~st.w[n].live) /\ ~st.g.live /\ hh = {}) => \A m \in MxIds : st.mx[m] = 0

\* the mutex sees a legal call sequence (no double lock, no unlock of an unlocked mutex) and its depth
\* changes exactly by the calls of the step
CallBalance ==
    [][LET r == RunCalls(st.mx, last'.calls, 1) IN r.ok /\ r.mx = st'.mx]_vars

\* unlock only by the party that owns the mutex at that moment
Actor(l) == IF l.op \in GuardOps THEN "g" ELSE l.w
UnlockByOwner ==
    [][\A i \in 1..Len(last'.calls) :
          last'.calls[i].k = "unlock" =>
              IF last'.op = "h_unlock" THEN last'.calls[i].m \in hh
              ELSE Owners(st, last'.calls[i].m) = {Actor(last')}]_vars

\* a wrapper that does not own never touches the mutex in its destructor
SilentDtor == [][(last'.op = "dtor" /\ ~st.w[last'.w].owns) => (last'.calls = <<>> /\ st'.mx = st.mx)]_vars

\* move transfers association and ownership and leaves the source disassociated; the mutex is not touched on
\* behalf of the transferred lock
MoveTransfers ==
    [][last'.op \in {"move_ctor", "move_assign"} =>
          /\ st'.w[last'.w] = st.w[last'.x.src]
          /\ st'.w[last'.x.src] = W(0, FALSE)
          /\ \A i \in 1..Len(last'.calls) : last'.calls[i].m # st.w[last'.x.src].m \/ ~st.w[last'.x.src].owns]_vars

\* swap is an involution on the pair and touches no mutex
SwapLaw ==
    [][last'.op \in {"swap", "fswap"} =>
          /\ last'.calls = <<>>
          /\ st'.w[last'.w] = st.w[last'.x.src] /\ st'.w[last'.x.src] = st.w[last'.w]]_vars

\* calls the standard answers with an exception leave everything as it was
ErrorsInert == [][last'.err => (st' = st /\ last'.calls = <<>> /\ hh' = hh)]_vars

\* observers observe
ObserversPure == [][last'.op \in ObsOps => (st' = st /\ last'.calls = <<>>)]_vars
=========================================================================
