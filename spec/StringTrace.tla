--------------------------- MODULE StringTrace ---------------------------
(* Trace validation for basic_inplace_string (property C04): every event recorded by                  *)
(* harness/string_driver.cpp from the real template is judged by the operators of StringOps            *)
(* (which reuse StringViewOps for every search / compare).  Deviations are collected, not fatal.        *)
(*   mutator event : [op, o, x, cap, pre, post, ret, out?, dst?, obs]                                    *)
(*   query event   : [q, op, ov, d, o, h, n, pos, cnt, pos2, cnt2, cap, pre, post, ret | rel]             *)
(*   pre/post/out  : projected objects [s, size, z, len]                                                 *)
(* Deviation kinds                                                                                       *)
(*   harness-pre : the driver made a call outside the domain the property quantifies over                 *)
(*   trap        : the process died inside the call                                                       *)
(*   inv         : after the call size() > capacity(), or data()[size()] is not the null character, or    *)
(*                 strlen(c_str()) is not the length up to the first null (checked after EVERY call,       *)
(*                 including the over-capacity ones)                                                       *)
(*   post        : contents / return value / returned string differ from std::basic_string                *)
(*   obs         : an observer disagrees with the contents                                                *)
EXTENDS StringOps, Json, IOUtils, TLC

Tr == ndJsonDeserialize(IOEnv.TRACE)

VARIABLES l, nbad

StateInv(p, cap) == ObjInv(p.a, cap) /\ ObjInv(p.b, cap)
\* the invariant holds after the call for every object, except an object that was already broken before the
\* call and was not touched by it (that breach was reported by the event that caused it)
InvKept(ev) == \A o \in {"a", "b"} : ObjInv(ev.post[o], ev.cap) \/ (~ObjInv(ev.pre[o], ev.cap) /\ ev.post[o] = ev.pre[o])
IsFillFrom(s, from, fill) == \A i \in from..Len(s) : s[i] = fill

JudgeQ(ev) ==
    IF ~QArgsOK(ev) \/ ev.h # ev.pre[ev.o].s THEN "harness-pre"
    ELSE IF "trap" \in DOMAIN ev THEN "trap"
    ELSE IF ~InvKept(ev) THEN "inv"
    ELSE IF Abs(ev.post) # Abs(ev.pre) THEN "post"
    ELSE IF ~QConforms(ev) THEN "post"
    ELSE "ok"

OutOK(ev, ef) ==
    /\ (Fam(ev.op) \in ValueFams => ev.out.s = ef.out)
    /\ (Fam(ev.op) = "copy" =>
           /\ Len(ev.dst) >= Len(ef.out)
           /\ SubSeq(ev.dst, 1, Len(ef.out)) = ef.out
           /\ IsFillFrom(ev.dst, Len(ef.out) + 1, ev.fill))

JudgeM(ev) ==
    LET st == Abs(ev.pre) IN
    IF ~Pre(ev.op, ev.o, ev.x, st, ev.cap) THEN "harness-pre"
    ELSE IF "trap" \in DOMAIN ev THEN "trap"
    ELSE IF ~InvKept(ev) \/ ("out" \in DOMAIN ev /\ ~ObjInv(ev.out, ev.cap)) THEN "inv"
    ELSE IF Relational(ev.op, ev.o, ev.x, st, ev.cap) THEN "ok"
    ELSE LET ef == Eff(ev.op, ev.o, ev.x, st, ev.cap) IN
         IF ~(/\ ev.ret = ef.ret
              /\ (IF ev.op \in MoveOps THEN Abs(ev.post)[ev.o] = ef.st[ev.o] ELSE Abs(ev.post) = ef.st)
              /\ OutOK(ev, ef)) THEN "post"
         ELSE IF ~(ObsOne(ev.obs.a, ev.post.a.s, ev.cap) /\ ObsOne(ev.obs.b, ev.post.b.s, ev.cap)) THEN "obs"
         ELSE "ok"

Judge(ev) == IF "q" \in DOMAIN ev THEN JudgeQ(ev) ELSE JudgeM(ev)

Expected(ev) ==
    IF "q" \in DOMAIN ev
    THEN (IF QArgsOK(ev) THEN ToJson(QExpected(ev)) ELSE "-")
    ELSE IF ~Pre(ev.op, ev.o, ev.x, Abs(ev.pre), ev.cap) THEN "-"
    ELSE IF Relational(ev.op, ev.o, ev.x, Abs(ev.pre), ev.cap) THEN "relational: size <= capacity and terminator only"
    ELSE ToJson(Eff(ev.op, ev.o, ev.x, Abs(ev.pre), ev.cap))

Init == l = 1 /\ nbad = 0

Next ==
    /\ l <= Len(Tr)
    /\ l' = l + 1
    /\ LET v == Judge(Tr[l]) IN
       IF v = "ok" THEN nbad' = nbad
       ELSE /\ nbad' = nbad + 1
            /\ PrintT(<<"DEV", l, v, Expected(Tr[l])>>)

Spec == Init /\ [][Next]_<<l, nbad>>
Consumed == TLCGet("stats").diameter - 1 = Len(Tr)
==========================================================================
