------------------------------ MODULE FmtOps ------------------------------
(* Meaning of etl::format_to / format_to_n on the subset of [format.string.general] that the etl       *)
(* headers implement (extension X12), written from the standard's wording / the {fmt} semantics, not   *)
(* from the etl code:                                                                                   *)
(*    format string  = ( literal character | "{{" | "}}" | "{}" )*                                      *)
(*    "{{" -> '{'   "}}" -> '}'   "{}" -> the next argument (automatic indexing) in default format      *)
(*    default format : integers = decimal digits with a leading '-' when negative; char = the char;      *)
(*                     strings (const char*, char[N], string_view, inplace_string) = their characters     *)
(*                     (a char array is a C string: up to, not including, the terminating NUL)            *)
(*    a lone '}' , a '{' at the end of the string, or "{}" with no argument left : ill-formed ("bad")     *)
(*    a '{' followed by anything else (arg-id, ':' format-spec) is either extended standard syntax that   *)
(*    etl does not implement or ill-formed: class "nc" (not covered, never judged for output)             *)
(*    arguments that no replacement field refers to are ignored ([format.functions])                      *)
(* Characters are their codes; a format string is a sequence of codes.                                    *)
EXTENDS Integers, Sequences

LB == 123      \* '{'
RB == 125      \* '}'
MINUS == 45

\* ---- arguments -------------------------------------------------------------------------------------------
\* [cat |-> "i" | "c" | "s", ty |-> C++ type tag (for the driver), neg |-> BOOLEAN, w |-> 4 limbs (base 2^16,
\*  little-endian) of the magnitude, n |-> char code, s |-> codes]   (unused fields are 0 / << >> / FALSE)
\* magnitude / 10 and magnitude % 10 on limbs (most significant limb first in the recursion)
RECURSIVE DivL(_, _, _, _)
DivL(w, k, d, carry) == IF k = 0 THEN [q |-> << >>, r |-> carry]
                        ELSE LET cur == carry * 65536 + w[k]
                                 rest == DivL(w, k - 1, d, cur % d)
                             IN [q |-> rest.q \o <<cur \div d>>, r |-> rest.r]
Div10(w) == DivL(w, Len(w), 10, 0)
IsZeroL(w) == \A k \in 1..Len(w) : w[k] = 0

RECURSIVE Digits(_)
Digits(w) == IF IsZeroL(w) THEN << >> ELSE LET d == Div10(w) IN Digits(d.q) \o <<48 + d.r>>
DecText(neg, w) == (IF neg THEN <<MINUS>> ELSE << >>) \o (IF IsZeroL(w) THEN <<48>> ELSE Digits(w))

\* a char array / C string ends at its first NUL
RECURSIVE UpToNul(_, _)
UpToNul(s, i) == IF i > Len(s) \/ s[i] = 0 THEN << >> ELSE <<s[i]>> \o UpToNul(s, i + 1)

ArgText(a) == CASE a.cat = "i" -> DecText(a.neg, a.w)
                [] a.cat = "c" -> <<a.n>>
                [] a.cat = "s" -> (IF a.ty \in {"carr", "cstr"} THEN UpToNul(a.s, 1) ELSE a.s)

\* ---- the scanner: left to right, k = number of arguments consumed so far ---------------------------------------
RECURSIVE Scan(_, _, _, _, _)
Scan(f, i, k, args, acc) ==
    IF i > Len(f) THEN [cls |-> "ok", out |-> acc, used |-> k]
    ELSE IF f[i] = LB THEN
        (IF i = Len(f) THEN [cls |-> "bad", out |-> acc, used |-> k]                       \* unmatched '{'
         ELSE IF f[i + 1] = LB THEN Scan(f, i + 2, k, args, acc \o <<LB>>)                  \* "{{"
         ELSE IF f[i + 1] = RB THEN
              (IF k + 1 > Len(args) THEN [cls |-> "bad", out |-> acc, used |-> k]          \* argument not found
               ELSE Scan(f, i + 2, k + 1, args, acc \o ArgText(args[k + 1])))
         ELSE [cls |-> "nc", out |-> acc, used |-> k])                                      \* arg-id / format-spec / garbage
    ELSE IF f[i] = RB THEN
        (IF i < Len(f) /\ f[i + 1] = RB THEN Scan(f, i + 2, k, args, acc \o <<RB>>)        \* "}}"
         ELSE [cls |-> "bad", out |-> acc, used |-> k])                                     \* unmatched '}'
    ELSE Scan(f, i + 1, k, args, acc \o <<f[i]>>)

Format(f, args) == Scan(f, 1, 0, args, << >>)

\* ---- a second, declarative reading (MC role: proved equal to the scanner on every enumerated string) --------------
\* tokens of a covered string: maximal munch from the left over  "{{" | "}}" | "{}" | single non-brace character
IsBrace(c) == c = LB \/ c = RB
RECURSIVE Tokens(_, _)
Tokens(f, i) ==        \* sequence of token kinds "L"(literal, with code) / "F"(field); "X" marks a position with no token
    IF i > Len(f) THEN << >>
    ELSE IF ~IsBrace(f[i]) THEN <<[k |-> "L", c |-> f[i]]>> \o Tokens(f, i + 1)
    ELSE IF i < Len(f) /\ f[i] = LB /\ f[i + 1] = LB THEN <<[k |-> "L", c |-> LB]>> \o Tokens(f, i + 2)
    ELSE IF i < Len(f) /\ f[i] = RB /\ f[i + 1] = RB THEN <<[k |-> "L", c |-> RB]>> \o Tokens(f, i + 2)
    ELSE IF i < Len(f) /\ f[i] = LB /\ f[i + 1] = RB THEN <<[k |-> "F", c |-> 0]>> \o Tokens(f, i + 2)
    ELSE <<[k |-> "X", c |-> f[i]]>>
Tokenizes(f) == LET t == Tokens(f, 1) IN \A j \in 1..Len(t) : t[j].k # "X"
NumFields(t) == LET RECURSIVE cnt(_)
                    cnt(j) == IF j > Len(t) THEN 0 ELSE (IF t[j].k = "F" THEN 1 ELSE 0) + cnt(j + 1)
                IN cnt(1)
RECURSIVE Render(_, _, _, _)
Render(t, j, k, args) == IF j > Len(t) THEN << >>
                         ELSE IF t[j].k = "F" THEN ArgText(args[k + 1]) \o Render(t, j + 1, k + 1, args)
                         ELSE <<t[j].c>> \o Render(t, j + 1, k, args)

\* ---- fixed-capacity sinks ------------------------------------------------------------------------------------------------
IsPrefix(s, t) == Len(s) <= Len(t) /\ s = SubSeq(t, 1, Len(s))
Min2(a, b) == IF a < b THEN a ELSE b
\* format_to_n(out, n, ...): "at most n characters are written"; returns {out + min(n, size), size = total length}
FormatN(full, n) == [written |-> SubSeq(full, 1, Min2(n, Len(full))), size |-> Len(full)]
=============================================================================
