--------------------------- MODULE StringViewOps ---------------------------
(* Constant-free meaning of the searching / comparing / slicing members of std::basic_string_view  *)
(* ([string.view.ops], [string.view.find], [string.view.comparison]) over sequences of character   *)
(* codes.  Characters are small naturals (the *unsigned* code of the character, which is how        *)
(* std::char_traits orders them); positions and counts are naturals, npos is the token NPOS = -1.   *)
(*                                                                                                   *)
(* Every operation is given twice:                                                                   *)
(*   <Name>D  - the declarative clause of the standard ("the lowest xpos such that ...")             *)
(*   <Name>O  - an operational scan (what a straightforward loop computes)                           *)
(* spec/StringView.tla makes TLC prove  <Name>D = <Name>O  on the whole bounded domain; the trace     *)
(* specifications (StringViewTrace, StringTrace) judge recorded executions with <Name> == <Name>D.    *)
EXTENDS Naturals, Integers, Sequences, FiniteSets

NPOS == -1

At(h, i) == h[i + 1]                                     \* 0-based character access
MinS(S) == CHOOSE x \in S : \A y \in S : x <= y
MaxS(S) == CHOOSE x \in S : \A y \in S : y <= x
SvMin(a, b) == IF a < b THEN a ELSE b
Sign(x) == IF x < 0 THEN -1 ELSE IF x > 0 THEN 1 ELSE 0
B2I(b) == IF b THEN 1 ELSE 0

\* size_type comparisons where NPOS stands for the largest value of size_type
PosLe(pos, x) == pos # NPOS /\ pos <= x                  \* pos <= x   (x is an ordinary index)
LePos(x, pos) == pos = NPOS \/ x <= pos                  \* x <= pos
ClampP(pos, m) == IF pos = NPOS \/ pos > m THEN m ELSE pos   \* min(pos, m)

\* rlen of [string.view.ops]: the smaller of n and size() - pos          (precondition pos <= size())
RLen(h, pos, cnt) == IF cnt = NPOS \/ cnt > Len(h) - pos THEN Len(h) - pos ELSE cnt

\* the character sequence a `charT const*` argument denotes: everything before the first null
CStr(s) == LET Z == {i \in 1..Len(s) : s[i] = 0} IN IF Z = {} THEN s ELSE SubSeq(s, 1, MinS(Z) - 1)

\* =================================================================================================
\* Declarative clauses
\* =================================================================================================
\* n occurs in h at xpos:  xpos + n.size() <= size()  and  traits::eq(at(xpos + I), n.at(I)) for all I
Occurs(h, n, x) == x + Len(n) <= Len(h) /\ \A k \in 0..(Len(n) - 1) : At(h, x + k) = At(n, k)
AnyOf(c, n) == \E k \in 1..Len(n) : n[k] = c

FindD(h, n, pos) ==
    LET S == {x \in 0..Len(h) : PosLe(pos, x) /\ Occurs(h, n, x)} IN IF S = {} THEN NPOS ELSE MinS(S)
RFindD(h, n, pos) ==
    LET S == {x \in 0..Len(h) : LePos(x, pos) /\ Occurs(h, n, x)} IN IF S = {} THEN NPOS ELSE MaxS(S)
FindFirstOfD(h, n, pos) ==
    LET S == {x \in 0..(Len(h) - 1) : PosLe(pos, x) /\ AnyOf(At(h, x), n)} IN IF S = {} THEN NPOS ELSE MinS(S)
FindLastOfD(h, n, pos) ==
    LET S == {x \in 0..(Len(h) - 1) : LePos(x, pos) /\ AnyOf(At(h, x), n)} IN IF S = {} THEN NPOS ELSE MaxS(S)
FindFirstNotOfD(h, n, pos) ==
    LET S == {x \in 0..(Len(h) - 1) : PosLe(pos, x) /\ ~AnyOf(At(h, x), n)} IN IF S = {} THEN NPOS ELSE MinS(S)
FindLastNotOfD(h, n, pos) ==
    LET S == {x \in 0..(Len(h) - 1) : LePos(x, pos) /\ ~AnyOf(At(h, x), n)} IN IF S = {} THEN NPOS ELSE MaxS(S)

\* compare: traits::compare over rlen = min(size(), str.size()), then the sizes
CompareD(a, b) ==
    LET r == SvMin(Len(a), Len(b))
        D == {k \in 1..r : a[k] # b[k]}
    IN IF D = {} THEN Sign(Len(a) - Len(b)) ELSE Sign(a[MinS(D)] - b[MinS(D)])

SubstrD(h, pos, cnt) == [i \in 1..RLen(h, pos, cnt) |-> h[pos + i]]
StartsWithD(h, x) == Len(x) <= Len(h) /\ \A i \in 1..Len(x) : h[i] = x[i]
EndsWithD(h, x) == Len(x) <= Len(h) /\ \A i \in 1..Len(x) : h[Len(h) - Len(x) + i] = x[i]
ContainsD(h, x) == \E p \in 0..Len(h) : Occurs(h, x, p)
RemovePrefixD(h, k) == [i \in 1..(Len(h) - k) |-> h[k + i]]
RemoveSuffixD(h, k) == [i \in 1..(Len(h) - k) |-> h[i]]
\* copy(dest, n, pos): rlen characters are written, rlen is returned
CopyD(h, cnt, pos) == [ret |-> RLen(h, pos, cnt), chars |-> SubstrD(h, pos, cnt)]

\* =================================================================================================
\* Operational scans (independent formulation: loops with explicit index arithmetic)
\* =================================================================================================
RECURSIVE MatchFrom(_, _, _, _)
MatchFrom(h, n, x, k) ==
    IF k = Len(n) THEN TRUE
    ELSE IF At(h, x + k) # At(n, k) THEN FALSE
    ELSE MatchFrom(h, n, x, k + 1)

RECURSIVE FindLoop(_, _, _)
FindLoop(h, n, x) ==
    IF x + Len(n) > Len(h) THEN NPOS
    ELSE IF MatchFrom(h, n, x, 0) THEN x
    ELSE FindLoop(h, n, x + 1)
FindO(h, n, pos) == IF pos = NPOS \/ pos > Len(h) THEN NPOS ELSE FindLoop(h, n, pos)

RECURSIVE RFindLoop(_, _, _)
RFindLoop(h, n, x) ==
    IF MatchFrom(h, n, x, 0) THEN x
    ELSE IF x = 0 THEN NPOS
    ELSE RFindLoop(h, n, x - 1)
RFindO(h, n, pos) == IF Len(n) > Len(h) THEN NPOS ELSE RFindLoop(h, n, ClampP(pos, Len(h) - Len(n)))

RECURSIVE InSet(_, _, _)
InSet(c, n, k) == IF k > Len(n) THEN FALSE ELSE IF n[k] = c THEN TRUE ELSE InSet(c, n, k + 1)

RECURSIVE UpLoop(_, _, _, _)
UpLoop(h, n, x, want) ==
    IF x >= Len(h) THEN NPOS
    ELSE IF InSet(At(h, x), n, 1) = want THEN x
    ELSE UpLoop(h, n, x + 1, want)
RECURSIVE DownLoop(_, _, _, _)
DownLoop(h, n, x, want) ==
    IF InSet(At(h, x), n, 1) = want THEN x
    ELSE IF x = 0 THEN NPOS
    ELSE DownLoop(h, n, x - 1, want)

FindFirstOfO(h, n, pos) == IF pos = NPOS THEN NPOS ELSE UpLoop(h, n, pos, TRUE)
FindFirstNotOfO(h, n, pos) == IF pos = NPOS THEN NPOS ELSE UpLoop(h, n, pos, FALSE)
FindLastOfO(h, n, pos) == IF Len(h) = 0 THEN NPOS ELSE DownLoop(h, n, ClampP(pos, Len(h) - 1), TRUE)
FindLastNotOfO(h, n, pos) == IF Len(h) = 0 THEN NPOS ELSE DownLoop(h, n, ClampP(pos, Len(h) - 1), FALSE)

RECURSIVE CmpLoop(_, _, _)
CmpLoop(a, b, k) ==
    IF k > Len(a) /\ k > Len(b) THEN 0
    ELSE IF k > Len(a) THEN -1
    ELSE IF k > Len(b) THEN 1
    ELSE IF a[k] < b[k] THEN -1
    ELSE IF a[k] > b[k] THEN 1
    ELSE CmpLoop(a, b, k + 1)
CompareO(a, b) == CmpLoop(a, b, 1)

\* copy loop: i = next source index (1-based), left = characters still wanted (NPOS = unbounded)
RECURSIVE TakeLoop(_, _, _, _)
TakeLoop(h, i, left, acc) ==
    IF left = 0 \/ i > Len(h) THEN acc
    ELSE TakeLoop(h, i + 1, IF left = NPOS THEN NPOS ELSE left - 1, Append(acc, h[i]))
SubstrO(h, pos, cnt) == TakeLoop(h, pos + 1, cnt, <<>>)
StartsWithO(h, x) == CompareO(SubstrO(h, 0, Len(x)), x) = 0                       \* substr(0, x.size()) == x
EndsWithO(h, x) == Len(h) >= Len(x) /\ CompareO(SubstrO(h, Len(h) - Len(x), NPOS), x) = 0
ContainsO(h, x) == FindO(h, x, 0) # NPOS
RemovePrefixO(h, k) == SubstrO(h, k, NPOS)
RemoveSuffixO(h, k) == SubstrO(h, 0, Len(h) - k)
CopyO(h, cnt, pos) == LET s == SubstrO(h, pos, cnt) IN [ret |-> Len(s), chars |-> s]

\* =================================================================================================
\* The meaning used by the judges
\* =================================================================================================
Find(h, n, pos) == FindD(h, n, pos)
RFind(h, n, pos) == RFindD(h, n, pos)
FindFirstOf(h, n, pos) == FindFirstOfD(h, n, pos)
FindLastOf(h, n, pos) == FindLastOfD(h, n, pos)
FindFirstNotOf(h, n, pos) == FindFirstNotOfD(h, n, pos)
FindLastNotOf(h, n, pos) == FindLastNotOfD(h, n, pos)
Compare(a, b) == CompareD(a, b)
Substr(h, pos, cnt) == SubSeq(h, pos + 1, pos + RLen(h, pos, cnt))
StartsWith(h, x) == StartsWithD(h, x)
EndsWith(h, x) == EndsWithD(h, x)
Contains(h, x) == ContainsD(h, x)
RemovePrefix(h, k) == SubSeq(h, k + 1, Len(h))
RemoveSuffix(h, k) == SubSeq(h, 1, Len(h) - k)
Copy(h, cnt, pos) == [ret |-> RLen(h, pos, cnt), chars |-> Substr(h, pos, cnt)]
\* the remaining arities of compare ([string.view.ops] 19-30)
Compare3(h, p1, c1, v) == Compare(Substr(h, p1, c1), v)
Compare5(h, p1, c1, v, p2, c2) == Compare(Substr(h, p1, c1), Substr(v, p2, c2))

SearchOps == {"find", "rfind", "find_first_of", "find_last_of", "find_first_not_of", "find_last_not_of"}
Search(op, h, n, pos) ==
    CASE op = "find" -> Find(h, n, pos)
      [] op = "rfind" -> RFind(h, n, pos)
      [] op = "find_first_of" -> FindFirstOf(h, n, pos)
      [] op = "find_last_of" -> FindLastOf(h, n, pos)
      [] op = "find_first_not_of" -> FindFirstNotOf(h, n, pos)
      [] op = "find_last_not_of" -> FindLastNotOf(h, n, pos)
SearchO(op, h, n, pos) ==
    CASE op = "find" -> FindO(h, n, pos)
      [] op = "rfind" -> RFindO(h, n, pos)
      [] op = "find_first_of" -> FindFirstOfO(h, n, pos)
      [] op = "find_last_of" -> FindLastOfO(h, n, pos)
      [] op = "find_first_not_of" -> FindFirstNotOfO(h, n, pos)
      [] op = "find_last_not_of" -> FindLastNotOfO(h, n, pos)
\* the default argument of the standard signature (part of the call: rfind(x) means rfind(x, npos))
StdDefaultPos(op) == IF op \in {"find", "find_first_of", "find_first_not_of"} THEN 0 ELSE NPOS

\* the six relational operators of lhs against rhs: <<==, !=, <, <=, >, >=>>
RelOps(a, b) == LET c == Compare(a, b) IN <<c = 0, c # 0, c < 0, c <= 0, c > 0, c >= 0>>
=============================================================================
