"""C03 - each element is constructed once and destroyed once; no leak or double destroy.
The life events recorded with the instrumented element types on the histories of every owning type are
judged by spec/LifeOps.tla inside the module trace specifications (deviation kinds life-*): vector family
(static_vector, inplace_vector, stack: Tracked copy+move / move-only / copy-only), optional / variant /
expected (pipes.sum), inplace_function captures (pipes.callable), static_set / flat_set (pipes.set).
Also: constructed-minus-destroyed balance once the owners are gone (life-balance), and self-assignment /
self-swap must leave the value unchanged."""
import vlib
from pipes import vector

SELF_OPS = ("copy_assign", "swap", "fswap", "assign_copy", "self_swap", "self_assign")


def _mine(d):
    ev = d.get("ev", {})
    if d["kind"].startswith("life"):
        return True
    x = ev.get("x", {}) if isinstance(ev.get("x"), dict) else {}
    return d["kind"] == "post" and ev.get("op") in SELF_OPS and x.get("src") == ev.get("o")


def run(tier, rep):
    pipes = [("vector", vector.pipeline)]
    for name in ("sum", "callable", "set"):
        try:
            mod = __import__("pipes." + name, fromlist=["pipeline"])
            pipes.append((name, mod.pipeline))
        except ImportError:
            rep.notes.append("pipeline %s not available" % name)
    vlib.run_pipelines(rep, pipes, tier)
    rep.devs = [d for d in rep.devs if _mine(d)]
    rep.assumptions += ["element lifetimes are observed through the special members of the harness' Tracked types",
                        "trivially-copyable elements are invisible to the monitor by definition",
                        "cells are named by owner storage region and index (data() + i), never by raw address"]
