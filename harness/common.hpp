// Shared harness pieces for the conformance drivers (NOT part of tetl).
//  * ndjson in/out through nlohmann::json
//  * Tracked: element type whose special members feed a lifetime registry; the registry turns
//    addresses into *cells* (region, index) and records `life` events that the TLA+ Lifetime
//    monitor judges (spec/Lifetime.tla).  The registry itself never judges.
//  * Rng: deterministic PRNG (splitmix64) seeded from VERIF_SEED
#pragma once
#include <nlohmann/json.hpp>

#include <cstdint>
#include <cstdio>
#include <cstdlib>
#include <cstring>
#include <iostream>
#include <map>
#include <string>
#include <vector>

#ifdef VH_COVERAGE
extern "C" void __gcov_dump(void);
#endif
#include <unistd.h>
// _exit that keeps the coverage counters of a forked child (binding-coverage builds only)
[[noreturn]] inline void vh_exit(int rc)
{
#ifdef VH_COVERAGE
    __gcov_dump();
#endif
    ::_exit(rc);
}

namespace vh {
using json = nlohmann::json;

struct Rng {
    uint64_t s;
    explicit Rng(uint64_t seed) : s(seed * 0x9E3779B97F4A7C15ull + 0x1234567ull) { }
    uint64_t next()
    {
        uint64_t z = (s += 0x9E3779B97F4A7C15ull);
        z          = (z ^ (z >> 30)) * 0xBF58476D1CE4E5B9ull;
        z          = (z ^ (z >> 27)) * 0x94D049BB133111EBull;
        return z ^ (z >> 31);
    }
    // uniform in [lo, hi]
    long range(long lo, long hi) { return lo + (long)(next() % (uint64_t)(hi - lo + 1)); }
    bool coin(int pct = 50) { return (int)(next() % 100) < pct; }
};

inline uint64_t env_seed()
{
    char const* s = std::getenv("VERIF_SEED");
    return s ? std::strtoull(s, nullptr, 10) : 1;
}

inline bool& in_call(); // allocation monitor flag (defined below); the harness' own bookkeeping is exempt

// ------------------------------------------------------------------------------------------
// Lifetime registry
// ------------------------------------------------------------------------------------------
struct Region {
    char const* base;
    size_t stride;
    size_t count;
    int id; // 1 = object a, 2 = object b, ...
};

struct LifeLog {
    bool enabled = false; // record events (inside an API call window)
    std::vector<Region> regions;
    std::map<void const*, int> ext;  // external/temporary cells seen in this window -> id
    std::vector<int> ext_live_at_start; // harness-owned cells declared live before the call
    json events = json::array();
    int next_ext = 1;

    // cell id: region*1000 + index (1-based); external: 9000 + k
    int cell(void const* p)
    {
        auto const* c = static_cast<char const*>(p);
        for (auto const& r : regions) {
            if (r.base != nullptr && c >= r.base && c < r.base + r.stride * r.count) {
                return r.id * 1000 + (int)((c - r.base) / r.stride) + 1;
            }
        }
        auto it = ext.find(p);
        if (it != ext.end()) { return it->second; }
        int id = 9000 + next_ext++;
        ext[p] = id;
        return id;
    }
    void declare_ext(void const* p) { ext_live_at_start.push_back(cell(p)); }
    void ev(char const* k, void const* c, void const* s, int v)
    {
        if (!enabled) { return; }
        bool saved = in_call();
        in_call()  = false; // the monitor's own allocations are not the library's
        struct Restore {
            bool v;
            ~Restore() { in_call() = v; }
        } restore{saved};
        json e;
        e["k"] = k;
        e["c"] = cell(c);
        e["s"] = s ? cell(s) : 0;
        e["v"] = v;
        events.push_back(std::move(e));
    }
    void begin_window(std::vector<Region> rs)
    {
        regions = std::move(rs);
        ext.clear();
        ext_live_at_start.clear();
        events   = json::array();
        next_ext = 1;
        enabled  = true;
    }
    void end_window() { enabled = false; }
};

inline LifeLog& life()
{
    static LifeLog l;
    return l;
}

// global balance counters (independent of windows): #ctor - #dtor
inline long& live_count()
{
    static long n = 0;
    return n;
}

// Non-trivial element with observable special members. Moved-from value becomes -1000 - old so a
// read of a moved-from element is visible in projections.
struct Tracked {
    int v;
    Tracked() : v(0)
    {
        ++live_count();
        life().ev("ctor", this, nullptr, v);
    }
    Tracked(int x) : v(x) // NOLINT implicit on purpose
    {
        ++live_count();
        life().ev("ctor", this, nullptr, v);
    }
    Tracked(Tracked const& o) : v(o.v)
    {
        ++live_count();
        life().ev("cctor", this, &o, v);
    }
    Tracked(Tracked&& o) noexcept : v(o.v)
    {
        ++live_count();
        o.v = -1;
        life().ev("mctor", this, &o, v);
    }
    auto operator=(Tracked const& o) -> Tracked&
    {
        v = o.v;
        life().ev("cassign", this, &o, v);
        return *this;
    }
    auto operator=(Tracked&& o) noexcept -> Tracked&
    {
        int x = o.v;
        if (this != &o) { o.v = -1; }
        v = x;
        life().ev("massign", this, &o, v);
        return *this;
    }
    ~Tracked()
    {
        --live_count();
        life().ev("dtor", this, nullptr, v);
        v = -7777;
    }
    friend bool operator==(Tracked const& a, Tracked const& b) { return a.v == b.v; }
    friend bool operator!=(Tracked const& a, Tracked const& b) { return a.v != b.v; }
    friend bool operator<(Tracked const& a, Tracked const& b) { return a.v < b.v; }
    friend bool operator<=(Tracked const& a, Tracked const& b) { return a.v <= b.v; }
    friend bool operator>(Tracked const& a, Tracked const& b) { return a.v > b.v; }
    friend bool operator>=(Tracked const& a, Tracked const& b) { return a.v >= b.v; }
};

// Same instrumentation with restricted special members:
//   Mode 1 = move-only (copy operations deleted), Mode 2 = copy-only (no move operations declared:
//   rvalues bind to the copy operations).
template <int Mode>
struct TrackedT {
    int v;
    TrackedT() : v(0)
    {
        ++live_count();
        life().ev("ctor", this, nullptr, v);
    }
    TrackedT(int x) : v(x) // NOLINT implicit on purpose
    {
        ++live_count();
        life().ev("ctor", this, nullptr, v);
    }
    TrackedT(TrackedT const& o)
        requires(Mode != 1)
        : v(o.v)
    {
        ++live_count();
        life().ev("cctor", this, &o, v);
    }
    TrackedT(TrackedT&& o) noexcept
        requires(Mode == 1)
        : v(o.v)
    {
        ++live_count();
        o.v = -1;
        life().ev("mctor", this, &o, v);
    }
    auto operator=(TrackedT const& o) -> TrackedT&
        requires(Mode != 1)
    {
        v = o.v;
        life().ev("cassign", this, &o, v);
        return *this;
    }
    auto operator=(TrackedT&& o) noexcept -> TrackedT&
        requires(Mode == 1)
    {
        int x = o.v;
        if (this != &o) { o.v = -1; }
        v = x;
        life().ev("massign", this, &o, v);
        return *this;
    }
    ~TrackedT()
    {
        --live_count();
        life().ev("dtor", this, nullptr, v);
        v = -7777;
    }
    friend bool operator==(TrackedT const& a, TrackedT const& b) { return a.v == b.v; }
    friend bool operator!=(TrackedT const& a, TrackedT const& b) { return a.v != b.v; }
    friend bool operator<(TrackedT const& a, TrackedT const& b) { return a.v < b.v; }
    friend bool operator<=(TrackedT const& a, TrackedT const& b) { return a.v <= b.v; }
    friend bool operator>(TrackedT const& a, TrackedT const& b) { return a.v > b.v; }
    friend bool operator>=(TrackedT const& a, TrackedT const& b) { return a.v >= b.v; }
};
using TrackedMO = TrackedT<1>;
using TrackedCO = TrackedT<2>;

inline int val_of(int x) { return x; }
inline int val_of(Tracked const& t) { return t.v; }
template <int M>
inline int val_of(TrackedT<M> const& t)
{
    return t.v;
}

template <typename T>
inline constexpr bool is_tracked = std::is_same_v<T, Tracked> || std::is_same_v<T, TrackedMO> || std::is_same_v<T, TrackedCO>;

// ---- dynamic-allocation monitor (C02): counts operator new calls made while a library call is open ----
inline bool& in_call()
{
    static bool b = false;
    return b;
}
inline long& allocs_in_call()
{
    static long n = 0;
    return n;
}
struct CallWindow {
    CallWindow()
    {
        allocs_in_call() = 0;
        in_call()        = true;
    }
    ~CallWindow() { in_call() = false; }
};

inline void emit(json const& j) { std::cout << j.dump() << std::endl; }

// read all ndjson lines of a file (or stdin when path == "-")
inline std::vector<json> read_ndjson(std::string const& path)
{
    std::vector<json> out;
    std::FILE* f = path == "-" ? stdin : std::fopen(path.c_str(), "r");
    if (!f) {
        std::fprintf(stderr, "cannot open %s\n", path.c_str());
        std::exit(2);
    }
    std::string line;
    int c;
    while ((c = std::fgetc(f)) != EOF) {
        if (c == '\n') {
            if (!line.empty()) { out.push_back(json::parse(line)); }
            line.clear();
        } else {
            line.push_back((char)c);
        }
    }
    if (!line.empty()) { out.push_back(json::parse(line)); }
    if (f != stdin) { std::fclose(f); }
    return out;
}

} // namespace vh

// Define VH_ALLOC_MONITOR in exactly one translation unit (the driver) to replace the global allocation
// functions: every allocation performed between CallWindow construction and destruction is counted.
#ifdef VH_ALLOC_MONITOR
    #include <new>
void* operator new(std::size_t n)
{
    if (vh::in_call()) { ++vh::allocs_in_call(); }
    void* p = std::malloc(n ? n : 1);
    if (!p) { std::abort(); }
    return p;
}
void* operator new[](std::size_t n)
{
    if (vh::in_call()) { ++vh::allocs_in_call(); }
    void* p = std::malloc(n ? n : 1);
    if (!p) { std::abort(); }
    return p;
}
void operator delete(void* p) noexcept { std::free(p); }
void operator delete[](void* p) noexcept { std::free(p); }
void operator delete(void* p, std::size_t) noexcept { std::free(p); }
void operator delete[](void* p, std::size_t) noexcept { std::free(p); }
#endif
