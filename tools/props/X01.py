"""X01 (extension) - lock ownership protocol of etl::lock_guard / etl::unique_lock over a user mutex."""
from pipes import lock


def run(tier, rep):
    lock.pipeline(tier, rep)
    rep.assumptions += ["single thread: the mutex is an instrumented, non-recursive call recorder; a call that would block "
                        "forever (lock() on a mutex somebody holds) is outside the driven domain",
                        "two mutexes, two (thorough: three) unique_lock objects, one lock_guard, the harness as third party "
                        "(adopt_lock / release()); every reachable state and transition of that system is executed",
                        "calls the standard answers with system_error may return silently on a library without exceptions "
                        "but must not touch the mutex or change the wrapper",
                        "the TLA+ reading of [thread.lock] is calibrated against libstdc++ on the same scripts"]
