#!/usr/bin/env python3
"""Confirm a seeded breaking change and run checks against it.
  seeded.py add --src <dir> --k <K> --prop C01 --id C01-a1 [--checks C01,C03]
Steps (all in the scratch worktree /tmp/seedchk, never in /repo):
  1. demo passes on the clean tree; 2. patch applies; 3. whole test suite builds + passes with the patch;
  4. demo fails with the patch; 5. each listed check is run with VERIF_REPO=/tmp/seedchk (own build dir);
  results recorded in /verif/seeded/<id>/meta.json.
  seeded.py run --id <id> [--checks ...] [--tier quick]   re-runs step 5 for a stored change."""
import argparse, json, os, shutil, subprocess, sys, time

WT = os.environ.get("SEEDED_WT", "/tmp/seedchk")
SEEDED = "/verif/seeded"


def sh(cmd, **kw):
    return subprocess.run(cmd, shell=True, capture_output=True, text=True, errors='replace', **kw)


def ensure_wt():
    if not os.path.isdir(WT):
        r = sh("git -C /repo worktree add --detach %s HEAD" % WT)
        if r.returncode:
            sys.exit("worktree: " + r.stderr)
    sh("git -C %s checkout -q --detach %s && git -C %s checkout -- ." % (WT, sh("git -C /repo rev-parse HEAD").stdout.strip(), WT))
    if not os.path.isdir(WT + "/_build"):
        r = sh("cmake -G Ninja -S %s -B %s/_build -DCMAKE_BUILD_TYPE=RelWithDebInfo -DCMAKE_CXX_FLAGS=-Wno-error" % (WT, WT))
        if r.returncode:
            sys.exit("cmake: " + r.stderr[-2000:])


CXXFLAGS = ""


def demo(src, tag):
    exe = "%s_demo_%s" % (WT, tag)
    r = sh("g++ -std=c++20 %s -I%s/include %s -o %s" % (CXXFLAGS, WT, src, exe))
    if r.returncode:
        return "compile-error", r.stderr[-1500:]
    r = sh("timeout 120 " + exe)
    os.remove(exe)
    return r.returncode, (r.stdout + r.stderr)[-600:]


def suite():
    r = sh("cmake --build %s/_build -j 12 2>&1 | tail -5" % WT)
    b = sh("cmake --build %s/_build -j 12" % WT)
    if b.returncode:
        return False, "build failed: " + b.stdout[-1500:]
    t = sh("ctest --test-dir %s/_build -j 12 --timeout 900 2>&1 | tail -4" % WT)
    return "100% tests passed" in t.stdout, t.stdout.strip()


def run_checks(sid, checks, tier):
    res = {}
    for c in checks:
        bdir = "/verif/build/seeded_%s_%s" % (sid, c)
        env = dict(os.environ, VERIF_REPO=WT, VERIF_BUILD=bdir, VERIF_TIER=tier, VERIF_EVID=bdir + "/evidence")
        t0 = time.time()
        p = subprocess.run(["python3", "/verif/tools/check.py", c, "--tier", tier], capture_output=True, text=True, env=env, cwd="/verif")
        viol = [l for l in p.stdout.splitlines() if l.startswith("VIOLATION")]
        res[c] = {"exit": p.returncode, "violations": len(viol), "first": viol[:2], "wall_s": round(time.time() - t0, 1),
                  "stderr_tail": p.stderr[-300:] if p.returncode == 2 else ""}
        shutil.rmtree(bdir, ignore_errors=True)
        print("  check %s -> exit %d (%d VIOLATION lines) %.0fs" % (c, p.returncode, len(viol), time.time() - t0), flush=True)
    # evidence files were rewritten by these runs against the mutant: the caller must re-run on /repo
    return res


def main():
    ap = argparse.ArgumentParser()
    ap.add_argument("cmd", choices=["add", "run"])
    ap.add_argument("--src"); ap.add_argument("--k"); ap.add_argument("--prop"); ap.add_argument("--id")
    ap.add_argument("--checks", default=None); ap.add_argument("--tier", default="quick")
    ap.add_argument("--skip-suite", action="store_true")
    ap.add_argument("--cxxflags", default="")
    a = ap.parse_args()
    global CXXFLAGS
    CXXFLAGS = a.cxxflags
    d = os.path.join(SEEDED, a.id)
    ensure_wt()
    if a.cmd == "add":
        os.makedirs(d, exist_ok=True)
        shutil.copy(os.path.join(a.src, "m%s.diff" % a.k), os.path.join(d, "patch.diff"))
        shutil.copy(os.path.join(a.src, "m%s_demo.cpp" % a.k), os.path.join(d, "demo.cpp"))
        notes = open(os.path.join(a.src, "m%s_notes.md" % a.k)).read() if os.path.exists(os.path.join(a.src, "m%s_notes.md" % a.k)) else ""
        meta = {"id": a.id, "property": a.prop, "needs": notes, "source": "independent sub-agent given only the property text",
                "demo_cxxflags": a.cxxflags}
        rc0, out0 = demo(os.path.join(d, "demo.cpp"), a.id + "_0")
        meta["demo_on_clean_tree"] = rc0
        r = sh("git -C %s apply %s" % (WT, os.path.join(d, "patch.diff")))
        if r.returncode:
            sys.exit("patch does not apply: " + r.stderr)
        if a.skip_suite:
            meta["suite_with_patch"] = "not re-run (skipped)"
            ok = True
        else:
            ok, txt = suite()
            meta["suite_with_patch"] = txt
        rc1, out1 = demo(os.path.join(d, "demo.cpp"), a.id + "_1")
        meta["demo_with_patch"] = rc1
        meta["demo_output_with_patch"] = out1
        meta["confirmed"] = bool(rc0 == 0 and ok and rc1 not in (0, "compile-error"))
        print("confirm %s: clean demo=%s suite_ok=%s patched demo=%s -> %s" % (a.id, rc0, ok, rc1, meta["confirmed"]), flush=True)
        if not meta["confirmed"]:
            json.dump(meta, open(os.path.join(d, "meta.json"), "w"), indent=1)
            sh("git -C %s checkout -- ." % WT)
            sys.exit(1)
    else:
        meta = json.load(open(os.path.join(d, "meta.json")))
        r = sh("git -C %s apply %s" % (WT, os.path.join(d, "patch.diff")))
        if r.returncode:
            sys.exit("patch does not apply: " + r.stderr)
    checks = (a.checks or meta.get("property")).split(",")
    new = run_checks(a.id, checks, a.tier)
    old = meta.setdefault("checks", {})
    for c, v in new.items():
        if v["exit"] == 2 and c in old and old[c].get("exit") == 1:
            # model failure (time-out, resource exhaustion): inconclusive, keep the earlier conclusive result
            old[c]["last_rerun"] = "inconclusive (exit 2): " + v.get("stderr_tail", "")[-120:]
        else:
            old[c] = v
    meta["detected_by"] = sorted(c for c, v in meta["checks"].items() if v["exit"] == 1)
    meta["ran"] = "git apply in scratch worktree %s; cmake --build + ctest there; demo with/without; tools/check.py <id> --tier %s with VERIF_REPO=%s" % (WT, a.tier, WT)
    json.dump(meta, open(os.path.join(d, "meta.json"), "w"), indent=1)
    sh("git -C %s checkout -- ." % WT)
    print("%s detected_by=%s" % (a.id, meta["detected_by"]))


if __name__ == "__main__":
    main()
