"""C15: turn the items exported by spec/Types.tla into C++ (python3, stdlib only).

For every exported *term* this module produces (a) the C++ type expression (spelled with the alias templates of
harness/types_support.hpp, so no declarator syntax is needed) and (b) the JSON term, from the same data.  Class and enum
definitions are generated from the descriptor records of TypesOps.tla.  Every row of the generated tables evaluates one
trait / concept / numeric_limits member / ratio operation of namespace X at compile time and prints one ndjson event;
the rows contain no expected *decision*: the predicted result types (`res`, `xnum/xden`) come from the spec's export and
are only compared by type identity in C++ (an observation), the verdict is TypesTrace.tla's.

This module decides nothing about conformance.
"""
import json
import os

CHAR = {"char": "char", "schar": "signed char", "uchar": "unsigned char", "wchar": "wchar_t", "char8": "char8_t",
        "char16": "char16_t", "char32": "char32_t"}
RANK = {"short": "short", "int": "int", "long": "long", "llong": "long long"}
FLOAT = {"float": "float", "double": "double", "ldouble": "long double"}


def cpp_of(t):
    k = t["k"]
    if k == "void":
        return "void"
    if k == "nullptr":
        return "decltype(nullptr)"
    if k == "bool":
        return "bool"
    if k == "char":
        return CHAR[t["n"]]
    if k == "int":
        return ("" if t["s"] else "unsigned ") + RANK[t["r"]]
    if k == "float":
        return FLOAT[t["n"]]
    if k in ("enum", "class"):
        return "zoo::" + t["n"]
    if k == "cv":
        q = ("c" if t["c"] else "") + ("v" if t["v"] else "")
        assert q
        return "vt::%s<%s>" % (q, cpp_of(t["t"]))
    if k == "ptr":
        return "vt::p<%s>" % cpp_of(t["t"])
    if k == "lref":
        return "vt::l<%s>" % cpp_of(t["t"])
    if k == "rref":
        return "vt::r<%s>" % cpp_of(t["t"])
    if k == "arr":
        return ("vt::a<%s, %d>" % (cpp_of(t["t"]), t["n"])) if t["n"] > 0 else ("vt::au<%s>" % cpp_of(t["t"]))
    if k == "fn":
        q = (("c" if t["c"] else "") + ("v" if t["v"] else "")) or "n"
        ref = {"none": "n", "l": "l", "r": "r"}[t["ref"]]
        ne = "x" if t["ne"] else "n"
        return "vt::f_%s_%s_%s<%s>" % (q, ref, ne, ", ".join([cpp_of(t["r"])] + [cpp_of(a) for a in t["a"]]))
    if k == "memptr":
        return "vt::mp<zoo::%s, %s>" % (t["cls"], cpp_of(t["t"]))
    raise ValueError("unknown term " + json.dumps(t))


def tjson(t):
    return json.dumps(t, sort_keys=True, separators=(",", ":"))


def cstr(s):
    return '"' + s.replace("\\", "\\\\").replace('"', '\\"') + '"'


# ------------------------------------------------------------------------------------------
# class / enum definitions from the descriptors
# ------------------------------------------------------------------------------------------
def _member(decl, state, body):
    if state == "implicit":
        return None
    if state == "default":
        return decl + " = default;"
    if state == "deleted":
        return decl + " = delete;"
    if state == "user_ne":
        return decl + " noexcept " + body
    if state == "user_th":
        return decl + " noexcept(false) " + body
    raise ValueError(state)


def class_def(n, d):
    head = ("union " if d["union"] else "struct ") + n + (" final" if d["final"] else "")
    if d["base"] != "-":
        head += " : " + ("private " if d["privbase"] else "public ") + d["base"]
    lines = []
    if d["data"]:
        lines.append("int m;")
    if d["virt"] == "virtual":
        lines.append("virtual void vf() {}")
    elif d["virt"] == "pure":
        lines.append("virtual void vf() = 0;")
    if d["ovr"]:
        lines.append("void vf() override {}")
    ccp = "&" if d.get("ccnc") else " const&"
    cap = "&" if d.get("canc") else " const&"
    for decl, st, body in ((n + "()", d["dc"], "{}"), (n + "(" + n + ccp + ")", d["cc"], "{}"),
                           (n + "(" + n + "&&)", d["mc"], "{}"),
                           (n + "& operator=(" + n + cap + ")", d["ca"], "{ return *this; }"),
                           (n + "& operator=(" + n + "&&)", d["ma"], "{ return *this; }")):
        m = _member(decl, st, body)
        if m:
            lines.append(m)
    dt = _member(("virtual " if d["vdtor"] else "") + "~" + n + "()", d["dt"], "{}")
    if dt:
        if d["dtacc"] == "protected":
            lines.append("protected: " + dt + " public:")
        else:
            lines.append(dt)
    return head + " { " + " ".join(lines) + " };"


def enum_def(n, f):
    head = "enum " + ("class " if f["scoped"] else "") + n
    if f["fixed"]:
        head += " : " + cpp_of(f["ut"])
    return head + " { %s_a, %s_b };" % (n, n)


def order_classes(classes):
    """bases before derived"""
    done, out = set(), []
    todo = sorted(classes, key=lambda c: c["n"])
    while todo:
        rest = []
        for c in todo:
            if c["d"]["base"] == "-" or c["d"]["base"] in done:
                out.append(c)
                done.add(c["n"])
            else:
                rest.append(c)
        if len(rest) == len(todo):
            raise ValueError("cyclic / unknown base")
        todo = rest
    return out


# ------------------------------------------------------------------------------------------
# rows
# ------------------------------------------------------------------------------------------
class Table:
    def __init__(self):
        self.idx = {}
        self.terms = []

    def of(self, t):
        j = tjson(t)
        i = self.idx.get(j)
        if i is None:
            i = len(self.terms)
            self.idx[j] = i
            self.terms.append(t)
        return i


def _uval(tr, T):
    if tr == "extent0":
        return "X::extent<%s>::value" % T, "X::extent_v<%s>" % T
    if tr == "extent1":
        return "X::extent<%s, 1>::value" % T, "X::extent_v<%s, 1>" % T
    return "X::%s<%s>::value" % (tr, T), "X::%s_v<%s>" % (tr, T)


NL_ENUM = ("nl:round_style", "nl:has_denorm")


def rows_of(items):
    """-> (table, rows) ; rows = list of (good_line, ill_line)"""
    tb = Table()
    rows = []
    concepts1, concepts2 = set(), set()
    tb.concepts = (concepts1, concepts2)
    key = lambda g: json.dumps(g, sort_keys=True)
    for g in sorted((g for g in items if g["g"] == "type"), key=key):
        i = tb.of(g["t"])
        T, J = "T%d" % i, "TJ[%d]" % i
        for tr in g["val"]:
            ill = 'vh::ill(%s, %s);' % (cstr(tr), J)
            if tr.startswith("c:"):
                rows.append(('vh::con(%s, %s, vc::%s<%s>);' % (cstr(tr), J, tr[2:], T), ill))
                concepts1.add(tr[2:])
            else:
                a, b = _uval(tr, T)
                rows.append(('vh::val(%s, %s, %s, %s);' % (cstr(tr), J, a, b), ill))
        for x in g["tr"]:
            r = tb.of(x["res"])
            tr = x["tr"]
            rows.append(('vh::trn<typename X::%s<%s>::type, X::%s_t<%s>, T%d>(%s, %s, TJ[%d]);' % (tr, T, tr, T, r, cstr(tr), J, r),
                         'vh::ill_tr(%s, %s, TJ[%d]);' % (cstr(tr), J, r)))
        for tr in g["has"]:
            rows.append(('vh::has(%s, %s, vh::has_type<X::%s, %s>);' % (cstr(tr), J, tr, T), 'vh::ill(%s, %s);' % (cstr(tr), J)))
    for g in sorted((g for g in items if g["g"] == "pair"), key=key):
        i, j = tb.of(g["t"]), tb.of(g["u"])
        T, U = "T%d" % i, "T%d" % j
        JJ = "TJ[%d], TJ[%d]" % (i, j)
        for tr in g["val"]:
            ill = 'vh::ill2(%s, %s);' % (cstr(tr), JJ)
            if tr.startswith("c:"):
                rows.append(('vh::con2(%s, %s, vc::%s<%s, %s>);' % (cstr(tr), JJ, tr[2:], T, U), ill))
                concepts2.add(tr[2:])
            else:
                rows.append(('vh::val2(%s, %s, X::%s<%s, %s>::value, X::%s_v<%s, %s>);' % (cstr(tr), JJ, tr, T, U, tr, T, U), ill))
        for x in g["tr"]:
            r = tb.of(x["res"])
            tr = x["tr"]
            if tr == "common_type":
                a, b = "typename X::common_type<%s, %s>::type" % (T, U), "X::common_type_t<%s, %s>" % (T, U)
            else:
                flag = "true" if tr == "conditional_true" else "false"
                a, b = "typename X::conditional<%s, %s, %s>::type" % (flag, T, U), "X::conditional_t<%s, %s, %s>" % (flag, T, U)
            rows.append(('vh::trn2<%s, %s, T%d>(%s, %s, TJ[%d]);' % (a, b, r, cstr(tr), JJ, r),
                         'vh::ill_tr2(%s, %s, TJ[%d]);' % (cstr(tr), JJ, r)))
    for g in sorted((g for g in items if g["g"] == "limits"), key=key):
        i, u = tb.of(g["t"]), tb.of(g["rt"])
        T, J = "T%d" % i, "TJ[%d]" % i
        NL = "X::numeric_limits<%s>" % T
        for m in g["val"]:
            e = "%s::%s" % (NL, m[3:])
            if m in NL_ENUM:
                e = "static_cast<int>(%s)" % e
            rows.append(('vh::con(%s, %s, %s);' % (cstr(m), J, e), 'vh::ill(%s, %s);' % (cstr(m), J)))
        fn = "limbs_float" if g["nan"] else "limbs_int"
        for m in g["limbs"]:
            e = "%s::%s()" % (NL, m[3:])
            rows.append(('{ constexpr auto v_ = %s; vh::%s(%s, %s, v_, vh::same<decltype(%s), T%d>); }' % (e, fn, cstr(m), J, e, u),
                         'vh::ill(%s, %s);' % (cstr(m), J)))
        if g["nan"]:
            for m in ("nl:quiet_NaN", "nl:signaling_NaN"):
                e = "%s::%s()" % (NL, m[3:])
                rows.append(('{ constexpr auto v_ = %s; vh::isnan(%s, %s, v_, vh::same<decltype(%s), T%d>); }' % (e, cstr(m), J, e, u),
                             'vh::ill(%s, %s);' % (cstr(m), J)))
    for g in sorted((g for g in items if g["g"] == "ratio1"), key=key):
        R = "X::ratio<%d, %d>" % (g["n"], g["d"])
        rows.append(('vh::ratio1(%d, %d, %d, %d, %s::num, %s::den, vh::same<typename %s::type, X::ratio<%d, %d>>);'
                     % (g["n"], g["d"], g["num"], g["den"], R, R, R, g["num"], g["den"]),
                     'vh::illr1(%d, %d);' % (g["n"], g["d"])))
    for g in sorted((g for g in items if g["g"] == "ratio2"), key=key):
        a = (g["n1"], g["d1"], g["n2"], g["d2"])
        R = "X::%s<X::ratio<%d, %d>, X::ratio<%d, %d>>" % ((g["op"],) + a)
        E = "X::ratio<%d, %d>" % (g["num"], g["den"])
        rows.append(('vh::ratio2(%s, %d, %d, %d, %d, %d, %d, %s::num, %s::den, vh::same<%s, %s>, vh::same<typename %s::type, %s>);'
                     % ((cstr(g["op"]),) + a + (g["num"], g["den"], R, R, R, E, R, E)),
                     'vh::illr(%s, %d, %d, %d, %d);' % ((cstr(g["op"]),) + a)))
    for g in sorted((g for g in items if g["g"] == "ratiocmp"), key=key):
        a = (g["n1"], g["d1"], g["n2"], g["d2"])
        for op in ("ratio_equal", "ratio_not_equal", "ratio_less", "ratio_less_equal", "ratio_greater", "ratio_greater_equal"):
            RR = "X::ratio<%d, %d>, X::ratio<%d, %d>" % a
            rows.append(('vh::ratiocmp(%s, %d, %d, %d, %d, X::%s<%s>::value, X::%s_v<%s>);' % ((cstr(op),) + a + (op, RR, op, RR)),
                         'vh::illr(%s, %d, %d, %d, %d);' % ((cstr(op),) + a)))
    def bigr(a):
        n = "(%s(INTMAX_MAX - %d))" % ("-" if a["neg"] else "", a["off"])
        return "X::ratio<%s, %d>" % (n, a["d"]), cstr(json.dumps(a, sort_keys=True, separators=(",", ":")))
    for g in sorted((g for g in items if g["g"] == "big1"), key=key):
        R, J = bigr(g["a"])
        rows.append(('vh::big1(%s, %s::num, %s::den);' % (J, R, R), 'vh::illbig("ratio", %s, nullptr);' % J))
    for g in sorted((g for g in items if g["g"] == "bigcmp"), key=key):
        (Ra, Ja), (Rb, Jb) = bigr(g["a"]), bigr(g["b"])
        for op in ("ratio_equal", "ratio_not_equal", "ratio_less", "ratio_less_equal", "ratio_greater", "ratio_greater_equal"):
            rows.append(('vh::bigcmp(%s, %s, %s, X::%s<%s, %s>::value, X::%s_v<%s, %s>);' % (cstr(op), Ja, Jb, op, Ra, Rb, op, Ra, Rb),
                         'vh::illbig(%s, %s, %s);' % (cstr(op), Ja, Jb)))
    LOGIC = {"T": "X::true_type", "F": "X::false_type", "P": "vh::poison"}
    for g in sorted((g for g in items if g["g"] == "logic"), key=key):
        args = ", ".join(LOGIC[b] for b in g["bs"])
        bs = cstr(json.dumps(g["bs"], separators=(",", ":")))
        rows.append(('vh::logic(%s, %s, X::%s<%s>::value, X::%s_v<%s>);' % (cstr(g["op"]), bs, g["op"], args, g["op"], args),
                     'vh::illl(%s, %s);' % (cstr(g["op"]), bs)))
    return tb, rows


def write_decls(items, tb, path):
    classes = order_classes([g for g in items if g["g"] == "class"])
    enums = sorted((g for g in items if g["g"] == "enum"), key=lambda g: g["n"])
    with open(path, "w") as f:
        f.write("// generated by tools/gen_types.py from the export of spec/Types.tla - do not edit, do not commit\n")
        f.write("namespace zoo {\n")
        for e in enums:
            f.write(enum_def(e["n"], e["f"]) + "\n")
        for c in classes:
            f.write(class_def(c["n"], c["d"]) + "\n")
        f.write("} // namespace zoo\n")
        # a concept-id evaluated in a non-template context is not an instantiation: diagnostics from inside it would not
        # name the row; a variable template around it makes them do so
        f.write("namespace vc {\n")
        for c in sorted(tb.concepts[0]):
            f.write("template <class T> inline constexpr bool %s = X::%s<T>;\n" % (c, c))
        for c in sorted(tb.concepts[1]):
            f.write("template <class T, class U> inline constexpr bool %s = X::%s<T, U>;\n" % (c, c))
        f.write("} // namespace vc\n")
        for i, t in enumerate(tb.terms):
            f.write("using T%d = %s;\n" % (i, cpp_of(t)))
        f.write("static char const* const TJ[] = {\n")
        for t in tb.terms:
            f.write("    " + cstr(tjson(t)) + ",\n")
        f.write("};\n")


def write_rows(rows, ill, path, upto=None):
    """rows: list of (good, ill) ; ill: set of row indices (0-based within this file) to emit as ill rows;
    upto: only the first `upto` rows are active, the others are blanked (used to locate a failing row by bisection)"""
    with open(path, "w") as f:
        for i, (good, bad) in enumerate(rows):
            if upto is not None and i >= upto:
                f.write(";\n")
            else:
                f.write((bad if i in ill else good) + "\n")


def generate(items, outdir, k):
    """-> dict(decls=path, chunks=[(path, rows)])  rows split round-robin by blocks so that every TU gets a mix"""
    os.makedirs(outdir, exist_ok=True)
    tb, rows = rows_of(items)
    decls = os.path.join(outdir, "decls.hpp")
    write_decls(items, tb, decls)
    n = len(rows)
    per = (n + k - 1) // k
    chunks = []
    for c in range(k):
        part = rows[c * per:(c + 1) * per]
        if not part:
            continue
        p = os.path.join(outdir, "rows_%d.inc" % c)
        write_rows(part, set(), p)
        chunks.append((p, part))
    return {"decls": decls, "chunks": chunks, "types": len(tb.terms), "rows": n}
