SPECIFICATION Spec
CONSTANTS
  MaxLen = 6
  MaxLen2 = 3
  MaxPair = 4
  MaxA2 = 6
POSTCONDITION Consumed
CHECK_DEADLOCK FALSE
