#!/usr/bin/env python3
"""setup_cmd: offline sanity of the tool chain + parse of every specification."""
import glob, os, subprocess, sys
here = os.path.dirname(os.path.dirname(os.path.abspath(__file__)))
os.makedirs(os.path.join(here, "build"), exist_ok=True)
os.makedirs(os.path.join(here, "evidence"), exist_ok=True)
cp = "/opt/veriftools/tla/tla2tools.jar:/opt/veriftools/tla/CommunityModules-deps.jar"
bad = 0
for f in sorted(glob.glob(os.path.join(here, "spec", "*.tla"))):
    p = subprocess.run(["java", "-cp", cp, "tla2sany.SANY", f], capture_output=True, text=True, cwd=os.path.join(here, "spec"))
    ok = p.returncode == 0 and "Semantic errors" not in p.stdout and "Fatal errors" not in p.stdout and "Could not parse" not in p.stdout
    print(("ok   " if ok else "FAIL ") + os.path.basename(f))
    if not ok:
        bad += 1
        print(p.stdout[-2000:])
for tool in ("g++", "java", "python3"):
    if subprocess.run(["which", tool], capture_output=True).returncode != 0:
        print("missing tool", tool); bad += 1
sys.exit(1 if bad else 0)
