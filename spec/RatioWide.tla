------------------------------ MODULE RatioWide ------------------------------
(* Near-overflow ratios for property C15: ratio<+-(INTMAX_MAX - off), d> with a small positive d.        *)
(* The numerator is carried as limbs base 2^15 (spec/Wide.tla); only multiply/divide by a small number   *)
(* and comparison are needed: normal form (divide by gcd(N mod d, d)) and the six comparisons by cross    *)
(* multiplication N1*d2 <> N2*d1 - in unbounded integers, which is what [ratio.comparison] means.         *)
EXTENDS Wide, RatioOps

IntMax == Pow2m1(63)
\* a "big ratio" descriptor: [neg, off, d]
BigN(a) == NatSub(IntMax, NatOfInt(a.off))
BigPre(a) == a.off \in 0..1000 /\ a.d \in 1..1000
BigNorm(a) ==
    LET n == BigN(a) g == RGcd(a.d, DivMod(n, a.d).r) IN
    [neg |-> a.neg, num |-> DivMod(n, g).q, den |-> a.d \div g]
\* sign * N * k as a signed wide number
BigLess(a, b) ==      \* a < b
    LET l == MulAdd(BigN(a), b.d, 0) r == MulAdd(BigN(b), a.d, 0) IN
    IF a.neg /\ ~b.neg THEN TRUE
    ELSE IF ~a.neg /\ b.neg THEN FALSE
    ELSE IF a.neg THEN NatLess(r, l) ELSE NatLess(l, r)
BigEq(a, b) == a.neg = b.neg /\ MulAdd(BigN(a), b.d, 0) = MulAdd(BigN(b), a.d, 0)
BigCmp(op, a, b) ==
    CASE op = "ratio_equal" -> BigEq(a, b)
      [] op = "ratio_not_equal" -> ~BigEq(a, b)
      [] op = "ratio_less" -> BigLess(a, b)
      [] op = "ratio_less_equal" -> ~BigLess(b, a)
      [] op = "ratio_greater" -> BigLess(b, a)
      [] op = "ratio_greater_equal" -> ~BigLess(a, b)
=============================================================================
