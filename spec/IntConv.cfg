SPECIFICATION Spec
CONSTANTS
  MaxText = 3
  ParseBases = {0, 2, 8, 10, 16, 36}
ACTION_CONSTRAINT Emit
INVARIANTS Laws
CHECK_DEADLOCK FALSE
