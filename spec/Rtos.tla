------------------------------- MODULE Rtos -------------------------------
(* State machine of ONE FreeRTOS wrapper object over the kernel (extension X14); Kind = "queue" | "stream".     *)
(* MC role : TLC proves on every reachable state the bound Len(content) <= cap, the FIFO law (everything        *)
(*           received so far, followed by what is still stored, is exactly the sequence of accepted items /     *)
(*           bytes since the last reset), "send fails iff full", "receive fails iff empty", "reset empties",     *)
(*           bytes_available + space_available = cap, the empty / full characterisations, and that every         *)
(*           member makes exactly the kernel calls of its contract on the object's own handle.                   *)
(* GEN role: every transition is exported as <<"GEN", json>>; tools/pipes/rtos.py plans one script per edge      *)
(*           and harness/rtos_driver.cpp replays it on the etl wrappers over the harness' kernel double.         *)
(* acc / rcv are history variables (accepted and received values since construction / the last reset); they      *)
(* are part of the explored state (bounded by MaxHist), so an edge is exported once per history: the pipeline    *)
(* de-duplicates.                                                                                                *)
EXTENDS RtosOps, TLC, Json

CONSTANTS Kind, Caps, ItemSizes, Vals, Ticks, MaxWrite, MaxRead, MaxHist

VARIABLES st, acc, rcv, last
vars == <<st, acc, rcv, last>>
View0 == <<st, acc, rcv>>

A0 == [cap |-> 0, isz |-> 0, trig |-> 0, x |-> 0, ticks |-> 0, n |-> 0, prio |-> 0, data |-> << >>]

Datas == UNION {[1..n -> Vals] : n \in 0..MaxWrite}

Init == /\ st = NoneOf(Kind)
        /\ acc = << >> /\ rcv = << >>
        /\ last = [op |-> "init", kind |-> Kind, a |-> A0, pre |-> NoneOf(Kind), post |-> NoneOf(Kind),
                   ret |-> 0, out |-> << >>, kc |-> << >>]

\* history: what the kernel accepted / handed out in this call
Accepted(op, a, r) ==
    CASE op = "send" /\ r.ret = 1 -> <<a.x>>
      [] op \in {"write", "write_from_isr"} -> SubSeq(a.data, 1, r.ret)
      [] OTHER -> << >>
Received(op, a, r) ==
    CASE op \in {"receive", "receive_ref"} /\ r.ret = 1 -> <<r.out[1]>>
      [] op \in {"read", "read_from_isr"} -> SubSeq(r.out, 1, r.ret)
      [] OTHER -> << >>

Step(op, a) ==
    /\ Enabled(Kind, op, st.ph)
    /\ LET r == Call(Kind, op, st, a) IN
       /\ st' = r.post
       /\ last' = [op |-> op, kind |-> Kind, a |-> a, pre |-> st, post |-> r.post, ret |-> r.ret, out |-> r.out,
                   kc |-> r.kc]
       /\ IF op \in {"reset", "ctor", "ctor_fail", "dtor"} THEN acc' = << >> /\ rcv' = << >>
          ELSE /\ acc' = acc \o Accepted(op, a, r)
               /\ rcv' = rcv \o Received(op, a, r)
       /\ Len(acc') <= MaxHist

QNext ==
    \/ \E c \in Caps : \E z \in ItemSizes : \E op \in {"ctor", "ctor_fail"} : Step(op, [A0 EXCEPT !.cap = c, !.isz = z])
    \/ \E op \in {"dtor", "capacity", "reset", "messages_waiting"} : Step(op, A0)
    \/ \E x \in Vals : \E t \in Ticks : Step("send", [A0 EXCEPT !.x = x, !.ticks = t])
    \/ \E t \in Ticks : \E op \in {"receive", "receive_ref"} : Step(op, [A0 EXCEPT !.ticks = t])

SNext ==
    \/ \E c \in Caps : \E g \in 0..c : Step("ctor", [A0 EXCEPT !.cap = c, !.trig = g])
    \/ \E c \in Caps : Step("ctor_fail", [A0 EXCEPT !.cap = c, !.trig = 1])
    \/ \E op \in {"dtor", "empty", "full", "bytes_available", "space_available", "reset", "native_handle"} : Step(op, A0)
    \/ \E d \in Datas : \E t \in Ticks : Step("write", [A0 EXCEPT !.data = d, !.n = Len(d), !.ticks = t])
    \/ \E d \in Datas : \E p \in {0, 1} : Step("write_from_isr", [A0 EXCEPT !.data = d, !.n = Len(d), !.prio = p])
    \/ \E n \in 0..MaxRead : \E t \in Ticks : Step("read", [A0 EXCEPT !.n = n, !.ticks = t])
    \/ \E n \in 0..MaxRead : \E p \in {0, 1} : Step("read_from_isr", [A0 EXCEPT !.n = n, !.prio = p])
    \/ \E n \in 0..(st.cap + 1) : Step("trigger_level", [A0 EXCEPT !.n = n])

Next == IF Kind = "queue" THEN QNext ELSE SNext
Spec == Init /\ [][Next]_vars
Emit == PrintT(<<"GEN", ToJson(last')>>)

\* ---- invariants ----------------------------------------------------------------------------------------------
Cont == Content(Kind, st)

TypeOK == /\ st.ph \in {"none", "live", "null", "dead"}
          /\ st.ph # "none" => st.cap \in Caps
          /\ \A i \in 1..Len(Cont) : Cont[i] \in Vals
          /\ (Kind = "queue" /\ st.ph # "none" => st.isz \in ItemSizes)
          /\ (Kind = "stream" /\ st.ph # "none" => st.trig \in 1..st.cap)
          /\ st.ph # "live" => Cont = << >>

Bounded == Len(Cont) <= st.cap

\* everything received, followed by what is still stored, is what was accepted - in that order
Fifo == st.ph = "live" => rcv \o Cont = acc

\* every member talks to the kernel about the object's own handle only, and only while it has one
OwnHandle(r) == \A i \in 1..Len(r.kc) : (r.kc[i].h = H \/ r.kc[i].f \in {"xQueueCreate", "xStreamBufferCreate"})

QLaws ==
    st.ph = "live" =>
      /\ \A x \in Vals : \A t \in Ticks :
           LET r == QCall("send", st, [A0 EXCEPT !.x = x, !.ticks = t]) IN
           /\ (r.ret = 0) <=> (Len(st.items) = st.cap)                       \* send fails iff full
           /\ (r.ret = 0 => r.post = st)
           /\ (r.ret = 1 => r.post.items = Append(st.items, x))
           /\ Len(r.kc) = 1 /\ r.kc[1].a = <<t>> /\ OwnHandle(r)              \* the ticks are forwarded
      /\ \A t \in Ticks : \A op \in {"receive", "receive_ref"} :
           LET r == QCall(op, st, [A0 EXCEPT !.ticks = t]) IN
           /\ (r.ret = 0) <=> (st.items = << >>)                              \* receive fails iff empty
           /\ (r.ret = 1 => r.out = Enc(st.isz, Head(st.items)) /\ r.post.items = Tail(st.items))
           /\ (r.ret = 0 => r.post = st /\ r.out = IF op = "receive" THEN Zero(st.isz) ELSE Enc(st.isz, Sentinel))
           /\ Len(r.kc) = 1 /\ r.kc[1].a = <<t>> /\ OwnHandle(r)
      /\ LET r == QCall("reset", st, A0) IN r.ret = 1 /\ r.post.items = << >> /\ r.post.cap = st.cap
      /\ LET r == QCall("messages_waiting", st, A0) IN r.ret = Len(st.items) /\ r.post = st
      /\ LET r == QCall("capacity", st, A0) IN r.ret = st.cap /\ r.post = st /\ r.kc = << >>
      /\ LET r == QCall("dtor", st, A0) IN Live(r.post) = 0 /\ Len(r.kc) = 1 /\ r.kc[1].f = "vQueueDelete" /\ OwnHandle(r)

Obsv(op) == SCall(op, st, A0)
SLaws ==
    st.ph = "live" =>
      /\ Obsv("bytes_available").ret + Obsv("space_available").ret = st.cap
      /\ (Obsv("empty").ret = 1) <=> (Obsv("bytes_available").ret = 0)
      /\ (Obsv("full").ret = 1) <=> (Obsv("space_available").ret = 0)
      /\ \A op \in {"empty", "full", "bytes_available", "space_available", "native_handle"} : Obsv(op).post = st
      /\ \A d \in Datas : \A op \in {"write", "write_from_isr"} :
           LET r == SCall(op, st, [A0 EXCEPT !.data = d, !.n = Len(d), !.ticks = 5, !.prio = 1]) IN
           /\ r.ret = Min2(Len(d), st.cap - Len(st.bytes))                   \* as many bytes as fit, never more
           /\ r.post.bytes = st.bytes \o SubSeq(d, 1, r.ret)
           /\ (r.ret < Len(d) => SCall("full", r.post, A0).ret = 1)
           /\ OwnHandle(r)
      /\ \A n \in 0..MaxRead : \A op \in {"read", "read_from_isr"} :
           LET r == SCall(op, st, [A0 EXCEPT !.n = n]) IN
           /\ r.ret = Min2(n, Len(st.bytes))
           /\ SubSeq(r.out, 1, r.ret) \o r.post.bytes = st.bytes             \* the oldest bytes, in order
           /\ Len(r.out) = n + Slack /\ \A i \in (r.ret + 1)..(n + Slack) : r.out[i] = Fill   \* nothing else is written
           /\ (r.ret < n => SCall("empty", r.post, A0).ret = 1)
           /\ OwnHandle(r)
      /\ LET r == SCall("reset", st, A0) IN r.post.bytes = << >> /\ r.post.cap = st.cap /\ r.post.trig = st.trig
      /\ \A n \in 0..(st.cap + 1) :
           LET r == SCall("trigger_level", st, [A0 EXCEPT !.n = n]) IN
           /\ r.post.bytes = st.bytes
           /\ (r.kc[1].r = pdTRUE) <=> (n <= st.cap)
           /\ r.post.trig = (IF n > st.cap THEN st.trig ELSE IF n = 0 THEN 1 ELSE n)
      /\ LET r == SCall("dtor", st, A0) IN Live(r.post) = 0 /\ Len(r.kc) = 1 /\ r.kc[1].f = "vStreamBufferDelete" /\ OwnHandle(r)

\* a wrapper whose creation failed never hands NULL to the kernel
NullLaws == st.ph = "null" => \A op \in OpsOf(Kind) : Enabled(Kind, op, "null") => Call(Kind, op, st, A0).kc = << >>

Laws == (IF Kind = "queue" THEN QLaws ELSE SLaws) /\ NullLaws
=============================================================================
