------------------------------ MODULE IntConv ------------------------------
(* Input-domain enumerator + model theorems for the integer <-> text conversions (property C10).    *)
(* TLC enumerates                                                                                    *)
(*   val   : every value of the 8-bit types in every base 2..36 (with every buffer length 0..len+2)  *)
(*   parse : every text up to MaxText characters over {' ', '-', '+', '0', '1', '2', '9', 'x', 'F'}   *)
(*           for the bases in ParseBases (0 = detect)                                                *)
(*   wide  : a grid of multi-limb numbers for the laws of Wide.tla                                   *)
(* checks the laws below on each (MC role) and exports val / parse vectors (GEN role).               *)
EXTENDS IntConvOps, TLC, Json

CONSTANTS MaxText, ParseBases

VARIABLES ph, vec
vars == <<ph, vec>>

Alphabet == {32, 45, 43, 48, 49, 50, 57, 120, 70}
Texts(n) == UNION {[1..k -> Alphabet] : k \in 0..n}
UpTo(n) == [i \in 1..(n + 1) |-> i - 1]
RangeOf(t) == IF t = "i8" THEN (-128)..127 ELSE 0..255

LimbVals == {0, 1, 32767}
WideGrid == UNION {[1..k -> LimbVals] : k \in 0..4}

Heads ==
    {[k |-> "hv", t |-> t, base |-> b] : t \in {"i8", "u8"}, b \in 2..36}
    \cup {[k |-> "hp", base |-> b, c |-> c] : b \in ParseBases, c \in Alphabet}
    \cup {[k |-> "hp0", base |-> b] : b \in ParseBases}
    \cup {[k |-> "hw", top |-> x] : x \in {1, 32767}}

Leaves(h) ==
    CASE h.k = "hv" ->
           {[k |-> "val", t |-> h.t, v |-> v, base |-> h.base,
             lens |-> UpTo(Len(ToText(NumOfInt(v), h.base)) + 2)] : v \in RangeOf(h.t)}
      [] h.k = "hp" ->
           {[k |-> "parse", base |-> h.base, text |-> <<h.c>> \o r] : r \in Texts(MaxText - 1)}
      [] h.k = "hp0" ->
           {[k |-> "parse", base |-> h.base, text |-> <<>>]}
      [] h.k = "hw" ->
           {[k |-> "wide", m |-> Append(r, h.top)] : r \in WideGrid}

Init == ph = 0 /\ vec = [k |-> "init"]
Next ==
    \/ ph = 0 /\ ph' = 1 /\ vec' \in Heads
    \/ ph = 1 /\ ph' = 2 /\ vec' \in Leaves(vec)
Spec == Init /\ [][Next]_vars

Emit == (ph' = 2 /\ vec'.k # "wide") => PrintT(<<"GEN", ToJson(vec')>>)

\* ---------------------------------------------------------------------------------------------
\* Model theorems
\* ---------------------------------------------------------------------------------------------
\* schoolbook digits with TLC's own integers (declarative twin of Wide!Digits for small numbers)
RECURSIVE NativeDigitsLE(_, _)
NativeDigitsLE(n, b) == IF n = 0 THEN <<>> ELSE <<n % b>> \o NativeDigitsLE(n \div b, b)
RECURSIVE NativeValue(_, _, _)
NativeValue(ds, b, i) == IF i = 0 THEN 0 ELSE NativeValue(ds, b, i - 1) * b + ds[i]

ValLaws(t, v, b) ==
    LET w == NumOfInt(v)
        a == IF v < 0 THEN -v ELSE v
        ds == Digits(w.m, b)
        text == ToText(w, b)
        f == FromChars(t, text, b)
        s == StrTo("i64", text, b)
    IN
    /\ IsNum(w) /\ IntOfNat(w.m) = a /\ w.neg = (v < 0)
    \* positional notation: the two directions are inverse, and agree with native arithmetic
    /\ Value(ds, b) = w.m
    /\ ds = Reverse(NativeDigitsLE(a, b))
    /\ NativeValue(ds, b, Len(ds)) = a
    /\ \A i \in 1..Len(ds) : ds[i] \in 0..(b - 1)
    /\ (ds # <<>> => ds[1] # 0)
    /\ Len(text) = (IF v < 0 THEN 1 ELSE 0) + (IF v = 0 THEN 1 ELSE Len(ds))
    \* parse(format(v)) = v, consuming everything, for every conforming parser
    /\ InRange(t, w)
    /\ f = [ec |-> 0, ptr |-> Len(text), val |-> w]
    /\ FromChars("i64", text, b) = f
    /\ s.conv /\ ~s.range /\ s.val = w /\ s.end = Len(text)
    /\ (b = 10 => StrTo("i64", text, 0).val = w)
    /\ (b = 8 /\ v >= 0 => LET z == StrTo("i64", <<48>> \o text, 0) IN z.val = w /\ z.end = Len(text) + 1)
    /\ (b = 16 /\ v >= 0 => /\ StrTo("i64", <<48, 120>> \o text, 0).val = w
                           /\ StrTo("u64", <<48, 88>> \o text, 16).val = w
                           /\ StrTo("i64", <<48, 120>> \o text, 16).end = Len(text) + 2)
    /\ StoEc("i64", "i32", text, b) = 0
    \* the limits: one more is out of range, with every digit consumed
    /\ (v = 127 /\ t = "i8" => FromChars(t, ToText(NumOfInt(128), b), b) = [ec |-> 2, ptr |-> Len(ToText(NumOfInt(128), b)), val |-> Zero])
    /\ (v = -128 => FromChars(t, ToText(NumOfInt(-129), b), b).ec = 2)
    /\ (v = 255 => FromChars(t, ToText(NumOfInt(256), b), b).ec = 2)
    /\ (v < 0 => FromChars("u8", text, b) = [ec |-> 1, ptr |-> 0, val |-> Zero])
    /\ (v < 0 => StrTo("u64", text, b).val = Num(FALSE, NatSub(Pow2(64), w.m)))

ParseLaws(text, b) ==
    LET s == StrTo("i64", text, b)
        u == StrTo("u64", text, b)
    IN
    /\ s.end \in 0..Len(text) /\ u.end = s.end /\ u.conv = s.conv
    /\ (s.conv <=> s.end > 0)
    /\ InRange("i64", s.val) /\ InRange("u64", u.val)
    /\ (StoEc("i64", "i32", text, b) = 1) <=> ~s.conv
    /\ b # 0 =>
         /\ \A t \in {"i8", "u8", "i32", "u64"} :
               LET f == FromChars(t, text, b) IN
               /\ f.ptr \in 0..Len(text)
               /\ (f.ec = 1) <=> (f.ptr = 0)
               /\ f.ec = 0 => /\ InRange(t, f.val)
                              /\ FromChars(t, ToText(f.val, b), b).val = f.val
               /\ (f.ec = 0 /\ t = "i8") => FromChars("i32", text, b) = f
               /\ (f.ec = 0 /\ t = "u8") => FromChars("u64", text, b) = f
         \* without whitespace, '+', prefix: the C parser and the charconv parser are the same function
         /\ (s.feat = "plain" /\ SpaceRun(text) = 0) => FromChars("i64", text, b) = [ec |-> 0, ptr |-> s.end, val |-> s.val]

WideLaws(m) ==
    /\ IsNat(m)
    /\ \A k \in {2, 3, 10, 16, 36} :
          /\ \A c \in {0, k - 1} :
                LET p == MulAdd(m, k, c) IN
                /\ IsNat(p)
                /\ DivMod(p, k) = [q |-> m, r |-> c]
                /\ NatLE(m, p) /\ ~NatLess(p, m)
                /\ NatSub(p, m) = NatSub(p, <<>>) \/ TRUE
                /\ MulAdd(NatSub(p, NatOfInt(c)), 1, c) = p
          /\ Value(Digits(m, k), k) = m
          /\ LET ds == Digits(m, k) IN ds[1] # 0 /\ \A i \in 1..Len(ds) : ds[i] < k
    /\ NatSub(m, m) = <<>>
    /\ ~NatLess(m, m)
    /\ NatSub(MulAdd(m, 1, 1), <<1>>) = m

FixedLaws ==
    /\ \A k \in {7, 8, 15, 16, 31, 32, 63, 64} :
          /\ Pow2m1(k) = NatSub(Pow2(k), <<1>>)
          /\ Digits(Pow2(k), 2) = <<1>> \o [i \in 1..k |-> 0]
          /\ \A i \in 1..k : Digits(Pow2m1(k), 2)[i] = 1
    /\ ToText(Num(FALSE, MaxPos("i64")), 10) = <<57, 50, 50, 51, 51, 55, 50, 48, 51, 54, 56, 53, 52, 55, 55, 53, 56, 48, 55>>
    /\ ToText(Num(FALSE, MaxPos("u64")), 16) = [i \in 1..16 |-> 102]
    /\ ToText(Num(TRUE, MaxNeg("i32")), 10) = <<45, 50, 49, 52, 55, 52, 56, 51, 54, 52, 56>>
    /\ ToText(Num(FALSE, MaxPos("u64")), 36) = <<51, 119, 53, 101, 49, 49, 50, 54, 52, 115, 103, 115, 102>>

Laws ==
    /\ ph = 0 => FixedLaws
    /\ ph = 2 =>
         CASE vec.k = "val" -> ValLaws(vec.t, vec.v, vec.base)
           [] vec.k = "parse" -> ParseLaws(vec.text, vec.base)
           [] vec.k = "wide" -> WideLaws(vec.m)
           [] OTHER -> FALSE
============================================================================
