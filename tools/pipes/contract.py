"""C05 table part: spec/ContractOps.tla (documented preconditions outside the vector family),
spec/Contract.tla (enumeration), harness/contract_driver.cpp, spec/ContractTrace.tla."""
import json
import os
import vlib


def pipeline(tier, rep):
    r = vlib.tlc_mc("Contract.tla", "Contract.cfg", "contract_%s" % tier, workers=2, heap="2g")
    rep.add_mc("Contract", r)
    calls = r["gen"]
    d = vlib.workdir("contract")
    cp = os.path.join(d, "calls.ndjson")
    with open(cp, "w") as f:
        for c in calls:
            f.write(json.dumps(c) + "\n")
    nbad = sum(1 for c in calls if c["bad"])
    rep.cov["modules"]["Contract"].update({"calls": len(calls), "violating": nbad, "valid": len(calls) - nbad})
    rep.sample({"module": "Contract", "call": next(c for c in calls if c["bad"])})
    ub = ["-fsanitize=unreachable,return", "-fno-sanitize-recover=all"]   # see pipes/vector.py CONTRACT_FLAGS
    variants = [("checks", ub), ("safe", ub)]
    if tier == "thorough":
        variants += [("checks_asan", ["-fsanitize=address,undefined", "-fno-sanitize-recover=all", "-g"])]
    jobs = []
    for name, extra in variants:
        mode = "safe" if name == "safe" else "checks"
        macro = "-DTETL_ENABLE_CONTRACT_CHECKS_SAFE" if mode == "safe" else "-DTETL_ENABLE_CONTRACT_CHECKS"
        jobs.append(dict(src="contract_driver.cpp", out="contract_" + name,
                         flags=[macro, "-DTETL_ENABLE_CUSTOM_ASSERT_HANDLER", '-DVH_MODE="%s"' % mode] + extra))
    bins = vlib.build_many(jobs)
    traces = []
    skipped = set()
    for (name, _), b in zip(variants, bins):
        tp = os.path.join(d, "trace_%s.ndjson" % name)
        rc, err = vlib.run([b, cp], tp, env={"ASAN_OPTIONS": "detect_leaks=0"})
        skipped |= {" ".join(l.split()[:2]) for l in err.splitlines() if l.startswith("UNSUPPORTED")}
        traces.append(tp)
    tv = vlib.tv_parallel("ContractTrace.tla", "ContractTrace.cfg", traces, "contract_tv")
    rep.add_tv("Contract", tv, len(calls) * len(variants))
    rep.cov["modules"]["Contract"]["not_drivable"] = sorted(skipped)
    rep.cov["modules"]["Contract"]["build_modes"] = [v[0] for v in variants]
    return tv
