------------------------------ MODULE RatioOps ------------------------------
(* std::ratio [ratio.ratio], [ratio.arithmetic], [ratio.comparison] on small integers (property C15).    *)
(* A ratio value is [num, den]; ratio<N, D> denotes RNorm(N, D): num = sign(N)*sign(D)*|N|/gcd, den =     *)
(* |D|/gcd, with gcd(0, D) = |D| so that ratio<0, D> = 0/1.                                               *)
EXTENDS Integers

RAbs(x) == IF x < 0 THEN -x ELSE x
RSign(x) == IF x < 0 THEN -1 ELSE IF x > 0 THEN 1 ELSE 0
RECURSIVE RGcd(_, _)
RGcd(a, b) == IF b = 0 THEN a ELSE RGcd(b, a % b)         \* a, b >= 0

RNormPre(n, d) == d # 0
RNorm(n, d) == LET g == RGcd(RAbs(n), RAbs(d)) IN
    [num |-> RSign(n) * RSign(d) * (RAbs(n) \div g), den |-> RAbs(d) \div g]
IsNormal(r) == r.den > 0 /\ RGcd(RAbs(r.num), r.den) = 1

RatioOpsNames == {"ratio_add", "ratio_subtract", "ratio_multiply", "ratio_divide"}
RatioCmpNames == {"ratio_equal", "ratio_not_equal", "ratio_less", "ratio_less_equal", "ratio_greater", "ratio_greater_equal"}

\* operands are template arguments ratio<n1, d1>, ratio<n2, d2> (not necessarily in lowest terms: the members
\* num/den of the operands are)
ROpPre(op, n1, d1, n2, d2) == d1 # 0 /\ d2 # 0 /\ (op = "ratio_divide" => n2 # 0)
ROp(op, n1, d1, n2, d2) ==
    LET a == RNorm(n1, d1) b == RNorm(n2, d2) IN
    CASE op = "ratio_add" -> RNorm(a.num * b.den + b.num * a.den, a.den * b.den)
      [] op = "ratio_subtract" -> RNorm(a.num * b.den - b.num * a.den, a.den * b.den)
      [] op = "ratio_multiply" -> RNorm(a.num * b.num, a.den * b.den)
      [] op = "ratio_divide" -> RNorm(a.num * b.den, a.den * b.num)
RCmp(op, n1, d1, n2, d2) ==
    LET a == RNorm(n1, d1) b == RNorm(n2, d2)
        l == a.num * b.den r == b.num * a.den IN
    CASE op = "ratio_equal" -> a = b
      [] op = "ratio_not_equal" -> a # b
      [] op = "ratio_less" -> l < r
      [] op = "ratio_less_equal" -> l <= r
      [] op = "ratio_greater" -> l > r
      [] op = "ratio_greater_equal" -> l >= r
=============================================================================
