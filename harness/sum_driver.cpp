// Conformance driver for the sum types optional / optional<T&> / variant / expected (property C07).
// Executes scripts exported from spec/Sum.tla on the real templates and records one self-contained
// event per public call: {kind,alts,op,o,x,pre,post,ret,obs} (+ life events when an alternative is the
// Tracked element type; each object's storage is one cell).  The events are judged by
// spec/SumTrace.tla; this file contains no oracle and no comparison.
// The same source is built against libstdc++ (-DVH_STD -std=c++23) as the calibration run.
#include "common.hpp"

#include <functional>
#include <set>
#include <type_traits>
#include <utility>

#ifdef VH_STD
    #include <expected>
    #include <optional>
    #include <variant>
namespace lib = std;
#else
    #include <etl/expected.hpp>
    #include <etl/optional.hpp>
    #include <etl/utility.hpp>
    #include <etl/variant.hpp>
namespace lib = etl;
#endif

// Relational forms whose declaration is found by a requires-expression but whose body does not
// instantiate are detected by compile probes (tools/pipes/sum.py) and switched on with -DVP_...=1
#ifdef VH_STD
    #define VP_CMP_NULL_LE 1
    #define VP_CMP_NULL_GT 1
    #define VP_CMP_NULL_GE 1
    #define VP_CMP_NULL_R_LE 1
    #define VP_CMP_NULL_R_GT 1
    #define VP_CMP_NULL_R_GE 1
#endif
#ifdef VH_STD
    #define VP_VARIANT_REPEAT_CONV 1
#endif
#ifndef VP_VARIANT_REPEAT_CONV
    #define VP_VARIANT_REPEAT_CONV 0
#endif
#ifndef VP_CMP_NULL_LE
    #define VP_CMP_NULL_LE 0
#endif
#ifndef VP_CMP_NULL_GT
    #define VP_CMP_NULL_GT 0
#endif
#ifndef VP_CMP_NULL_GE
    #define VP_CMP_NULL_GE 0
#endif
#ifndef VP_CMP_NULL_R_LE
    #define VP_CMP_NULL_R_LE 0
#endif
#ifndef VP_CMP_NULL_R_GT
    #define VP_CMP_NULL_R_GT 0
#endif
#ifndef VP_CMP_NULL_R_GE
    #define VP_CMP_NULL_R_GE 0
#endif

using vh::json;
using vh::Tracked;
using Mono = lib::monostate;

namespace {

constexpr int NULLV = -99;
constexpr int NA    = -1;
constexpr int ILL   = -98; // type-based observer that is ill-formed for a repeated alternative type

// ---- type tags --------------------------------------------------------------------------------
template <typename T>
struct tag;
template <>
struct tag<int> {
    static constexpr char const* name = "int";
    static constexpr int code         = 1;
};
template <>
struct tag<bool> {
    static constexpr char const* name = "bool";
    static constexpr int code         = 2;
};
template <>
struct tag<Tracked> {
    static constexpr char const* name = "trk";
    static constexpr int code         = 3;
};
template <>
struct tag<Mono> {
    static constexpr char const* name = "mono";
    static constexpr int code         = 4;
};
template <>
struct tag<short> {
    static constexpr char const* name = "shrt";
    static constexpr int code         = 5;
};
template <>
struct tag<long> {
    static constexpr char const* name = "long";
    static constexpr int code         = 6;
};

inline int vo(int x) { return x; }
inline int vo(bool x) { return x ? 1 : 0; }
inline int vo(short x) { return x; }
inline int vo(long x) { return (int)x; }
inline int vo(Tracked const& x) { return x.v; }
inline int vo(Mono) { return 0; }

// small class type as referent of optional<T&>: for a class type the converting assignment optional<T&>::operator=(U&&)
// itself takes part (for a scalar it is constrained away and construction + copy assignment is used)
struct P {
    int v;
    explicit P(int x = 0) : v(x) { }
    friend auto operator==(P const& a, P const& b) -> bool = default;
    friend auto operator<=>(P const& a, P const& b) = default;
};
inline int vo(P const& x) { return x.v; }

template <typename T>
T mk(int v)
{
    if constexpr (std::is_same_v<T, Mono>) {
        return T{};
    } else if constexpr (std::is_same_v<T, bool>) {
        return v != 0;
    } else {
        return T(v);
    }
}
// constructor argument for an in-place construction of T (Tracked is built from an int in place)
template <typename T>
auto arg(int v)
{
    if constexpr (std::is_same_v<T, Tracked>) {
        return v;
    } else {
        return mk<T>(v);
    }
}

template <typename X>
constexpr int cat()
{
    using R = std::remove_reference_t<X>;
    if constexpr (std::is_lvalue_reference_v<X>) {
        return std::is_const_v<R> ? 2 : 1;
    } else {
        return std::is_const_v<R> ? 4 : 3;
    }
}

template <typename F>
void with_type(std::string const& t, F&& f)
{
    if (t == "int") { f(std::type_identity<int>{}); }
    else if (t == "bool") { f(std::type_identity<bool>{}); }
    else if (t == "trk") { f(std::type_identity<Tracked>{}); }
    else if (t == "mono") { f(std::type_identity<Mono>{}); }
    else if (t == "shrt") { f(std::type_identity<short>{}); }
    else if (t == "long") { f(std::type_identity<long>{}); }
    else {
        std::fprintf(stderr, "unknown type tag %s\n", t.c_str());
        std::exit(2);
    }
}

template <size_t N, typename F>
void with_index(size_t i, F&& f)
{
    [&]<size_t... I>(std::index_sequence<I...>) {
        ((i == I ? (f(std::integral_constant<size_t, I>{}), 0) : 0), ...);
    }(std::make_index_sequence<N>{});
}

template <size_t I, typename V>
decltype(auto) uget(V&& v)
{
#ifdef VH_STD
    return std::get<I>(std::forward<V>(v));
#else
    return etl::unchecked_get<I>(std::forward<V>(v));
#endif
}

// ---- reference semantics of optional<T&> for the calibration build (P2988) ----------------------
#ifdef VH_STD
template <typename T>
struct RefOpt {
    std::optional<std::reference_wrapper<T>> p;
    using VT = std::remove_cv_t<T>;

    RefOpt() = default;
    RefOpt(std::nullopt_t) { }
    template <typename U>
        requires(!std::is_same_v<std::remove_cvref_t<U>, RefOpt> && std::is_lvalue_reference_v<U>
                 && std::is_convertible_v<std::remove_reference_t<U>*, T*>)
    RefOpt(U&& u) : p(std::ref(static_cast<T&>(u)))
    {
    }
    template <typename U>
    explicit RefOpt(std::optional<U> const& rhs)
    {
        if (rhs.has_value()) { p = std::ref(static_cast<T&>(*rhs)); }
    }
    auto operator=(std::nullopt_t) -> RefOpt&
    {
        p.reset();
        return *this;
    }
    template <typename U>
        requires(!std::is_same_v<std::remove_cvref_t<U>, RefOpt> && std::is_lvalue_reference_v<U>
                 && std::is_convertible_v<std::remove_reference_t<U>*, T*>)
    auto operator=(U&& u) -> RefOpt&
    {
        p = std::ref(static_cast<T&>(u));
        return *this;
    }
    template <typename U>
        requires(std::is_lvalue_reference_v<U>)
    auto emplace(U&& u) -> T&
    {
        p = std::ref(static_cast<T&>(u));
        return p->get();
    }
    auto operator->() const -> T* { return &p->get(); }
    auto operator*() const -> T& { return p->get(); }
    explicit operator bool() const { return p.has_value(); }
    auto has_value() const -> bool { return p.has_value(); }
    auto value() const -> T& { return p.value().get(); }
    void reset() { p.reset(); }
    void swap(RefOpt& o) { std::swap(p, o.p); }
    friend void swap(RefOpt& a, RefOpt& b) { a.swap(b); }
    template <typename U>
    auto value_or(U&& u) const -> VT
    {
        return p ? p->get() : static_cast<VT>(std::forward<U>(u));
    }
    template <typename F>
    auto and_then(F&& f) const
    {
        using R = std::remove_cvref_t<std::invoke_result_t<F, T&>>;
        return p ? std::invoke(std::forward<F>(f), p->get()) : R{};
    }
    template <typename F>
    auto transform(F&& f) const
    {
        using R = std::optional<std::remove_cvref_t<std::invoke_result_t<F, T&>>>;
        return p ? R(std::invoke(std::forward<F>(f), p->get())) : R{};
    }
    template <typename F>
    auto or_else(F&& f) const -> RefOpt
    {
        return p ? *this : std::forward<F>(f)();
    }
    auto snap() const -> std::optional<VT> { return p ? std::optional<VT>(p->get()) : std::nullopt; }
    friend auto operator==(RefOpt const& a, RefOpt const& b) -> bool { return a.snap() == b.snap(); }
    friend auto operator<=>(RefOpt const& a, RefOpt const& b) { return a.snap() <=> b.snap(); }
    friend auto operator==(RefOpt const& a, std::nullopt_t) -> bool { return a.snap() == std::nullopt; }
    friend auto operator<=>(RefOpt const& a, std::nullopt_t) { return a.snap() <=> std::nullopt; }
    template <typename U>
        requires(std::is_arithmetic_v<U> || std::is_same_v<U, VT>)
    friend auto operator==(RefOpt const& a, U const& u) -> bool
    {
        return a.snap() == u;
    }
    template <typename U>
        requires(std::is_arithmetic_v<U> || std::is_same_v<U, VT>)
    friend auto operator<=>(RefOpt const& a, U const& u)
    {
        return a.snap() <=> u;
    }
};
template <typename T>
using OptRefT = RefOpt<T>;
#else
template <typename T>
using OptRefT = etl::optional<T&>;
#endif

// ---- instantiation descriptions ---------------------------------------------------------------
enum class Kind { optional, optref, variant, expected };

template <typename T>
struct OptionalKit {
    static constexpr Kind kind = Kind::optional;
    using V                    = lib::optional<T>;
    using VT                   = T;
    static constexpr bool tracked = std::is_same_v<T, Tracked>;
    static json alts() { return json::array({"none", tag<T>::name}); }
};
template <typename R>
struct OptRefKit {
    static constexpr Kind kind = Kind::optref;
    using V                    = OptRefT<R>;
    using VT                   = R;
    static constexpr bool tracked = false;
    static json alts() { return json::array({"none", "ref"}); }
};
template <typename... Ts>
struct VariantKit {
    static constexpr Kind kind = Kind::variant;
    using V                    = lib::variant<Ts...>;
    using VT                   = int;
    static constexpr size_t N  = sizeof...(Ts);
    static constexpr bool tracked = (std::is_same_v<Ts, Tracked> || ...);
    template <size_t I>
    using alt = std::tuple_element_t<I, std::tuple<Ts...>>;
    // type-based forms are well-formed only for an alternative type that occurs exactly once
    template <size_t I>
    static constexpr bool uniq = ((std::is_same_v<alt<I>, Ts> ? 1 : 0) + ...) == 1;
    static constexpr bool all_unique = []<size_t... I>(std::index_sequence<I...>) { return (uniq<I> && ...); }(std::make_index_sequence<sizeof...(Ts)>{});
    static json alts() { return json::array({tag<Ts>::name...}); }
};
template <typename T, typename E>
struct ExpectedKit {
    static constexpr Kind kind = Kind::expected;
    using V                    = lib::expected<T, E>;
    using VT                   = T;
    using ET                   = E;
    static constexpr bool tracked = std::is_same_v<T, Tracked> || std::is_same_v<E, Tracked>;
    static json alts() { return json::array({tag<T>::name, tag<E>::name}); }
};

#define VH_REL(expr) [](auto const& p, auto const& q) -> decltype(expr) { return expr; }

template <typename K>
struct Runner {
    using V                     = typename K::V;
    static constexpr Kind kind  = K::kind;
    static constexpr bool trk   = K::tracked;
    alignas(V) unsigned char store[2][sizeof(V)];
    V* ob[2];
    using RT = std::conditional_t<K::kind == Kind::optref, typename K::VT, int>;
    RT r[2]  = {RT(1), RT(2)}; // referents of optional<T&>
    std::string inst;
    long nev = 0, nskip = 0, ndiverged = 0;
    std::set<std::string> unsupported_seen;
    bool broken    = false;
    bool life_used = false;
    json ext_vals = json::array(), ext_end = json::array();
    std::string why;

    explicit Runner(std::string name) : inst(std::move(name))
    {
        for (int i = 0; i < 2; ++i) { ob[i] = new (store[i]) V(); }
    }
    ~Runner()
    {
        for (int i = 0; i < 2; ++i) { ob[i]->~V(); }
    }
    static int oi(std::string const& o) { return o == "a" ? 0 : 1; }
    static char const* kind_name()
    {
        return kind == Kind::optional ? "optional" : kind == Kind::optref ? "optref" : kind == Kind::variant ? "variant" : "expected";
    }
    void unsupported(std::string const& what)
    {
        if (unsupported_seen.insert(what).second) { std::fprintf(stderr, "UNSUPPORTED %s %s\n", inst.c_str(), what.c_str()); }
    }

    // ---- life window ------------------------------------------------------------------------------
    struct Guard {
        Runner& R;
        explicit Guard(Runner& rr) : R(rr)
        {
            if constexpr (trk) {
                vh::life().begin_window({{reinterpret_cast<char const*>(R.store[0]), sizeof(V), 1, 1},
                    {reinterpret_cast<char const*>(R.store[1]), sizeof(V), 1, 2}});
                R.ext_vals  = json::array();
                R.life_used = true;
            }
        }
        ~Guard()
        {
            if constexpr (trk) {
                vh::life().end_window();
                R.ext_end = json::array();
                for (auto c : vh::life().ext_live_at_start) { R.ext_end.push_back(c); }
            }
        }
        // declare a harness-owned object that is alive before (and after) the call
        void ext(Tracked const& t)
        {
            if constexpr (trk) {
                vh::life().declare_ext(&t);
                R.ext_vals.push_back({{"c", vh::life().cell(&t)}, {"v", t.v}});
            }
        }
        template <typename T>
        void ext(T const&)
        {
        }
        void ext(lib::optional<Tracked> const& so)
        {
            if (so.has_value()) { ext(*so); }
        }
    };

    // ---- projection (public observers only) ----------------------------------------------------------
    json project(V const& v) const
    {
        json s;
        if constexpr (kind == Kind::optional) {
            s["idx"] = v.has_value() ? 1 : 0;
            s["val"] = v.has_value() ? vo(*v) : 0;
        } else if constexpr (kind == Kind::optref) {
            s["idx"] = v.has_value() ? 1 : 0;
            int k    = 0;
            if (v.has_value()) {
                RT const* p = &*v;
                k            = p == &r[0] ? 1 : p == &r[1] ? 2 : 3;
            }
            s["val"] = k;
        } else if constexpr (kind == Kind::variant) {
            s["idx"] = (int)v.index();
            int x    = -77;
            with_index<K::N>(v.index(), [&](auto I) { x = vo(uget<decltype(I)::value>(v)); });
            s["val"] = x;
        } else {
            s["idx"] = v.has_value() ? 0 : 1;
            s["val"] = v.has_value() ? vo(*v) : vo(v.error());
        }
        return s;
    }
    json state() const
    {
        json s;
        s["a"] = project(*ob[0]);
        s["b"] = project(*ob[1]);
        s["r"] = json::array({vo(r[0]), vo(r[1])});
        return s;
    }

    template <typename A, typename B>
    json flags6(A const& a, B const& b, std::string const& what)
    {
        json f   = json::array();
        auto one = [&](auto fn, char const* nm) {
            if constexpr (requires { bool(fn(a, b)); }) {
                f.push_back(fn(a, b) ? 1 : 0);
            } else {
                f.push_back(NA);
                unsupported(what + "[" + nm + "]");
            }
        };
        one(VH_REL(p == q), "==");
        one(VH_REL(p != q), "!=");
        if constexpr (kind == Kind::expected) {
            for (int i = 0; i < 4; ++i) { f.push_back(NA); } // std::expected has no ordering
        } else {
            one(VH_REL(p < q), "<");
            one(VH_REL(p <= q), "<=");
            one(VH_REL(p > q), ">");
            one(VH_REL(p >= q), ">=");
        }
        return f;
    }

    json observe(V& v)
    {
        V const& cv = v;
        json o;
        if constexpr (kind == Kind::variant) {
            constexpr size_t N = K::N;
            o["idx"]           = (int)cv.index();
            json gi = json::array(), gic = json::array(), git = json::array(), holds = json::array();
            [&]<size_t... I>(std::index_sequence<I...>) {
                auto one = [&](auto Ic) {
                    constexpr size_t J = decltype(Ic)::value;
                    using A            = typename K::template alt<J>;
                    auto* p            = lib::get_if<J>(&v);
                    auto const* pc     = lib::get_if<J>(&cv);
                    gi.push_back(p ? vo(*p) : NULLV);
                    gic.push_back(pc ? vo(*pc) : NULLV);
                    if constexpr (K::template uniq<J>) {
                        auto* pt = lib::get_if<A>(&v);
                        git.push_back(pt ? vo(*pt) : NULLV);
                        holds.push_back(lib::holds_alternative<A>(cv) ? 1 : 0);
                    } else {
                        git.push_back(ILL);
                        holds.push_back(ILL);
                    }
                };
                (one(std::integral_constant<size_t, I>{}), ...);
            }(std::make_index_sequence<N>{});
            o["gi"]    = gi;
            o["gic"]   = gic;
            o["git"]   = git;
            o["holds"] = holds;
            with_index<N>(cv.index(), [&](auto Ic) {
                constexpr size_t J = decltype(Ic)::value;
                o["ug"]            = vo(uget<J>(cv));
#ifndef VH_STD
                if constexpr (requires { v[etl::index_v<J>]; }) { o["sub"] = vo(v[etl::index_v<J>]); }
#endif
            });
            {
                int tc = 0, xv = 0, ct = 0, n = 0;
                auto vis = [&](auto&& x) -> int {
                    using X = decltype(x);
                    tc      = tag<std::remove_cvref_t<X>>::code;
                    xv      = vo(x);
                    ct      = cat<X>();
                    ++n;
                    return 100 * tc + xv;
                };
                int res     = lib::visit(vis, v);
                o["visit"]  = json::array({tc, xv, ct, n, res});
                n           = 0;
                res         = lib::visit(vis, cv);
                o["visitc"] = json::array({tc, xv, ct, n, res});
            }
#ifndef VH_STD
            if constexpr (requires { etl::visit_with_index([](auto) { }, v); }) {
                int ix = -1, tc = 0, xv = 0, n = 0;
                etl::visit_with_index([&](auto p) {
                    ix = (int)p.index.value;
                    tc = tag<std::remove_cvref_t<decltype(p.value())>>::code;
                    xv = vo(p.value());
                    ++n;
                }, v);
                o["vwi"] = json::array({ix, tc, xv, n});
            }
#endif
        } else {
            o["has"]  = (bool)cv.has_value();
            o["bool"] = static_cast<bool>(cv);
            if (cv.has_value()) {
                auto const* p = cv.operator->(); // a null pointer is reported, not dereferenced
                o["arrow"]    = p ? vo(*p) : NULLV;
            }
        }
        return o;
    }
    json observe_all()
    {
        json o;
        o["a"] = observe(*ob[0]);
        o["b"] = observe(*ob[1]);
        V const& a = *ob[0];
        V const& b = *ob[1];
        o["cmp"]   = flags6(a, b, "cmp");
        if constexpr (kind == Kind::variant) {
            int ta = 0, va = 0, tb = 0, vb = 0, n = 0;
            lib::visit([&](auto const& x, auto const& y) {
                ta = tag<std::remove_cvref_t<decltype(x)>>::code;
                va = vo(x);
                tb = tag<std::remove_cvref_t<decltype(y)>>::code;
                vb = vo(y);
                ++n;
            }, a, b);
            o["v2"] = json::array({ta, va, tb, vb, n});
        }
        return o;
    }

    // ---- operations common to all kinds -------------------------------------------------------------
    bool apply_two(std::string const& op, V& v, V& src, bool& ok)
    {
        if (op == "ctor_copy") {
            Guard g(*this);
            v.~V();
            new (&v) V(std::as_const(src));
        } else if (op == "ctor_move") {
            Guard g(*this);
            v.~V();
            new (&v) V(std::move(src));
        } else if (op == "assign_copy") {
            Guard g(*this);
            v = std::as_const(src);
        } else if (op == "assign_move") {
            Guard g(*this);
            v = std::move(src);
        } else if (op == "swap") {
            if constexpr (requires { v.swap(src); }) {
                Guard g(*this);
                v.swap(src);
            } else { ok = false; }
        } else if (op == "fswap") {
            using lib::swap;
            if constexpr (requires { swap(v, src); }) {
                Guard g(*this);
                swap(v, src);
            } else { ok = false; }
        } else {
            return false;
        }
        return true;
    }

    // value construction / assignment from a value of source type S (lvalue or rvalue)
    template <typename S>
    void value_op(bool ctor, V& v, int xv, int m, bool& ok)
    {
        if (ctor) {
            if constexpr (requires(S& s) { V(s); V(std::move(s)); }) {
                S sv = mk<S>(xv);
                Guard g(*this);
                g.ext(sv);
                v.~V();
                if (m) { new (&v) V(std::move(sv)); } else { new (&v) V(sv); }
            } else { ok = false; }
        } else {
            if constexpr (requires(S& s) { v = s; v = std::move(s); }) {
                S sv = mk<S>(xv);
                Guard g(*this);
                g.ext(sv);
                if (m) { v = std::move(sv); } else { v = sv; }
            } else { ok = false; }
        }
    }

    bool apply(std::string const& op, int o, json const& x, json& ret)
    {
        V& v   = *ob[o];
        V& src = *ob[oi(x.value("src", std::string("a")))];
        int xv = x.value("v", 0), xi = x.value("i", 0), xd = x.value("d", 0), xsi = x.value("si", 0), xm = x.value("m", 0);
        std::string xt = x.value("t", std::string("int"));
        bool ok        = true;
        why            = op;
        ret            = json::array();
        if (apply_two(op, v, src, ok)) { return ok; }

        if constexpr (kind == Kind::optional) {
            using T = typename K::VT;
            if (op == "ctor_default") {
                Guard g(*this);
                v.~V();
                new (&v) V();
            } else if (op == "ctor_nullopt") {
                Guard g(*this);
                v.~V();
                new (&v) V(lib::nullopt);
            } else if (op == "assign_nullopt") {
                Guard g(*this);
                v = lib::nullopt;
            } else if (op == "reset") {
                Guard g(*this);
                v.reset();
            } else if (op == "ctor_value" || op == "assign_value") {
                why = op + ":" + xt;
                with_type(xt, [&](auto tt) { value_op<typename decltype(tt)::type>(op == "ctor_value", v, xv, xm, ok); });
            } else if (op == "assign_self") {
                // the source is a reference to the optional's own contained value
                if constexpr (requires { v = *v; }) {
                    Guard g(*this);
                    v = *v;
                } else { ok = false; }
            } else if (op == "ctor_inplace") {
                Guard g(*this);
                v.~V();
                new (&v) V(lib::in_place, arg<T>(xv));
            } else if (op == "emplace") {
                Guard g(*this);
                auto& rr = v.emplace(arg<T>(xv));
                ret.push_back(vo(rr));
            } else if (op == "ctor_conv_copy" || op == "ctor_conv_move" || op == "assign_conv_copy" || op == "assign_conv_move") {
                why = op + ":" + xt;
                with_type(xt, [&](auto tt) {
                    using U = typename decltype(tt)::type;
                    if constexpr (std::is_same_v<U, Mono>) {
                        ok = false;
                    } else {
                        using SO = lib::optional<U>;
                        if constexpr (requires(SO& s) { V(std::as_const(s)); V(std::move(s)); v = std::as_const(s); v = std::move(s); }) {
                            SO so;
                            if (xsi) { so.emplace(arg<U>(xv)); }
                            {
                                Guard g(*this);
                                g.ext(so);
                                if (op == "ctor_conv_copy") { v.~V(); new (&v) V(std::as_const(so)); }
                                else if (op == "ctor_conv_move") { v.~V(); new (&v) V(std::move(so)); }
                                else if (op == "assign_conv_copy") { v = std::as_const(so); }
                                else { v = std::move(so); }
                            }
                            ret.push_back(so.has_value() ? 1 : 0);
                            ret.push_back(so.has_value() ? vo(*so) : 0);
                        } else { ok = false; }
                    }
                });
            } else if (op == "value_or") {
                Guard g(*this);
                ret.push_back(vo(std::as_const(v).value_or(mk<T>(xd))));
            } else if (op == "value_or_mv") {
                Guard g(*this);
                ret.push_back(vo(std::move(v).value_or(mk<T>(xd))));
            } else if (op == "and_then") {
                int calls = 0, a0 = 0;
                auto F    = [&](T const& t) {
                    ++calls;
                    a0 = vo(t);
                    return vo(t) == 1 ? lib::optional<int>{} : lib::optional<int>{vo(t) + 10};
                };
                if constexpr (requires { v.and_then(F); std::as_const(v).and_then(F); }) {
                    Guard g(*this);
                    auto rr = v.and_then(F);
                    ret     = json::array({rr.has_value() ? 1 : 0, rr.has_value() ? *rr : 0, calls, a0});
                    calls = a0 = 0;
                    auto rc = std::as_const(v).and_then(F); // const& overload
                    for (int e : {rc.has_value() ? 1 : 0, rc.has_value() ? *rc : 0, calls, a0}) { ret.push_back(e); }
                } else { ok = false; }
            } else if (op == "or_else") {
                int calls = 0;
                auto G    = [&]() {
                    ++calls;
                    return V(lib::in_place, arg<T>(1));
                };
                if constexpr (requires { std::as_const(v).or_else(G); }) {
                    Guard g(*this);
                    auto rr = std::as_const(v).or_else(G);
                    ret     = json::array({rr.has_value() ? 1 : 0, rr.has_value() ? vo(*rr) : 0, calls, 0});
                } else { ok = false; }
            } else if (op == "transform") {
                int calls = 0, a0 = 0;
                auto H    = [&](T const& t) {
                    ++calls;
                    a0 = vo(t);
                    return vo(t) + 5;
                };
                if constexpr (requires { v.transform(H); }) {
                    Guard g(*this);
                    auto rr = v.transform(H);
                    ret     = json::array({rr.has_value() ? 1 : 0, rr.has_value() ? *rr : 0, calls, a0});
                } else { ok = false; }
            } else if (op == "deref") {
                Guard g(*this);
                ret.push_back(vo(*v));
            } else if (op == "arrow") {
                Guard g(*this);
                auto* p = v.operator->();
                ret.push_back(p ? vo(*p) : NULLV);
            } else if (op == "value") {
                if constexpr (requires { v.value(); }) {
                    Guard g(*this);
                    ret.push_back(vo(v.value()));
                } else { ok = false; }
            } else if (op == "deref_mv") {
                Guard g(*this);
                T tmp(*std::move(v));
                ret.push_back(vo(tmp));
            } else if (op == "cmp_value" || op == "cmp_value_r") {
                why = op + ":" + xt;
                with_type(xt, [&](auto tt) {
                    using S = typename decltype(tt)::type;
                    if constexpr (std::is_same_v<S, Mono>) {
                        ok = false;
                    } else {
                        S sv = mk<S>(xv);
                        Guard g(*this);
                        g.ext(sv);
                        ret = op == "cmp_value" ? flags6(std::as_const(v), sv, why) : flags6(sv, std::as_const(v), why);
                    }
                });
            } else if (op == "cmp_null" || op == "cmp_null_r") {
                ret = cmp_null(std::as_const(v), op == "cmp_null_r");
            } else if (op == "cmp_mixed" || op == "cmp_mixed_r") {
                why = op + ":" + xt;
                with_type(xt, [&](auto tt) {
                    using U = typename decltype(tt)::type;
                    if constexpr (std::is_same_v<U, Mono>) {
                        ok = false;
                    } else {
                        lib::optional<U> so;
                        if (xsi) { so.emplace(arg<U>(xv)); }
                        Guard g(*this);
                        g.ext(so);
                        ret = op == "cmp_mixed" ? flags6(std::as_const(v), std::as_const(so), why)
                                                : flags6(std::as_const(so), std::as_const(v), why);
                    }
                });
            } else {
                ok = false;
            }
        } else if constexpr (kind == Kind::optref) {
            static RT one_ref(1);
            if (op == "ctor_default") {
                v.~V();
                new (&v) V();
            } else if (op == "ctor_nullopt") {
                v.~V();
                new (&v) V(lib::nullopt);
            } else if (op == "assign_nullopt") {
                v = lib::nullopt;
            } else if (op == "reset") {
                v.reset();
            } else if (op == "ctor_value") {
                v.~V();
                new (&v) V(r[xv - 1]);
            } else if (op == "assign_value") {
                v = r[xv - 1];
            } else if (op == "emplace") {
                v.emplace(r[xv - 1]);
                ret.push_back(v.has_value() ? vo(*v) : 0);
            } else if (op == "deref") {
                ret.push_back(vo(*std::as_const(v)));
            } else if (op == "arrow") {
                auto* p = std::as_const(v).operator->();
                ret.push_back(p ? vo(*p) : NULLV);
            } else if (op == "value") {
                if constexpr (requires { v.value(); }) { ret.push_back(vo(v.value())); } else { ok = false; }
            } else if (op == "write_through") {
                *v = RT(xv);
                ret.push_back(xv);
            } else if (op == "value_or") {
                RT dd(xd);
                if constexpr (requires { v.value_or(dd); }) { ret.push_back(vo(v.value_or(dd))); } else { ok = false; }
            } else if (op == "and_then") {
                int calls = 0, a0 = 0;
                auto F    = [&](RT& t) {
                    ++calls;
                    a0 = vo(t);
                    return vo(t) == 1 ? lib::optional<int>{} : lib::optional<int>{vo(t) + 10};
                };
                if constexpr (requires { v.and_then(F); }) {
                    auto rr = v.and_then(F);
                    ret     = json::array({rr.has_value() ? 1 : 0, rr.has_value() ? *rr : 0, calls, a0});
                } else { ok = false; }
            } else if (op == "or_else") {
                int calls = 0;
                auto G    = [&]() {
                    ++calls;
                    return V(one_ref);
                };
                if constexpr (requires { v.or_else(G); }) {
                    auto rr = v.or_else(G);
                    ret     = json::array({rr.has_value() ? 1 : 0, rr.has_value() ? vo(*rr) : 0, calls, 0});
                } else { ok = false; }
            } else if (op == "transform") {
                int calls = 0, a0 = 0;
                auto H    = [&](RT& t) {
                    ++calls;
                    a0 = vo(t);
                    return vo(t) + 5;
                };
                if constexpr (requires { v.transform(H); }) {
                    auto rr = v.transform(H);
                    ret     = json::array({rr.has_value() ? 1 : 0, rr.has_value() ? *rr : 0, calls, a0});
                } else { ok = false; }
            } else if (op == "cmp_value" || op == "cmp_value_r") {
                RT sv(xv);
                ret    = op == "cmp_value" ? flags6(std::as_const(v), sv, op) : flags6(sv, std::as_const(v), op);
            } else if (op == "cmp_null" || op == "cmp_null_r") {
                ret = cmp_null(std::as_const(v), op == "cmp_null_r");
            } else if (op == "conv_ref") {
                // optional<T const&> from a (possibly disengaged) optional<T> const&
                using CR = OptRefT<RT const>;
                lib::optional<RT> const so = xsi ? lib::optional<RT>(RT(xv)) : lib::optional<RT>();
                if constexpr (requires { CR(so); }) {
                    CR c(so);
                    ret.push_back(c.has_value() ? 1 : 0);
                    // never read through a binding to a disengaged source (no object lives there)
                    ret.push_back(c.has_value() && so.has_value() ? vo(*c) : 0);
                } else { ok = false; }
            } else {
                ok = false;
            }
        } else if constexpr (kind == Kind::variant) {
            constexpr size_t N = K::N;
            if (op == "ctor_default") {
                Guard g(*this);
                v.~V();
                new (&v) V();
            } else if (op == "ctor_value" || op == "assign_value") {
                why = op + ":" + xt;
                // with a repeated alternative type even *asking* whether the converting constructor is viable may be a
                // hard error (measured by a compile probe)
                if constexpr (K::all_unique || VP_VARIANT_REPEAT_CONV) {
                    with_type(xt, [&](auto tt) { value_op<typename decltype(tt)::type>(op == "ctor_value", v, xv, xm, ok); });
                } else { ok = false; }
            } else if (op == "assign_self") {
                // the source is a reference to the variant's own currently held alternative
                if constexpr (K::all_unique || VP_VARIANT_REPEAT_CONV) {
                    with_index<N>(v.index(), [&](auto Ic) {
                        constexpr size_t I = decltype(Ic)::value;
                        if constexpr (requires { v = uget<I>(v); }) {
                            Guard g(*this);
                            v = uget<I>(v);
                        } else { ok = false; }
                    });
                } else { ok = false; }
            } else if (op == "ctor_inplace" || op == "ctor_inplace_t" || op == "emplace" || op == "emplace_t") {
                with_index<N>((size_t)xi, [&](auto Ic) {
                    constexpr size_t I = decltype(Ic)::value;
                    using A            = typename K::template alt<I>;
                    constexpr bool U   = K::template uniq<I>;
                    bool typed         = op == "ctor_inplace_t" || op == "emplace_t";
                    if (typed && !U) {
                        ok = false;
                        return;
                    }
                    Guard g(*this);
                    if constexpr (std::is_same_v<A, Mono>) {
                        if (op == "ctor_inplace") { v.~V(); new (&v) V(lib::in_place_index<I>); }
                        else if (op == "emplace") { ret.push_back(vo(v.template emplace<I>())); }
                        else if constexpr (U) {
                            if (op == "ctor_inplace_t") { v.~V(); new (&v) V(lib::in_place_type<A>); }
                            else { ret.push_back(vo(v.template emplace<A>())); }
                        }
                    } else {
                        if (op == "ctor_inplace") { v.~V(); new (&v) V(lib::in_place_index<I>, arg<A>(xv)); }
                        else if (op == "emplace") { ret.push_back(vo(v.template emplace<I>(arg<A>(xv)))); }
                        else if constexpr (U) {
                            if (op == "ctor_inplace_t") { v.~V(); new (&v) V(lib::in_place_type<A>, arg<A>(xv)); }
                            else { ret.push_back(vo(v.template emplace<A>(arg<A>(xv)))); }
                        }
                    }
                });
            } else if (op == "visit_het" || op == "vwi_het") {
                // visit / visit_with_index over two variants of DIFFERENT types (different numbers of alternatives):
                // the object and a harness-owned variant H3 / H4 in state (x.i, x.v), in both argument orders
                auto go = [&](auto hid) {
                    using H = typename decltype(hid)::type;
                    with_index<lib::variant_size_v<H>>((size_t)xi, [&](auto Ic) {
                        constexpr size_t I = decltype(Ic)::value;
                        using A            = lib::variant_alternative_t<I, H>;
                        H hv               = [&] {
                            if constexpr (std::is_same_v<A, Mono>) { return H(lib::in_place_index<I>); } else { return H(lib::in_place_index<I>, arg<A>(xv)); }
                        }();
                        Guard g(*this);
                        g.ext(uget<I>(hv));
                        int a1 = -1, v1 = 0, a2 = -1, v2 = 0, n = 0;
                        if (op == "visit_het") {
                            auto vis = [&](auto const& p1, auto const& p2) {
                                a1 = tag<std::remove_cvref_t<decltype(p1)>>::code;
                                v1 = vo(p1);
                                a2 = tag<std::remove_cvref_t<decltype(p2)>>::code;
                                v2 = vo(p2);
                                ++n;
                            };
                            if (xsi == 0) { lib::visit(vis, std::as_const(v), std::as_const(hv)); } else { lib::visit(vis, std::as_const(hv), std::as_const(v)); }
                            ret = json::array({a1, v1, a2, v2, n});
                        } else {
#ifndef VH_STD
                            auto vis = [&](auto p1, auto p2) {
                                a1 = (int)p1.index.value;
                                v1 = vo(p1.value());
                                a2 = (int)p2.index.value;
                                v2 = vo(p2.value());
                                ++n;
                            };
                            if constexpr (requires { etl::visit_with_index(vis, std::as_const(v), std::as_const(hv)); }) {
                                if (xsi == 0) { etl::visit_with_index(vis, std::as_const(v), std::as_const(hv)); }
                                else { etl::visit_with_index(vis, std::as_const(hv), std::as_const(v)); }
                                ret = json::array({a1, v1, a2, v2, n});
                            } else { ok = false; }
#else
                            ok = false;
#endif
                        }
                    });
                };
                if (xt == "h3") { go(std::type_identity<lib::variant<int, bool, Tracked>>{}); }
                else { go(std::type_identity<lib::variant<int, bool, Tracked, Mono>>{}); }
            } else if (op == "visit_mv") {
                Guard g(*this);
                int tc = 0, x0 = 0, ct = 0, n = 0;
                int res = lib::visit([&](auto&& xx) -> int {
                    using X = decltype(xx);
                    using A = std::remove_cvref_t<X>;
                    tc      = tag<A>::code;
                    ct      = cat<X>();
                    A tmp(std::forward<X>(xx));
                    x0 = vo(tmp);
                    ++n;
                    return 100 * tc + x0;
                }, std::move(v));
                ret = json::array({tc, x0, ct, n, res});
            } else {
                ok = false;
            }
        } else {
            using T = typename K::VT;
            using E = typename K::ET;
            if (op == "ctor_default") {
                Guard g(*this);
                v.~V();
                new (&v) V();
            } else if (op == "ctor_value" || op == "assign_value") {
                why = op + ":" + xt;
                with_type(xt, [&](auto tt) { value_op<typename decltype(tt)::type>(op == "ctor_value", v, xv, xm, ok); });
            } else if (op == "assign_self") {
                if constexpr (requires { v = *v; }) {
                    Guard g(*this);
                    v = *v;
                } else { ok = false; }
            } else if (op == "ctor_unexpected" || op == "assign_unexpected") {
                why = op + ":" + xt;
                with_type(xt, [&](auto tt) {
                    using S = typename decltype(tt)::type;
                    using U = lib::unexpected<S>;
                    if constexpr (std::is_same_v<S, Mono>) {
                        ok = false;
                    } else if (op == "ctor_unexpected") {
                        if constexpr (requires(U& u) { V(u); V(std::move(u)); }) {
                            U ux(mk<S>(xv));
                            Guard g(*this);
                            g.ext(ux.error());
                            v.~V();
                            if (xm) { new (&v) V(std::move(ux)); } else { new (&v) V(ux); }
                        } else { ok = false; }
                    } else {
                        if constexpr (requires(U& u) { v = u; v = std::move(u); }) {
                            U ux(mk<S>(xv));
                            Guard g(*this);
                            g.ext(ux.error());
                            if (xm) { v = std::move(ux); } else { v = ux; }
                        } else { ok = false; }
                    }
                });
            } else if (op == "ctor_inplace") {
                Guard g(*this);
                v.~V();
                if (xi == 0) { new (&v) V(lib::in_place, arg<T>(xv)); } else { new (&v) V(lib::unexpect, arg<E>(xv)); }
            } else if (op == "emplace") {
                // expected::emplace wants a nothrow construction: hand over an rvalue T (noexcept move)
                Guard g(*this);
                auto& rr = v.emplace(mk<T>(xv));
                ret.push_back(vo(rr));
            } else if (op == "value_or") {
                Guard g(*this);
                ret.push_back(vo(std::as_const(v).value_or(mk<T>(xd))));
            } else if (op == "value_or_mv") {
                Guard g(*this);
                ret.push_back(vo(std::move(v).value_or(mk<T>(xd))));
            } else if (op == "error_or") {
                if constexpr (requires { std::as_const(v).error_or(mk<E>(xd)); }) {
                    Guard g(*this);
                    ret.push_back(vo(std::as_const(v).error_or(mk<E>(xd))));
                } else { ok = false; }
            } else if (op == "and_then") {
                int calls = 0, a0 = 0;
                using R   = lib::expected<int, E>;
                auto F    = [&](T const& t) {
                    ++calls;
                    a0 = vo(t);
                    return vo(t) == 1 ? R(lib::unexpect, arg<E>(7)) : R(lib::in_place, vo(t) + 10);
                };
                if constexpr (requires { v.and_then(F); std::as_const(v).and_then(F); }) {
                    Guard g(*this);
                    auto rr = v.and_then(F);
                    ret     = json::array({rr.has_value() ? 0 : 1, rr.has_value() ? *rr : vo(rr.error()), calls, a0});
                    calls = a0 = 0;
                    auto rc = std::as_const(v).and_then(F); // const& overload
                    for (int e : {rc.has_value() ? 0 : 1, rc.has_value() ? *rc : vo(rc.error()), calls, a0}) { ret.push_back(e); }
                } else { ok = false; }
            } else if (op == "or_else") {
                int calls = 0, a0 = 0;
                using R   = lib::expected<T, int>;
                auto G    = [&](E const& e) {
                    ++calls;
                    a0 = vo(e);
                    return vo(e) == 1 ? R(lib::unexpect, 8) : R(lib::in_place, arg<T>(1));
                };
                if constexpr (requires { v.or_else(G); std::as_const(v).or_else(G); }) {
                    Guard g(*this);
                    auto rr = v.or_else(G);
                    ret     = json::array({rr.has_value() ? 0 : 1, rr.has_value() ? vo(*rr) : rr.error(), calls, a0});
                    calls = a0 = 0;
                    auto rc = std::as_const(v).or_else(G); // const& overload
                    for (int e : {rc.has_value() ? 0 : 1, rc.has_value() ? vo(*rc) : rc.error(), calls, a0}) { ret.push_back(e); }
                } else { ok = false; }
            } else if (op == "transform") {
                int calls = 0, a0 = 0;
                auto H    = [&](T const& t) {
                    ++calls;
                    a0 = vo(t);
                    return vo(t) + 5;
                };
                if constexpr (requires { v.transform(H); }) {
                    Guard g(*this);
                    auto rr = v.transform(H);
                    ret     = json::array({rr.has_value() ? 0 : 1, rr.has_value() ? *rr : vo(rr.error()), calls, a0});
                } else { ok = false; }
            } else if (op == "transform_error") {
                int calls = 0, a0 = 0;
                auto H    = [&](E const& e) {
                    ++calls;
                    a0 = vo(e);
                    return vo(e) + 5;
                };
                if constexpr (requires { v.transform_error(H); }) {
                    Guard g(*this);
                    auto rr = v.transform_error(H);
                    ret     = json::array({rr.has_value() ? 0 : 1, rr.has_value() ? vo(*rr) : rr.error(), calls, a0});
                } else { ok = false; }
            } else if (op == "deref") {
                Guard g(*this);
                ret.push_back(vo(*v));
            } else if (op == "arrow") {
                Guard g(*this);
                auto* p = v.operator->();
                ret.push_back(p ? vo(*p) : NULLV);
            } else if (op == "value") {
                if constexpr (requires { v.value(); }) {
                    Guard g(*this);
                    ret.push_back(vo(v.value()));
                } else { ok = false; }
            } else if (op == "error") {
                Guard g(*this);
                ret.push_back(vo(v.error()));
            } else if (op == "deref_mv") {
                Guard g(*this);
                T tmp(*std::move(v));
                ret.push_back(vo(tmp));
            } else if (op == "error_mv") {
                Guard g(*this);
                E tmp(std::move(v).error());
                ret.push_back(vo(tmp));
            } else if (op == "cmp_value") {
                why = op + ":" + xt;
                with_type(xt, [&](auto tt) {
                    using S = typename decltype(tt)::type;
                    if constexpr (std::is_same_v<S, Mono>) {
                        ok = false;
                    } else {
                        S sv = mk<S>(xv);
                        Guard g(*this);
                        g.ext(sv);
                        ret = flags6(std::as_const(v), sv, why);
                    }
                });
            } else if (op == "unex") {
                // lib::unexpected<E> on its own: error(), ==, swap
                using U = lib::unexpected<E>;
                U u1(mk<E>(xv)), u2(mk<E>(xd));
                Guard g(*this);
                g.ext(u1.error());
                g.ext(u2.error());
                ret.push_back(vo(std::as_const(u1).error()));
                ret.push_back((u1 == u2) ? 1 : 0);
                using lib::swap;
                swap(u1, u2);
                ret.push_back(vo(u1.error()));
                ret.push_back(vo(u2.error()));
            } else if (op == "cmp_unexpected") {
                why = op + ":" + xt;
                with_type(xt, [&](auto tt) {
                    using S = typename decltype(tt)::type;
                    if constexpr (std::is_same_v<S, Mono>) {
                        ok = false;
                    } else {
                        lib::unexpected<S> ux(mk<S>(xv));
                        Guard g(*this);
                        g.ext(ux.error());
                        ret = flags6(std::as_const(v), std::as_const(ux), why);
                    }
                });
            } else {
                ok = false;
            }
        }
        return ok;
    }

    json cmp_null(V const& v, bool rev)
    {
        json f = json::array();
        if (!rev) {
            f.push_back((v == lib::nullopt) ? 1 : 0);
            f.push_back((v != lib::nullopt) ? 1 : 0);
            f.push_back((v < lib::nullopt) ? 1 : 0);
#if VP_CMP_NULL_LE
            f.push_back((v <= lib::nullopt) ? 1 : 0);
#else
            f.push_back(NA);
            unsupported("cmp_null[<=]");
#endif
#if VP_CMP_NULL_GT
            f.push_back((v > lib::nullopt) ? 1 : 0);
#else
            f.push_back(NA);
            unsupported("cmp_null[>]");
#endif
#if VP_CMP_NULL_GE
            f.push_back((v >= lib::nullopt) ? 1 : 0);
#else
            f.push_back(NA);
            unsupported("cmp_null[>=]");
#endif
        } else {
            f.push_back((lib::nullopt == v) ? 1 : 0);
            f.push_back((lib::nullopt != v) ? 1 : 0);
            f.push_back((lib::nullopt < v) ? 1 : 0);
#if VP_CMP_NULL_R_LE
            f.push_back((lib::nullopt <= v) ? 1 : 0);
#else
            f.push_back(NA);
            unsupported("cmp_null_r[<=]");
#endif
#if VP_CMP_NULL_R_GT
            f.push_back((lib::nullopt > v) ? 1 : 0);
#else
            f.push_back(NA);
            unsupported("cmp_null_r[>]");
#endif
#if VP_CMP_NULL_R_GE
            f.push_back((lib::nullopt >= v) ? 1 : 0);
#else
            f.push_back(NA);
            unsupported("cmp_null_r[>=]");
#endif
        }
        return f;
    }

    void step(std::string const& op, std::string const& o, json const& x)
    {
        json ev;
        ev["kind"] = kind_name();
        ev["alts"] = K::alts();
        ev["op"]   = op;
        ev["o"]    = o;
        ev["x"]    = x;
        ev["pre"]  = state();
        // Never make a call whose precondition does not hold in the *actual* state (undefined behaviour).
        // That only happens when an earlier call of this script deviated (already recorded in its own
        // event): the rest of the script no longer means what the model planned, so it is dropped.
        {
            int idx      = ev["pre"][o]["idx"].get<int>();
            bool engaged = kind == Kind::expected ? idx == 0 : idx == 1;
            bool need_e  = op == "deref" || op == "arrow" || op == "value" || op == "deref_mv" || op == "write_through";
            bool need_n  = op == "error" || op == "error_mv";
            if (kind != Kind::variant && ((need_e && !engaged) || (need_n && engaged))) {
                ++ndiverged;
                broken = true;
                std::fprintf(stderr, "DIVERGED %s %s\n", inst.c_str(), op.c_str());
                return;
            }
        }
        json ret;
        life_used = false;
        bool ok   = apply(op, oi(o), x, ret);
        if (!ok) {
            ++nskip;
            broken = true;
            unsupported(why);
            return;
        }
        ev["post"] = state();
        ev["ret"]  = ret;
        ev["obs"]  = observe_all();
        if constexpr (trk) {
            if (life_used) {
                json l;
                l["evs"]    = vh::life().events;
                l["ext"]    = ext_vals;
                l["extend"] = ext_end;
                ev["life"]  = l;
            }
        }
        ev["inst"] = inst;
        vh::emit(ev);
        ++nev;
    }

    void reset()
    {
        for (int i = 0; i < 2; ++i) {
            ob[i]->~V();
            ob[i] = new (store[i]) V();
        }
        r[0] = RT(1);
        r[1] = RT(2);
    }

    void replay(std::vector<json> const& script)
    {
        for (auto const& ln : script) {
            if (ln.contains("reset")) {
                reset();
                broken = false;
                continue;
            }
            if (broken) { continue; } // an earlier call of this script is not provided: the state is not the planned one
            step(ln["op"].get<std::string>(), ln["o"].get<std::string>(), ln["x"]);
        }
    }
};

template <typename K>
int run_one(std::string const& inst, std::string const& script)
{
    long before = vh::live_count();
    long nev = 0, nskip = 0;
    {
        Runner<K> r(inst);
        r.replay(vh::read_ndjson(script));
        r.reset();
        nev   = r.nev;
        nskip = r.nskip;
    }
    std::fprintf(stderr, "SUMMARY inst=%s events=%ld unsupported=%ld live_delta=%ld\n", inst.c_str(), nev, nskip,
        vh::live_count() - before);
    return 0;
}

} // namespace

// usage: sum_driver replay <inst> <script>
int main(int argc, char** argv)
{
    if (argc < 4 || std::string(argv[1]) != "replay") {
        std::fprintf(stderr, "usage: sum_driver replay <inst> <script>\n");
        return 2;
    }
    std::string inst = argv[2], script = argv[3];
#if !defined(VH_GROUP) || VH_GROUP == 1
    if (inst == "opt_int") { return run_one<OptionalKit<int>>(inst, script); }
    if (inst == "opt_trk") { return run_one<OptionalKit<Tracked>>(inst, script); }
    if (inst == "opt_bool") { return run_one<OptionalKit<bool>>(inst, script); }
    if (inst == "optref") { return run_one<OptRefKit<int>>(inst, script); }
    if (inst == "optref_p") { return run_one<OptRefKit<P>>(inst, script); }
#endif
#if !defined(VH_GROUP) || VH_GROUP == 2
    if (inst == "var_it") { return run_one<VariantKit<int, Tracked>>(inst, script); }
    if (inst == "var_ib") { return run_one<VariantKit<int, bool>>(inst, script); }
    if (inst == "var_bt") { return run_one<VariantKit<bool, Tracked>>(inst, script); }
#endif
#if !defined(VH_GROUP) || VH_GROUP == 3
    if (inst == "var_mit") { return run_one<VariantKit<Mono, int, Tracked>>(inst, script); }
    if (inst == "var_ibtm") { return run_one<VariantKit<int, bool, Tracked, Mono>>(inst, script); }
#endif
#if !defined(VH_GROUP) || VH_GROUP == 4
    if (inst == "exp_ii") { return run_one<ExpectedKit<int, int>>(inst, script); }
    if (inst == "exp_ti") { return run_one<ExpectedKit<Tracked, int>>(inst, script); }
    if (inst == "exp_it") { return run_one<ExpectedKit<int, Tracked>>(inst, script); }
#endif
#if !defined(VH_GROUP) || VH_GROUP == 5
    // repeated alternative types: assignment / swap between DIFFERENT indices of the SAME type must change the index
    if (inst == "var_tt") { return run_one<VariantKit<Tracked, Tracked>>(inst, script); }
    if (inst == "var_iit") { return run_one<VariantKit<int, int, Tracked>>(inst, script); }
    if (inst == "exp_tt") { return run_one<ExpectedKit<Tracked, Tracked>>(inst, script); }
#endif
    std::fprintf(stderr, "instantiation %s not compiled in\n", inst.c_str());
    return 2;
}
