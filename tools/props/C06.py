"""C06 - algorithms return exactly what the standard specifies for every input."""
from pipes import algo


def run(tier, rep):
    algo.pipeline(tier, rep)
    rep.assumptions += [
        "elements are (key, tag) identities over a 3-value key alphabet; predicates/comparators look at the key only "
        "(less, greater, less-modulo-2, equal, equal-modulo-2, key==k, key odd)",
        "every range is embedded in a canary-padded buffer, so sub-ranges [first,last) of a larger array are covered by "
        "running the algorithm on every sequence as the whole range (content outside the range = canaries)",
        "first ranges up to length 5 (thorough 6); with a needle / second range the bounds MaxA2, MaxLen2, MaxPair of "
        "tools/pipes/algo.py apply; 3-iterator overloads get a second range of exactly the same length",
        "inputs violating a standard precondition (unsorted input of the binary-search/set family, negative shift, "
        "hi < lo for clamp, count > size for *_n) are outside the domain",
        "reduce / transform_reduce are driven with commutative+associative reductions only (GENERALIZED_SUM)",
        "the TLA+ reading of the standard is calibrated against libstdc++ on the identical calls (zero deviations "
        "required); tetl's non-standard sorts are calibrated on std::sort / std::stable_sort",
    ]
