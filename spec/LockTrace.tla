---------------------------- MODULE LockTrace ----------------------------
(* Trace validation for the lock wrappers: every event recorded from the real templates                 *)
(* ([op, w, x, pre, post, ret, calls, outcome, code]) is judged by the operators of LockOps.  Each event  *)
(* is judged from its own logged pre-state.  Scripts are delimited by {"op":"reset"}; once an event of a   *)
(* script deviates, the remaining events of that script start from a state the model never planned and    *)
(* are passed over (the first deviation is what gets reported).                                          *)
EXTENDS LockOps, Json, IOUtils, TLC

Tr == ndJsonDeserialize(IOEnv.TRACE)

VARIABLES l, nbad, dirty

\* the logged state carries one more observer per wrapper: b = operator bool
Proj(s) == [mx |-> s.mx,
            w |-> [n \in DOMAIN s.w |-> [live |-> s.w[n].live, m |-> s.w[n].m, owns |-> s.w[n].owns]],
            g |-> [live |-> s.g.live, m |-> s.g.m]]

BoolObsOK(s) == \A n \in DOMAIN s.w : s.w[n].b = s.w[n].owns

\* sequence of deviation kinds of one event (empty = conforms)
Judge(ev) ==
    LET pre == Proj(ev.pre) post == Proj(ev.post) IN
    IF ~StateOK(pre) THEN <<"harness-state">>
    ELSE IF ~Pre(ev.op, ev.w, ev.x, pre) THEN <<"harness-pre">>
    ELSE LET ef == Eff(ev.op, ev.w, ev.x, pre)
             err == IsError(ev.op, ev.w, ev.x, pre) IN
         (IF err THEN (IF ErrorOutcomeOK(ev.op, ev.w, ev.x, pre, ev.outcome, ev.code) THEN <<>> ELSE <<"outcome">>)
          ELSE (IF ev.outcome = "ok" THEN <<>> ELSE <<"outcome">>))
         \o (IF ev.calls = ef.calls THEN <<>> ELSE <<"calls">>)
         \o (IF post = ef.st THEN <<>> ELSE <<"post">>)
         \o (IF ev.outcome # "ok" \/ ev.ret = ef.ret THEN <<>> ELSE <<"ret">>)
         \o (IF BoolObsOK(ev.post) THEN <<>> ELSE <<"obs-bool">>)

Expected(ev) == ToJson(Eff(ev.op, ev.w, ev.x, Proj(ev.pre)))

Init == l = 1 /\ nbad = 0 /\ dirty = FALSE

Next ==
    /\ l <= Len(Tr)
    /\ l' = l + 1
    /\ IF Tr[l].op = "reset" THEN nbad' = nbad /\ dirty' = FALSE
       ELSE IF dirty THEN UNCHANGED <<nbad, dirty>>
       \* the process died inside a call of this script (tools/vlib.py turns the death into a trap event)
       ELSE IF Tr[l].op = "trap" THEN nbad' = nbad + 1 /\ dirty' = TRUE /\ PrintT(<<"DEV", l, "crash", "-">>)
       ELSE LET vs == Judge(Tr[l]) IN
            /\ nbad' = nbad + Len(vs)
            /\ dirty' = (Len(vs) > 0)
            /\ \A j \in 1..Len(vs) :
                  PrintT(<<"DEV", l, vs[j], IF vs[j] \in {"harness-state", "harness-pre"} THEN "-" ELSE Expected(Tr[l])>>)

Spec == Init /\ [][Next]_<<l, nbad, dirty>>
Consumed == TLCGet("stats").diameter - 1 = Len(Tr)
==========================================================================
