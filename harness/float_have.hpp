// Which functions the implementation under test provides.  Default: all (true for libm/libstdc++, -DVH_STD).
// For etl tools/pipes/float.py measures the list with one compile probe per name (harness/float_probe.cpp)
// and passes -DVH_HAVE_<name>=0 for the absent ones; they are reported as not drivable.
#pragma once
#ifndef VH_HAVE_floor
    #define VH_HAVE_floor 1
#endif
#ifndef VH_HAVE_ceil
    #define VH_HAVE_ceil 1
#endif
#ifndef VH_HAVE_trunc
    #define VH_HAVE_trunc 1
#endif
#ifndef VH_HAVE_round
    #define VH_HAVE_round 1
#endif
#ifndef VH_HAVE_rint
    #define VH_HAVE_rint 1
#endif
#ifndef VH_HAVE_nearbyint
    #define VH_HAVE_nearbyint 1
#endif
#ifndef VH_HAVE_fabs
    #define VH_HAVE_fabs 1
#endif
#ifndef VH_HAVE_abs
    #define VH_HAVE_abs 1
#endif
#ifndef VH_HAVE_lrint
    #define VH_HAVE_lrint 1
#endif
#ifndef VH_HAVE_llrint
    #define VH_HAVE_llrint 1
#endif
#ifndef VH_HAVE_lround
    #define VH_HAVE_lround 1
#endif
#ifndef VH_HAVE_llround
    #define VH_HAVE_llround 1
#endif
#ifndef VH_HAVE_signbit
    #define VH_HAVE_signbit 1
#endif
#ifndef VH_HAVE_isnan
    #define VH_HAVE_isnan 1
#endif
#ifndef VH_HAVE_isinf
    #define VH_HAVE_isinf 1
#endif
#ifndef VH_HAVE_isfinite
    #define VH_HAVE_isfinite 1
#endif
#ifndef VH_HAVE_isnormal
    #define VH_HAVE_isnormal 1
#endif
#ifndef VH_HAVE_fpclassify
    #define VH_HAVE_fpclassify 1
#endif
#ifndef VH_HAVE_copysign
    #define VH_HAVE_copysign 1
#endif
#ifndef VH_HAVE_fmin
    #define VH_HAVE_fmin 1
#endif
#ifndef VH_HAVE_fmax
    #define VH_HAVE_fmax 1
#endif
#ifndef VH_HAVE_fdim
    #define VH_HAVE_fdim 1
#endif
#ifndef VH_HAVE_nextafter
    #define VH_HAVE_nextafter 1
#endif
#ifndef VH_HAVE_fmod
    #define VH_HAVE_fmod 1
#endif
#ifndef VH_HAVE_remainder
    #define VH_HAVE_remainder 1
#endif
#ifndef VH_HAVE_pow
    #define VH_HAVE_pow 1
#endif
#ifndef VH_HAVE_atan2
    #define VH_HAVE_atan2 1
#endif
#ifndef VH_HAVE_hypot
    #define VH_HAVE_hypot 1
#endif
#ifndef VH_HAVE_midpoint
    #define VH_HAVE_midpoint 1
#endif
#ifndef VH_HAVE_lerp
    #define VH_HAVE_lerp 1
#endif
#ifndef VH_HAVE_hypot3
    #define VH_HAVE_hypot3 1
#endif
#ifndef VH_HAVE_sqrt
    #define VH_HAVE_sqrt 1
#endif
#ifndef VH_HAVE_cbrt
    #define VH_HAVE_cbrt 1
#endif
#ifndef VH_HAVE_exp
    #define VH_HAVE_exp 1
#endif
#ifndef VH_HAVE_exp2
    #define VH_HAVE_exp2 1
#endif
#ifndef VH_HAVE_expm1
    #define VH_HAVE_expm1 1
#endif
#ifndef VH_HAVE_log
    #define VH_HAVE_log 1
#endif
#ifndef VH_HAVE_log2
    #define VH_HAVE_log2 1
#endif
#ifndef VH_HAVE_log10
    #define VH_HAVE_log10 1
#endif
#ifndef VH_HAVE_log1p
    #define VH_HAVE_log1p 1
#endif
#ifndef VH_HAVE_sin
    #define VH_HAVE_sin 1
#endif
#ifndef VH_HAVE_cos
    #define VH_HAVE_cos 1
#endif
#ifndef VH_HAVE_tan
    #define VH_HAVE_tan 1
#endif
#ifndef VH_HAVE_asin
    #define VH_HAVE_asin 1
#endif
#ifndef VH_HAVE_acos
    #define VH_HAVE_acos 1
#endif
#ifndef VH_HAVE_atan
    #define VH_HAVE_atan 1
#endif
#ifndef VH_HAVE_sinh
    #define VH_HAVE_sinh 1
#endif
#ifndef VH_HAVE_cosh
    #define VH_HAVE_cosh 1
#endif
#ifndef VH_HAVE_tanh
    #define VH_HAVE_tanh 1
#endif
#ifndef VH_HAVE_asinh
    #define VH_HAVE_asinh 1
#endif
#ifndef VH_HAVE_acosh
    #define VH_HAVE_acosh 1
#endif
#ifndef VH_HAVE_atanh
    #define VH_HAVE_atanh 1
#endif
#ifndef VH_HAVE_erf
    #define VH_HAVE_erf 1
#endif
#ifndef VH_HAVE_tgamma
    #define VH_HAVE_tgamma 1
#endif
#ifndef VH_HAVE_lgamma
    #define VH_HAVE_lgamma 1
#endif
#ifndef VH_HAVE_complex
    #define VH_HAVE_complex 1
#endif
#ifndef VH_HAVE_nextafter_l
    #define VH_HAVE_nextafter_l 1
#endif
