"""Scope-guard pipeline (extension X02): spec/Scope.tla, ScopeOps.tla, ScopeTrace.tla, harness/scope_driver.cpp.
MC (conservation of the exit obligation) + GEN (every transition) -> replay on etl::scope_exit with a counting function
object and with plain function pointers -> ScopeTrace judges (it carries the hidden `active` flag along each script).
Calibration: std::experimental::scope_exit if the toolchain has <experimental/scope>, otherwise a transcription of the
LFTS v3 wording inside the driver (calibrates spec + projection only)."""
import json
import os
from collections import Counter

from concurrent.futures import ThreadPoolExecutor

import vlib
from pipes import ext1
from pipes.lock import _split

TIERS = {"quick": {"names": ("g1", "g2"), "MaxTok": 4}, "thorough": {"names": ("g1", "g2", "g3"), "MaxTok": 4}}
ALL_OPS = ["make_lv", "make_rv", "make_guide", "release", "move_ctor", "dtor", "block"]
KINDS = ("functor", "fptr")
PROBES = {1: "scope_exit<F&> (exit function held by reference): move construction"}


def _call(t):
    return {"op": t["op"], "g": t["g"], "x": t["x"]}


def probes():
    out = {}
    for n in PROBES:
        try:
            vlib.build("scope_probe.cpp", "scope_probe_%d" % n, flags=["-DPROBE=%d" % n, "-fsyntax-only"], timeout=120)
            out[n] = True
        except vlib.ModelFailure:
            out[n] = False
    return out


def model(tier, rep):
    T = TIERS[tier]
    consts = {"GNames": "{%s}" % ", ".join('"%s"' % n for n in T["names"]), "MaxTok": str(T["MaxTok"])}
    r = vlib.tlc_mc("Scope.tla", "Scope.cfg", "scope_mc_%s" % tier, workers=2 if tier == "quick" else 4, heap="2g", constants=consts)
    rep.add_mc("Scope", r)
    gen = r["gen"]
    per_op = Counter(t["op"] for t in gen)
    missing = [op for op in ALL_OPS if not per_op.get(op)]
    if missing:
        raise vlib.ModelFailure("Scope: no transition exported for %s" % missing)
    init = None
    for t in gen:                                    # the initial node is the only one with next token 1 and no live guard
        if t["pk"][3] == 1 and not any(v["live"] for v in t["pk"][0]["g"].values()):
            init = json.dumps(t["pk"], sort_keys=True)
    sc, st = vlib.plan_edges(gen, lambda t, w: json.dumps(t["pk" if w == "pre" else "qk"], sort_keys=True), lambda n: n == init, _call)
    if st["unreachable"]:
        raise vlib.ModelFailure("planner: %d unreachable edges in Scope" % st["unreachable"])
    p = os.path.join(vlib.workdir("scripts"), "scope_%s.ndjson" % tier)
    vlib.write_scripts(sc, p)
    rep.cov["modules"]["Scope"].update({"scripts": len(sc), "planner": st, "exported_per_op": dict(per_op)})
    rep.sample({"module": "Scope", "script": sc[len(sc) // 2]})
    rep.cov["exhaustive"] = True
    return p, sc, T


def _side(impl, exe, sc, T, tier, kinds):
    ncalls = sum(len(s) for s in sc)

    def one(k):
        tp = os.path.join(vlib.workdir("traces"), "scope_%s_%s_%s.ndjson" % (impl, k, tier))
        r = ext1.replay(lambda sp: [exe, "replay", k, str(len(T["names"])), str(T["MaxTok"]), sp], sc, tp,
                        "scope_%s_%s_%s" % (impl, k, tier), chunk=20000, par=2)
        return tp, r
    with ThreadPoolExecutor(max_workers=3) as ex:
        res = list(ex.map(one, kinds))
    outs = [tp for tp, _ in res]
    unsupported = sorted({l for _, r in res for l in r["stderr"] if l.startswith("UNSUPPORTED")})
    ntraps = sum(len(r["traps"]) for _, r in res)
    for tp, r in res:                                   # vacuity guard: one event per call, two marker lines per script
        if not unsupported and not r["traps"] and r["lines"] != 2 * len(sc) + ncalls:
            raise vlib.ModelFailure("scope driver (%s): %d lines for %d scripts with %d calls" % (impl, r["lines"], len(sc), ncalls))
    parts = outs if tier == "quick" else [q for tp in outs for q in _split(tp, 4)]      # cut at script boundaries
    tv = vlib.tv_parallel("ScopeTrace.tla", "ScopeTrace.cfg", parts, "scope_tv_%s_%s" % (impl, tier), par=3 if tier == "quick" else 4,
                          heap="1g" if tier == "quick" else "2g")
    return tv, unsupported, ntraps


def pipeline(tier, rep, calibrate=None):
    if calibrate is None:
        calibrate = os.environ.get("VERIF_CALIBRATE", "1") != "0"
    have = probes()
    script, sc, T = model(tier, rep)
    kinds = KINDS + (("fref",) if have[1] else ())
    jobs = [dict(src="scope_driver.cpp", out="scope_etl", flags=["-DSCOPE_FREF=%d" % have[1]])]
    if calibrate:
        jobs.append(dict(src="scope_driver.cpp", out="scope_std", flags=["-DVH_STD", "-DSCOPE_FREF=1"], include_repo=False))
    bins = vlib.build_many(jobs)
    with ThreadPoolExecutor(max_workers=2) as ex:
        fe = ex.submit(_side, "etl", bins[0], sc, T, tier, kinds)
        fs = ex.submit(_side, "std", bins[1], sc, T, tier, KINDS + ("fref",)) if calibrate else None
        tv, unsup, ntraps = fe.result()
        ctv, cunsup, _ = fs.result() if fs else (None, [], 0)
    if calibrate:
        if ctv["deviations"]:
            d = ctv["deviations"][0]
            raise vlib.ModelFailure("calibration: the reference scope_exit deviates from Scope spec (spec/projection error): %s %s"
                                    % (d["kind"], json.dumps(d.get("ev"))[:700]))
        if cunsup:
            raise vlib.ModelFailure("calibration build lacks operations: %s" % cunsup)
        rep.cov["modules"]["Scope"]["calibration_events_ref"] = ctv["events"]
    rep.add_tv("Scope", tv, len(sc) * len(kinds))
    rep.cov["modules"]["Scope"]["not_drivable"] = unsup + ["%s: does not compile" % PROBES[n] for n in sorted(PROBES) if not have[n]]
    rep.cov["modules"]["Scope"]["crashes_contained"] = ntraps
    rep.cov["modules"]["Scope"]["probes"] = {PROBES[n]: have[n] for n in PROBES}
    return tv
