-------------------------------- MODULE Fmt --------------------------------
(* Input-domain enumerator and law checker for the etl::format subset (extension X12).                       *)
(* TLC enumerates EVERY format string up to MaxLenAll characters over the alphabet { '{', '}', 'a', '0', ':' } *)
(* (a tree: one more character per step, so the workers share it) and combines it with small argument lists.    *)
(* MC role : on every string - the scanner of FmtOps agrees with the declarative token reading; brace-free      *)
(*           strings format to themselves; doubling every brace is undone by formatting; the output length is    *)
(*           the number of literal tokens plus the lengths of the used argument texts; surplus arguments are      *)
(*           ignored; format_to_n writes a prefix and reports the full length; decimal rendering of 64-bit limbs   *)
(*           reproduces the well-known extreme values.                                                           *)
(* GEN role: every (string, argument list, capacity) case as one line <<"GEN", json>> for harness/fmt_driver.cpp. *)
EXTENDS FmtOps, TLC, Json

CONSTANTS MaxLenAll,     \* strings up to this length are combined with the three basic argument lists
          MaxLenFew      \* strings up to this length are combined with every argument list and the small capacities

Alphabet == {LB, RB, 97, 48, 58}

Z4 == <<0, 0, 0, 0>>
I(ty, neg, w) == [cat |-> "i", ty |-> ty, neg |-> neg, w |-> w, n |-> 0, s |-> << >>]
C(n) == [cat |-> "c", ty |-> "char", neg |-> FALSE, w |-> Z4, n |-> n, s |-> << >>]
S(ty, s) == [cat |-> "s", ty |-> ty, neg |-> FALSE, w |-> Z4, n |-> 0, s |-> s]

BasicLists == << << >>, <<I("int", FALSE, <<7, 0, 0, 0>>)>>, <<I("int", FALSE, <<7, 0, 0, 0>>), C(120)>> >>
MoreLists == <<
    <<I("int", TRUE, <<12, 0, 0, 0>>)>>,
    <<C(120)>>,
    <<S("sv", <<97, 98>>)>>,
    <<S("cstr", << >>)>>,
    <<S("cstr", <<104, 105>>)>>,
    <<I("uint", FALSE, <<10240, 61035, 0, 0>>)>>,                        \* 4000000000
    <<I("llong", TRUE, <<0, 0, 0, 32768>>)>>,                            \* -2^63
    <<I("ullong", FALSE, <<65535, 65535, 65535, 65535>>)>>,              \* 2^64 - 1
    <<I("short", TRUE, <<32768, 0, 0, 0>>)>>,
    <<I("ushort", FALSE, <<65535, 0, 0, 0>>)>>,
    <<I("long", TRUE, <<1, 0, 0, 0>>)>>,
    <<I("ulong", FALSE, <<10, 0, 0, 0>>)>>,
    <<S("carr", <<97, 98, 0>>)>>,                                        \* char[3] "ab"
    <<S("istr", <<120, 121, 122>>)>>,
    <<S("sv", <<97, LB>>), I("int", FALSE, Z4)>>,                        \* argument text containing a brace
    <<C(LB), C(RB)>>,
    <<I("int", FALSE, <<1, 0, 0, 0>>), I("int", FALSE, <<2, 0, 0, 0>>), I("int", FALSE, <<3, 0, 0, 0>>)>>
>>
SmallCaps == {1, 3}
BigCap == 32

VARIABLE f
Init == f = << >>
Next == Len(f) < MaxLenAll /\ \E c \in Alphabet : f' = Append(f, c)
Spec == Init /\ [][Next]_f

\* ---- laws -------------------------------------------------------------------------------------------------
Escape(s) == LET RECURSIVE e(_)
                 e(i) == IF i > Len(s) THEN << >> ELSE (IF IsBrace(s[i]) THEN <<s[i], s[i]>> ELSE <<s[i]>>) \o e(i + 1)
             IN e(1)
RECURSIVE SumLen(_, _)
SumLen(args, k) == IF k = 0 THEN 0 ELSE Len(ArgText(args[k])) + SumLen(args, k - 1)
NumLits(t) == Len(t) - NumFields(t)

ListLaws(args) ==
    LET r == Format(f, args) t == Tokens(f, 1) IN
    /\ r.cls \in {"ok", "bad", "nc"}
    /\ (r.cls = "ok") = (Tokenizes(f) /\ NumFields(t) <= Len(args))
    /\ (r.cls = "ok" =>
          /\ r.out = Render(t, 1, 0, args) /\ r.used = NumFields(t)
          /\ Len(r.out) = NumLits(t) + SumLen(args, r.used)
          /\ Format(f, args \o <<C(33)>>) = r                                   \* a surplus argument is ignored
          /\ \A n \in {0, 1, 3, 32} : LET fn == FormatN(r.out, n) IN
                /\ IsPrefix(fn.written, r.out) /\ Len(fn.written) <= n /\ fn.size = Len(r.out)
                /\ (Len(r.out) <= n => fn.written = r.out))
    \* an unmatched brace is never accepted, whatever the arguments
    /\ (~Tokenizes(f) => r.cls # "ok")

Laws ==
    /\ \A k \in 1..Len(BasicLists) : ListLaws(BasicLists[k])
    /\ (Len(f) <= MaxLenFew => \A k \in 1..Len(MoreLists) : ListLaws(MoreLists[k]))
    /\ ((\A i \in 1..Len(f) : ~IsBrace(f[i])) => Format(f, << >>) = [cls |-> "ok", out |-> f, used |-> 0])
    /\ LET e == Format(Escape(f), << >>) IN e.cls = "ok" /\ e.out = f /\ e.used = 0

Codes(s) == s
ASSUME DecimalExamples ==
    /\ DecText(FALSE, Z4) = <<48>>
    /\ DecText(FALSE, <<10240, 61035, 0, 0>>) = <<52, 48, 48, 48, 48, 48, 48, 48, 48, 48>>                  \* 4000000000
    /\ DecText(TRUE, <<0, 0, 0, 32768>>)
         = <<45, 57, 50, 50, 51, 51, 55, 50, 48, 51, 54, 56, 53, 52, 55, 55, 53, 56, 48, 56>>               \* -9223372036854775808
    /\ DecText(FALSE, <<65535, 65535, 65535, 65535>>)
         = <<49, 56, 52, 52, 54, 55, 52, 52, 48, 55, 51, 55, 48, 57, 53, 53, 49, 54, 49, 53>>               \* 18446744073709551615
    /\ ArgText(S("carr", <<97, 98, 0>>)) = <<97, 98>>

\* ---- GEN ----------------------------------------------------------------------------------------------------
Case(args, cap) == PrintT(<<"GEN", ToJson([f |-> f, args |-> args, cap |-> cap])>>)
EmitInv ==
    /\ \A k \in 1..Len(BasicLists) : Case(BasicLists[k], BigCap)
    /\ (Len(f) <= MaxLenFew =>
          /\ \A k \in 1..Len(MoreLists) : Case(MoreLists[k], BigCap)
          /\ \A c \in SmallCaps : Case(BasicLists[2], c) /\ Case(MoreLists[3], c) /\ Case(BasicLists[1], c))
=============================================================================
