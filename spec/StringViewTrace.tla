------------------------- MODULE StringViewTrace -------------------------
(* Trace validation for basic_string_view (property C08): every event recorded by                    *)
(* harness/stringview_driver.cpp from the real template is judged by the operators of                 *)
(* StringViewOps through the binding vocabulary of StringViewCalls.  Deviations are collected         *)
(* (printed as DEV lines), not fatal, so the whole trace is always examined.                          *)
(*   harness-pre : the driver made a call outside the domain the standard gives meaning to            *)
(*   trap        : the process died inside the call (sanitizer abort / signal): no result exists       *)
(*   post        : a returned value / produced view / written destination differs from the standard    *)
EXTENDS StringViewCalls, Json, IOUtils, TLC

Tr == ndJsonDeserialize(IOEnv.TRACE)

VARIABLES l, nbad

Judge(ev) ==
    IF ~ArgsOK(ev) THEN "harness-pre"
    ELSE IF "trap" \in DOMAIN ev THEN "trap"
    ELSE IF ~Conforms(ev) THEN "post"
    ELSE "ok"

Exp(ev) == IF ArgsOK(ev) THEN ToJson(Expected(ev)) ELSE "-"

Init == l = 1 /\ nbad = 0

Next ==
    /\ l <= Len(Tr)
    /\ l' = l + 1
    /\ LET v == Judge(Tr[l]) IN
       IF v = "ok" THEN nbad' = nbad
       ELSE /\ nbad' = nbad + 1
            /\ PrintT(<<"DEV", l, v, Exp(Tr[l])>>)

Spec == Init /\ [][Next]_<<l, nbad>>
Consumed == TLCGet("stats").diameter - 1 = Len(Tr)
==========================================================================
