"""X02 (extension) - scope guards: the exit function runs exactly once at destruction unless released; move transfers."""
from pipes import scope


def run(tier, rep):
    scope.pipeline(tier, rep)
    rep.assumptions += ["etl ships scope_exit only (no scope_fail / scope_success): those are not covered",
                        "exit functions do not throw; guards live in harness-managed storage (explicit construction / destruction) "
                        "and, in the `block` action, as automatic objects of a real block",
                        "libstdc++ 12 has no <experimental/scope>: the calibration build runs a transcription of the LFTS v3 "
                        "wording kept inside the driver, i.e. it calibrates spec and projection, not against an independent library"]
