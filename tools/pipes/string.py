"""inplace_string pipeline (spec/StringOps.tla, String.tla, StringTrace.tla, harness/string_driver.cpp). Serves C04.

  model()    TLC checks the invariants/laws of the String state machine and exports every transition plus one
             query bundle per state
  plan()     groups the transitions by pre-state: shortest real call path to the state, then every outgoing call
             (executed from a restored copy of that state), then the search/compare overloads of the bundle
  probe()    compile probes: members whose body does not instantiate are reported as not drivable
  execute()  the driver replays the groups on basic_inplace_string<C, N> (N = model capacity) for five character
             types and records seeded random histories hovering near full at the large capacities
  validate() StringTrace.tla judges every event; calibration: the same calls on std::basic_string -> 0 deviations
"""
import json
import os
import subprocess
import vlib

TYPES = ("char", "wchar_t", "char8_t", "char16_t", "char32_t")
BIG_CAPS = (7, 15, 16, 31, 255, 256)
CONSTS = {"quick": {"Caps": "{0, 1, 2, 3}", "Alphabet": "{0, 97, 200}", "MaxXs": "3"},
          "thorough": {"Caps": "{0, 1, 2, 3, 4}", "Alphabet": "{0, 97, 200}", "MaxXs": "4"}}
MODEL_CAPS = {"quick": (0, 1, 2, 3), "thorough": (0, 1, 2, 3, 4)}
RANDOM = {"quick": (1, 300), "thorough": (4, 1500)}     # (histories, steps) per (type, capacity)
CHUNK = 60000                                             # events per trace file
PATH_OPS = ("push_back", "ctor_range")


def _key(cap, st):
    return json.dumps([cap, st["a"], st["b"]])


def model(tier, rep, name="String"):
    r = vlib.tlc_mc("String.tla", "String.cfg", "string_%s" % tier, workers=6, constants=CONSTS[tier], heap="4g",
                    timeout=2400)
    rep.add_mc(name, r)
    rep.cov["exhaustive"] = True
    return r["gen"]


def plan(gen, rep, tier, name="String"):
    """-> {cap: [group...]}, group = {cap, path, edges, q, nq}"""
    from collections import deque
    qs = {}
    adj = {}
    for t in gen:
        if t.get("kind") == "q":
            qs[_key(t["cap"], t["pre"])] = t
        elif t["op"] != "init":
            adj.setdefault(_key(t["cap"], t["pre"]), []).append(t)
    parent = {}
    dq = deque()
    for cap in MODEL_CAPS[tier]:
        k = _key(cap, {"a": [], "b": []})
        parent[k] = None
        dq.append(k)
    while dq:
        k = dq.popleft()
        for t in adj.get(k, ()):
            # paths are built from the two most basic operations only (push_back on a, range construction of b), so that
            # a defect in a richer operation cannot lead the replay into a state other than the planned one
            if t["fin"] or t["rel"] or t["op"] not in PATH_OPS:
                continue
            k2 = _key(t["cap"], t["post"])
            if k2 not in parent:
                parent[k2] = (k, t)
                dq.append(k2)

    def call(t):
        return {"op": t["op"], "o": t["o"], "x": t["x"], "rel": bool(t["rel"])}
    cache = {}

    def path(k):
        if k in cache:
            return cache[k]
        p = parent[k]
        r = [] if p is None else path(p[0]) + [call(p[1])]
        cache[k] = r
        return r
    missing = [k for k in qs if k not in parent]
    if missing:
        raise vlib.ModelFailure("planner: %d states of String.tla are not reachable through deterministic calls" % len(missing))
    groups = {}
    nedges = 0
    for k in sorted(qs):
        q = qs[k]
        edges = sorted((call(t) for t in adj.get(k, ())), key=lambda c: json.dumps(c, sort_keys=True))
        nedges += len(edges)
        groups.setdefault(q["cap"], []).append({"cap": q["cap"], "pre": q["pre"], "path": path(k), "edges": edges,
                                               "q": {f: q[f] for f in ("P", "P1", "C1", "P2", "C2", "C2X", "XS", "LX", "CH", "full")},
                                               "nq": q["ncalls"]})
    ntrans = sum(len(v) for v in adj.values())
    if nedges != ntrans:
        raise vlib.ModelFailure("planner: %d of %d exported transitions start in a state without a group" % (ntrans - nedges, ntrans))
    rep.cov["modules"][name].update({"groups": sum(len(g) for g in groups.values()), "edges": nedges,
                                     "query_calls": sum(g["nq"] for gs in groups.values() for g in gs),
                                     "maxdepth": max(len(g["path"]) for gs in groups.values() for g in gs)})
    paths = {}
    d = vlib.workdir("scripts")
    for cap, gs in groups.items():
        p = os.path.join(d, "string_%s_cap%d.ndjson" % (tier, cap))
        with open(p, "w") as f:
            for g in gs:
                f.write(json.dumps(g) + "\n")
        paths[cap] = p
    mid = groups[max(groups)][len(groups[max(groups)]) // 2]
    rep.sample({"module": name, "group": {"cap": mid["cap"], "path": mid["path"], "edges": mid["edges"][:3], "q": mid["q"]}})
    return groups, paths


PROBES = {
    # name -> (macro, call expression on an object `s` of basic_inplace_string<C, 4>, pointer `p`)
    "rfind(s, pos, count)": ("VH_HAVE_RFIND_PN", "(void)s.rfind(p, etl::size_t(0), etl::size_t(1));"),
    "replace(pos, count, s) / replace(first, last, s)": ("VH_HAVE_REPLACE_CSTR", "s.replace(etl::size_t(0), etl::size_t(0), p); s.replace(s.cbegin(), s.cbegin(), p);"),
}


def probe(ty):
    """compile probes for one character type -> (flags, not_drivable)"""
    d = vlib.workdir("t")
    flags, nd = [], []
    for name, (macro, expr) in PROBES.items():
        src = os.path.join(d, "string_probe_%s_%s.cpp" % (macro, ty))
        open(src, "w").write("#include <cstring>\n#include <etl/string.hpp>\nint main(){ etl::basic_inplace_string<%s, 4> s; %s const z[1] = {}; %s const* p = z; %s return (int)s.size(); }\n"
                             % (ty, ty, ty, expr))
        r = subprocess.run(["g++", "-std=c++23", "-fsyntax-only", "-w", "-I" + os.path.join(vlib.REPO, "include"), src],
                           capture_output=True, text=True, timeout=300)
        if r.returncode == 0:
            flags.append("-D%s=1" % macro)
        else:
            nd.append("%s [%s]" % (name, ty))
    return flags, nd


def build_drivers(tier, std_types):
    from concurrent.futures import ThreadPoolExecutor
    with ThreadPoolExecutor(max_workers=5) as ex:
        pr = dict(zip(TYPES, ex.map(probe, TYPES)))
    small = ",".join(str(c) for c in MODEL_CAPS[tier])
    big = ",".join(str(c) for c in BIG_CAPS)
    jobs, names = [], []
    for ty in TYPES:
        fl = pr[ty][0] + ["-DVH_CHAR=" + ty]
        jobs.append(dict(src="string_driver.cpp", out="string_etl_small_" + ty, flags=fl + ["-DVH_CAPS=" + small], std="c++23"))
        names.append(("etl", "small", ty))
        jobs.append(dict(src="string_driver.cpp", out="string_etl_big_" + ty, flags=fl + ["-DVH_CAPS=" + big], std="c++23"))
        names.append(("etl", "big", ty))
    for ty in std_types:
        fl = ["-DVH_STD", "-DVH_CHAR=" + ty]
        jobs.append(dict(src="string_driver.cpp", out="string_std_small_" + ty, flags=fl + ["-DVH_CAPS=" + small], std="c++23",
                         include_repo=False))
        names.append(("std", "small", ty))
        jobs.append(dict(src="string_driver.cpp", out="string_std_big_" + ty, flags=fl + ["-DVH_CAPS=" + big], std="c++23",
                         include_repo=False))
        names.append(("std", "big", ty))
    paths = vlib.build_many(jobs, par=min(vlib.NCPU, 10))
    nd = sorted({n for ty in TYPES for n in pr[ty][1]})
    nd.append("find_first_not_of(Char const*) without position (no default argument is declared; the call would resolve to the inplace_string overload through an implicit conversion)")
    return dict(zip(names, paths)), nd


def _expected(groups, nshards, shard, selk, selm, skip_rel):
    n = 0
    for i, g in enumerate(groups):
        if i % nshards != shard:
            continue
        n += len(g["path"])
        e = len(g["edges"])
        for j in range(e + g["nq"]):
            if j % selm != selk:
                continue
            if skip_rel and j < e and g["edges"][j]["rel"]:
                continue
            n += 1
    return n


def _count_lines(p):
    n = 0
    with open(p, "rb") as f:
        for _ in f:
            n += 1
    return n


def execute(tier, groups, scripts, bins, impl, sel, types, tag=""):
    """sel: {type: (selk, selm)}. Returns (trace paths, stats)."""
    d = vlib.workdir("traces")
    tasks, meta = [], []
    for ty in types:
        selk, selm = sel[ty]
        for cap in sorted(groups):
            gs = groups[cap]
            total = _expected(gs, 1, 0, selk, selm, impl == "std")
            m = max(1, -(-total // CHUNK))
            for k in range(m):
                tp = os.path.join(d, "string_%s_%s_c%d_%d%s.ndjson" % (impl, ty, cap, k, tag))
                tasks.append(([bins[(impl, "small", ty)], "replay", ty, str(cap), scripts[cap], str(k), str(m), str(selk), str(selm)], tp))
                meta.append(("replay", _expected(gs, m, k, selk, selm, impl == "std")))
    nh, steps = RANDOM[tier]
    for ty in types:
        for cap in BIG_CAPS:
            tp = os.path.join(d, "string_%s_%s_r%d%s.ndjson" % (impl, ty, cap, tag))
            tasks.append(([bins[(impl, "big", ty)], "random", ty, str(cap), str(nh), str(steps), str(vlib.seed()), "0", "1"], tp))
            meta.append(("random", None))
    res = vlib.run_parallel(tasks, par=min(vlib.NCPU, 12))
    outs, events, traps, unsup, mismatches = [], 0, 0, set(), 0
    for (cmd, tp), (kind, want), (rc, err) in zip(tasks, meta, res):
        got = _count_lines(tp)
        ntr = nun = 0
        mism = sum(1 for l in err.splitlines() if l.startswith("STATE-MISMATCH"))
        mismatches += mism
        for l in err.splitlines():
            if l.startswith("SUMMARY"):
                f = dict(kv.split("=") for kv in l.split()[1:])
                ntr, nun = int(f["traps"]), int(f["unsupported"])
            elif l.startswith("UNSUPPORTED"):
                unsup.add(l.split(" ", 2)[2] + " [" + l.split(" ", 2)[1].rsplit("_", 1)[0] + "]")
        if want is not None and got + nun != want and ntr == 0 and mism == 0:
            raise vlib.ModelFailure("driver made %d calls (+%d not drivable), the plan has %d (%s)" % (got, nun, want, " ".join(cmd)))
        if got == 0 and (want is None or want > 0):
            raise vlib.ModelFailure("driver produced no events: " + " ".join(cmd))
        if got:
            outs.append(tp)
        events += got
        traps += ntr
    return outs, {"events": events, "traps": traps, "unsupported": sorted(unsup), "state_mismatches": mismatches}


def _merge(paths, out):
    """concatenate trace files (events are self-contained) into files of at most ~CHUNK events: one TLC each"""
    sized = sorted(((_count_lines(p), p) for p in paths), reverse=True)
    bins = []
    for n, p in sized:
        for b in bins:
            if b[0] + n <= CHUNK:
                b[0] += n
                b[1].append(p)
                break
        else:
            bins.append([n, [p]])
    outs = []
    for i, (_, ps) in enumerate(bins):
        if len(ps) == 1:
            outs.append(ps[0])
            continue
        op = "%s_%d.ndjson" % (out, i)
        with open(op, "wb") as f:
            for p in ps:
                with open(p, "rb") as g:
                    while True:
                        chunk = g.read(1 << 20)
                        if not chunk:
                            break
                        f.write(chunk)
                os.remove(p)
        outs.append(op)
    return outs


def validate(paths, tag):
    os.environ.setdefault("JAVA_TOOL_OPTIONS", "-XX:ParallelGCThreads=2")
    merged = _merge(paths, os.path.join(vlib.workdir("traces"), tag + "_merged"))
    return vlib.tv_parallel("StringTrace.tla", "StringTrace.cfg", merged, tag, par=min(vlib.NCPU, 6), heap="2g"), merged


def _cleanup(paths):
    for p in paths:
        try:
            os.remove(p)
        except OSError:
            pass


def pipeline(tier, rep, calibrate=True, name="String"):
    # self-test shortcuts (tools/str_mutants.py): the calibration does not depend on the tree under test, and one
    # character type is enough to show that a seeded bug is noticed
    calibrate = calibrate and not os.environ.get("VERIF_NOCALIB")
    only = [t for t in os.environ.get("VERIF_TYPES", "").split(",") if t]
    global TYPES
    if only:
        TYPES = tuple(t for t in TYPES if t in only)
        rep.notes.append({"restricted_char_types": list(TYPES)})
    gen = model(tier, rep, name)
    groups, scripts = plan(gen, rep, tier, name)
    if tier == "quick":
        # every call on char; each of the other character types executes a quarter of the calls
        sel = {"char": (0, 1), "wchar_t": (0, 4), "char8_t": (1, 4), "char16_t": (2, 4), "char32_t": (3, 4)}
        if only:
            sel = {ty: (0, 1) for ty in TYPES}
        std_types = ("char", "char16_t")
        std_sel = {"char": (0, 1), "char16_t": (1, 3)}
    else:
        sel = {ty: (0, 1) for ty in TYPES}
        std_types = TYPES
        std_sel = sel
    if not calibrate:
        std_types = ()
    bins, not_drivable = build_drivers(tier, std_types)
    if calibrate:
        ctr, cst = execute(tier, groups, scripts, bins, "std", std_sel, std_types)
        ctv, ctr = validate(ctr, "string_tv_std")
        if ctv["deviations"]:
            dv = ctv["deviations"][0]
            raise vlib.ModelFailure("calibration: libstdc++ deviates from the String spec (spec/projection error): %s %s expected %s"
                                    % (dv["kind"], json.dumps(dv.get("ev"))[:700], json.dumps(dv.get("expected"))[:300]))
        rep.cov["modules"][name]["calibration_events_std"] = ctv["events"]
        _cleanup(ctr)
    traces, st = execute(tier, groups, scripts, bins, "etl", sel, TYPES)
    tv, traces = validate(traces, "string_tv_etl")
    ngroups = sum(len(g) for g in groups.values())
    rep.add_tv(name, tv, ngroups * len(TYPES) + RANDOM[tier][0] * len(TYPES) * len(BIG_CAPS))
    if st["state_mismatches"]:
        rep.notes.append({"groups_skipped_because_the_path_did_not_reach_the_planned_state": st["state_mismatches"]})
    rep.cov["modules"][name].update({"not_drivable": sorted(set(not_drivable) | set(st["unsupported"])), "traps": st["traps"],
                                     "char_types": list(TYPES), "model_capacities": list(MODEL_CAPS[tier]),
                                     "random_history_capacities": list(BIG_CAPS), "selection": {k: list(v) for k, v in sel.items()}})
    if not tv["deviations"]:
        _cleanup(traces)
    return tv, st


def replay(rec):
    """Re-run one recorded call on the current tree: rebuild the recorded pre-state through the public API
    (ctor_range on both objects), run the call (or the one-point query bundle containing it) and judge the trace;
    returns the deviations of the recorded call signature."""
    ev = rec["event"]
    ty, cap = ev.get("inst", "char_3").rsplit("_", 1)
    x0 = {"c": 0, "n": 0, "p": 0, "xs": [], "src": "b", "p2": 0, "n2": 0, "d": 0}
    path = [{"op": "ctor_range", "o": o, "x": dict(x0, xs=ev["pre"][o]["s"], src="a" if o == "b" else "b"), "rel": False}
            for o in ("a", "b")]
    g = {"cap": int(cap), "path": path, "edges": [], "q": None, "nq": 0}
    if "q" in ev:
        n = ev["n"]
        g["q"] = {"P": [ev["pos"]], "P1": [min(max(ev["pos"], 0), len(ev["h"]))], "C1": [ev["cnt"]], "P2": [min(max(ev["pos2"], 0), len(n))],
                  "C2": [ev["cnt2"]], "C2X": [ev["cnt2"]], "XS": [n], "LX": n, "CH": [n[0]] if len(n) == 1 else [0], "full": 1}
    else:
        g["edges"] = [{"op": ev["op"], "o": ev["o"], "x": ev["x"], "rel": False}]
    d = vlib.workdir("replay")
    sp = os.path.join(d, "string_group.ndjson")
    with open(sp, "w") as f:
        f.write(json.dumps(g) + "\n")
    flags, _ = probe(ty)
    b = vlib.build("string_driver.cpp", "string_replay", flags=flags + ["-DVH_CHAR=" + ty, "-DVH_CAPS=" + cap], std="c++23")
    tp = os.path.join(d, "string_trace.ndjson")
    vlib.run([b, "replay", ty, cap, sp, "0", "1", "0", "1"], tp)
    tv = vlib.tlc_tv("StringTrace.tla", "StringTrace.cfg", tp, "string_replay", heap="2g")
    if "q" in ev:
        sig = lambda e: tuple(e.get(k) for k in ("op", "ov", "d", "pos", "cnt", "pos2", "cnt2")) + (json.dumps(e.get("n")),)
    else:
        sig = lambda e: (e.get("op"), e.get("o"), json.dumps(e.get("x"), sort_keys=True))
    return [x for x in tv["deviations"] if ("q" in x.get("ev", {})) == ("q" in ev) and sig(x.get("ev", {})) == sig(ev)]
