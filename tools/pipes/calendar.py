"""Calendar pipeline (property C11): spec/CalendarOps.tla, Calendar.tla (day-by-day walker, MC),
CalendarArith.tla (input enumerator + laws, GEN), CalendarTrace.tla (judge), harness/calendar_driver.cpp."""
import json
import os
import subprocess
import time
from concurrent.futures import ThreadPoolExecutor

import vlib

# eras (as index = era + 82) walked by Calendar.tla: quick = both ends, year 0, the epoch era and its neighbour
QUICK_ERAS = [0, 1, 81, 82, 86, 87, 162, 163]
ALL_ERAS = list(range(0, 164))

# compile probes: operations that are declared in the headers but whose body may not instantiate / link.
# name -> statement(s) inside  int main(int argc, char**)  using namespace ch = etl::chrono
PROBES = {
    "YMDL_SYS": "ch::sys_days s = ch::year_month_day_last{ch::year{argc}, ch::month_day_last{ch::month{2}}};"
                " return (int)s.time_since_epoch().count();",
    "YMW_FROM_SYS": "ch::year_month_weekday w{ch::sys_days{ch::days{argc}}}; return (int)w.index();",
    "YMW_TO_SYS": "ch::sys_days s = ch::year_month_weekday{ch::year{argc}, ch::month{1}, ch::weekday_indexed{ch::weekday{1u}, 1u}};"
                  " return (int)s.time_since_epoch().count();",
    "YMW_COMPOUND": "auto w = ch::year_month_weekday{ch::year{argc}, ch::month{1}, ch::weekday_indexed{ch::weekday{1u}, 1u}};"
                    " w += ch::months{1}; w -= ch::months{1}; w += ch::years{1}; w -= ch::years{1}; return (int)w.index();",
    "YMWL": "auto w = ch::year_month_weekday_last{ch::year{argc}, ch::month{1}, ch::weekday_last{ch::weekday{1u}}};"
            " w += ch::months{1}; w -= ch::years{1}; auto v = w + ch::months{2}; auto u = ch::years{1} + v - ch::months{1};"
            " return int(u.year()) + (int)unsigned(u.month()) + (int)u.weekday().c_encoding() + (u.ok() ? 1 : 0);",
}


def probe(name, body, tag="calendar"):
    d = vlib.workdir("probes")
    src = os.path.join(d, "%s_%s.cpp" % (tag, name))
    exe = os.path.join(d, "%s_%s.bin" % (tag, name))
    with open(src, "w") as f:
        f.write("#include <etl/chrono.hpp>\nnamespace ch = etl::chrono;\nint main(int argc, char**) { %s }\n" % body)
    cmd = ["g++", "-std=c++20", "-O0", "-w", "-I" + os.path.join(vlib.REPO, "include"), src, "-o", exe]
    try:
        p = subprocess.run(cmd, capture_output=True, text=True, timeout=300)
    except subprocess.TimeoutExpired:
        raise vlib.ModelFailure("probe timeout " + name)
    return p.returncode == 0


def run_probes():
    with ThreadPoolExecutor(max_workers=len(PROBES)) as ex:
        res = dict(zip(PROBES, ex.map(lambda kv: probe(*kv), PROBES.items())))
    return res


def model_walker(tier, rep):
    eras = QUICK_ERAS if tier == "quick" else ALL_ERAS
    r = vlib.tlc_mc("Calendar.tla", "Calendar.cfg", "calendar_walk_" + tier, workers=8 if tier == "quick" else 12,
                    heap="4g", want_gen=False, constants={"EraIdx": "{" + ", ".join(map(str, eras)) + "}"},
                    timeout=3000)
    return r, eras


def model_arith(tier):
    return vlib.tlc_mc("CalendarArith.tla", "CalendarArith.cfg", "calendar_arith_" + tier, workers=4, heap="2g",
                       constants={"Tier": '"%s"' % tier})


def _cost(g):
    f, x = g["fam"], g["x"]
    if f == "sweep":
        return (x[1] - x[0] + 1) * 14 + (x[3] - x[2]) * (1 if x[4] else 0) + 5
    if f == "oksweep":
        return (x[1] - x[0] + 1) * 17 + 5
    if f == "yearsweep":
        return (x[1] - x[0] + 1) * 11 + 5
    if f in ("ym_m", "ym_y"):
        return 40
    if f == "ymw_ok":
        return 100
    return 10


def split_inputs(gen, nparts, tag):
    d = vlib.workdir("scripts")
    bins = [[0, []] for _ in range(nparts)]
    for g in sorted(gen, key=_cost, reverse=True):
        b = min(bins, key=lambda b: b[0])
        b[0] += _cost(g)
        b[1].append(g)
    paths = []
    for i, (_, gs) in enumerate(bins):
        if not gs:
            continue
        p = os.path.join(d, "calendar_%s_%d.ndjson" % (tag, i))
        with open(p, "w") as f:
            for g in gs:
                f.write(json.dumps(g) + "\n")
        paths.append(p)
    return paths


def build_drivers(flags):
    jobs = [dict(src="calendar_driver.cpp", out="calendar_etl", flags=flags),
            dict(src="calendar_driver.cpp", out="calendar_std", flags=["-DVH_STD"], include_repo=False)]
    p = vlib.build_many(jobs)
    return {"etl": p[0], "std": p[1]}


def execute(bins, impl, parts, tag):
    d = vlib.workdir("traces")
    tasks, outs = [], []
    for i, sp in enumerate(parts):
        tp = os.path.join(d, "calendar_%s_%s_%d.ndjson" % (impl, tag, i))
        tasks.append(([bins[impl], sp], tp))
        outs.append(tp)
    res = vlib.run_parallel(tasks)
    unsupported = sorted({l[len("UNSUPPORTED "):] for _, err in res for l in err.splitlines() if l.startswith("UNSUPPORTED")})
    return outs, unsupported


def pipeline(tier, rep, calibrate=True, walk=True):
    """calibrate=False / walk=False exist only for the mutation self-test (tools/props/C11.py, VERIF_SELFTEST=1):
    they skip the libstdc++ calibration and the model checking of the walker, not any judgement of etl."""
    t0 = time.time()
    nparts = 8 if tier == "quick" else 16       # trace files; at most 8 TLC instances (2 GB heap each) at a time
    with ThreadPoolExecutor(max_workers=2) as bg:
        walker = bg.submit(model_walker, tier, rep) if walk else None   # MC of the walker runs beside the binding
        ar = model_arith(tier)
        rep.add_mc("CalendarArith", ar)
        gen = ar["gen"]
        probes = run_probes()
        flags = ["-DVP_HAVE_" + k for k, v in probes.items() if v]
        bins = build_drivers(flags)
        parts = split_inputs(gen, nparts, tier)
        traces, unsupported = execute(bins, "etl", parts, tier)
        tv = vlib.tv_parallel("CalendarTrace.tla", "CalendarTrace.cfg", traces, "calendar_tv_etl_" + tier, par=8, heap="2g")
        rep.add_tv("Calendar", tv, len(gen))
        not_drivable = sorted(set(unsupported) | {"probe " + k + " does not compile/link" for k, v in probes.items() if not v})
        rep.cov["modules"]["Calendar"].update({"not_drivable": not_drivable, "probes": probes,
                                               "inputs_by_family": _count(gen)})
        sw = [g["x"] for g in gen if g["fam"] == "sweep" and g["x"][4] == 0]
        rep.cov["modules"]["Calendar"]["sys_days_swept"] = sum(x[3] - x[2] + 1 for x in sw)
        rep.cov["modules"]["Calendar"]["sweep_year_ranges"] = sorted([x[0], x[1]] for x in sw)
        if gen:
            rep.sample({"module": "Calendar", "input": [g for g in gen if g["fam"] == "ym_m"][len(gen) // 7]})
        if calibrate:
            ctr, _ = execute(bins, "std", parts, tier)
            ctv = vlib.tv_parallel("CalendarTrace.tla", "CalendarTrace.cfg", ctr, "calendar_tv_std_" + tier, par=8, heap="2g")
            if ctv["deviations"]:
                d = ctv["deviations"][0]
                raise vlib.ModelFailure("calibration: libstdc++ std::chrono deviates from the Calendar spec "
                                        "(spec/projection error): %s %s expected %s"
                                        % (d["kind"], json.dumps(d.get("ev"))[:500], json.dumps(d.get("expected"))[:200]))
            rep.cov["modules"]["Calendar"]["calibration_events_std"] = ctv["events"]
        if walker is not None:
            wr, eras = walker.result()
            rep.add_mc("Calendar[walker]", wr)
            rep.cov["modules"]["Calendar[walker]"].update({"eras_walked": len(eras), "days_walked": wr["states"],
                                                           "years": [400 * (min(eras) - 82), 400 * (max(eras) - 82) + 399]})
    rep.cov["exhaustive"] = True
    vlib.log("[calendar] pipeline %.1fs" % (time.time() - t0))
    return tv


def _count(gen):
    c = {}
    for g in gen:
        c[g["fam"]] = c.get(g["fam"], 0) + 1
    return c
