#!/usr/bin/env python3
"""Mutation self-test helper of the extension modules X11..X14 (not part of any check).
usage: ext2_mutants.py <ID> <mutants.json> [--base-patch p1.patch,p2.patch]
mutants.json: [{"name", "file" (relative to include/etl), "old", "new", optional "count"}...]
For each mutant: copy /repo/include to /tmp/ext2_<ID>_mut/include, apply the base patches (the proposed fixes, so the
baseline is quiet), apply the textual mutation, run tools/check.py <ID> with VERIF_REPO/VERIF_BUILD/VERIF_EVID
redirected and VERIF_CALIBRATE=0; report the exit code.  The scratch copy is removed afterwards."""
import json, os, shutil, subprocess, sys, time

VERIF = os.path.dirname(os.path.dirname(os.path.abspath(__file__)))
pid, mfile = sys.argv[1], sys.argv[2]
base = []
if "--base-patch" in sys.argv:
    base = [p for p in sys.argv[sys.argv.index("--base-patch") + 1].split(",") if p]
only = sys.argv[sys.argv.index("--only") + 1].split(",") if "--only" in sys.argv else None
muts = json.load(open(mfile))
root = "/tmp/ext2_%s_mut" % pid
res = []
for m in [{"name": "baseline"}] + muts:
    if only and m["name"] not in only and m["name"] != "baseline":
        continue
    shutil.rmtree(root, ignore_errors=True)
    os.makedirs(root)
    shutil.copytree("/repo/include", root + "/include")
    for p in base:
        r = subprocess.run(["patch", "-p1", "-s", "-d", root, "-i", os.path.abspath(p)], capture_output=True, text=True)
        if r.returncode != 0:
            sys.exit("base patch failed: %s\n%s" % (p, r.stdout + r.stderr))
    if "file" in m:
        fp = os.path.join(root, "include", "etl", m["file"])
        s = open(fp).read()
        n = s.count(m["old"])
        if n != m.get("count", 1):
            sys.exit("mutant %s: pattern occurs %d times in %s" % (m["name"], n, m["file"]))
        open(fp, "w").write(s.replace(m["old"], m["new"]))
    env = dict(os.environ, VERIF_REPO=root, VERIF_BUILD=os.path.join(VERIF, "build", "ext2_mut_" + pid),
               VERIF_EVID=os.path.join(VERIF, "build", "ext2_mut_" + pid, "evid"), VERIF_CALIBRATE="0")
    t0 = time.time()
    r = subprocess.run([sys.executable, os.path.join(VERIF, "tools", "check.py"), pid, "--tier", "quick"],
                       capture_output=True, text=True, env=env)
    first = (r.stdout.strip().splitlines() or [""])[0]
    if r.returncode == 2:
        first = (r.stderr.strip().splitlines() or [""])[-1][:300]
    print("%-34s rc=%d  %.0fs  %s" % (m["name"], r.returncode, time.time() - t0, first[:160]), flush=True)
    res.append((m["name"], r.returncode))
shutil.rmtree(root, ignore_errors=True)
shutil.rmtree(os.path.join(VERIF, "build", "ext2_mut_" + pid), ignore_errors=True)
bl = [rc for n, rc in res if n == "baseline"][0]
caught = [n for n, rc in res if n != "baseline" and rc == 1]
missed = [n for n, rc in res if n != "baseline" and rc != 1]
print("baseline rc=%d; caught %d/%d; missed: %s" % (bl, len(caught), len(res) - 1, missed))
