------------------------------ MODULE LimitsOps ------------------------------
(* std::numeric_limits [numeric.limits] as functions of (width, signedness) for the integer types and of   *)
(* the IEEE-754 format parameters for the floating types (property C15).  Values that do not fit TLC's     *)
(* 32-bit integers are 16-bit limbs, least significant first, of the two's complement / IEEE bit pattern.  *)
EXTENDS TypesOps

\* ---- integer side
Width(u) == 8 * ScalarSize(u)
NLDigitsInt(u) == IF u.k = "bool" THEN 1 ELSE Width(u) - (IF IsSignedT(u) THEN 1 ELSE 0)
\* floor(d * log10(2)); 30103/100000 is exact enough for d <= 16384 (checked against 10^k <= 2^d in Types.tla for d <= 30)
Log10Of2Floor(d) == (d * 30103) \div 100000
Log10Of2Ceil(d) == -((-(d * 30103)) \div 100000)

\* ---- floating side: p = digits (with the hidden bit), emax = max_exponent, emin = min_exponent
FloatFmt(n) ==
    CASE n = "float" -> [p |-> 24, emax |-> 128, emin |-> -125, ebits |-> 8, bits |-> 32, explicit |-> FALSE]
      [] n = "double" -> [p |-> 53, emax |-> 1024, emin |-> -1021, ebits |-> 11, bits |-> 64, explicit |-> FALSE]
      [] n = "ldouble" -> [p |-> 64, emax |-> 16384, emin |-> -16381, ebits |-> 15, bits |-> 80, explicit |-> TRUE]

NLIntMembers == {"nl:is_specialized", "nl:is_signed", "nl:is_integer", "nl:is_exact", "nl:radix", "nl:digits",
                 "nl:digits10", "nl:max_digits10", "nl:is_bounded", "nl:is_modulo", "nl:has_infinity",
                 "nl:has_quiet_NaN", "nl:has_signaling_NaN", "nl:is_iec559", "nl:min_exponent", "nl:max_exponent",
                 "nl:min_exponent10", "nl:max_exponent10", "nl:round_style", "nl:has_denorm", "nl:has_denorm_loss"}
NLLimbMembers == {"nl:min", "nl:max", "nl:lowest"}
NLFloatLimbMembers == {"nl:min", "nl:max", "nl:lowest", "nl:epsilon", "nl:denorm_min", "nl:infinity", "nl:round_error"}

\* numeric_limits<cv T> = numeric_limits<T>; the primary template (non-arithmetic T) has is_specialized = false, 0, false
NLVal(m, t) ==
    LET u == Uq(t) ar == IsArithT(u) int == IsIntegralT(u) fl == IsFloatT(u)
        f == IF fl THEN FloatFmt(u.n) ELSE FloatFmt("float") IN
    CASE m = "nl:is_specialized" -> ar
      [] m = "nl:is_signed" -> ar /\ IsSignedT(u)
      [] m = "nl:is_integer" -> int
      [] m = "nl:is_exact" -> int
      [] m = "nl:radix" -> IF ar THEN 2 ELSE 0
      [] m = "nl:digits" -> IF int THEN NLDigitsInt(u) ELSE IF fl THEN f.p ELSE 0
      [] m = "nl:digits10" -> IF int THEN Log10Of2Floor(NLDigitsInt(u)) ELSE IF fl THEN Log10Of2Floor(f.p - 1) ELSE 0
      [] m = "nl:max_digits10" -> IF fl THEN 1 + Log10Of2Ceil(f.p) ELSE 0
      [] m = "nl:is_bounded" -> ar
      [] m = "nl:is_modulo" -> int /\ u.k # "bool" /\ ~IsSignedT(u)
      [] m \in {"nl:has_infinity", "nl:has_quiet_NaN", "nl:has_signaling_NaN", "nl:is_iec559"} -> fl
      [] m = "nl:min_exponent" -> IF fl THEN f.emin ELSE 0
      [] m = "nl:max_exponent" -> IF fl THEN f.emax ELSE 0
      [] m = "nl:min_exponent10" -> IF fl THEN Log10Of2Ceil(f.emin - 1) ELSE 0
      [] m = "nl:max_exponent10" -> IF fl THEN Log10Of2Floor(f.emax) ELSE 0
      [] m = "nl:round_style" -> IF fl THEN 1 ELSE 0          \* round_to_nearest / round_toward_zero
      [] m = "nl:has_denorm" -> IF fl THEN 1 ELSE 0           \* denorm_present / denorm_absent
      [] m = "nl:has_denorm_loss" -> FALSE

\* ---- 64-bit two's complement limbs (4 x 16 bit, least significant first) of min/max/lowest of an integer type
\* limb j (0..3) of 2^k - 1 (k in 0..64): all ones below bit k
OnesBelow(k) == [j \in 1..4 |-> LET lo == 16 * (j - 1) IN
                    IF k >= lo + 16 THEN 65535 ELSE IF k <= lo THEN 0 ELSE 2^(k - lo) - 1]
\* limbs of -2^k sign-extended to 64 bits: ones from bit k upward
OnesFrom(k) == [j \in 1..4 |-> 65535 - OnesBelow(k)[j]]
NLIntLimbs(m, t) ==
    LET u == Uq(t) w == IF u.k = "bool" THEN 1 ELSE Width(u) s == IsSignedT(u) IN
    CASE m = "nl:max" -> OnesBelow(IF s THEN w - 1 ELSE w)
      [] m \in {"nl:min", "nl:lowest"} -> IF s THEN OnesFrom(w - 1) ELSE <<0, 0, 0, 0>>

\* ---- IEEE bit patterns as 16-bit limbs.  A pattern is given by (sign, biased exponent E, mantissa class):
\* the fraction field has p-1 bits (binary32/64) or, with an explicit integer bit, p bits (x87).
\* value classes: "zero" (fraction 0), "ones" (all fraction bits 1), "lsb" (only the last bit)
FracBits(f) == IF f.explicit THEN f.p ELSE f.p - 1
Bias(f) == f.emax - 1
\* bit i (0-based from the least significant) of the whole pattern
PatBit(f, sign, e, mant, i) ==
    LET fb == FracBits(f) IN
    IF i < fb THEN
        (IF f.explicit /\ i = fb - 1 THEN e # 0        \* explicit integer bit: set for normal numbers, inf, NaN
         ELSE CASE mant = "zero" -> FALSE [] mant = "ones" -> TRUE [] mant = "lsb" -> i = 0)
    ELSE IF i < fb + f.ebits THEN ((e \div (2^(i - fb))) % 2) = 1
    ELSE IF i = fb + f.ebits THEN sign
    ELSE FALSE
Limb(f, sign, e, mant, j) ==      \* j = 1.. : bits 16(j-1) .. 16j-1
    LET b(i) == IF PatBit(f, sign, e, mant, 16 * (j - 1) + i) THEN 2^i ELSE 0 IN
    b(0) + b(1) + b(2) + b(3) + b(4) + b(5) + b(6) + b(7) + b(8) + b(9) + b(10) + b(11) + b(12) + b(13) + b(14) + b(15)
Pattern(f, sign, e, mant) == [j \in 1..(f.bits \div 16) |-> Limb(f, sign, e, mant, j)]
NLFloatLimbs(m, t) ==
    LET f == FloatFmt(Uq(t).n) emaxb == 2^f.ebits - 1 IN
    CASE m = "nl:max" -> Pattern(f, FALSE, emaxb - 1, "ones")
      [] m = "nl:lowest" -> Pattern(f, TRUE, emaxb - 1, "ones")
      [] m = "nl:min" -> Pattern(f, FALSE, 1, "zero")                         \* smallest normal
      [] m = "nl:epsilon" -> Pattern(f, FALSE, Bias(f) + 1 - f.p, "zero")      \* 2^(1-p)
      [] m = "nl:denorm_min" -> Pattern(f, FALSE, 0, "lsb")
      [] m = "nl:infinity" -> Pattern(f, FALSE, emaxb, "zero")
      [] m = "nl:round_error" -> Pattern(f, FALSE, Bias(f) - 1, "zero")        \* 0.5
=============================================================================
