"""C15 - type traits, concepts, numeric_limits and ratio agree with the language and std."""
from pipes import types

NOT_COVERED = [
    "traits that are pure compiler intrinsics with no structural rule stated in TypesOps.tla: has_unique_object_representations, "
    "is_layout_compatible / is_pointer_interconvertible_* (absent from etl), is_standard_layout beyond the generated class zoo",
    "invoke_result, is_invocable, is_invocable_r, is_nothrow_invocable, common_reference, basic_common_reference, "
    "aligned_storage, aligned_union, is_swappable_with / is_nothrow_swappable_with for T != U, unwrap_reference, void_t, enable_if",
    "concepts with an operator/iterator meaning: equality_comparable, weakly_equality_comparable_with, regular, boolean_testable, "
    "invocable, predicate, relation, common_with, common_reference_with",
    "etl-only extensions without a std facility of the same name: is_builtin_integer*, is_specialized, smallest_size_t, always_false, "
    "index_constant, meta::*",
    "is_convertible / is_constructible / is_assignable only for the rule families of TypesOps.tla (arithmetic/enum/pointer/member "
    "pointer/nullptr_t scalars, same-or-public-base classes without converting constructors, reference binding to the same or a "
    "base type, array-to-pointer, function-to-pointer); multi-level pointer qualification conversions, aggregate initialisation "
    "of classes from foreign arguments, arrays of class type from one argument and user-defined conversions are left open",
    "combinations on which gcc 12 / libstdc++ disagree with the C++20 wording are left open (not judged): is_trivially_copyable of a "
    "class without eligible copy/move operation or with a deleted destructor (CWG 1734), is_trivial with a deleted default "
    "constructor (P0848), default-construction traits of arrays whose element destructor is non-trivial or unusable, "
    "__is_assignable with an abstract prvalue on the left",
    "common_type only for two arithmetic types (usual arithmetic conversions); underlying_type of an enumeration without fixed "
    "underlying type (implementation-defined) is not judged",
    "numeric_limits::traps and ::tinyness_before (platform properties, not functions of width/format); NaN payloads",
    "ratio: operands beyond +-12 except comparisons and normal form of ratio<+-(INTMAX_MAX - k), d>; ratio arithmetic near overflow, "
    "SI typedefs (atto ... exa)",
    "cstdint / cstddef typedefs (int_least*_t, size_t, ...) are covered only indirectly (the zoo contains every builtin integer type)",
]


def run(tier, rep):
    types.pipeline(tier, rep)
    rep.cov["not_covered"] = NOT_COVERED
    rep.assumptions += [
        "compile-time behaviour: 'execution' = instantiation by g++ 12 (-std=c++23 because std::is_scoped_enum is C++23; the etl "
        "headers are dialect-independent above C++20); a row that does not compile is recorded as an observation {ill:true} and "
        "judged like a value",
        "platform facts used by the algebra (confirmed by the calibration): LP64 x86-64, Itanium ABI, plain char and wchar_t "
        "signed, wchar_t 32 bit, long double = x87 80-bit extended, enum without fixed type has size 4",
        "the type zoo is the closure of TypesOps' constructors over the base kinds to depth 2 (quick: ~380 types, 625 ordered "
        "pairs) / 3 (thorough: ~900 types, 4900 pairs); the class zoo is the descriptor table of TypesOps.tla (52 classes: "
        "union/empty/polymorphic/abstract/final/aggregate, one public or private base, every special member implicit / "
        "defaulted / user-provided noexcept / user-provided throwing / deleted) and the C++ definitions are generated from the "
        "very same descriptors",
        "is_trivially_/is_nothrow_*constructible count the destructor as all three standard libraries do (LWG 2116/2827)",
        "the TLA+ reading of [meta], [concepts], [numeric.limits], [ratio] is calibrated against libstdc++ 12 on the identical "
        "rows (zero deviations required); where libstdc++ and the C++20 wording disagree the combination is left open",
        "both spellings are observed where they exist: trait<T>::value and trait_v<T>, trait<T>::type and trait_t<T>",
    ]
