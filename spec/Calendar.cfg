SPECIFICATION Spec
CONSTANTS
  EraIdx = {0, 1, 81, 82, 86, 87, 162, 163}
INVARIANTS Closed Valid Anchor Link MonthEnds
CHECK_DEADLOCK FALSE
