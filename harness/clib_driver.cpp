// C-library module driver (property C18).  NOT part of tetl.
//
// Replays the vectors exported by spec/CLib.tla (and seeded random longer strings) on the real
// functions of etl/cstring.hpp, etl/cwchar.hpp, etl/cctype.hpp, etl/cwctype.hpp, etl/cstdlib.hpp and
// logs one self-contained event per call.  It contains no expected values and compares nothing:
// spec/CLibTrace.tla judges every event with the operators of spec/CLibOps.tla.
// Compiled with -DVH_STD the identical calls run on glibc (<cstring>, <cwchar>, <cctype>, <cwctype>,
// <cstdlib>): the calibration build.
//
// Memory: every call works on ONE heap block  G A G B G  (G = 4 guard cells, A = first-argument
// region, B = second-argument region, both exactly as large as C requires for the call).  The whole
// block is logged before (`mem`) and after (`post`) the call, pointers are logged as offsets into it
// (null = -1, outside the block = -2), so the trace spec sees the complete write footprint.
//
// usage: clib_driver replay <gen.ndjson>         one exported vector per line
//        clib_driver random <w> <count> <seed>   random longer strings, same call lists
#include "common.hpp"

#ifdef VH_STD
    #include <cctype>
    #include <cinttypes>
    #include <cstdlib>
    #include <cstring>
    #include <cwchar>
    #include <cwctype>
namespace L = std;
static char const* const INST = "std";
#else
    #include <etl/cctype.hpp>
    #include <etl/cstdlib.hpp>
    #include <etl/cstring.hpp>
    #include <etl/cwchar.hpp>
    #include <etl/cwctype.hpp>
namespace L = etl;
static char const* const INST = "etl";
#endif

#include <csignal>
#include <cstddef>
#include <functional>

using vh::json;
using Cells = std::vector<long>;

static long const GUARD[4] = {161, 162, 163, 164};
static long const FILL     = 238;

// ---------------------------------------------------------------------------------------------
// the two families behind one set of names
// ---------------------------------------------------------------------------------------------
template <typename C>
struct F;

template <>
struct F<char> {
    static constexpr int W = 0;
    static long to_cell(char c) { return (long)(unsigned char)c; }
    static char from_cell(long v) { return (char)(unsigned char)v; }
    static size_t len(char const* s) { return L::strlen(s); }
    static int cmp(char const* a, char const* b) { return L::strcmp(a, b); }
    static int ncmp(char const* a, char const* b, size_t n) { return L::strncmp(a, b, n); }
    static char* cpy(char* d, char const* s) { return L::strcpy(d, s); }
    static char* ncpy(char* d, char const* s, size_t n) { return L::strncpy(d, s, n); }
    static char* cat(char* d, char const* s) { return L::strcat(d, s); }
    static char* ncat(char* d, char const* s, size_t n) { return L::strncat(d, s, n); }
    static char* chr(char* s, long c) { return L::strchr(s, (int)c); }
    static char const* chr(char const* s, long c) { return L::strchr(s, (int)c); }
    static char* rchr(char* s, long c) { return L::strrchr(s, (int)c); }
    static char const* rchr(char const* s, long c) { return L::strrchr(s, (int)c); }
    static size_t spn(char const* a, char const* b) { return L::strspn(a, b); }
    static size_t cspn(char const* a, char const* b) { return L::strcspn(a, b); }
    static char* pbrk(char* a, char* b) { return L::strpbrk(a, b); }
    static char const* pbrk(char const* a, char const* b) { return L::strpbrk(a, b); }
    static char* str(char* a, char* b) { return L::strstr(a, b); }
    static char const* str(char const* a, char const* b) { return L::strstr(a, b); }
    static void* mcpy(char* d, char const* s, size_t n) { return L::memcpy(d, s, n); }
    static void* mmove(char* d, char const* s, size_t n) { return L::memmove(d, s, n); }
    static void* mset(char* d, long c, size_t n) { return L::memset(d, (int)c, n); }
    static int mcmp(char const* a, char const* b, size_t n) { return L::memcmp(a, b, n); }
    static void* mchr(char* a, long c, size_t n) { return L::memchr(static_cast<void*>(a), (int)c, n); }
    static void const* mchr(char const* a, long c, size_t n) { return L::memchr(static_cast<void const*>(a), (int)c, n); }
};

template <>
struct F<wchar_t> {
    static constexpr int W = 1;
    static long to_cell(wchar_t c) { return (long)c; }
    static wchar_t from_cell(long v) { return (wchar_t)v; }
    static size_t len(wchar_t const* s) { return L::wcslen(s); }
    static int cmp(wchar_t const* a, wchar_t const* b) { return L::wcscmp(a, b); }
    static int ncmp(wchar_t const* a, wchar_t const* b, size_t n) { return L::wcsncmp(a, b, n); }
    static wchar_t* cpy(wchar_t* d, wchar_t const* s) { return L::wcscpy(d, s); }
    static wchar_t* ncpy(wchar_t* d, wchar_t const* s, size_t n) { return L::wcsncpy(d, s, n); }
    static wchar_t* cat(wchar_t* d, wchar_t const* s) { return L::wcscat(d, s); }
    static wchar_t* ncat(wchar_t* d, wchar_t const* s, size_t n) { return L::wcsncat(d, s, n); }
    static wchar_t* chr(wchar_t* s, long c) { return L::wcschr(s, (wchar_t)c); }
    static wchar_t const* chr(wchar_t const* s, long c) { return L::wcschr(s, (wchar_t)c); }
    static wchar_t* rchr(wchar_t* s, long c) { return L::wcsrchr(s, (wchar_t)c); }
    static wchar_t const* rchr(wchar_t const* s, long c) { return L::wcsrchr(s, (wchar_t)c); }
    static size_t spn(wchar_t const* a, wchar_t const* b) { return L::wcsspn(a, b); }
    static size_t cspn(wchar_t const* a, wchar_t const* b) { return L::wcscspn(a, b); }
    static wchar_t* pbrk(wchar_t* a, wchar_t* b) { return L::wcspbrk(a, b); }
    static wchar_t const* pbrk(wchar_t const* a, wchar_t const* b) { return L::wcspbrk(a, b); }
    static wchar_t* str(wchar_t* a, wchar_t* b) { return L::wcsstr(a, b); }
    static wchar_t const* str(wchar_t const* a, wchar_t const* b) { return L::wcsstr(a, b); }
    static void* mcpy(wchar_t* d, wchar_t const* s, size_t n) { return L::wmemcpy(d, s, n); }
    static void* mmove(wchar_t* d, wchar_t const* s, size_t n) { return L::wmemmove(d, s, n); }
    static void* mset(wchar_t* d, long c, size_t n) { return L::wmemset(d, (wchar_t)c, n); }
    static int mcmp(wchar_t const* a, wchar_t const* b, size_t n) { return L::wmemcmp(a, b, n); }
    static void* mchr(wchar_t* a, long c, size_t n) { return L::wmemchr(a, (wchar_t)c, n); }
    static void const* mchr(wchar_t const* a, long c, size_t n) { return L::wmemchr(a, (wchar_t)c, n); }
};

static long sign(long x) { return x < 0 ? -1 : (x > 0 ? 1 : 0); }

// A call that terminates the process (SIGSEGV, SIGFPE, ...) is an observation too: the event of the call in flight
// is logged with "crash": <signal> (the trace spec reports it as a deviation) and the process stops; the remaining
// vectors of this process are not executed (stderr: CRASH ...).
static json* g_cur = nullptr;
static void on_crash(int sig)
{
    if (g_cur != nullptr) {
        (*g_cur)["crash"] = sig;
        std::cout << g_cur->dump() << std::endl;
        std::fprintf(stderr, "CRASH signal %d in %s; the remaining vectors of this process were not executed\n", sig,
                     (*g_cur)["op"].get<std::string>().c_str());
    }
    std::_Exit(0);
}
static void install_crash_handler()
{
    for (int sig : {SIGSEGV, SIGBUS, SIGFPE, SIGILL, SIGABRT}) { std::signal(sig, on_crash); }
}

// ---------------------------------------------------------------------------------------------
// one heap block  G A G B G  (+ unlogged slack so that a wild write cannot corrupt the heap)
// ---------------------------------------------------------------------------------------------
template <typename C>
struct Block {
    C* base;
    size_t size;
    long p0, q0; // offsets of region A and region B

    // raw: the logged memory of a recorded event (replay of a single event)
    explicit Block(Cells const& m) : p0(0), q0(0) { init(m); }

    Block(Cells const& A, Cells const& B)
    {
        Cells m;
        for (long g : GUARD) { m.push_back(g); }
        p0 = (long)m.size();
        m.insert(m.end(), A.begin(), A.end());
        for (long g : GUARD) { m.push_back(g); }
        q0 = (long)m.size();
        m.insert(m.end(), B.begin(), B.end());
        for (long g : GUARD) { m.push_back(g); }
        init(m);
    }
    void init(Cells const& m)
    {
        size = m.size();
        base = static_cast<C*>(std::malloc((size + 64) * sizeof(C)));
        for (size_t i = 0; i < size; ++i) { base[i] = F<C>::from_cell(m[i]); }
        for (size_t i = size; i < size + 64; ++i) { base[i] = F<C>::from_cell(165); }
    }
    Block(Block const&) = delete;
    ~Block() { std::free(base); }

    json snap() const
    {
        json a = json::array();
        for (size_t i = 0; i < size; ++i) { a.push_back(F<C>::to_cell(base[i])); }
        return a;
    }
    long off(void const* ptr) const
    {
        if (ptr == nullptr) { return -1; }
        auto const* c = static_cast<C const*>(ptr);
        if (c < base || c > base + size) { return -2; }
        return (long)(c - base);
    }
};

template <typename C, typename Fn>
static void run_block(Block<C>& blk, char const* op, int cv, long p, long q, long n, long c, Fn fn);

// run one call and log it.  fn(block, P, Q) performs the call and returns the projected result.
template <typename C, typename Fn>
static void call(char const* op, int cv, Cells const& A, Cells const& B, long po, long qo, bool q_in_a, long n, long c,
                 Fn fn)
{
    Block<C> blk(A, B);
    long p = blk.p0 + po;
    long q = (q_in_a ? blk.p0 : blk.q0) + qo;
    run_block<C>(blk, op, cv, p, q, n, c, fn);
}

template <typename C, typename Fn>
static void run_block(Block<C>& blk, char const* op, int cv, long p, long q, long n, long c, Fn fn)
{
    json e;
    e["op"]   = op;
    e["w"]    = F<C>::W;
    e["cv"]   = cv;
    e["mem"]  = blk.snap();
    e["p"]    = p;
    e["q"]    = q;
    e["n"]    = n;
    e["c"]    = c;
    e["inst"] = INST;
    g_cur     = &e;
    long ret  = fn(blk, blk.base + p, blk.base + q);
    g_cur     = nullptr;
    e["post"] = blk.snap();
    e["ret"]  = ret;
    vh::emit(e);
}

static Cells cat(Cells a, Cells const& b)
{
    a.insert(a.end(), b.begin(), b.end());
    return a;
}
static Cells fill(long n) { return Cells((size_t)n, FILL); }
static Cells zt(Cells a)
{
    a.push_back(0);
    return a;
}


// ---------------------------------------------------------------------------------------------
// exact-fit probes (sanitizer builds only): the same calls on separately allocated buffers of exactly the size
// the C standard requires of the caller, so that a read or write one element past a valid argument - which the
// guard cells of a Block cannot see when it is a read - lands in an AddressSanitizer red zone.  Nothing is logged:
// the results were already judged on the Block run of the same call; only the memory observer speaks here.
// ---------------------------------------------------------------------------------------------
#if defined(__SANITIZE_ADDRESS__)
    #define VH_EXACT_PROBES 1
template <typename C>
struct Exact {
    C* p;
    Exact(Cells const& m, size_t n) : p(static_cast<C*>(std::malloc(n * sizeof(C))))
    {
        for (size_t i = 0; i < n; ++i) { p[i] = F<C>::from_cell(i < m.size() ? m[i] : FILL); }
    }
    Exact(Exact const&) = delete;
    ~Exact() { std::free(p); }
};
template <typename T>
static void keep(T const& v)
{
    asm volatile("" : : "g"(&v) : "memory");
}
#endif
// ---------------------------------------------------------------------------------------------
// call lists per vector kind
// ---------------------------------------------------------------------------------------------
template <typename C>
static void do_pair(Cells const& a, Cells const& b, Cells const& ns)
{
    using B   = Block<C>;
    using X   = F<C>;
    auto az   = zt(a);
    auto bz   = zt(b);
    long la   = (long)a.size();
    long lb   = (long)b.size();
    auto size = [](long n) { return (size_t)n; };

    call<C>("strcmp", 0, az, bz, 0, 0, false, 0, 0, [](B&, C* x, C* y) { return sign(X::cmp(x, y)); });
    call<C>("strspn", 0, az, bz, 0, 0, false, 0, 0, [](B&, C* x, C* y) { return (long)X::spn(x, y); });
    call<C>("strcspn", 0, az, bz, 0, 0, false, 0, 0, [](B&, C* x, C* y) { return (long)X::cspn(x, y); });
    call<C>("strpbrk", 0, az, bz, 0, 0, false, 0, 0, [](B& k, C* x, C* y) { return k.off(X::pbrk(x, y)); });
    call<C>("strpbrk", 1, az, bz, 0, 0, false, 0, 0,
            [](B& k, C* x, C* y) { return k.off(X::pbrk((C const*)x, (C const*)y)); });
    call<C>("strstr", 0, az, bz, 0, 0, false, 0, 0, [](B& k, C* x, C* y) { return k.off(X::str(x, y)); });
    call<C>("strstr", 1, az, bz, 0, 0, false, 0, 0,
            [](B& k, C* x, C* y) { return k.off(X::str((C const*)x, (C const*)y)); });
    call<C>("strcpy", 0, fill(lb + 1), bz, 0, 0, false, 0, 0, [](B& k, C* x, C* y) { return k.off(X::cpy(x, y)); });
    call<C>("strcat", 0, cat(az, fill(lb)), bz, 0, 0, false, 0, 0, [](B& k, C* x, C* y) { return k.off(X::cat(x, y)); });
    for (long n : ns) {
        call<C>("strncmp", 0, az, bz, 0, 0, false, n, 0, [&](B&, C* x, C* y) { return sign(X::ncmp(x, y, size(n))); });
        call<C>("strncpy", 0, fill(n), bz, 0, 0, false, n, 0, [&](B& k, C* x, C* y) { return k.off(X::ncpy(x, y, size(n))); });
        call<C>("strncat", 0, cat(az, fill(std::min(n, lb))), bz, 0, 0, false, n, 0,
                [&](B& k, C* x, C* y) { return k.off(X::ncat(x, y, size(n))); });
        if (n <= std::min(la, lb) + 1) {
            call<C>("memcmp", 0, az, bz, 0, 0, false, n, 0, [&](B&, C* x, C* y) { return sign(X::mcmp(x, y, size(n))); });
        }
        if (n <= lb + 1) {
            call<C>("memcpy", 0, fill(n), bz, 0, 0, false, n, 0, [&](B& k, C* x, C* y) { return k.off(X::mcpy(x, y, size(n))); });
        }
    }
#ifdef VH_EXACT_PROBES
    {
        Exact<C> ea(az, size(la + 1)), eb(bz, size(lb + 1));
        keep(X::cmp(ea.p, eb.p));
        keep(X::spn(ea.p, eb.p));
        keep(X::cspn(ea.p, eb.p));
        keep(X::pbrk((C const*)ea.p, (C const*)eb.p));
        keep(X::str((C const*)ea.p, (C const*)eb.p));
        Exact<C> d1(fill(lb + 1), size(lb + 1));
        keep(X::cpy(d1.p, eb.p));
        Exact<C> d2(az, size(la + lb + 1));
        keep(X::cat(d2.p, eb.p));
    }
    for (long n : ns) {
        long const sa = std::min(n, la + 1), sb = std::min(n, lb + 1);
        {
            Exact<C> ea(az, size(sa)), eb(bz, size(sb));
            keep(X::ncmp(ea.p, eb.p, size(n)));
        }
        {
            Exact<C> d(fill(n), size(n)), eb(bz, size(sb));
            keep(X::ncpy(d.p, eb.p, size(n)));
        }
        {
            Exact<C> d(az, size(la + std::min(n, lb) + 1)), eb(bz, size(sb));
            keep(X::ncat(d.p, eb.p, size(n)));
        }
        if (n <= std::min(la, lb) + 1) {
            Exact<C> ea(az, size(n)), eb(bz, size(n));
            keep(X::mcmp(ea.p, eb.p, size(n)));
        }
        if (n <= lb + 1) {
            Exact<C> d(fill(n), size(n)), eb(bz, size(n));
            keep(X::mcpy(d.p, eb.p, size(n)));
        }
    }
#endif
}

template <typename C>
static void do_one(Cells const& a, Cells const& cs, Cells const& ns)
{
    using B   = Block<C>;
    using X   = F<C>;
    auto az   = zt(a);
    long la   = (long)a.size();
    auto size = [](long n) { return (size_t)n; };
    Cells none;

    call<C>("strlen", 0, az, none, 0, 0, false, 0, 0, [](B&, C* x, C*) { return (long)X::len(x); });
    for (long c : cs) {
        call<C>("strchr", 0, az, none, 0, 0, false, 0, c, [&](B& k, C* x, C*) { return k.off(X::chr(x, c)); });
        call<C>("strchr", 1, az, none, 0, 0, false, 0, c, [&](B& k, C* x, C*) { return k.off(X::chr((C const*)x, c)); });
        call<C>("strrchr", 0, az, none, 0, 0, false, 0, c, [&](B& k, C* x, C*) { return k.off(X::rchr(x, c)); });
        call<C>("strrchr", 1, az, none, 0, 0, false, 0, c, [&](B& k, C* x, C*) { return k.off(X::rchr((C const*)x, c)); });
        for (long n : ns) {
            call<C>("memchr", 0, az, none, 0, 0, false, n, c, [&](B& k, C* x, C*) { return k.off(X::mchr(x, c, size(n))); });
            call<C>("memchr", 1, az, none, 0, 0, false, n, c,
                    [&](B& k, C* x, C*) { return k.off(X::mchr((C const*)x, c, size(n))); });
            call<C>("memset", 0, fill(n), none, 0, 0, false, n, c, [&](B& k, C* x, C*) { return k.off(X::mset(x, c, size(n))); });
        }
    }
#ifdef VH_EXACT_PROBES
    {
        Exact<C> ea(az, size(la + 1));
        keep(X::len(ea.p));
        for (long c : cs) {
            keep(X::chr((C const*)ea.p, c));
            keep(X::rchr((C const*)ea.p, c));
            for (long n : ns) {
                if (n <= la + 1) {
                    Exact<C> en(az, size(n));
                    keep(X::mchr((C const*)en.p, c, size(n)));
                    keep(X::mset(en.p, c, size(n)));
                }
            }
        }
    }
#endif
    // the second argument is a suffix of (or the same as) the first: both pointers into one object
    for (long i = 0; i <= la; ++i) {
        call<C>("strcmp", 0, az, none, 0, i, true, 0, 0, [](B&, C* x, C* y) { return sign(X::cmp(x, y)); });
        call<C>("strstr", 1, az, none, 0, i, true, 0, 0, [](B& k, C* x, C* y) { return k.off(X::str((C const*)x, (C const*)y)); });
        call<C>("strspn", 0, az, none, 0, i, true, 0, 0, [](B&, C* x, C* y) { return (long)X::spn(x, y); });
        call<C>("strcspn", 0, az, none, 0, i, true, 0, 0, [](B&, C* x, C* y) { return (long)X::cspn(x, y); });
        call<C>("strpbrk", 1, az, none, 0, i, true, 0, 0,
                [](B& k, C* x, C* y) { return k.off(X::pbrk((C const*)x, (C const*)y)); });
        call<C>("strlen", 0, az, none, i, 0, false, 0, 0, [](B&, C* x, C*) { return (long)X::len(x); });
    }
}

template <typename C>
static void do_bytes(Cells const& a, Cells const& b, Cells const& cs, Cells const& ns)
{
    using B   = Block<C>;
    using X   = F<C>;
    auto size = [](long n) { return (size_t)n; };
    for (long n : ns) {
        call<C>("memcmp", 0, a, b, 0, 0, false, n, 0, [&](B&, C* x, C* y) { return sign(X::mcmp(x, y, size(n))); });
        call<C>("memcpy", 0, a, b, 0, 0, false, n, 0, [&](B& k, C* x, C* y) { return k.off(X::mcpy(x, y, size(n))); });
        call<C>("memmove", 0, a, b, 0, 0, false, n, 0, [&](B& k, C* x, C* y) { return k.off(X::mmove(x, y, size(n))); });
        for (long c : cs) {
            call<C>("memchr", 0, a, b, 0, 0, false, n, c, [&](B& k, C* x, C*) { return k.off(X::mchr(x, c, size(n))); });
            call<C>("memchr", 1, a, b, 0, 0, false, n, c, [&](B& k, C* x, C*) { return k.off(X::mchr((C const*)x, c, size(n))); });
            call<C>("memset", 0, a, b, 0, 0, false, n, c, [&](B& k, C* x, C*) { return k.off(X::mset(x, c, size(n))); });
        }
    }
}

template <typename C>
static void do_move(Cells const& buf, long s, long d, long n, bool cpy)
{
    using B = Block<C>;
    using X = F<C>;
    Cells none;
    call<C>("memmove", 0, buf, none, d, s, true, n, 0, [&](B& k, C* x, C* y) { return k.off(X::mmove(x, y, (size_t)n)); });
    if (cpy) {
        call<C>("memcpy", 0, buf, none, d, s, true, n, 0, [&](B& k, C* x, C* y) { return k.off(X::mcpy(x, y, (size_t)n)); });
    }
}

// ---------------------------------------------------------------------------------------------
// <cctype> / <cwctype>
// ---------------------------------------------------------------------------------------------
static void cc_emit(char const* op, int w, long c, long ret)
{
    json e;
    e["op"]   = op;
    e["w"]    = w;
    e["c"]    = c;
    e["ret"]  = ret;
    e["inst"] = INST;
    vh::emit(e);
}

static void do_cc(int w, long c)
{
    if (w == 0) {
        int x = (int)c;
        cc_emit("isalnum", 0, c, L::isalnum(x) != 0);
        cc_emit("isalpha", 0, c, L::isalpha(x) != 0);
        cc_emit("isblank", 0, c, L::isblank(x) != 0);
        cc_emit("iscntrl", 0, c, L::iscntrl(x) != 0);
        cc_emit("isdigit", 0, c, L::isdigit(x) != 0);
        cc_emit("isgraph", 0, c, L::isgraph(x) != 0);
        cc_emit("islower", 0, c, L::islower(x) != 0);
        cc_emit("isprint", 0, c, L::isprint(x) != 0);
        cc_emit("ispunct", 0, c, L::ispunct(x) != 0);
        cc_emit("isspace", 0, c, L::isspace(x) != 0);
        cc_emit("isupper", 0, c, L::isupper(x) != 0);
        cc_emit("isxdigit", 0, c, L::isxdigit(x) != 0);
        cc_emit("tolower", 0, c, (long)L::tolower(x));
        cc_emit("toupper", 0, c, (long)L::toupper(x));
    } else {
        using WI = decltype(L::towlower(0));
        WI weof  = static_cast<WI>(-1);
        WI x     = c < 0 ? weof : static_cast<WI>(c);
        auto prj = [&](WI r) { return r == weof ? -1L : (long)r; };
        cc_emit("isalnum", 1, c, L::iswalnum(x) != 0);
        cc_emit("isalpha", 1, c, L::iswalpha(x) != 0);
        cc_emit("isblank", 1, c, L::iswblank(x) != 0);
        cc_emit("iscntrl", 1, c, L::iswcntrl(x) != 0);
        cc_emit("isdigit", 1, c, L::iswdigit(x) != 0);
        cc_emit("isgraph", 1, c, L::iswgraph(x) != 0);
        cc_emit("islower", 1, c, L::iswlower(x) != 0);
        cc_emit("isprint", 1, c, L::iswprint(x) != 0);
        cc_emit("ispunct", 1, c, L::iswpunct(x) != 0);
        cc_emit("isspace", 1, c, L::iswspace(x) != 0);
        cc_emit("isupper", 1, c, L::iswupper(x) != 0);
        cc_emit("isxdigit", 1, c, L::iswxdigit(x) != 0);
        cc_emit("tolower", 1, c, prj(L::towlower(x)));
        cc_emit("toupper", 1, c, prj(L::towupper(x)));
    }
}

// ---------------------------------------------------------------------------------------------
// div / labs / llabs (values inside 32 bits so that the events stay inside TLC's integers)
// ---------------------------------------------------------------------------------------------
static void dv_emit(char const* op, char const* f, long x, long y, long long quot, long long rem)
{
    json e;
    e["op"]   = op;
    e["f"]    = f;
    e["x"]    = x;
    e["y"]    = y;
    e["quot"] = quot;
    e["rem"]  = rem;
    e["inst"] = INST;
    vh::emit(e);
}

static void do_dv(long x, long y)
{
    {
        auto r = L::div((int)x, (int)y);
        dv_emit("div", "div(int)", x, y, r.quot, r.rem);
    }
    {
        auto r = L::div((long)x, (long)y);
        dv_emit("div", "div(long)", x, y, r.quot, r.rem);
    }
    {
        auto r = L::div((long long)x, (long long)y);
        dv_emit("div", "div(long long)", x, y, r.quot, r.rem);
    }
    {
        auto r = L::ldiv((long)x, (long)y);
        dv_emit("div", "ldiv", x, y, r.quot, r.rem);
    }
    {
        auto r = L::lldiv((long long)x, (long long)y);
        dv_emit("div", "lldiv", x, y, r.quot, r.rem);
    }
    {
        auto r = L::imaxdiv((intmax_t)x, (intmax_t)y);
        dv_emit("div", "imaxdiv", x, y, r.quot, r.rem);
    }
    dv_emit("labs", "labs", x, 0, L::labs((long)x), 0);
    dv_emit("labs", "llabs", x, 0, L::llabs((long long)x), 0);
}

// ---------------------------------------------------------------------------------------------
static Cells cells(json const& j)
{
    Cells c;
    for (auto const& x : j) { c.push_back(x.get<long>()); }
    return c;
}

template <typename C>
static void do_vec(json const& v)
{
    std::string k = v["k"];
    if (k == "pair") {
        do_pair<C>(cells(v["a"]), cells(v["b"]), cells(v["ns"]));
    } else if (k == "one") {
        do_one<C>(cells(v["a"]), cells(v["cs"]), cells(v["ns"]));
    } else if (k == "bytes") {
        do_bytes<C>(cells(v["a"]), cells(v["b"]), cells(v["cs"]), cells(v["ns"]));
    } else if (k == "move") {
        do_move<C>(cells(v["buf"]), v["s"], v["d"], v["n"], v["cpy"].get<bool>());
    } else {
        std::fprintf(stderr, "UNSUPPORTED vector kind %s\n", k.c_str());
        std::exit(2);
    }
}

template <typename C>
static void do_random(long count, uint64_t seed)
{
    vh::Rng rng(seed * 2 + F<C>::W);
    Cells alpha = F<C>::W == 0 ? Cells{97, 98, 99, 200, 255, 1} : Cells{97, 98, 99, 8364, 1114111, 1};
    Cells cs    = F<C>::W == 0 ? Cells{0, 97, 99, 200, 255, -1, -56, 353, 1} : Cells{0, 97, 99, 8364, 1114111, 1};
    auto rstr   = [&](long lo, long hi, bool zero) {
        Cells s;
        long n = rng.range(lo, hi);
        // few distinct letters so that matches, common prefixes and spans are frequent
        long k = rng.range(1, 3);
        for (long i = 0; i < n; ++i) {
            long ch = alpha[(size_t)rng.range(0, k)];
            if (zero && rng.coin(20)) { ch = 0; }
            s.push_back(ch);
        }
        return s;
    };
    for (long i = 0; i < count; ++i) {
        Cells a = rstr(0, 24, false);
        Cells b = rng.coin(40) ? rstr(0, 3, false) : rstr(0, 24, false);
        if (rng.coin(15) && !a.empty()) { // b = a piece of a (guaranteed strstr hit / long common prefix)
            long s = rng.range(0, (long)a.size() - 1);
            long e = rng.range(s, (long)a.size());
            b      = Cells(a.begin() + s, a.begin() + e);
        }
        long mx = (long)std::max(a.size(), b.size());
        Cells ns{0, 1, rng.range(0, mx), (long)std::min(a.size(), b.size()), mx, mx + 1, mx + 2};
        do_pair<C>(a, b, ns);
        if (i % 8 == 0) {
            Cells n1{0, rng.range(0, (long)a.size()), (long)a.size() + 1};
            do_one<C>(a, cs, n1);
            Cells x = rstr(0, 16, true);
            Cells y = x;
            for (auto& ch : y) {
                if (rng.coin(15)) { ch = alpha[(size_t)rng.range(0, 5)]; }
            }
            Cells n2{0, rng.range(0, (long)x.size()), (long)x.size()};
            do_bytes<C>(x, y, cs, n2);
            long Lb = rng.range(1, 32);
            Cells buf;
            for (long j = 0; j < Lb; ++j) { buf.push_back(1 + (j * 7 + i) % 250); }
            long s = rng.range(0, Lb), d = rng.range(0, Lb);
            long n = rng.range(0, Lb - std::max(s, d));
            do_move<C>(buf, s, d, n, n == 0 || s + n <= d || d + n <= s);
        }
    }
}

// re-execute one recorded event (tools/check.py --replay): same memory image, same pointers, same arguments
template <typename C>
static void do_event(json const& ev)
{
    using B       = Block<C>;
    using X       = F<C>;
    std::string o = ev["op"];
    int cv        = ev["cv"];
    long p = ev["p"], q = ev["q"], n = ev["n"], c = ev["c"];
    size_t z = (size_t)n;
    B blk(cells(ev["mem"]));
    auto go = [&](auto fn) { run_block<C>(blk, o.c_str(), cv, p, q, n, c, fn); };
    if (o == "strlen") {
        go([&](B&, C* x, C*) { return (long)X::len(x); });
    } else if (o == "strcmp") {
        go([&](B&, C* x, C* y) { return sign(X::cmp(x, y)); });
    } else if (o == "strncmp") {
        go([&](B&, C* x, C* y) { return sign(X::ncmp(x, y, z)); });
    } else if (o == "strcpy") {
        go([&](B& k, C* x, C* y) { return k.off(X::cpy(x, y)); });
    } else if (o == "strncpy") {
        go([&](B& k, C* x, C* y) { return k.off(X::ncpy(x, y, z)); });
    } else if (o == "strcat") {
        go([&](B& k, C* x, C* y) { return k.off(X::cat(x, y)); });
    } else if (o == "strncat") {
        go([&](B& k, C* x, C* y) { return k.off(X::ncat(x, y, z)); });
    } else if (o == "strchr") {
        go([&](B& k, C* x, C*) { return cv ? k.off(X::chr((C const*)x, c)) : k.off(X::chr(x, c)); });
    } else if (o == "strrchr") {
        go([&](B& k, C* x, C*) { return cv ? k.off(X::rchr((C const*)x, c)) : k.off(X::rchr(x, c)); });
    } else if (o == "strspn") {
        go([&](B&, C* x, C* y) { return (long)X::spn(x, y); });
    } else if (o == "strcspn") {
        go([&](B&, C* x, C* y) { return (long)X::cspn(x, y); });
    } else if (o == "strpbrk") {
        go([&](B& k, C* x, C* y) { return cv ? k.off(X::pbrk((C const*)x, (C const*)y)) : k.off(X::pbrk(x, y)); });
    } else if (o == "strstr") {
        go([&](B& k, C* x, C* y) { return cv ? k.off(X::str((C const*)x, (C const*)y)) : k.off(X::str(x, y)); });
    } else if (o == "memcpy") {
        go([&](B& k, C* x, C* y) { return k.off(X::mcpy(x, y, z)); });
    } else if (o == "memmove") {
        go([&](B& k, C* x, C* y) { return k.off(X::mmove(x, y, z)); });
    } else if (o == "memset") {
        go([&](B& k, C* x, C*) { return k.off(X::mset(x, c, z)); });
    } else if (o == "memcmp") {
        go([&](B&, C* x, C* y) { return sign(X::mcmp(x, y, z)); });
    } else if (o == "memchr") {
        go([&](B& k, C* x, C*) { return cv ? k.off(X::mchr((C const*)x, c, z)) : k.off(X::mchr(x, c, z)); });
    } else {
        std::fprintf(stderr, "UNSUPPORTED event op %s\n", o.c_str());
        std::exit(2);
    }
}

int main(int argc, char** argv)
{
    std::ios::sync_with_stdio(false);
    install_crash_handler();
    if (argc >= 3 && std::string(argv[1]) == "replay") {
        for (auto const& v : vh::read_ndjson(argv[2])) {
            std::string k = v["k"];
            if (k == "cc") {
                do_cc(v["w"], v["c"]);
            } else if (k == "dv") {
                do_dv(v["x"], v["y"]);
            } else if (v["w"].get<int>() == 0) {
                do_vec<char>(v);
            } else {
                do_vec<wchar_t>(v);
            }
        }
        return 0;
    }
    if (argc >= 3 && std::string(argv[1]) == "event") {
        // the file holds one recorded event; calls without a memory image re-run their whole group
        for (auto const& ev : vh::read_ndjson(argv[2])) {
            if (ev.contains("mem")) {
                if (ev["w"].get<int>() == 0) {
                    do_event<char>(ev);
                } else {
                    do_event<wchar_t>(ev);
                }
            } else if (ev.contains("f")) {
                do_dv(ev["x"], ev["y"]);
            } else {
                do_cc(ev["w"], ev["c"]);
            }
        }
        return 0;
    }
    if (argc >= 5 && std::string(argv[1]) == "random") {
        int w       = std::atoi(argv[2]);
        long count  = std::atol(argv[3]);
        uint64_t sd = std::strtoull(argv[4], nullptr, 10);
        if (w == 0) {
            do_random<char>(count, sd);
        } else {
            do_random<wchar_t>(count, sd);
        }
        return 0;
    }
    std::fprintf(stderr, "usage: clib_driver replay <gen.ndjson> | random <w> <count> <seed>\n");
    return 2;
}
