// Crash containment for the conformance drivers of the Set and Bitset modules (NOT part of tetl).
// The calls run in a forked child.  Before every call the child leaves the header of the event it is about
// to produce in shared memory; when the child is killed by a signal (valid calls that run into undefined
// behaviour inside the library, or a script that does not return: SIGALRM) the parent records that header as
// a `crash` event - judged by the trace specification like any other event - and a new child resumes with
// the next script.  Nothing here judges anything.
#pragma once
#include <sys/time.h>
#include "common.hpp"

#include <sys/mman.h>
#include <sys/wait.h>
#include <unistd.h>

namespace vhc {
struct Shared {
    long script_idx;
    long pending_len;
    char pending[1 << 16];
};
inline Shared*& shared()
{
    static Shared* p = nullptr;
    return p;
}
inline void set_pending(vh::json const& h)
{
    if (shared() == nullptr) { return; }
    std::string s = h.dump();
    if (s.size() >= sizeof(Shared::pending)) { s = "{}"; }
    std::memcpy(shared()->pending, s.data(), s.size());
    shared()->pending_len = (long)s.size();
}
// called by the child at the start of script number si (replay mode)
inline void begin_script(long si, unsigned seconds = 20)
{
    if (shared() != nullptr) { shared()->script_idx = si; }
    // CPU-time budget per script (not wall-clock: a loaded machine must not fake a hang)
    struct itimerval tv{{0, 0}, {(long)seconds, 0}};
    setitimer(ITIMER_VIRTUAL, &tv, nullptr);
}
// child(start) runs scripts start.. (or one random history) and returns the exit code.
// resumable: after a crash continue with the script following the crashed one.
template <typename F>
int run_contained(bool resumable, F child, long max_crashes = 400)
{
    shared() = static_cast<Shared*>(mmap(nullptr, sizeof(Shared), PROT_READ | PROT_WRITE, MAP_SHARED | MAP_ANONYMOUS, -1, 0));
    if (shared() == MAP_FAILED) { return 2; }
    long start = 0, ncrash = 0;
    for (;;) {
        shared()->script_idx  = start;
        shared()->pending_len = 0;
        std::fflush(nullptr);
        pid_t pid = fork();
        if (pid < 0) { return 2; }
        if (pid == 0) {
            int rc = child(start);
            struct itimerval tv_off{{0, 0}, {0, 0}};
            setitimer(ITIMER_VIRTUAL, &tv_off, nullptr);
            std::fflush(nullptr);
            vh_exit(rc);
        }
        int st = 0;
        if (waitpid(pid, &st, 0) < 0) { return 2; }
        if (WIFEXITED(st)) { return WEXITSTATUS(st); }
        int sig = WIFSIGNALED(st) ? WTERMSIG(st) : -1;
        ++ncrash;
        vh::json ev = shared()->pending_len > 0 ? vh::json::parse(std::string(shared()->pending, (size_t)shared()->pending_len))
                                                : vh::json::object();
        if (!ev.contains("op")) { return 2; } // died outside a call: harness problem
        ev["crash"] = sig;
        vh::emit(ev);
        std::fprintf(stderr, "CRASH inst=%s signal=%d script=%ld\n", ev.value("inst", std::string("?")).c_str(), sig,
            shared()->script_idx);
        if (!resumable || ncrash >= max_crashes) { return 0; } // a random history ends with the crash
        start = shared()->script_idx + 1;
    }
}
} // namespace vhc
